#!/bin/bash
# MANIFEST.setup_cmd: build everything from files on disk, offline.
set -e
here="$(cd "$(dirname "$0")" && pwd)"
cd "$here"
export VERIF_ROOT="$here" REPO_ROOT="${REPO_ROOT:-/repo}" PYTHONPATH="${REPO_ROOT:-/repo}:$here" PYTHONHASHSEED=0
# 1. regenerate the translated Coq files from /repo's current source
/venv/bin/python -m harness.regen || echo "translator stopped (reported by the checks)"
# 2. full .vo build of every theory
cd coq
files=$(ls Common/*.v Model/*.v Gen/*.v Proofs/*.v Check/*.v Props/*.v 2>/dev/null || true)
coq_makefile -f _CoqProject -o Makefile $files
echo "$files" | tr ' ' '\n' | sed '/^$/d' > .files.stamp.tmp
timeout 3000 make -k -j16 || echo "setup: some theories did not build (each check rebuilds its own cone and reports the broken obligation)"
