(* C19 — tunnel end point parameters mirror each other. *)
From Coq Require Import List NArith Bool.
Import ListNotations.
From I2N Require Import Model.NetAddr Model.Tunnel Proofs.TunnelProofs.
Local Open Scope N_scope.

Theorem C19_net_mirror : forall L R P A v o,
  tunnel L R P A v = Some o ->
  lan_net (left o) = remote_net (right o) /\ lan_net (right o) = remote_net (left o).
Proof. exact net_mirror. Qed.
Print Assumptions C19_net_mirror.

Theorem C19_peer_mirror : forall L R P A v o,
  tunnel L R P A v = Some o ->
  peer_ip (right o) = Some (ip1 v) /\ act (right o) = Always /\
  match P with
  | PIp => peer_ip (left o) = Some (ip2 v) /\ act (left o) = Always
  | _ => peer_ip (left o) = None /\ act (left o) = Passive
  end.
Proof. exact peer_mirror. Qed.
Print Assumptions C19_peer_mirror.

Theorem C19_psk_swap : forall L R P A v o,
  tunnel L R P A v = Some o ->
  own_id (left o) = foreign_id (right o) /\ foreign_id (left o) = own_id (right o) /\
  match A with
  | APsk p lid rid => key_type o = KPsk /\ psk_word o = Some p /\
                      own_id (left o) = Some (lid, idt lid) /\ own_id (right o) = Some (rid, idt rid)
  | APub => key_type o = KPublic /\ own_id (left o) = None /\ own_id (right o) = None
  | _ => key_type o = KNone /\ own_id (left o) = None /\ own_id (right o) = None
  end.
Proof. exact psk_swap. Qed.
Print Assumptions C19_psk_swap.

Theorem C19_variant_table : forall L R P A v o,
  tunnel L R P A v = Some o ->
  lan_type (left o) = L /\ remote_type (left o) = R /\ peer_type (left o) = P /\
  lan_type (right o) = counterpart_local L R /\
  remote_type (right o) = counterpart_remote L /\ peer_type (right o) = PIp.
Proof. exact variant_table. Qed.
Print Assumptions C19_variant_table.

Theorem C19_reject_iff : forall L R P A v,
  tunnel L R P A v = None <-> ~ valid_types L R P A.
Proof. exact reject_iff. Qed.
Print Assumptions C19_reject_iff.

Theorem C19_connects_sym : forall t a b,
  (forall x, In x [a; b] -> on_side x (lnode t) (lnetc t) (lcustom t) <> TRaise /\
                            on_side x (rnode t) (rnetc t) (rcustom t) <> TRaise) ->
  connects t a b = connects t b a /\ connects t a b <> TRaise.
Proof. exact connects_sym_total. Qed.
Print Assumptions C19_connects_sym.
