(* C09 — workers get equivalent linked graph copies; lazy and eager parsing agree.
   PARTIAL: the aliasing theorem is about the bridging patterns of the code; equivalence of the copies,
   lazy = eager and determinism are checked on the real parser's graphs. *)
From Coq Require Import List NArith Bool Arith.
Import ListNotations.
From I2N Require Import Model.Graph Proofs.GraphProofs Model.Bridge Proofs.BridgeProofs.

(* a freshly parsed node that is bridged with every node of its form - whatever those shared before -
   leaves the whole class on one set of visit registers *)
Theorem C09_joined_class_shares_registers : forall s n a rest,
  links s n = [] -> ~ In n (a :: rest) ->
  let s' := join s n (a :: rest) in
  refs s' n = refs s a /\ forall m, In m (a :: rest) -> refs s' m = refs s a.
Proof. exact join_unifies. Qed.
Print Assumptions C09_joined_class_shares_registers.

(* links are symmetric, connect equal forms, and linked nodes hold the same registers *)
Theorem C09_links_symmetric_and_shared : forall g i j, bridges_ok g = true -> i < length g -> In j (gn_bridged (gnd g i)) ->
  In i (gn_bridged (gnd g j)) /\ gn_form (gnd g j) = gn_form (gnd g i) /\ gn_reg (gnd g j) = gn_reg (gnd g i) /\ i <> j.
Proof. exact bridges_ok_sound. Qed.
Print Assumptions C09_links_symmetric_and_shared.

(* the update tool bridges separately parsed worker graphs in all ordered pairs: whatever was bridged inside the
   worker graphs before (as long as the first node agrees with the nodes it is linked to), the class ends on one
   set of registers *)
Theorem C09_all_pairs_class_shares_registers : forall s a rest,
  (forall y, In y (links s a) -> refs s y = refs s a) ->
  let s' := all_pairs s (a :: rest) in forall m, In m (a :: rest) -> refs s' m = refs s' a.
Proof. exact all_pairs_unifies. Qed.
Print Assumptions C09_all_pairs_class_shares_registers.

(* equivalent copies: a checked graph gives every node of one worker a mirror node for the other worker with mirrored
   dependencies - exactly unless that worker's restrictions exclude one of the node's vm variants *)
Theorem C09_copies_mirror_each_other : forall g w1 w2 i,
  copies_equiv g w1 w2 = true -> i < length g -> gn_worker (gnd g i) = Some w1 ->
  (mirror g w2 i = None /\ In w2 (gn_excl (gnd g i))) \/
  (exists j, mirror g w2 i = Some j /\ ~ In w2 (gn_excl (gnd g i)) /\
             length (gn_parents (gnd g i)) = length (gn_parents (gnd g j)) /\
             forall p objs, In (p, objs) (gn_parents (gnd g i)) -> gn_root (gnd g p) = true \/
                exists pj, mirror g w2 p = Some pj /\ In pj (map fst (gn_parents (gnd g j)))).
Proof. exact copies_equiv_sound. Qed.
Print Assumptions C09_copies_mirror_each_other.
