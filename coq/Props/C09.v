(* C09 — workers get equivalent linked graph copies; lazy and eager parsing agree.
   PARTIAL: the aliasing theorem is about the bridging patterns of the code; equivalence of the copies,
   lazy = eager and determinism are checked on the real parser's graphs. *)
From Coq Require Import List NArith Bool Arith.
Import ListNotations.
From I2N Require Import Model.Graph Proofs.GraphProofs Model.Bridge Proofs.BridgeProofs.

(* a node that joins a class of linked nodes sharing one set of visit registers shares it too *)
Theorem C09_joined_node_shares_registers : forall s n cls r,
  ~ In n cls -> NoDup cls -> cls <> [] ->
  (forall m, In m cls -> refs s m = r) -> (forall m, In m cls -> Bridge.memn m (links s n) = false) ->
  refs (join s n cls) n = r /\ forall m, In m cls -> refs (join s n cls) m = r.
Proof. exact join_shares. Qed.
Print Assumptions C09_joined_node_shares_registers.

(* links are symmetric, connect equal forms, and linked nodes hold the same registers *)
Theorem C09_links_symmetric_and_shared : forall g i j, bridges_ok g = true -> i < length g -> In j (gn_bridged (gnd g i)) ->
  In i (gn_bridged (gnd g j)) /\ gn_form (gnd g j) = gn_form (gnd g i) /\ gn_reg (gnd g j) = gn_reg (gnd g i) /\ i <> j.
Proof. exact bridges_ok_sound. Qed.
Print Assumptions C09_links_symmetric_and_shared.
