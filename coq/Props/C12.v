(* C12 — state operations follow the documented policy table and a store model. *)
From Coq Require Import List NArith Bool.
Import ListNotations.
From I2N Require Import Model.StateOps Model.StateSpec Proofs.StateOpsProofs.

(* the if/elif chains of get_states / set_states / unset_states are the README table *)
Theorem C12_table_get : forall ex m, get_dispatch ex m = doc_to_action OGet (spec_action OGet ex m).
Proof. exact table_get. Qed.
Print Assumptions C12_table_get.

Theorem C12_table_set : forall ex m, set_dispatch ex m = doc_to_action OSet (spec_action OSet ex m).
Proof. exact table_set. Qed.
Print Assumptions C12_table_set.

Theorem C12_table_unset : forall ex m, unset_dispatch ex m = doc_to_action OUnset (spec_action OUnset ex m).
Proof. exact table_unset. Qed.
Print Assumptions C12_table_unset.

(* any operation over any list of objects and any store: resulting store and result code are
   those of the plain set-of-names specification *)
Theorem C12_refines : forall op objs s lg,
  let '(c', code) := run_op op objs (s, lg) in spec_run_op op objs s = (fst c', code).
Proof. exact run_op_refines. Qed.
Print Assumptions C12_refines.

(* ... and so for any sequence of calls *)
Theorem C12_sequences : forall ops s,
  spec_run_ops ops s = (fst (run_ops ops s), map snd (snd (run_ops ops s))).
Proof. exact run_ops_refines. Qed.
Print Assumptions C12_sequences.

(* an abort or an invalid policy at an object stops the call with the store exactly as it was,
   unless the object's check_mode asks to force the root in the situation found (the embedded
   check then (re)creates the root first: see DESIGN.md, C12 formalisation note) *)
Theorem C12_abort_alters_nothing : forall op inner dm o s s' e,
  spec_one op inner dm o s = (s', SStop e) ->
  (fst (sget s (okey o)) = true -> fst (ocheck o) <> Lf) ->
  (fst (sget s (okey o)) = false -> snd (ocheck o) <> Lf) ->
  s' = s.
Proof. exact abort_alters_nothing. Qed.
Print Assumptions C12_abort_alters_nothing.

(* in every case an aborting step changes at most the entry of the object it stopped at, and
   only through the embedded root check *)
Theorem C12_abort_local : forall op inner dm o s s' e,
  spec_one op inner dm o s = (s', SStop e) ->
  exists st, ostate o = Some st /\ s' = fst (spec_presence o st s) /\
             forall k, k <> okey o -> sget s' k = sget s k.
Proof.
  intros op inner dm o s s' e H. destruct (spec_one_stop _ _ _ _ _ _ _ H) as [st [H1 H2]].
  exists st. repeat split; auto. intros k Hk. subst s'. now apply spec_presence_frame.
Qed.
Print Assumptions C12_abort_local.

(* entries of objects that are not in the call are never changed *)
Theorem C12_frame : forall op objs s k,
  (forall o, In o objs -> k <> okey o) -> sget (fst (spec_run_op op objs s)) k = sget s k.
Proof. exact spec_run_op_frame. Qed.
Print Assumptions C12_frame.

(* every backend call made by an operation is about an object the parameters address: not of a
   skipped type, not a readonly image, and with an <op>_state *)
Theorem C12_noninterference : forall op objs c x,
  In x (snd (fst (run_op op objs c))) ->
  In x (snd c) \/ exists o, In o objs /\ okey o = call_key x /\ addressed op o = true.
Proof. exact run_op_calls_addressed. Qed.
Print Assumptions C12_noninterference.

Local Open Scope N_scope.
(* non-vacuity: an abort that is reached (get_mode aa, state present), and one where the
   embedded default check (rf) first creates the missing root *)
Example C12_abort_reached :
  let o := mkObj 1 TImage false false false (Some (7, false)) (Some (La, La)) (Lr, Lr) false in
  spec_one OGet false (Lr, La) o [(1, (true, [7]))] = ([(1, (true, [7]))], SStop Aborted).
Proof. vm_compute. reflexivity. Qed.

Example C12_abort_after_forced_root :
  let o := mkObj 1 TImage false false false (Some (7, false)) (Some (La, La)) (Lr, Lf) false in
  spec_one OGet false (Lr, La) o [(1, (false, []))] = ([(1, (true, []))], SStop Aborted).
Proof. vm_compute. reflexivity. Qed.
