(* C07 — graph dependencies are exactly those declared in the configuration.
   PARTIAL (translation validation): the theorems are about graphs accepted by the checkers, which are
   evaluated on the real parser's output together with a comparison of every node's get/set
   declarations with the flat Cartesian universe. *)
From Coq Require Import List NArith Bool Arith.
Import ListNotations.
From I2N Require Import Model.Graph Proofs.GraphProofs.

(* none missing, none duplicated *)
Theorem C07_every_declared_dependency_once : forall g c o st,
  producers_ok g = true -> c < length g -> gn_flat (gnd g c) = false -> gn_clones (gnd g c) = [] ->
  In o (gn_objs (gnd g c)) -> go_get o = Some st -> go_net o = false -> go_given o = false ->
  exists p, producers g c (go_id o) st = [p].
Proof. exact producer_unique. Qed.
Print Assumptions C07_every_declared_dependency_once.

(* none spurious *)
Theorem C07_no_undeclared_dependency : forall g c p objs,
  producers_ok g = true -> c < length g -> gn_flat (gnd g c) = false -> gn_clones (gnd g c) = [] ->
  In (p, objs) (gn_parents (gnd g c)) -> gn_root (gnd g p) = false -> gn_flat (gnd g p) = false ->
  opt_eqN (gn_worker (gnd g p)) (gn_worker (gnd g c)) = true /\
  forall o, In o objs -> exists x st, In x (gn_objs (gnd g c)) /\ go_id x = o /\ go_get x = Some st /\
                                  sets_state (gnd g p) o st = true.
Proof. exact no_spurious_dependency. Qed.
Print Assumptions C07_no_undeclared_dependency.

(* cloning per producer with branch-specific states; the only dependants a source keeps are sources
   themselves, i.e. inert nodes *)
Theorem C07_clones_per_producer : forall g i, clones_ok g = true -> i < length g -> gn_clones (gnd g i) <> [] ->
  (forall c objs, In (c, objs) (gn_children (gnd g i)) -> gn_clones (gnd g c) <> []) /\
  NoDup (map (fun c => gn_name (gnd g c)) (gn_clones (gnd g i))) /\
  forall c1 c2, In c1 (gn_clones (gnd g i)) -> In c2 (gn_clones (gnd g i)) -> c1 <> c2 ->
                seteqN (clone_states g c1) (clone_states g c2) = false.
Proof. exact clones_ok_sound. Qed.
Print Assumptions C07_clones_per_producer.
