(* C02 — traversal terminates and every selected test gets a definite result.
   PARTIAL: the safety lemmas the traversal relies on are proved for all graphs and states; termination
   and completeness are checked on the implementation's traces (see DESIGN.md, C02). *)
From Coq Require Import List ZArith NArith Bool Arith.
Import ListNotations.
From I2N Require Import Model.Retry Model.Traverse Model.TraverseRun Proofs.TraverseProofs Proofs.TraverseInv Proofs.TraverseAvail Proofs.TraverseExit Proofs.TraversePath Proofs.TraverseUid Proofs.TraverseExitN Proofs.TraverseExcl Proofs.TraverseDefinite Proofs.TraverseComplete.
Local Open Scope nat_scope.

(* no pick from an exhausted node: the loop picks a child only of a node that is not cleanup-ready
   and a parent only of a node that is not setup-ready, and then a candidate exists *)
Theorem C02_pick_child_succeeds_partial : forall g s i w,
  cleanup_ready g s i w = false -> pick_child g s i w <> None.
Proof. exact pick_child_succeeds. Qed.
Print Assumptions C02_pick_child_succeeds_partial.

Theorem C02_pick_parent_succeeds_partial : forall g s i w,
  setup_ready g s i w = false -> pick_parent g s i w <> None.
Proof. exact pick_parent_succeeds. Qed.
Print Assumptions C02_pick_parent_succeeds_partial.

(* dry runs: no node is ever decided to run *)
Theorem C02_dry_run_inert_partial : forall g s i w sc s',
  run_decision g s i w = Some (true, sc, s') -> n_dry (nd g i) = false.
Proof. intros g s i w sc s' H. apply run_decision_startable in H. unfold startable in H. tauto. Qed.
Print Assumptions C02_dry_run_inert_partial.

(* for EVERY graph, initial pool population and schedule: in a dry run nothing is executed *)
Theorem C02_dry_run_no_execution : forall g p sched evs w i u pre l,
  In evs (snd (run_schedule g (init_state g p) sched)) -> In (EStart w i u pre l) evs -> n_dry (nd g i) = false.
Proof. intros g p sched evs w i u pre l H1 H2. pose proof (all_starts_ok g p sched evs w i u pre l H1 H2) as H. unfold startable in H. tauto. Qed.
Print Assumptions C02_dry_run_no_execution.

(* completeness for the plain single-worker configuration (one worker, no bridged copies, no unset or permanent-install
   objects, own and shared pool in scope - simple_b, checked on every generated single-worker graph), for EVERY such graph,
   initial pool population, schedule and outcome assignment: once the worker has left its loop, every ordinary (composite,
   not dry, not cloned) own test that the root reaches through child edges over such tests either has results or all the
   states it sets are visible to the worker; a stateless one (a leaf test) has results, i.e. was executed.
   PARTIAL: one worker; "has results" is not yet "has a definite status" (a never-reported test keeps its placeholder). *)
Theorem C02_exit_means_every_reachable_test_was_dealt_with : forall g p sched w0 c,
  simple_b g = true -> Forall (fun x => fst x = 0) sched ->
  let r := run_schedule g (init_state g p) sched in
  In (EExit w0) (concat (snd r)) -> reach g c ->
  ((forall x, In x (setstates (nd g c)) -> vis (fst r) x = true) \/ results (nst (fst r) c) <> []) /\
  (stateful (nd g c) = false -> results (nst (fst r) c) <> []).
Proof. exact exit_means_results. Qed.
Print Assumptions C02_exit_means_every_reachable_test_was_dealt_with.

(* ... and the worker has then dropped every own child of every such test (nothing below it is left to visit) *)
Theorem C02_exit_means_subtree_visited : forall g p sched w0 c,
  simple g -> Forall (fun x => fst x = 0) sched ->
  let r := run_schedule g (init_state g p) sched in
  In (EExit w0) (concat (snd r)) -> reach g c -> cleanup_ready g (fst r) c 0 = true.
Proof. intros g p sched w0 c Hg Hall r Hx Hr. exact (proj1 (exit_means_done g p sched w0 c Hg Hall Hx Hr)). Qed.
Print Assumptions C02_exit_means_subtree_visited.

(* no traversal error, for EVERY graph whose edges are symmetric, whose root has no parents and is the only parent of the
   nodes below it (pwf_b, checked on every exported graph), every pool population, every schedule and outcome assignment
   and ANY number of workers: no section ever reports a pick from an exhausted node (code 1), a discontinuous path
   (code 2), or an exit away from the starting point / an empty path (code 4).  The failure codes the model can still
   emit are 3 and 5 (run / clean policy undefined for the node's settings) and 6 (the model's own loop fuel). *)
Theorem C02_no_path_errors : forall g p sched evs v c, pwf_b g = true ->
  In evs (snd (run_schedule g (init_state g p) sched)) -> In (EFail v c) evs -> c = 3%N \/ c = 5%N \/ c = 6%N.
Proof. exact no_path_errors_b. Qed.
Print Assumptions C02_no_path_errors.

(* completeness at exit for ANY number of workers, for EVERY graph meeting ewf_b (checked on the exported graphs), pool
   population, schedule and outcome assignment: once worker v has left its loop, every ordinary test of v that the root
   reaches through child edges over such tests (reachN) has all its own children dropped by v, and if it saves no state (a
   leaf test; no copy of it an object root) some copy of its class has a result entry: it was executed, or is being
   executed, by some worker.  PARTIAL: "has a result entry" is not yet "has a definite status". *)
Theorem C02_exit_means_done_any_workers : forall g p sched v c,
  ewf_b g = true -> let r := run_schedule g (init_state g p) sched in
  In (EExit v) (concat (snd r)) -> reachN g v c ->
  cleanup_ready g (fst r) c v = true /\
  (stateful (nd g c) = false -> nonobjc g c -> shared_results g (fst r) c <> []).
Proof. intros g p sched v c Hb. apply exit_means_doneN. now apply ewf_b_sound. Qed.
Print Assumptions C02_exit_means_done_any_workers.

(* "a definite, non-pending status", for EVERY graph, pool population and schedule in which every awaited test reports a
   status other than the placeholder (all_definite_b), any number of workers: once no worker is awaiting a test, no result of
   any node is pending *)
Theorem C02_no_pending_results_when_nobody_runs : forall g p sched j r,
  all_definite_b g (init_state g p) sched = true ->
  let s := fst (run_schedule g (init_state g p) sched) in
  none_running_b s = true -> In r (results (nst s j)) -> r_status r <> SUnknown.
Proof.
  intros g p sched j r Ha s Hn. apply (no_pending_results g p sched j r (all_definite_b_sound g sched _ Ha)). now apply none_running_b_sound.
Qed.
Print Assumptions C02_no_pending_results_when_nobody_runs.

(* ... and the second sentence of the property assembled, any number of workers: when worker v has emitted its exit event and no
   worker is awaiting a test, every leaf test of v that the root reaches over v's ordinary tests has, on some copy of its
   class, a result with a definite status *)
Theorem C02_exit_means_definite_result : forall g p sched v c,
  ewf_b g = true -> all_definite_b g (init_state g p) sched = true ->
  let r := run_schedule g (init_state g p) sched in
  none_running_b (fst r) = true -> In (EExit v) (concat (snd r)) -> reachN g v c ->
  stateful (nd g c) = false -> nonobjc g c ->
  exists res, In res (shared_results g (fst r) c) /\ r_status res <> SUnknown.
Proof.
  intros g p sched v c Hb Ha r Hn. apply (exit_means_definite_result_b g p sched v c Hb (all_definite_b_sound g sched _ Ha)).
  now apply none_running_b_sound.
Qed.
Print Assumptions C02_exit_means_definite_result.
