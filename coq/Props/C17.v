(* C17 — a vm state exists exactly when all of the vm's images have it. *)
From Coq Require Import List NArith Bool.
Import ListNotations.
From I2N Require Import Model.VmStates Proofs.VmStatesProofs.

Theorem C17_show_spec : forall imgs s,
  imgs <> [] -> (In s (vm_states imgs) <-> forall i, In i imgs -> In s i).
Proof. exact vm_states_spec. Qed.
Print Assumptions C17_show_spec.

Theorem C17_ramfile_spec : forall memfiles imgs s,
  imgs <> [] ->
  (In s (ram_states memfiles imgs) <-> In s memfiles /\ forall i, In i imgs -> In s i).
Proof. exact ram_states_spec. Qed.
Print Assumptions C17_ramfile_spec.

Theorem C17_show_nodup : forall imgs, (forall i, In i imgs -> NoDup i) -> NoDup (vm_states imgs).
Proof. exact vm_states_NoDup. Qed.
Print Assumptions C17_show_nodup.

Theorem C17_on_off : forall l t,
  (In t (off_states l) <-> exists r, In r l /\ tag r = t /\ vmsize_zero r = true) /\
  (In t (on_states l) <-> exists r, In r l /\ tag r = t /\ vmsize_zero r = false).
Proof. exact on_off_spec. Qed.
Print Assumptions C17_on_off.

Theorem C17_on_off_disjoint : forall l t,
  NoDup (map tag l) -> In t (off_states l) -> In t (on_states l) -> False.
Proof. exact on_off_disjoint. Qed.
Print Assumptions C17_on_off_disjoint.
