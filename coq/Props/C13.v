(* C13 — pool access respects the enabled scopes and prefers the closest source. *)
From Coq Require Import List NArith Bool Permutation.
Import ListNotations.
From I2N Require Import Model.Pool Proofs.PoolProofs.

(* only sources whose scope is enabled (and which are not the own pool) are contacted, and the
   local get/set/unset happen only when the own scope is enabled; local listings are reads *)
Theorem C13_scope_filter_show : forall o scopes srcs x,
  In x (show_log o scopes srcs) ->
  at_permitted o scopes srcs x /\ (x = LShow -> in_scopes Own scopes = true).
Proof. exact show_scope_filter. Qed.
Print Assumptions C13_scope_filter_show.

Theorem C13_scope_filter_get : forall o scopes c srcs st x,
  In x (get_log o scopes c srcs st) ->
  at_permitted o scopes srcs x /\ (is_local_change x = true -> in_scopes Own scopes = true).
Proof. exact get_scope_filter. Qed.
Print Assumptions C13_scope_filter_get.

Theorem C13_scope_filter_set : forall o scopes c srcs st x,
  In x (fst (set_log o scopes c srcs st)) ->
  at_permitted o scopes srcs x /\ (is_local_change x = true -> in_scopes Own scopes = true).
Proof. exact set_scope_filter. Qed.
Print Assumptions C13_scope_filter_set.

Theorem C13_scope_filter_unset : forall o scopes srcs x,
  In x (unset_log o scopes srcs) ->
  at_permitted o scopes srcs x /\ (is_local_change x = true -> in_scopes Own scopes = true).
Proof. exact unset_scope_filter. Qed.
Print Assumptions C13_scope_filter_unset.

(* fetching uses a closest permitted source *)
Theorem C13_closest : forall o scopes srcs s,
  chosen o scopes srcs = Some s ->
  In s srcs /\ permitted o scopes s = true /\
  forall s', In s' srcs -> permitted o scopes s' = true -> (proximity o s' <= proximity o s)%N.
Proof. exact chosen_closest. Qed.
Print Assumptions C13_closest.

Theorem C13_no_source_no_transport : forall o scopes srcs,
  chosen o scopes srcs = None -> forall s, In s srcs -> permitted o scopes s = false.
Proof. exact chosen_none. Qed.
Print Assumptions C13_no_source_no_transport.

(* saving and removing reach every permitted mirror (as often as it is listed) *)
Theorem C13_set_all_mirrors : forall o scopes c srcs st lg,
  set_log o scopes c srcs st = (lg, true) ->
  Permutation (filter (fun x => match x with TSet _ => true | _ => false end) lg)
              (map (fun s => TSet (sid s)) (filter (permitted o scopes) srcs)).
Proof. exact set_all_mirrors. Qed.
Print Assumptions C13_set_all_mirrors.

Theorem C13_unset_all_mirrors : forall o scopes srcs,
  Permutation (filter (fun x => match x with TUnset _ => true | _ => false end) (unset_log o scopes srcs))
              (map (fun s => TUnset (sid s)) (filter (permitted o scopes) srcs)).
Proof. exact unset_all_mirrors. Qed.
Print Assumptions C13_unset_all_mirrors.

(* a local copy is downloaded again only when it is missing or differs from the source *)
Theorem C13_redownload_iff : forall o scopes c srcs st i,
  In (TGet i) (get_log o scopes c srcs st) <->
  exists s, chosen o scopes srcs = Some s /\ sid s = i /\ has (mirror c s) st = true /\
            (has (cache c) st = false \/ valid c s = false).
Proof. exact get_redownload_iff. Qed.
Print Assumptions C13_redownload_iff.

Theorem C13_root_redownload_iff : forall e,
  has_own e = true -> is_own e = false ->
  (In TGetRoot (get_root e) <->
   pool_root e = true /\ (local_root e = false \/ forallb snd (images e) = false)).
Proof. exact get_root_redownload_iff. Qed.
Print Assumptions C13_root_redownload_iff.

(* a state is reported present only if it is in the local cache or in a permitted source *)
Theorem C13_present_only_if : forall o scopes c srcs x,
  In x (show_states o scopes c srcs) ->
  (in_scopes Own scopes = true /\ In x (cache c)) \/
  exists s, In s srcs /\ permitted o scopes s = true /\ In x (mirror c s).
Proof. exact show_present_only_if. Qed.
Print Assumptions C13_present_only_if.

(* updating a pool without the local state / root is refused before any transport *)
Theorem C13_refuse_set : forall o scopes c srcs st,
  in_scopes Own scopes = false -> has (cache c) st = false ->
  set_log o scopes c srcs st = ([LShow], false).
Proof. exact set_refused. Qed.
Print Assumptions C13_refuse_set.

Theorem C13_refuse_set_root : forall e,
  is_own e = false -> is_shared e = true -> local_root e = false ->
  set_root e = ([LCheckRoot], false).
Proof. exact set_root_refused. Qed.
Print Assumptions C13_refuse_set_root.

Theorem C13_root_own_only_local : forall e x,
  is_own e = true -> has_own e = true ->
  In x (fst (check_root e) ++ get_root e ++ fst (set_root e) ++ fst (unset_root e)) ->
  is_transport_root x = false.
Proof. exact root_own_only_local. Qed.
Print Assumptions C13_root_own_only_local.

(* non-vacuity: two permitted sources of different proximity, the closer one is chosen although
   it is listed second *)
Example C13_closest_example :
  let o := mkOwn 1 1 10 20 in
  chosen o [Swarm; Shared] [mkSrc 1 1 2 10; mkSrc 2 1 1 20] = Some (mkSrc 2 1 1 20).
Proof. vm_compute. reflexivity. Qed.
