(* C08 — tests run only on their own worker and are told where their setup lives. *)
From Coq Require Import List ZArith NArith Bool Arith.
Import ListNotations.
From I2N Require Import Model.Retry Model.Traverse Model.TraverseRun Proofs.TraverseProofs Proofs.TraverseInv.
Local Open Scope nat_scope.

(* a positive run decision is only ever taken for a node of the deciding worker's own copy of the
   graph (the name carries the worker's id), and never for flat, cloned-from, dry or root nodes *)
Theorem C08_run_only_own : forall g s i w sc s',
  run_decision g s i w = Some (true, sc, s') -> startable g w i.
Proof. exact run_decision_startable. Qed.
Print Assumptions C08_run_only_own.

(* ... a foreign node makes the decision fail (the traversal error of the code) instead of running *)
Theorem C08_foreign_node_rejected : forall g s i w,
  n_root (nd g i) = false -> n_dry (nd g i) = false -> n_flat (nd g i) = false -> n_cloned (nd g i) = false ->
  own g w i = false -> run_decision g s i w = None.
Proof. exact run_decision_not_own. Qed.
Print Assumptions C08_foreign_node_rejected.

(* the traversal only ever moves to own (or flat) neighbours *)
Theorem C08_picks_own_children : forall g s i w c s',
  pick_child g s i w = Some (c, s') -> In c (avail_children g s i w) /\ In c (n_children (nd g i)) /\
  (own g w c = true \/ n_flat (nd g c) = true).
Proof. exact pick_child_available. Qed.
Print Assumptions C08_picks_own_children.

Theorem C08_picks_own_parents : forall g s i w p s',
  pick_parent g s i w = Some (p, s') -> In p (avail_parents g s i w) /\ In p (n_parents (nd g i)) /\
  (own g w p = true \/ n_flat (nd g p) = true).
Proof. exact pick_parent_available. Qed.
Print Assumptions C08_picks_own_parents.

(* for EVERY graph, initial pool population and schedule: each execution the traversal starts is
   started by a worker whose id occurs in the node's name (the code's ownership test) *)
Theorem C08_own_worker : forall g p sched evs w i u pre l,
  In evs (snd (run_schedule g (init_state g p) sched)) -> In (EStart w i u pre l) evs -> own g w i = true.
Proof. intros g p sched evs w i u pre l H1 H2. destruct (all_starts_ok g p sched evs w i u pre l H1 H2) as [H _]. exact H. Qed.
Print Assumptions C08_own_worker.

(* ---- told where the setup lives, for EVERY graph, initial pool population and schedule (Proofs/TraverseLoc.v) ---- *)
From I2N Require Import Proofs.TraverseLoc.

(* every worker named as a source in the get locations an execution is started with has a PASS result on one of that
   test's parents - the test is never told to fetch from a worker that did not produce the state *)
Theorem C08_named_sources_are_producers : forall g p sched evs w i u pre l o v,
  let r := run_schedule g (init_state g p) sched in
  In evs (snd r) -> In (EStart w i u pre l) evs -> In (o, Some v) l ->
  exists par, In par (n_parents (nd g i)) /\
    exists res, In res (shared_results g (fst r) par) /\ r_status res = SPass /\ n_first_worker (nd g (r_node res)) = Some v.
Proof. exact named_sources_are_producers. Qed.
Print Assumptions C08_named_sources_are_producers.

(* "with that worker's connection parameters": the remote session a worker is handed (worker.py: get_session, a cache shared
   by all workers) was opened to that worker's own address - for every sequence of calls by any workers and any outcomes of
   the health check of cached sessions *)
From I2N Require Import Model.Session Proofs.SessionProofs.
Theorem C08_session_goes_to_the_callers_address : forall ops,
  map (fun x => snd (fst x)) (run_sessions empty_cache ops) = map fst ops.
Proof. intros ops. apply sessions_pointwise. exact SInvC_empty. Qed.
Print Assumptions C08_session_goes_to_the_callers_address.
