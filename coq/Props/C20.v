(* C20 — manual steps act once per selected vm and worker, in the given order. *)
From Coq Require Import List NArith Bool Arith.
Import ListNotations.
From I2N Require Import Model.Tools Proofs.ToolsProofs Model.Retry Model.Traverse Model.TraverseRun Proofs.TraverseInv.

(* chained steps: all of them run, in the given order, whatever any of them does *)
Theorem C20_chain_runs_all_in_order : forall outs, fst (chain outs) = seq 0 (length outs).
Proof. exact chain_runs_all. Qed.
Print Assumptions C20_chain_runs_all_in_order.

(* the chain reports failure exactly when some step returned non-zero or raised *)
Theorem C20_chain_fails_iff : forall outs, snd (chain outs) = 1%N <-> exists o, In o outs /\ step_failed o = true.
Proof. exact chain_code. Qed.
Print Assumptions C20_chain_fails_iff.

Theorem C20_chain_succeeds_iff : forall outs, snd (chain outs) = 0%N <-> forall o, In o outs -> step_failed o = false.
Proof. exact chain_code_ok. Qed.
Print Assumptions C20_chain_succeeds_iff.

(* the step's node of a worker is only ever executed by that worker (any schedule): PARTIAL - that each
   (worker, vm) node IS executed exactly once is checked on the real tools, see DESIGN.md *)
Theorem C20_only_own_worker_partial : forall g p sched evs w i u pre l,
  In evs (snd (run_schedule g (init_state g p) sched)) -> In (EStart w i u pre l) evs -> own g w i = true.
Proof. intros g p sched evs w i u pre l H1 H2. destruct (all_starts_ok g p sched evs w i u pre l H1 H2) as [H _]. exact H. Qed.
Print Assumptions C20_only_own_worker_partial.

Example C20_chain_example : chain [RetNone; Raised; RetInt 0; RetInt 2] = ([0; 1; 2; 3], 1%N).
Proof. vm_compute. reflexivity. Qed.
