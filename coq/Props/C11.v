(* C11 — command line selections and overrides. *)
From Coq Require Import String Ascii List Bool NArith.
Import ListNotations.
From I2N Require Import Model.CmdLine Model.Restr Proofs.CmdLineProofs Proofs.RestrProofs.
Open Scope string_scope.

(* the test restriction string: the only= / no= arguments in order, and the default primary
   restriction exactly when none of them names a primary restriction *)
Theorem C11_tests_str : forall e args r,
  params_from_cmd e args = Ok r ->
  (has_primary e args = true -> r_tests_str r = test_lines args) /\
  (has_primary e args = false ->
   exists d, mem d (avail_restr e) = true /\ r_tests_str r = test_lines args ++ line "only" d).
Proof. exact tests_str_spec. Qed.
Print Assumptions C11_tests_str.

(* any other key=value overrides that parameter: last one wins, commas mean spaces *)
Theorem C11_override : forall e args key, is_special key = false ->
  forall a a', loop e a args = Ok a' ->
  lookup (pdict a') key =
  match last_arg args key with Some v => Some (commas_to_spaces v) | None => lookup (pdict a) key end.
Proof. exact override_spec. Qed.
Print Assumptions C11_override.

(* rejections: wherever the offending argument stands, the command line is not accepted *)
Theorem C11_reject_malformed : forall e args x,
  In x args -> split_arg x = None -> forall a a', loop e a args <> Ok a'.
Proof. intros e args x Hin H. apply (loop_rejects e args x Hin). now apply malformed_never_ok. Qed.
Print Assumptions C11_reject_malformed.

Theorem C11_reject_unknown_vm : forall e args x v,
  In x args -> split_arg x = Some ("vms", v) ->
  forallb (fun n => mem n (avail_vms e)) (split_commas v) = false ->
  forall a a', loop e a args <> Ok a'.
Proof. intros e args x v Hin H Hb. apply (loop_rejects e args x Hin). eapply unknown_vm_never_ok; eauto. Qed.
Print Assumptions C11_reject_unknown_vm.

Theorem C11_reject_unknown_object : forall e args x k v,
  In x args -> split_arg x = Some (k, v) -> is_test_key k = false -> is_obj_key k = true ->
  is_nets_restr_key k = false -> vm_of_key e k = None ->
  forall a a', loop e a args <> Ok a'.
Proof.
  intros e args x k v Hin H H1 H2 H3 H4. apply (loop_rejects e args x Hin).
  eapply unknown_object_never_ok; eauto.
Qed.
Print Assumptions C11_reject_unknown_object.

Theorem C11_reject_nets_then_restriction : forall e pre x mid y post w k v,
  split_arg x = Some ("nets", w) -> split_arg y = Some (k, v) -> is_nets_restr_key k = true ->
  forall a a', loop e a (pre ++ x :: mid ++ y :: post) <> Ok a'.
Proof. exact nets_then_restriction_rejected. Qed.
Print Assumptions C11_reject_nets_then_restriction.

Theorem C11_reject_restriction_then_nets : forall e pre x mid y post k v w,
  split_arg x = Some (k, v) -> is_nets_restr_key k = true -> v <> "" ->
  (forall m k' v', In m mid -> split_arg m = Some (k', v') -> is_nets_restr_key k' = false) ->
  split_arg y = Some ("nets", w) ->
  forall a a', loop e a (pre ++ x :: mid ++ y :: post) <> Ok a'.
Proof. exact restriction_then_nets_rejected. Qed.
Print Assumptions C11_reject_restriction_then_nets.

(* ---- what the restriction lines select ---- *)
Theorem C11_select : forall lines U n,
  In n (select lines U) <->
  In n U /\ (forall f, In (Only f) lines -> matches f n = true) /\
            (forall f, In (No f) lines -> matches f n = false).
Proof. exact select_spec. Qed.
Print Assumptions C11_select.

Theorem C11_only_intersect : forall l1 l2 U, select (l1 ++ l2) U = select l1 (select l2 U).
Proof. exact select_app. Qed.
Print Assumptions C11_only_intersect.

Theorem C11_only_dotdot : forall wa wb rest U,
  select (Only [wa] :: Only [wb] :: rest) U = select (Only [(wa ++ wb)%list] :: rest) U.
Proof. exact only_dotdot. Qed.
Print Assumptions C11_only_dotdot.

Theorem C11_no_excludes : forall f rest U n, In n (select (No f :: rest) U) -> matches f n = false.
Proof. exact no_excludes. Qed.
Print Assumptions C11_no_excludes.

Theorem C11_contiguous : forall b n, contiguous b n = true <-> exists l r, n = (l ++ b ++ r)%list.
Proof. exact contiguous_spec. Qed.
Print Assumptions C11_contiguous.

(* non-vacuity *)
Example C11_example_accept :
  let e := mkEnv ["vm1"; "vm2"] ["all"; "normal"; "minimal"] [] [("vm1", "CentOS")] (Some "normal") in
  params_from_cmd e ["only=tutorial1"; "aaa=b,c"; "only_vm2=Win10"; "vms=vm2"] =
  Ok (mkRes ("only tutorial1" ++ nl ++ "only normal" ++ nl) [("vm2", "only Win10" ++ nl)] [("aaa", "b c")] "vm2").
Proof. vm_compute. reflexivity. Qed.
