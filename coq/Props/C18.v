(* C18 — the vm network model stays consistent and its address arithmetic is exact. *)
From Coq Require Import List NArith ZArith Bool.
Import ListNotations.
From I2N Require Import Model.NetAddr Model.NetBuild Proofs.NetAddrProofs Proofs.NetBuildProofs.
Local Open Scope N_scope.

(* netmask and prefix length convert into each other consistently *)
Theorem C18_mask_roundtrip : forall b, b <= 32 -> prefix_of_mask (mask_of_prefix b) = b.
Proof. exact mask_roundtrip. Qed.
Print Assumptions C18_mask_roundtrip.

Theorem C18_mask_roundtrip' : forall m, contiguous m -> mask_of_prefix (prefix_of_mask m) = m.
Proof. exact mask_roundtrip'. Qed.
Print Assumptions C18_mask_roundtrip'.

(* "the subnet contains the address": the network address computed for ip/bits is
   the unique multiple of the subnet size with  net <= ip < net + size *)
Theorem C18_in_network_iff : forall ip net bits,
  let size := 2 ^ (32 - bits) in
  in_network ip net bits = true <-> (net mod size = 0 /\ net <= ip < net + size).
Proof. exact in_network_iff. Qed.
Print Assumptions C18_in_network_iff.

(* allocation hands out every offset of the configured range once, in order,
   and then reports exhaustion, for every range *)
Theorem C18_alloc_exact : forall lo hi,
  let n := N.to_nat (hi + 1 - lo) in
  exists r', allocs n (mk_range lo hi) = (map Some (nseq lo n), r') /\
             alloc r' = None /\ NoDup (nseq lo n).
Proof. exact alloc_exact. Qed.
Print Assumptions C18_alloc_exact.

Theorem C18_alloc_stays_exhausted : forall r, alloc r = None ->
  forall n, fst (allocs n r) = repeat None n.
Proof. exact alloc_none_stays. Qed.
Print Assumptions C18_alloc_stays_exhausted.

(* translation keeps the host offset, and fails exactly when the result leaves IPv4 space *)
Theorem C18_translate_offset : forall ip net_ip nat_ip bits t,
  translate ip net_ip nat_ip bits = Some t ->
  (t - Z.of_N (network_of nat_ip bits) = Z.of_N ip - Z.of_N net_ip /\ 0 <= t < Z.of_N two32)%Z.
Proof. exact translate_offset. Qed.
Print Assumptions C18_translate_offset.

Theorem C18_translate_none_iff : forall ip net_ip nat_ip bits,
  translate ip net_ip nat_ip bits = None <->
  let t := (Z.of_N ip - Z.of_N net_ip + Z.of_N (network_of nat_ip bits))%Z in
  (t < 0 \/ Z.of_N two32 <= t)%Z.
Proof. exact translate_none_iff. Qed.
Print Assumptions C18_translate_none_iff.

Theorem C18_translate_in_subnet : forall ip net_ip nat_ip bits,
  bits <= 32 -> nat_ip < two32 -> in_network ip net_ip bits = true ->
  exists t, translate ip net_ip nat_ip bits = Some (Z.of_N t) /\
            in_network t (network_of nat_ip bits) bits = true /\
            t - network_of nat_ip bits = ip - net_ip.
Proof. exact translate_in_subnet. Qed.
Print Assumptions C18_translate_in_subnet.

(* PARTIAL (the full statement is `consistent s = true` for well-formed
   configurations, see DESIGN.md C18): for ALL parameters, if the network builds
   then after any sequence of reattachments every interface recorded in a
   netconfig has its address inside that netconfig's network. *)
Theorem C18_build_subnet_partial : forall l ops s,
  build l = Ok s -> heap_ok (heap (snd (run_ops s ops))).
Proof. exact build_subnet_inv. Qed.
Print Assumptions C18_build_subnet_partial.
