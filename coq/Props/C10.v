(* C10 — retry, stop, replay and verdict rules. *)
From Coq Require Import List ZArith NArith Bool.
Import ListNotations.
From I2N Require Import Model.Retry Proofs.RetryProofs.
Open Scope Z_scope.

(* executed again exactly while tries remain, every status so far is in the rerun set and none
   is in the stop set *)
Theorem C10_rerun_iff : forall c rr st mt sts,
  runnable c ->
  valid_tokens (rerun_tokens c) = Some rr -> valid_tokens (stop c) = Some st -> tries c = Some mt ->
  0 <= mt ->
  (should_rerun c sts = RTrue <->
   1 < mt /\ Z.of_nat (length sts) < mt /\ (forall s, In s sts -> In s rr) /\
   (forall s, In s st -> ~ In s sts)).
Proof. exact should_rerun_iff. Qed.
Print Assumptions C10_rerun_iff.

(* invalid retry settings (a word that is no status, a non-integer or negative max_tries) are
   rejected with an error on every node that could run *)
Theorem C10_invalid_rejected : forall c sts,
  runnable c ->
  valid_tokens (rerun_tokens c) = None \/ valid_tokens (stop c) = None \/ tries c = None \/
  (exists mt, tries c = Some mt /\ mt < 0) ->
  should_rerun c sts = RErr.
Proof. exact invalid_rejected. Qed.
Print Assumptions C10_invalid_rejected.

Theorem C10_inert_never : forall c sts,
  dry c = true \/ flat c = true \/ cloned c = true -> should_rerun c sts = RFalse.
Proof. exact inert_never. Qed.
Print Assumptions C10_inert_never.

(* replay: a test with previous results is executed again iff all of them are unacceptable
   (fail/error/warn) and there is fewer than two; a test without previous result is executed *)
Theorem C10_replay_stateless : forall c prev,
  replay_defaults c ->
  run_stateless c prev =
  Some (match prev with
        | [] => true
        | _ => forallb (fun s => negb (acceptable s)) prev && (length prev <? 2)%nat
        end).
Proof. exact replay_stateless. Qed.
Print Assumptions C10_replay_stateless.

(* replay, setup tests: with an acceptable previous result (or none) the test is executed iff
   a state it produces is missing *)
Theorem C10_replay_stateful : forall c prev scan_run,
  replay_defaults c -> (forall s, In s prev -> acceptable s = true) ->
  fst (run_stateful c false scan_run false prev) = Some scan_run.
Proof. exact replay_stateful. Qed.
Print Assumptions C10_replay_stateful.

(* repeated executions carry distinct identifiers, for any interleaving of starts and reports *)
Theorem C10_uids_distinct : forall n evs, NoDup (uids n evs).
Proof. exact uids_distinct. Qed.
Print Assumptions C10_uids_distinct.

(* ... and each reads its own result *)
Theorem C10_lookup_own : forall tests k s,
  NoDup (map fst tests) -> In (k, s) tests -> lookup_result tests k = Some s.
Proof. exact lookup_own. Qed.
Print Assumptions C10_lookup_own.

Theorem C10_lookup_none : forall tests k, (forall s, ~ In (k, s) tests) -> lookup_result tests k = None.
Proof. exact lookup_none. Qed.
Print Assumptions C10_lookup_none.

(* the run is reported successful exactly when every executed test has an acceptable result *)
Theorem C10_verdict : forall tests,
  verdict tests = true <->
  forall name, In name (map fst tests) -> exists s, In (name, s) tests /\ ok_status s = true.
Proof. exact verdict_iff. Qed.
Print Assumptions C10_verdict.

Theorem C10_duration_check_harmless : forall s dur prev, ok_status (final_status s dur prev) = ok_status s.
Proof. exact final_status_ok. Qed.
Print Assumptions C10_duration_check_harmless.

(* non-vacuity: a retry that is granted and one that the stop set prevents *)
Example C10_rerun_granted :
  should_rerun (mkCfg false false false false (Some (Some 3)) (Some [Some SFail; Some SError]) [Some SPass])
               [SFail; SError] = RTrue.
Proof. vm_compute. reflexivity. Qed.
Example C10_rerun_stopped :
  should_rerun (mkCfg false false false false (Some (Some 3)) None [Some SFail]) [SFail] = RFalse.
Proof. vm_compute. reflexivity. Qed.

(* ---- over the traversal model, for EVERY graph, initial pool population and schedule ---- *)
From I2N Require Import Model.Traverse Model.TraverseRun Proofs.TraverseInv Proofs.TraverseUid.

(* repeated executions carry distinct identifiers: two executions of the same node (copy) whose class of bridged
   copies contains no object-creation node get strictly increasing identifiers ... *)
Theorem C10_identifiers_strictly_increase : forall g p sched a b e1 e2 w1 w2 i u1 u2 l1 l2,
  let ess := snd (run_schedule g (init_state g p) sched) in
  (a < b)%nat -> nth_error ess a = Some e1 -> nth_error ess b = Some e2 ->
  In (EStart w1 i u1 false l1) e1 -> In (EStart w2 i u2 false l2) e2 -> nonobjc g i -> (u1 < u2)%nat.
Proof. exact uids_increase. Qed.
Print Assumptions C10_identifiers_strictly_increase.

(* ... (any two executions are in different atomic sections: a section starts at most one, as its last event) ... *)
Theorem C10_one_start_per_section : forall g p sched evs,
  In evs (snd (run_schedule g (init_state g p) sched)) -> last_start evs.
Proof. exact one_start_per_section. Qed.
Print Assumptions C10_one_start_per_section.

(* ... and every execution - reported or not - leaves one entry on its class (its result, or the pending placeholder),
   which is what makes the try count: its identifier is below the number of entries afterwards *)
Theorem C10_every_execution_leaves_an_entry : forall g p sched evs w i u l,
  let r := run_schedule g (init_state g p) sched in
  In evs (snd r) -> In (EStart w i u false l) evs -> nonobjc g i -> (u < Lc g (fst r) i)%nat.
Proof. exact every_execution_leaves_an_entry. Qed.
Print Assumptions C10_every_execution_leaves_an_entry.

(* replaying previous jobs: the previous results are exactly the results of all the named jobs *)
Theorem C10_previous_results_are_all_jobs : forall (jobs : list (option (list (N * status)))) res,
  previous_results jobs = Some res ->
  (forall l x, In (Some l) jobs -> In x l -> In x res) /\ (forall x, In x res -> exists l, In (Some l) jobs /\ In x l).
Proof. intros jobs res H. split; [now apply previous_results_complete | now apply previous_results_sound]. Qed.
Print Assumptions C10_previous_results_are_all_jobs.
