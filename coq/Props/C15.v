(* C15 — the update tool reruns exactly the requested path and drops only its dependants. *)
From Coq Require Import List NArith Bool Arith.
Import ListNotations.
From I2N Require Import Model.Tools Proofs.ToolsProofs.

(* flagging from a node reaches exactly the nodes connected to it through child edges *)
Theorem C15_flag_children_closure : forall g fuel start x,
  In x (flag_children fuel g start false false) <-> path_le g (S fuel) start x.
Proof. exact flag_children_all. Qed.
Print Assumptions C15_flag_children_closure.

Theorem C15_flag_strict_descendants : forall g fuel start x,
  In x (flag_children fuel g start true false) <-> exists c, In c (kids g start) /\ path_le g fuel c x.
Proof. exact flag_children_strict. Qed.
Print Assumptions C15_flag_strict_descendants.

(* on a vm's chain of states: the tests run are exactly those from from_state to to_state, both included *)
Theorem C15_runs_exactly_the_path : forall a f b t c,
  NoDup (a ++ f :: b ++ t :: c) -> update_runs (a ++ f :: b ++ t :: c) f t = f :: b ++ [t].
Proof. exact update_runs_path. Qed.
Print Assumptions C15_runs_exactly_the_path.

Theorem C15_runs_single_state : forall a f c, NoDup (a ++ f :: c) -> update_runs (a ++ f :: c) f f = [f].
Proof. exact update_runs_single. Qed.
Print Assumptions C15_runs_single_state.

(* the removed states are exactly those derived from to_state: nothing before it, not to_state itself *)
Theorem C15_unsets_exactly_dependants : forall a t c, NoDup (a ++ t :: c) -> update_unsets (a ++ t :: c) t = c.
Proof. exact update_unsets_spec. Qed.
Print Assumptions C15_unsets_exactly_dependants.
