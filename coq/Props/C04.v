(* C04 — a test is never executed by two workers of one scope at the same time.
   PARTIAL: the test-and-set structure is proved (an execution begins only on a node that is not
   occupied, in the atomic section that occupies it; "occupied" is exactly "at least max(1, limit)
   workers of the scope hold the class"); the count over whole traces is checked on the implementation. *)
From Coq Require Import List ZArith NArith Bool Arith.
Import ListNotations.
From I2N Require Import Model.Retry Model.Traverse Model.TraverseRun Proofs.TraverseProofs.
Local Open Scope nat_scope.

Theorem C04_start_only_unoccupied_partial : forall g s i w s' evs pre,
  traverse_node g s i w = TnAwait s' evs pre -> is_occupied g s i w = false.
Proof. exact traverse_node_guard. Qed.
Print Assumptions C04_start_only_unoccupied_partial.

Theorem C04_occupied_is_threshold : forall g s i w,
  is_occupied g s i w =
  is_started g s i w (Some (Z.to_nat (Z.max (match mct_now (nst s i) with Some m => m | None => n_tries (nd g i) end) 1))).
Proof. exact is_occupied_spec. Qed.
Print Assumptions C04_occupied_is_threshold.

Theorem C04_global_scope_counts_holders : forall g s i w t,
  n_flat (nd g i) = false -> n_scope (nd g i) = Global ->
  is_started g s i w (Some t) = (t <=? length (shared_started g s i)).
Proof. exact is_started_global. Qed.
Print Assumptions C04_global_scope_counts_holders.

(* ---- for EVERY schedule ---- *)
From I2N Require Import Proofs.TraverseInv Proofs.TraverseExcl.

(* For every graph meeting the checked hypotheses gwf_b (one owner per composite node, bridged copies forming classes
   that agree on flat/scope), every initial pool population and every schedule: at the state reached, the number of
   workers awaiting a test (creation pre-step included) on a copy of one globally scoped class is at most the largest
   threshold among the copies - the configured one (max_concurrent_tries, else max_tries, at least 1) or the one
   after re-entrancy bumps, which only happen when a worker waited longer than the node's time budget. *)
Theorem C04_mutual_exclusion : forall g p sched i,
  gwf_b g = true -> n_flat (nd g i) = false -> n_scope (nd g i) = Global ->
  let s := fst (run_schedule g (init_state g p) sched) in
  length (runners s (class_of g i)) <= tmax g s (class_of g i).
Proof. exact mutual_exclusion_b. Qed.
Print Assumptions C04_mutual_exclusion.

(* ... and as long as no bump happened the bound is the configured limit *)
Theorem C04_bound_without_overrun : forall g s C,
  (forall j, mc s j = n_mct (nd g j)) -> tmax g s C = list_max (map (thr0 g) C).
Proof. exact tmax_unbumped. Qed.
Print Assumptions C04_bound_without_overrun.

(* a worker that awaits a test holds that node's marker, in every reachable state *)
Theorem C04_running_holds_marker : forall g p sched v j pre fc uid,
  gwf_b g = true ->
  let s := fst (run_schedule g (init_state g p) sched) in
  ph (wst s v) = Running j pre fc uid -> started (nst s j) = Some v.
Proof. exact running_holds_marker. Qed.
Print Assumptions C04_running_holds_marker.

(* the reuse scope narrowed to one swarm: the same bound for the workers of each swarm separately *)
Theorem C04_mutual_exclusion_per_swarm : forall g p sched i sw,
  gwf_b g = true -> n_flat (nd g i) = false -> n_scope (nd g i) = PerSwarm ->
  let s := fst (run_schedule g (init_state g p) sched) in
  length (runners_of g sw s (class_of g i)) <= tmax g s (class_of g i).
Proof. exact mutual_exclusion_swarm. Qed.
Print Assumptions C04_mutual_exclusion_per_swarm.

(* ... and narrowed to one worker: a worker awaits at most one test at a time, in every state *)
Theorem C04_one_test_per_worker : forall s C w, length (filter (Nat.eqb w) (runners s C)) <= 1.
Proof. exact runners_one_worker. Qed.
Print Assumptions C04_one_test_per_worker.
