(* C04 — a test is never executed by two workers of one scope at the same time.
   PARTIAL: the test-and-set structure is proved (an execution begins only on a node that is not
   occupied, in the atomic section that occupies it; "occupied" is exactly "at least max(1, limit)
   workers of the scope hold the class"); the count over whole traces is checked on the implementation. *)
From Coq Require Import List ZArith NArith Bool Arith.
Import ListNotations.
From I2N Require Import Model.Retry Model.Traverse Model.TraverseRun Proofs.TraverseProofs.
Local Open Scope nat_scope.

Theorem C04_start_only_unoccupied_partial : forall g s i w s' evs pre,
  traverse_node g s i w = TnAwait s' evs pre -> is_occupied g s i w = false.
Proof. exact traverse_node_guard. Qed.
Print Assumptions C04_start_only_unoccupied_partial.

Theorem C04_occupied_is_threshold : forall g s i w,
  is_occupied g s i w =
  is_started g s i w (Some (Z.to_nat (Z.max (match mct_now (nst s i) with Some m => m | None => n_tries (nd g i) end) 1))).
Proof. exact is_occupied_spec. Qed.
Print Assumptions C04_occupied_is_threshold.

Theorem C04_global_scope_counts_holders : forall g s i w t,
  n_flat (nd g i) = false -> n_scope (nd g i) = Global ->
  is_started g s i w (Some t) = (t <=? length (shared_started g s i)).
Proof. exact is_started_global. Qed.
Print Assumptions C04_global_scope_counts_holders.
