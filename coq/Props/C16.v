(* C16 — name lookups and visit counters are exact. *)
From Coq Require Import List NArith Bool Permutation.
Import ListNotations.
From I2N Require Import Model.Trie Model.Register Proofs.TrieProofs Proofs.RegisterProofs.

(* For every parser-shaped list of (name, test) insertions (any size, any
   order) and every non-empty query, the lookup returns, each exactly once, the
   tests of the distinct names that contain the query's variants contiguously
   (the last test inserted under a name is the one registered for it). *)
Theorem C16_get_exact : forall names q,
  shape_ok names = true -> q <> [] ->
  Permutation (get (insert_all names) q) (spec_get names q).
Proof. exact get_exact. Qed.
Print Assumptions C16_get_exact.

Theorem C16_get_order_independent : forall names names' q,
  shape_ok names = true -> NoDup (map fst names) -> Permutation names names' -> q <> [] ->
  Permutation (get (insert_all names) q) (get (insert_all names') q).
Proof. exact get_order_independent. Qed.
Print Assumptions C16_get_order_independent.

Theorem C16_contains_iff_get : forall names q,
  shape_ok names = true ->
  (contains (insert_all names) q = true <-> get (insert_all names) q <> []).
Proof. exact contains_iff_get. Qed.
Print Assumptions C16_contains_iff_get.

(* Visit counters: after any sequence of registrations the counter read for an
   optional (test, worker) pair is the number of registrations matching it, and
   the workers reported are exactly those that registered. *)
Theorem C16_counters : forall ops k w,
  get_counters (register_all ops) k w = count_kw ops k w.
Proof. exact counters_exact. Qed.
Print Assumptions C16_counters.

Theorem C16_workers : forall ops ko v,
  In v (get_workers (register_all ops) ko) <->
  exists k, In (k, v) ops /\ match ko with Some k' => k = k' | None => True end.
Proof. exact workers_exact. Qed.
Print Assumptions C16_workers.
