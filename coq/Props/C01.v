(* C01 — every test starts only with its required object states available.
   PARTIAL / REFUTED: the chain of decisions the availability argument rests on is proved link by
   link; the end-to-end statement is false of the faithful model (and of the code) when the only
   copy of a state was left in ANOTHER worker's own pool by an earlier run - see DESIGN.md, C01,
   and known_findings.json. *)
From Coq Require Import List ZArith NArith Bool Arith.
Import ListNotations.
From I2N Require Import Model.Retry Model.Traverse Model.TraverseRun Proofs.TraverseProofs.
Local Open Scope nat_scope.

(* link 1: a test is executed only on a positive run decision of its own worker *)
Theorem C01_start_needs_decision_partial : forall g s i w s' evs pre,
  traverse_node g s i w = TnAwait s' evs pre ->
  exists sc s1, run_decision g (pull_locations g (set_n s i (fun x => mkN (Some w) (finished x) (results x) (rerun_off x) (mct_now x) (locs x))) i) i w
                = Some (true, sc, s1).
Proof.
  unfold traverse_node, eval_run. intros g s i w s' evs pre H.
  destruct (is_occupied g s i w); [discriminate|].
  destruct (run_decision g _ i w) as [[[b sc] s1]|] eqn:E.
  - destruct b; [eauto|discriminate].
  - cbn in H. discriminate.
Qed.
Print Assumptions C01_start_needs_decision_partial.

(* link 2: a scan that reports nothing missing has seen every state the node sets in the worker's
   own pool or the shared pool (as far as pool_scope enables them) *)
Theorem C01_scan_sees_states_partial : forall n p w,
  scan_missing n p w = false -> forall x, In x (scan_list (n_objs n)) -> visible n p w x = true.
Proof.
  unfold scan_missing. intros n p w H x Hx. apply negb_false_iff in H. rewrite forallb_forall in H. now apply H.
Qed.
Print Assumptions C01_scan_sees_states_partial.

(* link 3: a passing execution leaves every state the node sets in the executing worker's own pool *)
Theorem C01_pass_produces_partial : forall g s i w o st,
  In o (n_objs (nd g i)) -> o_set o = Some st -> o_net o = false ->
  has_state (pool (produce g s i w)) (Some w) (o_id o, st) = true.
Proof.
  intros g s i w o st Hin Hset Hnet. unfold produce. cbn [pool].
  set (sts := flat_map _ (n_objs (nd g i))).
  assert (Hx : In (o_id o, st) sts).
  { unfold sts. apply in_flat_map. exists o. split; [exact Hin|]. rewrite Hset, Hnet. now left. }
  unfold has_state.
  assert (Hgen : forall p0 l, pool_get (pool_upd p0 (Some w) (fun l0 => fold_left (fun acc x => if existsb (pair_eqb x) acc then acc else acc ++ [x]) l l0)) (Some w)
                             = fold_left (fun acc x => if existsb (pair_eqb x) acc then acc else acc ++ [x]) l (pool_get p0 (Some w))).
  { induction p0 as [|[l' v] r IH]; intros l; cbn.
    - now rewrite Nat.eqb_refl.
    - destruct (loc_eqb l' (Some w)) eqn:E; cbn; rewrite E; auto. }
  rewrite Hgen.
  assert (Hfold : forall l acc x, (In x l \/ existsb (pair_eqb x) acc = true) ->
            existsb (pair_eqb x) (fold_left (fun acc x => if existsb (pair_eqb x) acc then acc else acc ++ [x]) l acc) = true).
  { induction l as [|y l IH]; intros acc x [H|H]; cbn; try contradiction; auto.
    - destruct H as [->|H].
      + apply IH. right. destruct (existsb (pair_eqb x) acc) eqn:E; [exact E|].
        rewrite existsb_app. cbn. unfold pair_eqb. now rewrite !N.eqb_refl, orb_true_r.
      + apply IH. now left.
    - apply IH. right. destruct (existsb (pair_eqb y) acc); [exact H|]. rewrite existsb_app, H. reflexivity. }
  apply Hfold. now left.
Qed.
Print Assumptions C01_pass_produces_partial.

(* ---- the plain sequential configuration, for EVERY initial pool population and schedule (Proofs/TraverseAvail.v) ---- *)
From I2N Require Import Proofs.TraverseAvail.

(* With one worker, no bridged copies, no state marked for removal, no permanent-object install, the own and shared
   pools in scope (simple_b, evaluated on the exported single-worker graphs): in the state right after the atomic
   section that starts an execution of test i, every state that an ordinary own parent of i sets is in the worker's
   own pool or the shared pool - unless that parent has results and none of them is a PASS (it was attempted and did
   not pass).  The statement for several workers is false (known findings). *)
Theorem C01_available_at_start_single_worker : forall g p sched out i u pre l par,
  simple_b g = true -> Forall (fun x => fst x = 0) sched ->
  let r := run_schedule g (init_state g p) (sched ++ [(0, out)]) in
  In (EStart 0 i u pre l) (last (snd r) []) ->
  In par (n_parents (nd g i)) -> plain g par -> own g 0 par = true ->
  (forall x, In x (setstates (nd g par)) -> vis (fst r) x = true) \/
  (results (nst (fst r) par) <> [] /\ forall res, In res (results (nst (fst r) par)) -> r_status res <> SPass).
Proof. exact available_at_start_b. Qed.
Print Assumptions C01_available_at_start_single_worker.

(* ---- any number of workers, EVERY graph whose result attribution agrees with ownership (fw_ok_b, checked on every exported
        graph), pool population, schedule and outcome assignment (Proofs/TraverseSrc.v): whenever a test is started, every
        worker named as a source in its get locations has a PASS result on a copy of one of the test's parents, and every
        state that copy sets and that no node marks for removal (unmarked_b) is in that worker's own pool - the location the
        test is instructed to fetch from really holds the state, now and for the rest of the run ---- *)
From I2N Require Import Proofs.TraverseKeep Proofs.TraverseSrc.
Theorem C01_named_sources_hold_the_states : forall g p sched evs w i u pre l o v,
  fw_ok_b g = true ->
  let r := run_schedule g (init_state g p) sched in
  In evs (snd r) -> In (EStart w i u pre l) evs -> In (o, Some v) l ->
  exists par res, In par (n_parents (nd g i)) /\ In res (shared_results g (fst r) par) /\ r_status res = SPass /\
    n_first_worker (nd g (r_node res)) = Some v /\
    forall x, In x (setstates (nd g (r_node res))) -> unmarked_b g x = true -> has_state (pool (fst r)) (Some v) x = true.
Proof.
  intros g p sched evs w i u pre l o v Hb r H1 H2 H3.
  destruct (sources_hold_states g p sched evs w i u pre l o v (fw_ok_b_sound g Hb) H1 H2 H3) as [par [res [A [B [C [D E]]]]]].
  exists par, res. repeat (split; [assumption|]). intros x Hx Hu. apply E; [exact Hx | now apply unmarked_b_sound].
Qed.
Print Assumptions C01_named_sources_hold_the_states.
