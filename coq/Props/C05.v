(* C05 — states are removed only after every dependant finished, and only if asked. *)
From Coq Require Import List ZArith NArith Bool Arith.
Import ListNotations.
From I2N Require Import Model.Retry Model.Traverse Model.TraverseRun Proofs.TraverseProofs.
Local Open Scope nat_scope.

(* a node with a state marked for removal is cleaned only when every involved worker (of the
   cleaning worker's swarm, or all of them for a local worker) is done with all the node's children
   on its own copy, nobody is running that copy, and all involved workers have traversed it *)
Theorem C05_unset_only_after_dependants : forall g s i w,
  clean_decision g s i w = Some true -> reversible (nd g i) = true ->
  own g w i = true /\
  is_finished g s i w None = true /\
  forall v, In v (involved g s i) -> (w_local (wk g w) = true \/ memn v (w_swarm_members (wk g w)) = true) ->
    exists j, (if own g v i then Some i else find (fun j => own g v j) (n_bridged (nd g i))) = Some j /\
              cleanup_ready g s j v = true /\
              existsb (fun r => status_eqb (r_status r) SUnknown) (results (nst s j)) = false.
Proof. exact clean_decision_reversible. Qed.
Print Assumptions C05_unset_only_after_dependants.

(* only states whose object is marked for removal (unset_mode f.), selected and not a net are removed *)
Theorem C05_only_if_asked : forall objs fc c u us gs x,
  sync_walk objs fc false false [] [] = Some (c, u, us, gs) -> In x us ->
  exists o st, In o objs /\ o_set o = Some st /\ x = (o_id o, st) /\ (o_unset o =? 0)%N = true /\
               o_net o = false /\ o_selected o = true.
Proof. exact removal_only_marked. Qed.
Print Assumptions C05_only_if_asked.

(* with the default pool filter (reuse / block) nothing is copied while backing out, and any request
   that is sent at all is a removal of marked states *)
Theorem C05_default_filter_inert : forall objs c u us gs,
  sync_walk objs 0%N false false [] [] = Some (c, u, us, gs) -> gs = [] /\ (c = true -> u = true).
Proof. exact default_filter_never_copies. Qed.
Print Assumptions C05_default_filter_inert.

(* ---- for EVERY graph, initial pool population and schedule (Proofs/TraverseDoor.v) ---- *)
From I2N Require Import Proofs.TraverseInv Proofs.TraverseDoor.

(* whatever a worker asks the door to remove while backing out of a node: the request comes from the node's own worker,
   in the atomic section in which that worker's clean decision on that node was positive, and names only states of that
   node that are marked for removal (unset_mode f.), belong to a selected vm and are not net states *)
Theorem C05_removals_only_marked_all_schedules : forall g p sched evs w i sts,
  In evs (snd (run_schedule g (init_state g p) sched)) -> In (EDoor w i true sts) evs ->
  own g w i = true /\ In (EClean w i true) evs /\ forall x, In x sts -> marked g i x.
Proof. exact removals_only_marked. Qed.
Print Assumptions C05_removals_only_marked_all_schedules.

(* ---- the pools themselves, for EVERY graph, pool population, schedule and outcome assignment, any number of workers
        (Proofs/TraverseKeep.v): a state that no node marks for removal and that is in a pool (own pool of any worker or the
        shared pool; there initially or added by a passing test) at some point of the run is in that pool at every later
        point - "setup produced for reuse remains available" ---- *)
From I2N Require Import Proofs.TraverseKeep.
Theorem C05_unmarked_states_persist : forall g p sched1 sched2 l x,
  unmarked_b g x = true ->
  has_state (pool (fst (run_schedule g (init_state g p) sched1))) l x = true ->
  has_state (pool (fst (run_schedule g (init_state g p) (sched1 ++ sched2)))) l x = true.
Proof. intros g p sched1 sched2 l x H. apply unmarked_states_persist. now apply unmarked_b_sound. Qed.
Print Assumptions C05_unmarked_states_persist.
