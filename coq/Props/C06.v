(* C06 — the parsed dependency graph is well formed.
   The theorems say what a graph accepted by the executable checker wf_graph satisfies; the checker
   is evaluated on the graphs the real parser produces (translation validation): PARTIAL - the
   parser itself is not modelled. *)
From Coq Require Import List NArith Bool Arith.
Import ListNotations.
From I2N Require Import Model.Graph Proofs.GraphProofs.

Theorem C06_acyclic : forall g r, ranks_ok g r = true -> forall a, ~ path g a a.
Proof. exact ranks_ok_acyclic. Qed.
Print Assumptions C06_acyclic.

Theorem C06_one_root : forall g, one_root g = true -> exists r, roots g = [r] /\ gn_parents (gnd g r) = [] /\
  forall i, i < length g -> gn_root (gnd g i) = true -> i = r.
Proof. exact one_root_unique. Qed.
Print Assumptions C06_one_root.

Theorem C06_all_reachable : forall g r root,
  ranks_ok g r = true -> one_root g = true -> roots g = [root] -> forall i, i < length g -> i = root \/ path g root i.
Proof. exact all_reachable. Qed.
Print Assumptions C06_all_reachable.

Theorem C06_edges_on_both_ends : forall g, edge_sym g = true ->
  forall c p objs, c < length g ->
  (In (p, objs) (gn_parents (gnd g c)) -> exists objs', In (c, objs') (gn_children (gnd g p)) /\ forall x, In x objs' <-> In x objs) /\
  (In (p, objs) (gn_children (gnd g c)) -> exists objs', In (c, objs') (gn_parents (gnd g p)) /\ forall x, In x objs' <-> In x objs).
Proof. exact edge_sym_sound. Qed.
Print Assumptions C06_edges_on_both_ends.

Theorem C06_unique_identities : forall g, nodup_ids g = true -> NoDup (map gn_id g).
Proof. exact nodup_ids_sound. Qed.
Print Assumptions C06_unique_identities.

Theorem C06_exactly_one_producer : forall g c o st,
  producers_ok g = true -> c < length g -> gn_flat (gnd g c) = false -> gn_clones (gnd g c) = [] ->
  In o (gn_objs (gnd g c)) -> go_get o = Some st -> go_net o = false -> go_given o = false ->
  exists p, producers g c (go_id o) st = [p].
Proof. exact producer_unique. Qed.
Print Assumptions C06_exactly_one_producer.

Theorem C06_producer_is_same_worker_parent : forall g c o st p,
  In p (producers g c o st) ->
  exists objs, In (p, objs) (gn_parents (gnd g c)) /\ In o objs /\ sets_state (gnd g p) o st = true /\
               opt_eqN (gn_worker (gnd g p)) (gn_worker (gnd g c)) = true.
Proof. exact producer_is_parent. Qed.
Print Assumptions C06_producer_is_same_worker_parent.

Theorem C06_creation_nodes_under_root : forall g c p objs,
  producers_ok g = true -> c < length g -> gn_flat (gnd g c) = false -> gn_clones (gnd g c) = [] ->
  In (p, objs) (gn_parents (gnd g c)) -> gn_root (gnd g p) = true ->
  exists o, gn_objroot (gnd g c) = Some o /\ forall x, In x objs <-> In x [o].
Proof. exact root_children_create. Qed.
Print Assumptions C06_creation_nodes_under_root.

Theorem C06_one_net_and_named_vms : forall g n, nets_ok g = true -> In n g -> gn_flat n = false ->
  length (filter go_net (gn_objs n)) = 1 /\ (forall v, In v (gn_param_vms n) <-> In v (gn_attr_vms n)).
Proof. exact nets_ok_sound. Qed.
Print Assumptions C06_one_net_and_named_vms.
