(* C14 — pool transfers are exact, never destroy data, and exclude each other. *)
From Coq Require Import List NArith Bool Arith.
Import ListNotations.
From I2N Require Import Model.Transfer Proofs.TransferProofs.

(* copying from the pool: source unchanged, destination identical, nothing done when both match *)
Theorem C14_download_exact : forall f c p f',
  flat_links f -> download_local f c p = Done f' ->
  fget f' p = fget f p /\ content f' c = content f p /\ (compare_local f c p = true -> f' = f).
Proof. exact download_local_exact. Qed.
Print Assumptions C14_download_exact.

Theorem C14_upload_exact : forall f c p f',
  flat_links f -> upload_local f c p = Done f' ->
  fget f' c = fget f c /\ content f' p = content f c /\ (compare_local f c p = true -> f' = f).
Proof. exact upload_local_exact. Qed.
Print Assumptions C14_upload_exact.

Theorem C14_delete : forall f p f',
  delete_local f p = Done f' -> fget f' p = Absent /\ forall q, q <> p -> fget f' q = fget f q.
Proof. exact delete_local_spec. Qed.
Print Assumptions C14_delete.

(* a transfer that fails leaves every file as it was *)
Theorem C14_failed_unchanged : forall f c p,
  (forall f', download_local f c p = Failed f' -> f' = f) /\
  (forall f', upload_local f c p = Failed f' -> f' = f) /\
  (forall f', delete_local f p = Failed f' -> f' = f) /\
  (forall f', download_link f c p = Failed f' -> f' = f) /\
  (forall f', upload_link f c p = Failed f' -> f' = f).
Proof. exact failed_unchanged. Qed.
Print Assumptions C14_failed_unchanged.

(* link mode: real data is never replaced by a link, the pool file is never touched, a link is
   never uploaded *)
Theorem C14_link_keeps_data : forall f c p b,
  fget f c = File b -> fget (res_fs (download_link f c p)) c = File b.
Proof. exact download_link_keeps_data. Qed.
Print Assumptions C14_link_keeps_data.

Theorem C14_link_pool_untouched : forall f c p, c <> p -> fget (res_fs (download_link f c p)) p = fget f p.
Proof. exact download_link_pool_untouched. Qed.
Print Assumptions C14_link_pool_untouched.

Theorem C14_link_result : forall f c p f',
  download_link f c p = Done f' ->
  f' = f \/ (fget f' c = Link p /\ forall q, q <> c -> fget f' q = fget f q).
Proof. exact download_link_result. Qed.
Print Assumptions C14_link_result.

Theorem C14_no_link_upload : forall f c p, islink f c = true -> upload_link f c p = Failed f.
Proof. exact upload_link_refuses_link. Qed.
Print Assumptions C14_no_link_upload.

(* the lock protocol, for any number of processes and any interleaving of their steps:
   PARTIAL by nature - TryLock/Crash define what the kernel lock does (see DESIGN.md) *)
Theorem C14_mutex : forall t evs s p q,
  lrun (init_sys t) evs = Some s -> st s p = Inside -> st s q = Inside -> p = q.
Proof. exact mutex. Qed.
Print Assumptions C14_mutex.

Theorem C14_release : forall s p s',
  Inv s -> st s p = Inside -> (lstep s (Leave p) = Some s' \/ lstep s (Crash p) = Some s') -> holder s' = None.
Proof. exact release. Qed.
Print Assumptions C14_release.

Theorem C14_timeout_never_enters : forall evs s s' p,
  lrun s evs = Some s' -> out (st s p) -> st s' p <> Inside.
Proof. exact timed_out_never_enters. Qed.
Print Assumptions C14_timeout_never_enters.

Theorem C14_enters_only_when_free : forall s e s' p,
  lstep s e = Some s' -> st s p <> Inside -> st s' p = Inside -> e = TryLock p /\ holder s = None.
Proof. exact enters_only_when_free. Qed.
Print Assumptions C14_enters_only_when_free.

(* non-vacuity: two processes contend, the second waits, times out after 2 attempts and never enters *)
Example C14_contention :
  match lrun (init_sys 2) [Begin 0; Begin 1; TryLock 0; TryLock 1; TryLock 1; Leave 0] with
  | Some s => (match st s 0, st s 1 with Finished, TimedOut => true | _, _ => false end) = true
  | None => False
  end.
Proof. vm_compute. reflexivity. Qed.
