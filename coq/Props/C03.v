(* C03 — no test is executed more often than its retry budget per reuse scope.
   PARTIAL: the budget arithmetic (C10_rerun_iff) and the inertness of flat / clone-source nodes are
   proved; that the traversal consults them with the right result lists is checked on traces. *)
From Coq Require Import List ZArith NArith Bool Arith Lia.
Import ListNotations.
From I2N Require Import Model.Retry Model.Traverse Model.TraverseRun Proofs.RetryProofs Proofs.TraverseProofs Proofs.TraverseInv Proofs.TraversePresent Model.Scan.
Open Scope Z_scope.

(* clone sources and flat tests are never executed *)
Theorem C03_inert_never_run : forall g s i w sc s',
  run_decision g s i w = Some (true, sc, s') -> n_flat (nd g i) = false /\ n_cloned (nd g i) = false.
Proof. intros g s i w sc s' H. apply run_decision_startable in H. unfold startable in H. tauto. Qed.
Print Assumptions C03_inert_never_run.

(* a rerun is granted only while the number of results so far (the in-flight ones included) is below
   max_tries: so the number of executions counted in one result list never exceeds max(1, max_tries) *)
Theorem C03_rerun_needs_budget_partial : forall c rr st mt sts,
  runnable c -> valid_tokens (rerun_tokens c) = Some rr -> valid_tokens (stop c) = Some st -> tries c = Some mt ->
  0 <= mt -> should_rerun c sts = RTrue -> Z.of_nat (length sts) < mt.
Proof.
  intros c rr st mt sts Hr H1 H2 H3 Hpos H. apply (should_rerun_iff c rr st mt sts Hr H1 H2 H3 Hpos) in H. tauto.
Qed.
Print Assumptions C03_rerun_needs_budget_partial.

(* a stateless test without any result runs once; with results it runs again only by should_rerun *)
Theorem C03_stateless_first_run : forall c, runnable c -> run_stateless c [] = Some true.
Proof. intros c [H1 [H2 H3]]. unfold run_stateless. now rewrite H1, H2, H3. Qed.
Print Assumptions C03_stateless_first_run.

(* for EVERY graph, initial pool population and schedule: flat tests and clone sources are never executed *)
Theorem C03_inert_all_schedules : forall g p sched evs w i u pre l,
  In evs (snd (run_schedule g (init_state g p) sched)) -> In (EStart w i u pre l) evs ->
  n_flat (nd g i) = false /\ n_cloned (nd g i) = false.
Proof. intros g p sched evs w i u pre l H1 H2. pose proof (all_starts_ok g p sched evs w i u pre l H1 H2) as H. unfold startable in H. tauto. Qed.
Print Assumptions C03_inert_all_schedules.

(* ---- over the traversal model, for EVERY graph, initial pool population and schedule (Proofs/TraverseUid.v) ---- *)
From I2N Require Import Proofs.TraverseUid.

(* a test that saves no state is started only while fewer results than its retry budget (max_tries, at least 1) exist
   on its class of bridged copies: its identifier - the number of results so far - is below the budget ... *)
Theorem C03_stateless_start_below_budget : forall g p sched evs w i u l,
  In evs (snd (run_schedule g (init_state g p) sched)) -> In (EStart w i u false l) evs ->
  nonobjc g i -> stateful (nd g i) = false -> (u < budget g i)%nat.
Proof. exact stateless_start_below_budget. Qed.
Print Assumptions C03_stateless_start_below_budget.

(* ... hence it is executed on a node copy at most max_tries (at least 1) times *)
Theorem C03_stateless_executions_within_budget : forall g p sched i,
  nonobjc g i -> stateful (nd g i) = false ->
  (length (node_uids i (snd (run_schedule g (init_state g p) sched))) <= budget g i)%nat.
Proof. exact stateless_executions_within_budget. Qed.
Print Assumptions C03_stateless_executions_within_budget.

(* "a setup test whose states are all found when it is first examined is not executed in that scope", for the global reuse
   scope, for EVERY graph, pool population, schedule and outcome assignment and ANY number of workers: split the run's events
   at an examination that finds the states of j present (EScan w j false); if before it nothing had happened to the copies of
   that test (no scan, no start) and no worker had failed, then no copy is executed afterwards.  cls_b: every copy lies in the
   graph, sees the same class and is an ordinary stateful test with the global scope (checked on every exported graph). *)
Theorem C03_present_setup_never_executed : forall g p sched i pre w j post v k u b l,
  cls_b g i = true ->
  concat (snd (run_schedule g (init_state g p) sched)) = pre ++ EScan w j false :: post ->
  In j (class_of g i) -> (forall x, In x pre -> cevb (class_of g i) x = false /\ isfail x = false) ->
  In (EStart v k u b l) post -> ~ In k (class_of g i).
Proof. exact present_setup_never_executed. Qed.
Print Assumptions C03_present_setup_never_executed.

(* the scan answers "run" for a test that sets states only when the check run reported a missing state (an assertion):
   a fault of the check run is an error and never turns a present setup into one to be executed *)
Theorem C03_scan_runs_only_on_missing_state : forall r, scan_classify false r = Some true -> r = DoorAssertion.
Proof. intros []; cbn; congruence. Qed.
Print Assumptions C03_scan_runs_only_on_missing_state.
