(* C08, for every schedule: a test is only ever told to fetch a state from the pool of a worker that produced it.
   The get locations of a node are the shared pool plus, per dependency object, the workers that have a PASS result
   on the producing parent (pull_locations); PASS results never disappear, so every worker named in the locations
   of an execution that is started has a PASS result on a parent of that node - at that moment and ever after. *)
From Coq Require Import List ZArith NArith Bool Arith Lia PrimFloat.
Import ListNotations.
From I2N Require Import Model.Retry Model.Traverse Model.TraverseRun Proofs.TraverseProofs Proofs.TraverseInv Proofs.TraverseExcl.
Local Open Scope nat_scope.

(* PASS results persist; the number of node states stays *)
Definition pm (s s' : state) : Prop :=
  length (ns s') = length (ns s) /\
  forall k r, In r (results (nst s k)) -> r_status r = SPass -> In r (results (nst s' k)).
(* every worker named in a node's locations has a PASS result on one of the node's parents *)
Definition LocOk (g : graph) (s : state) : Prop :=
  forall i o v, In (o, Some v) (locs (nst s i)) -> exists p, In p (n_parents (nd g i)) /\ In v (result_workers g s p).
Definition lp (g : graph) (s s' : state) : Prop := pm s s' /\ (LocOk g s -> LocOk g s').

Lemma pm_refl s : pm s s.
Proof. split; [reflexivity | auto]. Qed.
Lemma pm_trans a b c : pm a b -> pm b c -> pm a c.
Proof. intros [A1 A2] [B1 B2]. split; [congruence | auto]. Qed.

Lemma result_workers_In g s p v :
  In v (result_workers g s p) <->
  exists r, In r (shared_results g s p) /\ r_status r = SPass /\ n_first_worker (nd g (r_node r)) = Some v.
Proof.
  unfold result_workers. rewrite dedup_In, in_flat_map. split.
  - intros [r [Hr Hv]]. exists r. split; [exact Hr|]. destruct (r_status r); try contradiction. split; [reflexivity|].
    destruct (n_first_worker (nd g (r_node r))); cbn in Hv; [destruct Hv as [<-|[]]; reflexivity | contradiction].
  - intros [r [Hr [Hs Hv]]]. exists r. split; [exact Hr|]. rewrite Hs, Hv. now left.
Qed.
Lemma shared_results_In g s p r : In r (shared_results g s p) <-> exists j, In j (class_of g p) /\ In r (results (nst s j)).
Proof. unfold shared_results. apply in_flat_map. Qed.

Lemma result_workers_mono g s s' p v : pm s s' -> In v (result_workers g s p) -> In v (result_workers g s' p).
Proof.
  intros [_ H] Hv. apply result_workers_In in Hv. destruct Hv as [r [Hr [Hs Hf]]]. apply result_workers_In.
  exists r. split; [|split; assumption]. apply shared_results_In in Hr. destruct Hr as [j [Hj Hr]].
  apply shared_results_In. exists j. split; [exact Hj | now apply H].
Qed.

Lemma lp_refl g s : lp g s s.
Proof. split; [apply pm_refl | auto]. Qed.
Lemma lp_trans g a b c : lp g a b -> lp g b c -> lp g a c.
Proof. intros [A1 A2] [B1 B2]. split; [eapply pm_trans; eauto | auto]. Qed.
Lemma lp_ns g s s' : ns s' = ns s -> lp g s s'.
Proof.
  intros H. split.
  - unfold pm, nst. rewrite H. split; [reflexivity | auto].
  - intros HL i o v Hin. unfold nst in Hin. rewrite H in Hin. destruct (HL i o v Hin) as [p [Hp Hv]]. exists p. split; [exact Hp|].
    unfold result_workers, shared_results, nst in *. now rewrite H.
Qed.

(* updates of one node that keep its locations and its PASS results *)
Definition keepsL (f : nstate -> nstate) : Prop :=
  forall x, locs (f x) = locs x /\ forall r, In r (results x) -> r_status r = SPass -> In r (results (f x)).

Lemma pm_set_n s i f : (forall x r, In r (results x) -> r_status r = SPass -> In r (results (f x))) -> pm s (set_n s i f).
Proof.
  intros Hf. split; [apply length_ns_set_n|]. intros k r Hr Hs.
  destruct (nst_set_n_cases s i f k) as [E|[-> [_ E]]]; rewrite E; [exact Hr | now apply Hf].
Qed.
Lemma lp_set_n g s i f : keepsL f -> lp g s (set_n s i f).
Proof.
  intros Hk. assert (Hpm : pm s (set_n s i f)) by (apply pm_set_n; intros x; apply (Hk x)).
  split; [exact Hpm|]. intros HL j o v Hin.
  assert (Hin' : In (o, Some v) (locs (nst s j))).
  { destruct (nst_set_n_cases s i f j) as [E|[-> [_ E]]]; rewrite E in Hin; [exact Hin|]. destruct (Hk (nst s i)) as [K _]. now rewrite K in Hin. }
  destruct (HL j o v Hin') as [p [Hp Hv]]. exists p. split; [exact Hp | now apply (result_workers_mono g s)].
Qed.
Ltac keepsL_tac := let x := fresh "x" in intros x; split; [reflexivity | cbn; intros; try apply in_or_app; auto].

Lemma add_locs_In g old new x : In x (add_locs g old new) -> In x old \/ In x new.
Proof.
  unfold add_locs. revert old. induction new as [|y new IH]; intros old H; cbn in H; [now left|].
  destruct (loc_mem g y old).
  - destruct (IH old H) as [A|A]; [now left | right; now right].
  - destruct (IH (old ++ [y]) H) as [A|A]; [|right; now right].
    apply in_app_or in A. destruct A as [A|[<-|[]]]; [now left | right; now left].
Qed.

Lemma lp_pull_locations g s i : lp g s (pull_locations g s i).
Proof.
  unfold pull_locations. destruct (n_flat (nd g i)); [apply lp_refl|].
  set (new := flat_map _ (n_parents (nd g i))).
  set (f := fun x => mkN (started x) (finished x) (results x) (rerun_off x) (mct_now x) (add_locs g (locs x) new)).
  assert (Hpm : pm s (set_n s i f)) by (apply pm_set_n; intros x r Hr _; exact Hr).
  split; [exact Hpm|]. intros HL j o v Hin.
  assert (Hcases : In (o, Some v) (locs (nst s j)) \/ (j = i /\ In (o, Some v) new)).
  { destruct (nst_set_n_cases s i f j) as [E|[-> [_ E]]]; rewrite E in Hin; [now left|].
    unfold f in Hin. cbn in Hin. apply add_locs_In in Hin. destruct Hin; [now left | right; split; [reflexivity | assumption]]. }
  destruct Hcases as [Hold|[-> Hnew]].
  - destruct (HL j o v Hold) as [p [Hp Hv]]. exists p. split; [exact Hp | now apply (result_workers_mono g s)].
  - unfold new in Hnew. apply in_flat_map in Hnew. destruct Hnew as [p [Hp Hx]]. apply in_flat_map in Hx.
    destruct Hx as [loc [Hloc Hx]]. apply in_map_iff in Hx. destruct Hx as [o' [Heq _]]. injection Heq as _ Hl. subst loc.
    destruct Hloc as [Hloc|Hloc]; [discriminate|]. apply in_map_iff in Hloc. destruct Hloc as [v' [Heq Hv]]. injection Heq as Hv'. subst v'.
    exists p. split; [exact Hp | now apply (result_workers_mono g s)].
Qed.

Lemma lp_run_decision g s i w b sc s' : run_decision g s i w = Some (b, sc, s') -> lp g s s'.
Proof.
  unfold run_decision. intros H.
  repeat match type of H with
         | (if ?c then _ else _) = _ => destruct c
         | match ?x with _ => _ end = _ => destruct x eqn:?
         end; try discriminate; injection H as _ _ <-; try apply lp_refl; apply lp_set_n; keepsL_tac.
Qed.
Lemma lp_eval_run g s i w b s' e : eval_run g s i w = Some (b, s', e) -> lp g s s'.
Proof.
  unfold eval_run. destruct (run_decision g s i w) as [[[b0 sc] s0]|] eqn:E; [|discriminate].
  intros H. injection H as _ <- _. eapply lp_run_decision; eauto.
Qed.

Lemma In_replace_first_unknown l i st r : In r l -> r_status r = SPass -> In r (replace_first_unknown l i st).
Proof.
  induction l as [|x t IH]; intros Hr Hs; [destruct Hr|]. cbn.
  destruct (status_eqb (r_status x) SUnknown && Nat.eqb (r_node x) i && negb (r_prev x)) eqn:E.
  - destruct Hr as [->|Hr]; [|apply in_or_app; now left]. rewrite Hs in E. discriminate E.
  - destruct Hr as [->|Hr]; [now left | right; now apply IH].
Qed.
Lemma In_remove_first_unknown l i r : In r l -> r_status r = SPass -> In r (remove_first_unknown l i).
Proof.
  induction l as [|x t IH]; intros Hr Hs; [destruct Hr|]. cbn.
  destruct (status_eqb (r_status x) SUnknown && Nat.eqb (r_node x) i && negb (r_prev x)) eqn:E.
  - destruct Hr as [->|Hr]; [|exact Hr]. rewrite Hs in E. discriminate E.
  - destruct Hr as [->|Hr]; [now left | right; now apply IH].
Qed.

Lemma lp_finish_run g s i w out : lp g s (finish_run g s i w out).
Proof.
  unfold finish_run. destruct out as [st|]; [|apply lp_refl].
  set (s1 := set_n s i _).
  assert (H : lp g s s1).
  { apply lp_set_n. intros x. split; [reflexivity|]. cbn. intros r Hr Hs. now apply In_replace_first_unknown. }
  destruct st; exact H.
Qed.
Lemma lp_mark_done g s i w : lp g s (mark_done s i w).
Proof. unfold mark_done. apply lp_set_n. keepsL_tac. Qed.
Lemma lp_end_pre g s i : lp g s (end_pre s i).
Proof. unfold end_pre. apply lp_set_n. intros x. split; [reflexivity|]. cbn. intros r Hr Hs. now apply In_remove_first_unknown. Qed.

Lemma lp_reverse_node g s i w s' e : reverse_node g s i w = Some (s', e) -> lp g s s'.
Proof.
  unfold reverse_node. intros H.
  assert (Hk : forall st (o : option nat), lp g st (set_n st i (fun x => mkN o (finished x) (results x) (rerun_off x) (mct_now x) (locs x))))
    by (intros; apply lp_set_n; keepsL_tac).
  destruct (is_occupied g s i w); [injection H as <- _; apply lp_refl|].
  set (s1 := set_n s i _) in H.
  assert (H1 : lp g s s1) by apply Hk.
  assert (Hd : forall u sts, lp g s1 (door_effect s1 w u sts)) by (intros; apply lp_ns; reflexivity).
  repeat match type of H with
         | (if ?c then _ else _) = _ => destruct c
         | match ?x with _ => _ end = _ => destruct x eqn:?
         | (let '(_, _) := ?x in _) = _ => destruct x eqn:?
         end; try discriminate; injection H as <- _;
    (eapply lp_trans; [exact H1|]);
    first [ apply Hk | eapply lp_trans; [apply Hd | apply Hk] ].
Qed.

Lemma lp_bounce g s w next : lp g s (fst (bounce g s w next)).
Proof.
  unfold bounce. cbn [fst]. match goal with |- lp g s (set_w ?a _ _) => apply (lp_trans g s a); [|apply lp_ns; reflexivity] end.
  destruct (_ && _); [|apply lp_refl]. apply lp_set_n. keepsL_tac.
Qed.

(* ---- starts ---- *)
(* the workers named in the locations of the executions started in a piece have a PASS result on a parent (at s') *)
Definition lstart (g : graph) (s' : state) (e : list event) : Prop :=
  forall w i u p l o v, In (EStart w i u p l) e -> In (o, Some v) l ->
    exists par, In par (n_parents (nd g i)) /\ In v (result_workers g s' par).
Definition lpiece (g : graph) (s s' : state) (e : list event) : Prop :=
  lp g s s' /\ (LocOk g s -> lstart g s' e).

Lemma lstart_no_start g s' e : no_start e -> lstart g s' e.
Proof. intros H w i u p l o v Hin. exfalso. eapply H; eauto. Qed.
Lemma lstart_mono g a b e : pm a b -> lstart g a e -> lstart g b e.
Proof.
  intros Hp H w i u p l o v H1 H2. destruct (H w i u p l o v H1 H2) as [par [A B]]. exists par. split; [exact A | now apply (result_workers_mono g a)].
Qed.
Lemma lpiece_npiece g s s' e : lp g s s' -> no_start e -> lpiece g s s' e.
Proof. intros H Hn. split; [exact H | intros _; now apply lstart_no_start]. Qed.
Lemma lpiece_trans g a b c e1 e2 : lpiece g a b e1 -> lpiece g b c e2 -> lpiece g a c (e1 ++ e2).
Proof.
  intros [A1 A2] [B1 B2]. split; [eapply lp_trans; eauto|]. intros HL.
  intros w i u p l o v Hin Hl. apply in_app_or in Hin. destruct Hin as [Hin|Hin].
  - apply (lstart_mono g b c e1 (proj1 B1) (A2 HL) w i u p l o v Hin Hl).
  - apply (B2 (proj2 A1 HL) w i u p l o v Hin Hl).
Qed.
Lemma lpiece_ns g s s1 s2 e : ns s2 = ns s1 -> lpiece g s s1 e -> lpiece g s s2 e.
Proof.
  intros Hns H. rewrite <- (app_nil_r e). apply (lpiece_trans g s s1 s2); [exact H|].
  apply lpiece_npiece; [now apply lp_ns | apply no_start_nil].
Qed.

Lemma start_event_ok g s i w u p : LocOk g s -> lstart g s [EStart w i u p (locs (nst s i))].
Proof.
  intros HL w' i' u' p' l o v [H|[]] Hl. injection H as _ <- _ _ <-. now apply (HL i o v).
Qed.

Lemma traverse_node_l g s i w :
  match traverse_node g s i w with
  | TnAwait s' e _ | TnDone s' e | TnFail s' e => lpiece g s s' e
  end.
Proof.
  unfold traverse_node. destruct (is_occupied g s i w); [apply lpiece_npiece; [apply lp_refl | apply no_start_nil]|].
  set (s1 := set_n s i _). set (s2 := pull_locations g s1 i).
  assert (H02 : lp g s s2).
  { eapply lp_trans; [|apply lp_pull_locations]. unfold s1. apply lp_set_n. keepsL_tac. }
  unfold eval_run. destruct (run_decision g s2 i w) as [[[b sc] s3]|] eqn:E.
  - pose proof (lp_run_decision _ _ _ _ _ _ _ E) as H23.
    assert (H03 : lp g s s3) by (eapply lp_trans; eauto).
    assert (Hns : no_start (if n_root (nd g i) then [] else
                              (match sc with Some m => [EScan w i m] | None => [] end) ++ [EDecide w i b])).
    { destruct (n_root (nd g i)); [apply no_start_nil|]. destruct sc; ns_simple. }
    destruct b.
    + destruct (n_objroot (nd g i)); cbn.
      * apply (lpiece_trans g s s3); [now apply lpiece_npiece|].
        set (f := fun x => mkN (started x) (finished x) (results x ++ [mkR i SUnknown false]) (rerun_off x) (mct_now x) (locs x)).
        assert (Hf : lp g s3 (set_n s3 i f)) by (apply lp_set_n; keepsL_tac).
        split; [exact Hf|]. intros HL. apply (lstart_mono g s3 _ _ (proj1 Hf)). now apply start_event_ok.
      * apply (lpiece_trans g s s3); [now apply lpiece_npiece|].
        set (f := fun x => mkN (started x) (finished x) (results x ++ [mkR i SUnknown false]) (rerun_off x) (mct_now x) (locs x)).
        assert (Hf : lp g s3 (set_n s3 i f)) by (apply lp_set_n; keepsL_tac).
        split; [exact Hf|]. intros HL. apply (lstart_mono g s3 _ _ (proj1 Hf)). now apply start_event_ok.
    + cbn. apply lpiece_npiece; [eapply lp_trans; [exact H03 | apply lp_mark_done] | exact Hns].
  - unfold fail. cbn. apply lpiece_npiece; [eapply lp_trans; [exact H02 | apply lp_ns; reflexivity] | ns_simple].
Qed.

Definition lit (g : graph) (s : state) (r : it_res) : Prop :=
  match r with Cont s' e | Halt s' e => lpiece g s s' e end.

Lemma lit_prepend g s s1 e r : lpiece g s s1 e -> lit g s1 r ->
  lit g s (match r with Cont s2 e2 => Cont s2 (e ++ e2) | Halt s2 e2 => Halt s2 (e ++ e2) end).
Proof. intros H1 H2. destruct r as [s2 e2|s2 e2]; cbn in *; now apply (lpiece_trans g s s1 s2). Qed.

Lemma lpiece_fail g s0 s w c evs : lpiece g s0 s evs -> lpiece g s0 (set_phase s w (Failed c)) (evs ++ [EFail w c]).
Proof.
  intros H. apply (lpiece_trans g s0 s); [exact H|]. apply lpiece_npiece; [apply lp_ns; reflexivity | ns_simple].
Qed.
Lemma lpiece_nil g s : lpiece g s s [].
Proof. apply lpiece_npiece; [apply lp_refl | apply no_start_nil]. Qed.

Lemma after_from_child_l g s w next previous : lit g s (after_from_child g s w next previous).
Proof.
  unfold after_from_child. destruct (eval_run g s next w) as [[[b s1] evs]|] eqn:E.
  - pose proof (lp_eval_run _ _ _ _ _ _ _ E) as Hr. pose proof (no_start_eval_run _ _ _ _ _ _ _ E) as Hns.
    set (s2 := if b then s1 else drop_parent g s1 previous next w).
    assert (Hns2 : ns s2 = ns s1) by (unfold s2; destruct b; reflexivity).
    cbn. apply lpiece_npiece.
    + eapply lp_trans; [exact Hr|]. eapply lp_trans; [apply lp_ns; exact Hns2 | apply lp_ns; reflexivity].
    + apply no_start_app; [exact Hns|]. destruct b; ns_simple.
  - unfold fail. cbn. apply (lpiece_fail g s s w 3 []). apply lpiece_nil.
Qed.

Lemma after_from_parent_l g s w next : lit g s (after_from_parent g s w next).
Proof.
  unfold after_from_parent. destruct (eval_run g s next w) as [[[b s1] evs]|] eqn:E.
  - pose proof (lp_eval_run _ _ _ _ _ _ _ E) as Hr. pose proof (no_start_eval_run _ _ _ _ _ _ _ E) as Hns.
    assert (Hn1 : lpiece g s s1 evs) by now apply lpiece_npiece.
    destruct b.
    + cbn. apply lpiece_npiece; [eapply lp_trans; [exact Hr | apply lp_ns; reflexivity] | exact Hns].
    + destruct (cleanup_ready g s1 next w).
      * set (s2 := fold_left _ (n_parents (nd g next)) s1).
        assert (Hns2 : ns s2 = ns s1) by apply ns_fold_drop_child.
        destruct (reverse_node g s2 next w) as [[s3 e]|] eqn:Er.
        -- pose proof (lp_reverse_node _ _ _ _ _ _ Er) as Hr3. pose proof (no_start_reverse_node _ _ _ _ _ _ Er) as Hns3.
           cbn. apply lpiece_npiece.
           ++ eapply lp_trans; [exact Hr|]. eapply lp_trans; [apply lp_ns; exact Hns2|]. eapply lp_trans; [exact Hr3 | apply lp_ns; reflexivity].
           ++ apply no_start_app; [exact Hns|]. apply (no_start_app [EDropChildren w next] e); [ns_simple | exact Hns3].
        -- unfold fail. cbn. change (evs ++ [EDropChildren w next; EFail w 5]) with (evs ++ [EDropChildren w next] ++ [EFail w 5]).
           rewrite app_assoc. apply (lpiece_fail g s s2 w 5). apply lpiece_npiece.
           ++ eapply lp_trans; [exact Hr | apply lp_ns; exact Hns2].
           ++ apply no_start_app; [exact Hns | ns_simple].
      * destruct (pick_child g s1 next w) as [[c s2]|] eqn:Ep.
        -- pose proof (ns_pick_child _ _ _ _ _ _ Ep) as Hns2. cbn. apply lpiece_npiece.
           ++ eapply lp_trans; [exact Hr|]. eapply lp_trans; [apply lp_ns; exact Hns2 | apply lp_ns; reflexivity].
           ++ apply no_start_app; [exact Hns | ns_simple].
        -- unfold fail. cbn. now apply (lpiece_fail g s s1 w 1).
  - unfold fail. cbn. apply (lpiece_fail g s s w 3 []). apply lpiece_nil.
Qed.

Lemma do_traverse_l g s w next (fc : bool) previous : lit g s (do_traverse g s w next fc previous).
Proof.
  unfold do_traverse. pose proof (traverse_node_l g s next w) as H.
  destruct (traverse_node g s next w) as [s1 e pre|s1 e|s1 e].
  - cbn. apply (lpiece_ns g s s1); [reflexivity | exact H].
  - apply (lit_prepend g s s1); [exact H|]. destruct fc; [apply after_from_child_l | apply after_from_parent_l].
  - exact H.
Qed.

Lemma iter_l g s w : lit g s (iter g s w).
Proof.
  unfold iter.
  assert (Hfail : forall c, lit g s (let '(s1, e) := fail s w c in Halt s1 e)).
  { intros c. unfold fail. cbn. apply (lpiece_fail g s s w c []). apply lpiece_nil. }
  destruct (cleanup_ready g s (g_root g) w).
  - destruct (path (wst s w)) as [|r [|r2 rest]]; try apply Hfail.
    destruct (Nat.eqb r (g_root g)); [|apply Hfail].
    cbn. apply lpiece_npiece; [apply lp_ns; reflexivity | ns_simple].
  - destruct (path (wst s w)) as [|next [|previous rest]]; try apply Hfail.
    + destruct (pick_child g s next w) as [[c s1]|] eqn:Ep; [|apply Hfail].
      pose proof (ns_pick_child _ _ _ _ _ _ Ep) as Hns.
      cbn. apply lpiece_npiece; [eapply lp_trans; [apply lp_ns; exact Hns | apply lp_ns; reflexivity] | ns_simple].
    + destruct (is_occupied g s next w).
      * pose proof (lp_bounce g s w next) as Hb. unfold bounce in *. cbn [fst] in Hb. cbn. apply lpiece_npiece; [exact Hb | ns_simple].
      * assert (Hpp : lit g s (match pick_parent g s next w with
                                | None => let '(s1, e) := fail s w 1 in Halt s1 e
                                | Some (p, s1) => Cont (push s1 w p) [EPick w next p false]
                                end)).
        { destruct (pick_parent g s next w) as [[p s1]|] eqn:Ep; [|apply Hfail].
          pose proof (ns_pick_parent _ _ _ _ _ _ Ep) as Hns.
          cbn. apply lpiece_npiece; [eapply lp_trans; [apply lp_ns; exact Hns | apply lp_ns; reflexivity] | ns_simple]. }
        destruct (memn previous (n_children (nd g next))).
        -- destruct (setup_ready g s next w); [apply do_traverse_l | exact Hpp].
        -- destruct (memn previous (n_parents (nd g next))); [|apply Hfail].
           destruct (negb (setup_ready g s next w)); [exact Hpp | apply do_traverse_l].
Qed.

Lemma run_loop_l fuel g w : forall s, lpiece g s (fst (run_loop fuel g s w)) (snd (run_loop fuel g s w)).
Proof.
  induction fuel as [|f IH]; intros s; cbn [run_loop].
  - unfold fail. cbn. apply (lpiece_fail g s s w 6 []). apply lpiece_nil.
  - pose proof (iter_l g s w) as H. destruct (iter g s w) as [s1 e|s1 e]; cbn in H.
    + specialize (IH s1). destruct (run_loop f g s1 w) as [s2 e2]. cbn in *. now apply (lpiece_trans g s s1 s2).
    + exact H.
Qed.

Lemma continue_l g w s r : lit g s r ->
  lpiece g s (fst (match r with Halt s2 e => (s2, e) | Cont s2 e => let '(s3, e3) := run_loop FUEL g s2 w in (s3, e ++ e3) end))
             (snd (match r with Halt s2 e => (s2, e) | Cont s2 e => let '(s3, e3) := run_loop FUEL g s2 w in (s3, e ++ e3) end)).
Proof.
  intros H. destruct r as [s2 e|s2 e]; cbn in H; [|exact H].
  pose proof (run_loop_l FUEL g w s2) as HL. destruct (run_loop FUEL g s2 w) as [s3 e3]. cbn in *. now apply (lpiece_trans g s s2 s3).
Qed.

Lemma lpiece_pre g s s1 (r : state * list event) : lp g s s1 -> lpiece g s1 (fst r) (snd r) -> lpiece g s (fst r) (snd r).
Proof.
  intros H1 H2. change (snd r) with ([] ++ snd r). apply (lpiece_trans g s s1); [|exact H2].
  apply lpiece_npiece; [exact H1 | apply no_start_nil].
Qed.

Theorem resume_l g s w out : lpiece g s (fst (resume g s w out)) (snd (resume g s w out)).
Proof.
  unfold resume. destruct (ph (wst s w)) as [| next pre fc uid | | |c] eqn:Eph.
  - apply (lpiece_pre g s (set_phase s w Ready)); [apply lp_ns; reflexivity | apply run_loop_l].
  - set (s0 := mkS (ws s) (ns s) (r_ps s) (r_pc s) (r_ds s) (r_dc s) (pool s) _).
    assert (H0 : lp g s s0) by (apply lp_ns; reflexivity).
    set (seen := match find _ (job s0) with Some e => Some (snd e) | None => None end).
    destruct pre.
    + set (s1 := end_pre s0 next).
      assert (H1 : lp g s s1) by (eapply lp_trans; [exact H0 | apply lp_end_pre]).
      destruct (run_ok seen).
      * unfold start_run. cbn [fst snd].
        match goal with |- lpiece g s (set_phase ?a w ?p) _ => set (s2 := a) end.
        assert (H12 : lp g s1 s2) by (unfold s2; apply lp_set_n; keepsL_tac).
        apply (lpiece_ns g s s2); [reflexivity|]. split; [eapply lp_trans; eauto|].
        intros HL. apply (lstart_mono g s1 s2 _ (proj1 H12)). apply start_event_ok. now apply (proj2 H1).
      * set (s2 := set_n s1 next _). set (s3 := set_phase (mark_done s2 next w) w Ready).
        assert (H3 : lp g s s3).
        { eapply lp_trans; [exact H1|]. apply (lp_trans g s1 s2); [unfold s2; apply lp_set_n; keepsL_tac|].
          eapply lp_trans; [apply lp_mark_done | apply lp_ns; reflexivity]. }
        apply (lpiece_pre g s s3); [exact H3|]. apply continue_l.
        destruct fc; [apply after_from_child_l | apply after_from_parent_l].
    + set (s3 := set_phase (mark_done (finish_run g s0 next w seen) next w) w Ready).
      assert (H3 : lp g s s3).
      { eapply lp_trans; [exact H0|]. eapply lp_trans; [apply lp_finish_run|]. eapply lp_trans; [apply lp_mark_done | apply lp_ns; reflexivity]. }
      apply (lpiece_pre g s s3); [exact H3|]. apply continue_l.
      destruct fc; [apply after_from_child_l | apply after_from_parent_l].
  - apply (lpiece_pre g s (set_phase s w Ready)); [apply lp_ns; reflexivity | apply run_loop_l].
  - cbn. apply lpiece_nil.
  - cbn. apply lpiece_nil.
Qed.

(* ---- whole schedules ---- *)
Lemma LocOk_init g p : LocOk g (init_state g p).
Proof. intros i o v Hin. rewrite nst_init in Hin. destruct Hin. Qed.

Lemma schedule_l g sched : forall s, LocOk g s ->
  let r := run_schedule g s sched in
  pm s (fst r) /\ LocOk g (fst r) /\ forall evs, In evs (snd r) -> lstart g (fst r) evs.
Proof.
  induction sched as [|[w out] r IH]; intros s HL; cbn [run_schedule]; cbn zeta.
  - cbn. split; [apply pm_refl|]. split; [exact HL | intros evs []].
  - destruct (resume_l g s w out) as [[Hpm HL1] Hst]. destruct (resume g s w out) as [s1 e]. cbn [fst snd] in *.
    specialize (IH s1 (HL1 HL)). cbn zeta in IH. destruct (run_schedule g s1 r) as [s2 es]. cbn [fst snd] in *.
    destruct IH as [I1 [I2 I3]]. split; [eapply pm_trans; eauto|]. split; [exact I2|].
    intros evs [<-|Hin]; [apply (lstart_mono g s1 s2 _ I1); now apply Hst | now apply I3].
Qed.

(* C08: for every graph, initial pool population and schedule - every worker named as a source in the get locations
   an execution is started with has a PASS result on one of that test's parents (and still has it at the end) *)
Theorem named_sources_are_producers g p sched evs w i u pre l o v :
  let r := run_schedule g (init_state g p) sched in
  In evs (snd r) -> In (EStart w i u pre l) evs -> In (o, Some v) l ->
  exists par, In par (n_parents (nd g i)) /\
    exists res, In res (shared_results g (fst r) par) /\ r_status res = SPass /\ n_first_worker (nd g (r_node res)) = Some v.
Proof.
  cbn zeta. destruct (schedule_l g sched _ (LocOk_init g p)) as [_ [_ H]]. intros H1 H2 H3.
  destruct (H evs H1 w i u pre l o v H2 H3) as [par [A B]]. exists par. split; [exact A|]. now apply result_workers_In.
Qed.
