From Coq Require Import List ZArith NArith Bool Lia.
Import ListNotations.
From I2N Require Import Model.Retry.
Open Scope Z_scope.

Lemma status_eqb_eq a b : status_eqb a b = true <-> a = b.
Proof. destruct a, b; cbn; split; intros H; try reflexivity; try discriminate. Qed.

Lemma smem_In s l : smem s l = true <-> In s l.
Proof.
  unfold smem. rewrite existsb_exists. split.
  - intros [x [Hx E]]. apply status_eqb_eq in E. now subst.
  - intros H. exists s. split; [exact H | now apply status_eqb_eq].
Qed.

Definition runnable (c : rcfg) : Prop := dry c = false /\ flat c = false /\ cloned c = false.

(* C10_rerun_iff *)
Theorem should_rerun_iff c rr st mt sts :
  runnable c ->
  valid_tokens (rerun_tokens c) = Some rr -> valid_tokens (stop c) = Some st -> tries c = Some mt ->
  0 <= mt ->
  (should_rerun c sts = RTrue <->
   1 < mt /\ Z.of_nat (length sts) < mt /\ (forall s, In s sts -> In s rr) /\
   (forall s, In s st -> ~ In s sts)).
Proof.
  intros [Hd [Hf Hc]] Hrr Hst Hmt Hpos. unfold should_rerun. rewrite Hd, Hf, Hc, Hrr, Hst, Hmt.
  destruct (mt <? 0) eqn:E0; [apply Z.ltb_lt in E0; lia|].
  destruct (forallb (fun s => smem s rr) sts) eqn:Ea; cbn [negb].
  - rewrite forallb_forall in Ea.
    destruct (existsb (fun s => smem s sts) st) eqn:Es.
    + split; [discriminate|]. intros [_ [_ [_ H]]]. apply existsb_exists in Es.
      destruct Es as [s [Hs Hm]]. apply smem_In in Hm. exfalso. exact (H s Hs Hm).
    + assert (Hstop : forall s, In s st -> ~ In s sts).
      { intros s Hs Hin. assert (existsb (fun s => smem s sts) st = true).
        { apply existsb_exists. exists s. split; auto. now apply smem_In. } congruence. }
      assert (Hall : forall s, In s sts -> In s rr) by (intros s Hs; apply smem_In; auto).
      destruct (mt =? 1) eqn:E1.
      * apply Z.eqb_eq in E1. split; [discriminate | lia].
      * apply Z.eqb_neq in E1. destruct (0 <? mt - Z.of_nat (length sts)) eqn:E2.
        -- apply Z.ltb_lt in E2. split; [|reflexivity]. intros _. repeat split; auto; lia.
        -- apply Z.ltb_ge in E2. split; [discriminate | lia].
  - split; [discriminate|]. intros [_ [_ [H _]]].
    assert (forallb (fun s => smem s rr) sts = true).
    { apply forallb_forall. intros s Hs. apply smem_In. auto. } congruence.
Qed.

(* C10_invalid_rejected *)
Theorem invalid_rejected c sts :
  runnable c ->
  valid_tokens (rerun_tokens c) = None \/ valid_tokens (stop c) = None \/ tries c = None \/
  (exists mt, tries c = Some mt /\ mt < 0) ->
  should_rerun c sts = RErr.
Proof.
  intros [Hd [Hf Hc]] H. unfold should_rerun. rewrite Hd, Hf, Hc.
  destruct H as [H|[H|[H|[mt [H Hneg]]]]].
  - now rewrite H.
  - rewrite H. now destruct (valid_tokens (rerun_tokens c)).
  - rewrite H. destruct (valid_tokens (rerun_tokens c)); [destruct (valid_tokens (stop c))|]; reflexivity.
  - rewrite H. destruct (valid_tokens (rerun_tokens c)); [destruct (valid_tokens (stop c))|]; try reflexivity.
    assert (E : mt <? 0 = true) by (apply Z.ltb_lt; lia). now rewrite E.
Qed.

Lemma valid_tokens_none l : valid_tokens l = None <-> In None l.
Proof.
  induction l as [|[s|] r IH]; cbn.
  - split; [discriminate | contradiction].
  - destruct (valid_tokens r); split; intros H; try discriminate.
    + destruct H as [H|H]; [discriminate|]. apply IH in H. discriminate.
    + right. now apply IH.
    + reflexivity.
  - split; auto.
Qed.

(* inert nodes never rerun, whatever the settings *)
Theorem inert_never c sts : dry c = true \/ flat c = true \/ cloned c = true -> should_rerun c sts = RFalse.
Proof.
  unfold should_rerun. intros [H|[H|H]]; rewrite H; try reflexivity.
  - destruct (dry c); reflexivity.
  - destruct (dry c); [reflexivity|]. destruct (flat c); reflexivity.
Qed.

(* ---- C10_replay: with the replay defaults ---- *)
Definition replay_defaults (c : rcfg) : Prop :=
  runnable c /\ replay c = true /\ max_tries c = None /\ rerun c = None /\ stop c = [].

Definition acceptable (s : status) : bool := negb (smem s [SFail; SError; SWarn]).

Theorem replay_stateless c prev :
  replay_defaults c ->
  run_stateless c prev =
  Some (match prev with
        | [] => true                                         (* no previous result: run *)
        | _ => forallb (fun s => negb (acceptable s)) prev && (length prev <? 2)%nat
        end).
Proof.
  intros [[Hd [Hf Hc]] [Hr [Hm [Hrr Hs]]]]. unfold run_stateless. rewrite Hd, Hf, Hc.
  destruct prev as [|p prev]; [reflexivity|]. cbn [length Nat.eqb].
  unfold should_rerun, rerun_tokens, tries. rewrite Hd, Hf, Hc, Hr, Hm, Hrr, Hs. cbn [valid_tokens Z.ltb Z.compare].
  assert (E : forall l, forallb (fun s => negb (acceptable s)) l = forallb (fun s => smem s [SFail; SError; SWarn]) l).
  { clear. induction l as [|x l IH]; cbn; [reflexivity|]. rewrite IH. unfold acceptable.
    now rewrite negb_involutive. }
  rewrite E. destruct (forallb (fun s => smem s [SFail; SError; SWarn]) (p :: prev)); cbn [negb existsb andb]; [|reflexivity].
  change (2 =? 1) with false. cbv iota. cbn [length].
  destruct (Z.ltb_spec 0 (2 - Z.of_nat (S (length prev)))) as [H|H];
    destruct (Nat.ltb_spec (S (length prev)) 2) as [H'|H']; try reflexivity; exfalso; lia.
Qed.

Corollary replay_acceptable_not_rerun c prev :
  replay_defaults c -> prev <> [] -> existsb acceptable prev = true -> run_stateless c prev = Some false.
Proof.
  intros H Hne Hex. rewrite (replay_stateless c prev H). destruct prev as [|p prev]; [contradiction|].
  f_equal. apply andb_false_iff. left. apply not_true_is_false. intros Hall.
  rewrite forallb_forall in Hall. apply existsb_exists in Hex. destruct Hex as [s [Hs Ha]].
  specialize (Hall s Hs). rewrite Ha in Hall. discriminate.
Qed.

(* a stateful test with an acceptable previous result is not executed unless a state it
   produces is missing; without a previous result it is executed iff a state is missing *)
Theorem replay_stateful c prev scan_run :
  replay_defaults c -> (forall s, In s prev -> acceptable s = true) ->
  fst (run_stateful c false scan_run false prev) = Some scan_run.
Proof.
  intros [[Hd [Hf Hc]] [Hr [Hm [Hrr Hs]]]] Hacc. unfold run_stateful. rewrite Hd, Hf, Hc.
  destruct scan_run; [reflexivity|]. cbn [orb negb andb].
  destruct prev as [|p prev]; [reflexivity|]. cbn [length Nat.eqb andb fst].
  unfold should_rerun, rerun_tokens, tries. rewrite Hd, Hf, Hc, Hr, Hm, Hrr, Hs. cbn [valid_tokens Z.ltb Z.compare].
  assert (E : forallb (fun s => smem s [SFail; SError; SWarn]) (p :: prev) = false).
  { cbn [forallb]. specialize (Hacc p (or_introl eq_refl)). unfold acceptable in Hacc.
    apply negb_true_iff in Hacc. now rewrite Hacc. }
  rewrite E. reflexivity.
Qed.

(* ---- C10_uids_distinct: repeated executions carry distinct identifiers ---- *)
Lemma uids_lower n evs : forall u, In u (uids n evs) -> (n <= u)%nat.
Proof.
  revert n. induction evs as [|[|k s] r IH]; intros n u H; cbn in H; [contradiction| |].
  - destruct H as [<-|H]; [lia|]. apply IH in H. lia.
  - now apply IH.
Qed.

Theorem uids_distinct n evs : NoDup (uids n evs).
Proof.
  revert n. induction evs as [|[|k s] r IH]; intros n; cbn; [constructor| |apply IH].
  constructor; [|apply IH]. intros H. apply uids_lower in H. lia.
Qed.

(* each execution reads its own result: with one entry per (name, uid) the look-up returns it *)
Theorem lookup_own tests k s :
  NoDup (map fst tests) -> In (k, s) tests -> lookup_result tests k = Some s.
Proof.
  unfold lookup_result. induction tests as [|[k' s'] r IH]; intros Hnd Hin; [contradiction|].
  cbn [find fst]. inversion Hnd as [|? ? Hni Hnd']; subst. destruct Hin as [H|H].
  - injection H as -> ->. unfold key_eqb. now rewrite N.eqb_refl, Nat.eqb_refl.
  - destruct (key_eqb k' k) eqn:E.
    + exfalso. apply Hni. unfold key_eqb in E. apply andb_true_iff in E. destruct E as [E1 E2].
      apply N.eqb_eq in E1. apply Nat.eqb_eq in E2. destruct k' as [a1 b1], k as [a2 b2]. cbn in *. subst.
      change (a2, b2) with (fst ((a2, b2), s)). now apply in_map.
    + now apply IH.
Qed.

Theorem lookup_none tests k : (forall s, ~ In (k, s) tests) -> lookup_result tests k = None.
Proof.
  unfold lookup_result. induction tests as [|[k' s'] r IH]; intros H; [reflexivity|]. cbn [find fst].
  destruct (key_eqb k' k) eqn:E.
  - exfalso. unfold key_eqb in E. apply andb_true_iff in E. destruct E as [E1 E2].
    apply N.eqb_eq in E1. apply Nat.eqb_eq in E2. destruct k' as [a1 b1], k as [a2 b2]. cbn in *. subst. apply (H s'). now left.
  - apply IH. intros s Hs. apply (H s). now right.
Qed.

(* ---- C10_verdict ---- *)
Theorem verdict_iff tests :
  verdict tests = true <->
  forall name, In name (map fst tests) -> exists s, In (name, s) tests /\ ok_status s = true.
Proof.
  unfold verdict. rewrite forallb_forall. split.
  - intros H name Hn. apply in_map_iff in Hn. destruct Hn as [[n s0] [<- Hin]]. specialize (H _ Hin).
    apply existsb_exists in H. destruct H as [[n' s] [Hin' E]]. apply andb_true_iff in E.
    destruct E as [E1 E2]. apply N.eqb_eq in E1. cbn in *. subst. eauto.
  - intros H [n s0] Hin. destruct (H n) as [s [Hs Hok]]; [change n with (fst (n, s0)); now apply in_map|].
    apply existsb_exists. exists (n, s). split; auto. cbn. now rewrite N.eqb_refl.
Qed.

(* the duration check only ever turns PASS into WARN: both acceptable, so the verdict and the
   return value are unaffected *)
Theorem final_status_ok s dur prev : ok_status (final_status s dur prev) = ok_status s.
Proof. destruct s; cbn; try reflexivity. destruct (_ <? _); reflexivity. Qed.

Theorem run_ok_false_iff found :
  run_ok found = false <-> found = None \/ found = Some SError \/ found = Some SFail.
Proof.
  destruct found as [[]|]; cbn; split; intros H; auto; try discriminate;
    destruct H as [H|[H|H]]; discriminate.
Qed.

(* every result of every replayed job is among the previous results *)
Lemma previous_results_complete {A} (jobs : list (option (list A))) res : previous_results jobs = Some res ->
  forall l x, In (Some l) jobs -> In x l -> In x res.
Proof.
  revert res. induction jobs as [|j r IH]; intros res H l x Hj Hx; [destruct Hj|].
  cbn in H. destruct j as [l0|]; [|discriminate]. destruct (previous_results r) as [t|] eqn:E; [|discriminate].
  injection H as <-. apply in_or_app. destruct Hj as [Hj|Hj]; [injection Hj as ->; now left | right; eapply IH; eauto].
Qed.
Lemma previous_results_sound {A} (jobs : list (option (list A))) res : previous_results jobs = Some res ->
  forall x, In x res -> exists l, In (Some l) jobs /\ In x l.
Proof.
  revert res. induction jobs as [|j r IH]; intros res H x Hx; cbn in H; [injection H as <-; destruct Hx|].
  destruct j as [l0|]; [|discriminate]. destruct (previous_results r) as [t|] eqn:E; [|discriminate].
  injection H as <-. apply in_app_or in Hx. destruct Hx as [Hx|Hx]; [exists l0; split; [now left | exact Hx]|].
  destruct (IH t eq_refl x Hx) as [l [A1 A2]]. exists l. split; [now right | exact A2].
Qed.
