From Coq Require Import List NArith Bool.
Import ListNotations.
From I2N Require Import Model.VmStates.

Lemma mem_In s l : mem s l = true <-> In s l.
Proof.
  unfold mem. rewrite existsb_exists. split.
  - intros (y & Hin & He). apply N.eqb_eq in He. now subst.
  - intros H. exists s. split; auto. apply N.eqb_refl.
Qed.

Lemma In_inter s a b : In s (inter a b) <-> In s a /\ In s b.
Proof. unfold inter. rewrite filter_In, mem_In. tauto. Qed.

Lemma In_fold_inter s rest : forall i,
  In s (fold_left inter rest i) <-> In s i /\ forall j, In j rest -> In s j.
Proof.
  induction rest as [|r rest IH]; intros i; cbn.
  - split; [intros H; split; [auto | intros j []] | tauto].
  - rewrite IH, In_inter. split.
    + intros [[H1 H2] H3]. split; auto. intros j [<-|Hj]; auto.
    + intros [H1 H2]. repeat split; auto.
Qed.

(* C17: for any non-empty list of images (any number, any order of their state
   lists) a vm state is listed exactly when every image has a state of that name *)
Theorem vm_states_spec imgs s :
  imgs <> [] -> (In s (vm_states imgs) <-> forall i, In i imgs -> In s i).
Proof.
  destruct imgs as [|i rest]; [congruence|]. intros _. cbn [vm_states].
  rewrite In_fold_inter. split.
  - intros [H1 H2] j [<-|Hj]; auto.
  - intros H. split; [apply H; left; auto | intros j Hj; apply H; right; auto].
Qed.

Theorem ram_states_spec memfiles imgs s :
  imgs <> [] ->
  (In s (ram_states memfiles imgs) <-> In s memfiles /\ forall i, In i imgs -> In s i).
Proof.
  intros Hne. unfold ram_states. rewrite filter_In, mem_In, (vm_states_spec _ _ Hne). tauto.
Qed.

(* no state is listed twice unless an image lists it twice *)
Theorem vm_states_NoDup imgs : (forall i, In i imgs -> NoDup i) -> NoDup (vm_states imgs).
Proof.
  destruct imgs as [|i rest]; cbn [vm_states]; intros H; [constructor|].
  assert (Hi : NoDup i) by (apply H; left; auto). clear H. revert i Hi.
  induction rest as [|r rest IH]; intros i Hi; cbn; auto.
  apply IH. unfold inter. now apply NoDup_filter.
Qed.

(* on / off classification by recorded vm-state size *)
Theorem on_off_spec l t :
  (In t (off_states l) <-> exists r, In r l /\ tag r = t /\ vmsize_zero r = true) /\
  (In t (on_states l) <-> exists r, In r l /\ tag r = t /\ vmsize_zero r = false).
Proof.
  unfold off_states, on_states. rewrite !in_map_iff. split; split.
  - intros (r & <- & Hin). apply filter_In in Hin. exists r. tauto.
  - intros (r & Hin & <- & Hz). exists r. split; auto. apply filter_In. auto.
  - intros (r & <- & Hin). apply filter_In in Hin as [Hin Hz]. apply negb_true_iff in Hz. eauto.
  - intros (r & Hin & <- & Hz). exists r. split; auto. apply filter_In. rewrite Hz. auto.
Qed.

Theorem on_off_disjoint l t :
  NoDup (map tag l) -> In t (off_states l) -> In t (on_states l) -> False.
Proof.
  intros Hnd Hoff Hon. apply (proj1 (on_off_spec l t)) in Hoff as (r1 & H1 & T1 & Z1).
  apply (proj2 (on_off_spec l t)) in Hon as (r2 & H2 & T2 & Z2).
  assert (r1 = r2); [|subst; congruence].
  clear Z1 Z2. subst t. induction l as [|x l IH]; [destruct H1|].
  cbn in Hnd. apply NoDup_cons_iff in Hnd as [Hx Hnd].
  destruct H1 as [<-|H1], H2 as [<-|H2]; auto.
  - exfalso. apply Hx. rewrite <- T2. now apply in_map.
  - exfalso. apply Hx. rewrite T2. now apply in_map.
Qed.

(* ---- the pinned commit: refutation witnesses (replayed on the code by the check) ---- *)
Example show_two_images_raised_at_pinned_commit :
  vm_states_pinned [[1; 2]; [2; 3]]%N = None /\ vm_states [[1; 2]; [2; 3]]%N = [2]%N.
Proof. split; reflexivity. Qed.

Example show_empty_first_image_at_pinned_commit :
  vm_states_pinned [[]; [2; 3]]%N = Some [2; 3]%N /\ vm_states [[]; [2; 3]]%N = [].
Proof. split; reflexivity. Qed.

Example vm_states_example :
  vm_states [[1; 2; 3]; [3; 2]; [2; 5; 3]]%N = [2; 3]%N.
Proof. reflexivity. Qed.
