(* Trace-level invariants of the traversal model: for EVERY schedule, graph and initial pool
   population, executions are started only by the worker a node belongs to, never for flat,
   clone-source, dry-run or root nodes. *)
From Coq Require Import List ZArith NArith Bool Arith Lia PrimFloat.
Import ListNotations.
From I2N Require Import Model.Retry Model.Traverse Model.TraverseRun Proofs.TraverseProofs.
Local Open Scope nat_scope.

(* ---- frame: a section of worker w changes no other worker's record ---- *)
Definition others_same (w : nat) (s s' : state) : Prop := forall v, v <> w -> wst s' v = wst s v.

Lemma os_refl w s : others_same w s s.
Proof. intros v _. reflexivity. Qed.
Lemma os_trans w a b c : others_same w a b -> others_same w b c -> others_same w a c.
Proof. intros H1 H2 v Hv. rewrite (H2 v Hv). now apply H1. Qed.

Lemma os_ws_eq w s s' : ws s' = ws s -> others_same w s s'.
Proof. intros H v _. unfold wst. now rewrite H. Qed.

Lemma os_set_w w s f : others_same w s (set_w s w f).
Proof. intros v Hv. unfold wst, set_w. cbn. apply nth_upd_nth_other. congruence. Qed.

Lemma ws_set_n s i f : ws (set_n s i f) = ws s.
Proof. reflexivity. Qed.

#[local] Hint Resolve os_refl os_set_w : os.

Lemma os_set_phase w s p : others_same w s (set_phase s w p).
Proof. apply os_set_w. Qed.
Lemma os_push w s i : others_same w s (push s w i).
Proof. apply os_set_w. Qed.
Lemma os_pop w s : others_same w s (pop s w).
Proof. apply os_set_w. Qed.

Lemma os_fail w s c : others_same w s (fst (fail s w c)).
Proof. apply os_set_w. Qed.

Lemma ws_run_decision g s i w b sc s' : run_decision g s i w = Some (b, sc, s') -> ws s' = ws s.
Proof.
  unfold run_decision. intros H.
  repeat match type of H with
         | (if ?c then _ else _) = _ => destruct c
         | match ?x with _ => _ end = _ => destruct x eqn:?
         end; try discriminate; injection H as _ _ <-; reflexivity.
Qed.

Lemma ws_eval_run g s i w b s' e : eval_run g s i w = Some (b, s', e) -> ws s' = ws s.
Proof.
  unfold eval_run. destruct (run_decision g s i w) as [[[b0 sc] s0]|] eqn:E; [|discriminate].
  intros H. injection H as _ <- _. eapply ws_run_decision; eauto.
Qed.

Lemma ws_pull_locations g s i : ws (pull_locations g s i) = ws s.
Proof. unfold pull_locations. destruct (n_flat (nd g i)); reflexivity. Qed.

Lemma ws_pick_child g s i w c s' : pick_child g s i w = Some (c, s') -> ws s' = ws s.
Proof. unfold pick_child. destruct (pick_from _ _ _); [|discriminate]. intros H. now injection H as _ <-. Qed.
Lemma ws_pick_parent g s i w c s' : pick_parent g s i w = Some (c, s') -> ws s' = ws s.
Proof. unfold pick_parent. destruct (pick_from _ _ _); [|discriminate]. intros H. now injection H as _ <-. Qed.

Lemma ws_fold_drop_child g w next l : forall s, ws (fold_left (fun st p => drop_child g st p next w) l s) = ws s.
Proof. induction l as [|p l IH]; intros s; cbn; [reflexivity|]. now rewrite IH. Qed.

Lemma ws_reverse_node g s i w s' e : reverse_node g s i w = Some (s', e) -> ws s' = ws s.
Proof.
  unfold reverse_node. intros H.
  repeat match type of H with
         | (if ?c then _ else _) = _ => destruct c
         | match ?x with _ => _ end = _ => destruct x eqn:?
         | (let '(_, _) := ?x in _) = _ => destruct x eqn:?
         end; try discriminate; injection H as <- _; reflexivity.
Qed.

(* ---- which events a piece of the loop can emit ---- *)
Definition no_start (evs : list event) : Prop := forall w i u p l, ~ In (EStart w i u p l) evs.

Lemma no_start_app a b : no_start a -> no_start b -> no_start (a ++ b).
Proof. intros Ha Hb w i u p l H. apply in_app_or in H. destruct H; [eapply Ha | eapply Hb]; eauto. Qed.
Lemma no_start_nil : no_start [].
Proof. intros w i u p l []. Qed.

Ltac ns_simple := let Hq := fresh "Hq" in intros ? ? ? ? ? Hq; cbn in Hq;
  repeat match goal with H : _ \/ _ |- _ => destruct H end; try discriminate; try contradiction.

Lemma no_start_fail s w c : no_start (snd (fail s w c)).
Proof. ns_simple. Qed.

Lemma no_start_eval_run g s i w b s' e : eval_run g s i w = Some (b, s', e) -> no_start e.
Proof.
  unfold eval_run. destruct (run_decision g s i w) as [[[b0 sc] s0]|]; [|discriminate].
  intros H. injection H as _ _ <-. destruct (n_root (nd g i)); [apply no_start_nil|].
  destruct sc; ns_simple.
Qed.

Lemma no_start_reverse_node g s i w s' e : reverse_node g s i w = Some (s', e) -> no_start e.
Proof.
  unfold reverse_node. intros H.
  repeat match type of H with
         | (if ?c then _ else _) = _ => destruct c
         | match ?x with _ => _ end = _ => destruct x eqn:?
         | (let '(_, _) := ?x in _) = _ => destruct x eqn:?
         end; try discriminate; injection H as _ <-; ns_simple.
Qed.

Definition starts_ok (g : graph) (w : nat) (evs : list event) : Prop :=
  forall w' i u p l, In (EStart w' i u p l) evs -> w' = w /\ startable g w i.

Lemma starts_ok_no_start g w evs : no_start evs -> starts_ok g w evs.
Proof. intros H w' i u p l Hin. exfalso. eapply H; eauto. Qed.
Lemma starts_ok_app g w a b : starts_ok g w a -> starts_ok g w b -> starts_ok g w (a ++ b).
Proof. intros Ha Hb w' i u p l H. apply in_app_or in H. destruct H; [eapply Ha | eapply Hb]; eauto. Qed.

(* the phase of the worker after a piece of the loop: Running only on a startable node *)
Definition phase_ok (g : graph) (w : nat) (p : phase) : Prop :=
  match p with Running n _ _ _ => startable g w n | _ => True end.

Lemma wst_set_w_same s w f : w < length (ws s) -> wst (set_w s w f) w = f (wst s w).
Proof. intros H. unfold wst, set_w. cbn. now apply nth_upd_nth_same. Qed.

Lemma length_ws_set_w s w f : length (ws (set_w s w f)) = length (ws s).
Proof. unfold set_w. cbn. apply length_upd_nth. Qed.

(* ---- the resumed worker's own phase ---- *)
Definition P (g : graph) (w : nat) (s : state) : Prop := phase_ok g w (ph (wst s w)).

Lemma wst_set_w_cases s w f :
  wst (set_w s w f) w = f (wst s w) \/ (wst (set_w s w f) w = wst s w /\ length (ws s) <= w).
Proof.
  destruct (Nat.lt_ge_cases w (length (ws s))) as [H|H].
  - left. now apply wst_set_w_same.
  - right. split; [|exact H]. unfold wst, set_w. cbn.
    rewrite !nth_overflow; try reflexivity; rewrite ?length_upd_nth; exact H.
Qed.

Lemma wst_ws_eq a b w : ws a = ws b -> wst a w = wst b w.
Proof. unfold wst. now intros ->. Qed.

Lemma P_ws_eq g w s s' : ws s' = ws s -> P g w s -> P g w s'.
Proof. unfold P, wst. now intros ->. Qed.

Lemma P_set_w_keep g w s f : (forall x, ph (f x) = ph x) -> P g w s -> P g w (set_w s w f).
Proof.
  intros Hf H. unfold P in *. destruct (wst_set_w_cases s w f) as [E|[E _]]; rewrite E; [rewrite Hf|]; exact H.
Qed.

Lemma P_set_phase g w s p : P g w s -> phase_ok g w p -> P g w (set_phase s w p).
Proof.
  intros H Hp. unfold P, set_phase in *. destruct (wst_set_w_cases s w (fun x => mkW (path x) (occ_at x) (occ_wait x) p)) as [E|[E _]];
    rewrite E; [exact Hp | exact H].
Qed.

Lemma P_push g w s i : P g w s -> P g w (push s w i).
Proof. intros H. unfold push, set_path. apply P_set_w_keep; auto. Qed.
Lemma P_pop g w s : P g w s -> P g w (pop s w).
Proof. intros H. unfold pop, set_path. apply P_set_w_keep; auto. Qed.

Lemma P_fail g w s c : P g w s -> P g w (fst (fail s w c)).
Proof. intros H. unfold fail. cbn [fst]. apply P_set_phase; [exact H | exact I]. Qed.

(* a bundle: what every piece of the loop guarantees *)
Definition piece_ok (g : graph) (w : nat) (s s' : state) (e : list event) : Prop :=
  starts_ok g w e /\ others_same w s s' /\ P g w s'.

Lemma piece_fail g w s c : P g w s -> piece_ok g w s (set_phase s w (Failed c)) [EFail w c].
Proof.
  intros H. split; [apply starts_ok_no_start; ns_simple|]. split; [apply os_set_phase | apply P_set_phase; [exact H | exact I]].
Qed.

Lemma piece_trans g w a b c e1 e2 : piece_ok g w a b e1 -> piece_ok g w b c e2 -> piece_ok g w a c (e1 ++ e2).
Proof.
  intros [H1 [H2 _]] [H4 [H5 H6]]. split; [now apply starts_ok_app|]. split; [eapply os_trans; eauto | exact H6].
Qed.

Definition it_ok (g : graph) (w : nat) (s : state) (r : it_res) : Prop :=
  match r with Cont s' e | Halt s' e => piece_ok g w s s' e end.

Lemma after_from_child_ok g s w next previous : P g w s -> it_ok g w s (after_from_child g s w next previous).
Proof.
  intros HP. unfold after_from_child. destruct (eval_run g s next w) as [[[b s1] evs]|] eqn:E.
  - pose proof (ws_eval_run _ _ _ _ _ _ _ E) as Hws. pose proof (no_start_eval_run _ _ _ _ _ _ _ E) as Hns.
    cbn. split; [|split].
    + apply starts_ok_no_start, no_start_app; [exact Hns|]. destruct b; ns_simple.
    + eapply os_trans; [|apply os_pop]. apply os_ws_eq. destruct b; [exact Hws | cbn; exact Hws].
    + apply P_pop. apply (P_ws_eq g w s); [|exact HP]. destruct b; [exact Hws | cbn; exact Hws].
  - unfold fail. cbn. now apply piece_fail.
Qed.

Lemma after_from_parent_ok g s w next : P g w s -> it_ok g w s (after_from_parent g s w next).
Proof.
  intros HP. unfold after_from_parent. destruct (eval_run g s next w) as [[[b s1] evs]|] eqn:E.
  - pose proof (ws_eval_run _ _ _ _ _ _ _ E) as Hws. pose proof (no_start_eval_run _ _ _ _ _ _ _ E) as Hns.
    assert (HP1 : P g w s1) by (apply (P_ws_eq g w s); auto).
    assert (Hos1 : others_same w s s1) by now apply os_ws_eq.
    destruct b.
    + cbn. split; [now apply starts_ok_no_start|]. split; [eapply os_trans; [exact Hos1 | apply os_pop] | now apply P_pop].
    + destruct (cleanup_ready g s1 next w).
      * set (s2 := fold_left _ (n_parents (nd g next)) s1).
        assert (Hws2 : ws s2 = ws s1) by apply ws_fold_drop_child.
        destruct (reverse_node g s2 next w) as [[s3 e]|] eqn:Er.
        -- pose proof (ws_reverse_node _ _ _ _ _ _ Er) as Hws3. cbn. split; [|split].
           ++ apply starts_ok_no_start. apply no_start_app; [exact Hns|].
              apply (no_start_app [EDropChildren w next] e); [ns_simple|].
              eapply no_start_reverse_node; eauto.
           ++ eapply os_trans; [|apply os_pop]. apply os_ws_eq. congruence.
           ++ apply P_pop. apply (P_ws_eq g w s); [congruence | exact HP].
        -- unfold fail. cbn.
           assert (HP2 : P g w s2) by (apply (P_ws_eq g w s1); auto).
           pose proof (piece_fail g w s2 5 HP2) as [F1 [F2 F3]]. split; [|split].
           ++ apply starts_ok_app; [now apply starts_ok_no_start|].
              apply (starts_ok_app g w [EDropChildren w next] [EFail w 5]); [apply starts_ok_no_start; ns_simple | exact F1].
           ++ eapply os_trans; [|exact F2]. apply os_ws_eq. congruence.
           ++ exact F3.
      * destruct (pick_child g s1 next w) as [[c s2]|] eqn:Ep.
        -- pose proof (ws_pick_child _ _ _ _ _ _ Ep) as Hws2. cbn. split; [|split].
           ++ apply starts_ok_no_start, no_start_app; [exact Hns | ns_simple].
           ++ eapply os_trans; [|apply os_push]. apply os_ws_eq. congruence.
           ++ apply P_push. apply (P_ws_eq g w s); [congruence | exact HP].
        -- unfold fail. cbn.
           pose proof (piece_fail g w s1 1 HP1) as [F1 [F2 F3]]. split; [|split].
           ++ apply starts_ok_app; [now apply starts_ok_no_start | exact F1].
           ++ eapply os_trans; eauto.
           ++ exact F3.
  - unfold fail. cbn. now apply piece_fail.
Qed.

Lemma traverse_node_ok g s i w : P g w s ->
  match traverse_node g s i w with
  | TnAwait s' e pre => starts_ok g w e /\ ws s' = ws s /\ startable g w i
  | TnDone s' e => no_start e /\ ws s' = ws s
  | TnFail s' e => piece_ok g w s s' e
  end.
Proof.
  intros HP. unfold traverse_node. destruct (is_occupied g s i w); [split; [apply no_start_nil | reflexivity]|].
  set (s1 := set_n s i _). set (s2 := pull_locations g s1 i).
  assert (Hws2 : ws s2 = ws s) by (unfold s2; rewrite ws_pull_locations; reflexivity).
  unfold eval_run. destruct (run_decision g s2 i w) as [[[b sc] s3]|] eqn:E.
  - pose proof (ws_run_decision _ _ _ _ _ _ _ E) as Hws3.
    assert (Hns : no_start (if n_root (nd g i) then [] else
                              (match sc with Some m => [EScan w i m] | None => [] end) ++ [EDecide w i b])).
    { destruct (n_root (nd g i)); [apply no_start_nil|]. destruct sc; ns_simple. }
    destruct b.
    + pose proof (run_decision_startable _ _ _ _ _ _ E) as Hst.
      destruct (n_objroot (nd g i)); cbn.
      * split; [|split; [congruence | exact Hst]]. apply starts_ok_app; [now apply starts_ok_no_start|].
        intros w' i' u p l [H|[]]. injection H as <- <- _ _ _. auto.
      * split; [|split; [congruence | exact Hst]]. apply starts_ok_app; [now apply starts_ok_no_start|].
        intros w' i' u p l [H|[]]. injection H as <- <- _ _ _. auto.
    + split; [exact Hns | cbn; congruence].
  - unfold fail. cbn. assert (HP2 : P g w s2) by (apply (P_ws_eq g w s); auto).
    pose proof (piece_fail g w s2 3 HP2) as [F1 [F2 F3]]. split; [exact F1|]. split; [|exact F3].
    eapply os_trans; [|exact F2]. now apply os_ws_eq.
Qed.

Lemma it_ok_prepend g w s s1 e r :
  ws s1 = ws s -> no_start e -> it_ok g w s1 r ->
  it_ok g w s (match r with Cont s2 e2 => Cont s2 (e ++ e2) | Halt s2 e2 => Halt s2 (e ++ e2) end).
Proof.
  intros Hws Hns H. destruct r as [s2 e2|s2 e2]; cbn in *; destruct H as [H1 [H2 H3]];
    (split; [apply starts_ok_app; [now apply starts_ok_no_start | exact H1]|]; split; [|exact H3];
     eapply os_trans; [apply os_ws_eq; exact Hws | exact H2]).
Qed.

Lemma do_traverse_ok g s w next (fc : bool) previous : P g w s -> it_ok g w s (do_traverse g s w next fc previous).
Proof.
  intros HP. unfold do_traverse. pose proof (traverse_node_ok g s next w HP) as H.
  destruct (traverse_node g s next w) as [s1 e pre|s1 e|s1 e].
  - destruct H as [H1 [H2 H3]]. cbn. split; [exact H1|]. split.
    + eapply os_trans; [apply os_ws_eq; exact H2 | apply os_set_phase].
    + apply P_set_phase; [apply (P_ws_eq g w s); auto | exact H3].
  - destruct H as [H1 H2]. apply (it_ok_prepend g w s s1); auto.
    assert (HP1 : P g w s1) by (apply (P_ws_eq g w s); auto).
    destruct fc; [now apply after_from_child_ok | now apply after_from_parent_ok].
  - exact H.
Qed.

Lemma bounce_ok g s w next : P g w s -> piece_ok g w s (fst (bounce g s w next)) (snd (bounce g s w next)).
Proof.
  intros HP. unfold bounce. cbn [fst snd].
  match goal with |- piece_ok _ _ _ (set_w ?a _ ?f) _ =>
    assert (Hws : ws a = ws s) by (destruct (_ && _); reflexivity);
    split; [apply starts_ok_no_start; ns_simple|]; split;
    [ eapply os_trans; [apply os_ws_eq; exact Hws | apply os_set_w]
    | unfold P; destruct (wst_set_w_cases a w f) as [E|[E _]]; rewrite E;
      [exact I | rewrite (wst_ws_eq _ _ w Hws); exact HP] ]
  end.
Qed.

Lemma iter_ok g s w : P g w s -> it_ok g w s (iter g s w).
Proof.
  intros HP. unfold iter. destruct (cleanup_ready g s (g_root g) w).
  - destruct (path (wst s w)) as [|r [|r2 rest]].
    + unfold fail. cbn. now apply piece_fail.
    + destruct (Nat.eqb r (g_root g)).
      * cbn. split; [apply starts_ok_no_start; ns_simple|]. split; [apply os_set_w|].
        unfold P. match goal with |- context [set_w ?a ?b ?f] => destruct (wst_set_w_cases a b f) as [E|[E _]] end; rewrite E;
          [exact I | exact HP].
      * unfold fail. cbn. now apply piece_fail.
    + unfold fail. cbn. now apply piece_fail.
  - destruct (path (wst s w)) as [|next [|previous rest]].
    + unfold fail. cbn. now apply piece_fail.
    + destruct (pick_child g s next w) as [[c s1]|] eqn:Ep.
      * pose proof (ws_pick_child _ _ _ _ _ _ Ep) as Hws. cbn. split; [apply starts_ok_no_start; ns_simple|].
        split; [eapply os_trans; [apply os_ws_eq; exact Hws | apply os_push]|]. apply P_push. now apply (P_ws_eq g w s).
      * unfold fail. cbn. now apply piece_fail.
    + destruct (is_occupied g s next w).
      * pose proof (bounce_ok g s w next HP) as H. destruct (bounce g s w next) as [s1 e]. exact H.
      * destruct (memn previous (n_children (nd g next))).
        -- destruct (setup_ready g s next w); [now apply do_traverse_ok|].
           destruct (pick_parent g s next w) as [[p s1]|] eqn:Ep.
           ++ pose proof (ws_pick_parent _ _ _ _ _ _ Ep) as Hws. cbn. split; [apply starts_ok_no_start; ns_simple|].
              split; [eapply os_trans; [apply os_ws_eq; exact Hws | apply os_push]|]. apply P_push. now apply (P_ws_eq g w s).
           ++ unfold fail. cbn. now apply piece_fail.
        -- destruct (memn previous (n_parents (nd g next))).
           ++ destruct (negb (setup_ready g s next w)); [|now apply do_traverse_ok].
              destruct (pick_parent g s next w) as [[p s1]|] eqn:Ep.
              ** pose proof (ws_pick_parent _ _ _ _ _ _ Ep) as Hws. cbn. split; [apply starts_ok_no_start; ns_simple|].
                 split; [eapply os_trans; [apply os_ws_eq; exact Hws | apply os_push]|]. apply P_push. now apply (P_ws_eq g w s).
              ** unfold fail. cbn. now apply piece_fail.
           ++ unfold fail. cbn. now apply piece_fail.
Qed.

Lemma run_loop_ok fuel g w : forall s, P g w s ->
  piece_ok g w s (fst (run_loop fuel g s w)) (snd (run_loop fuel g s w)).
Proof.
  induction fuel as [|f IH]; intros s HP; cbn [run_loop].
  - unfold fail. cbn. now apply piece_fail.
  - pose proof (iter_ok g s w HP) as H. destruct (iter g s w) as [s1 e|s1 e]; cbn in H.
    + destruct H as [H1 [H2 H3]]. specialize (IH s1 H3). destruct (run_loop f g s1 w) as [s2 e2]. cbn in *.
      eapply piece_trans; [split; [exact H1 | split; [exact H2 | exact H3]] | exact IH].
    + exact H.
Qed.

Definition AllP (g : graph) (s : state) : Prop := forall v, P g v s.

Lemma AllP_from_piece g w s s' e : AllP g s -> piece_ok g w s s' e -> AllP g s'.
Proof.
  intros HA [_ [Hos HP]] v. destruct (Nat.eq_dec v w) as [->|Hne]; [exact HP|].
  unfold P. rewrite (Hos v Hne). apply HA.
Qed.

Lemma continue_ok g w s r :
  P g w s -> it_ok g w s r ->
  piece_ok g w s (fst (match r with Halt s2 e => (s2, e) | Cont s2 e => let '(s3, e3) := run_loop FUEL g s2 w in (s3, e ++ e3) end))
                 (snd (match r with Halt s2 e => (s2, e) | Cont s2 e => let '(s3, e3) := run_loop FUEL g s2 w in (s3, e ++ e3) end)).
Proof.
  intros HP H. destruct r as [s2 e|s2 e]; cbn in H.
  - destruct H as [H1 [H2 H3]]. pose proof (run_loop_ok FUEL g w s2 H3) as HL.
    destruct (run_loop FUEL g s2 w) as [s3 e3]. cbn in *. eapply piece_trans; [split; [exact H1 | split; [exact H2 | exact H3]] | exact HL].
  - exact H.
Qed.

Theorem resume_ok g s w out :
  AllP g s ->
  starts_ok g w (snd (resume g s w out)) /\ AllP g (fst (resume g s w out)).
Proof.
  intros HA. unfold resume. destruct (ph (wst s w)) as [| next pre fc uid | | |c] eqn:Eph.
  - (* Ready *)
    assert (HP : P g w (set_phase s w Ready)) by (apply P_set_phase; [apply HA | exact I]).
    pose proof (run_loop_ok FUEL g w _ HP) as H. destruct H as [H1 [H2 H3]]. split; [exact H1|].
    apply (AllP_from_piece g w s _ (snd (run_loop FUEL g (set_phase s w Ready) w))); [exact HA|].
    split; [exact H1|]. split; [eapply os_trans; [apply os_set_phase | exact H2] | exact H3].
  - (* Running *)
    assert (Hst : startable g w next) by (pose proof (HA w) as H; unfold P in H; rewrite Eph in H; exact H).
    set (s0 := mkS (ws s) (ns s) (r_ps s) (r_pc s) (r_ds s) (r_dc s) (pool s) _).
    assert (HA0 : AllP g s0) by (intros v; apply (P_ws_eq g v s); [reflexivity | apply HA]).
    set (seen := match find _ (job s0) with Some e => Some (snd e) | None => None end).
    destruct pre.
    + set (s1 := end_pre s0 next).
      assert (HA1 : AllP g s1) by (intros v; apply (P_ws_eq g v s0); [reflexivity | apply HA0]).
      destruct (run_ok seen).
      * (* the pre-step passed: the installation starts *)
        unfold start_run. cbn [fst snd]. split.
        -- intros w' i u p l [H|[]]. injection H as <- <- _ _ _. auto.
        -- match goal with |- AllP g (set_phase ?a w ?p) =>
             apply (AllP_from_piece g w s1 (set_phase a w p) []); [exact HA1|];
             split; [apply starts_ok_no_start, no_start_nil|];
             split; [apply (os_trans w s1 a); [apply os_ws_eq; reflexivity | apply os_set_phase]|];
             apply P_set_phase; [apply (P_ws_eq g w s1); [reflexivity | apply HA1] | exact Hst]
           end.
      * set (s2 := set_n s1 next _). set (s3 := set_phase (mark_done s2 next w) w Ready).
        assert (HP3 : P g w s3).
        { unfold s3. apply P_set_phase; [|exact I]. apply (P_ws_eq g w s1); [reflexivity | apply HA1]. }
        assert (Hos3 : others_same w s s3).
        { unfold s3. apply (os_trans w s (mark_done s2 next w)); [apply os_ws_eq; reflexivity | apply os_set_phase]. }
        pose proof (continue_ok g w s3 (if fc then after_from_child g s3 w next (hd 0 (tl (path (wst s w)))) else after_from_parent g s3 w next) HP3) as HC.
        assert (Hit : it_ok g w s3 (if fc then after_from_child g s3 w next (hd 0 (tl (path (wst s w)))) else after_from_parent g s3 w next)).
        { destruct fc; [now apply after_from_child_ok | now apply after_from_parent_ok]. }
        specialize (HC Hit). destruct HC as [H1 [H2 H3]]. split; [exact H1|].
        eapply (AllP_from_piece g w s); [exact HA|]. split; [exact H1|]. split; [eapply os_trans; eauto | exact H3].
    + set (s3 := set_phase (mark_done (finish_run g s0 next w seen) next w) w Ready).
      assert (Hws : ws (mark_done (finish_run g s0 next w seen) next w) = ws s).
      { unfold mark_done, finish_run. destruct seen as [st|]; [|reflexivity]. destruct st; reflexivity. }
      assert (HP3 : P g w s3).
      { unfold s3. apply P_set_phase; [|exact I]. apply (P_ws_eq g w s); [exact Hws | apply HA]. }
      assert (Hos3 : others_same w s s3).
      { unfold s3. apply (os_trans w s (mark_done (finish_run g s0 next w seen) next w)); [apply os_ws_eq; exact Hws | apply os_set_phase]. }
      pose proof (continue_ok g w s3 (if fc then after_from_child g s3 w next (hd 0 (tl (path (wst s w)))) else after_from_parent g s3 w next) HP3) as HC.
      assert (Hit : it_ok g w s3 (if fc then after_from_child g s3 w next (hd 0 (tl (path (wst s w)))) else after_from_parent g s3 w next)).
      { destruct fc; [now apply after_from_child_ok | now apply after_from_parent_ok]. }
      specialize (HC Hit). destruct HC as [H1 [H2 H3]]. split; [exact H1|].
      eapply (AllP_from_piece g w s); [exact HA|]. split; [exact H1|]. split; [eapply os_trans; eauto | exact H3].
  - (* Sleeping *)
    assert (HP : P g w (set_phase s w Ready)) by (apply P_set_phase; [apply HA | exact I]).
    pose proof (run_loop_ok FUEL g w _ HP) as H. destruct H as [H1 [H2 H3]]. split; [exact H1|].
    apply (AllP_from_piece g w s _ (snd (run_loop FUEL g (set_phase s w Ready) w))); [exact HA|].
    split; [exact H1|]. split; [eapply os_trans; [apply os_set_phase | exact H2] | exact H3].
  - split; [intros w' i u p l []| exact HA].
  - split; [intros w' i u p l []| exact HA].
Qed.

Lemma AllP_init g p : AllP g (init_state g p).
Proof.
  intros v. unfold P, wst, init_state. cbn.
  destruct (Nat.lt_ge_cases v (length (g_workers g))) as [H|H].
  - rewrite nth_indep with (d' := mkW [g_root g] [] PrimFloat.zero Ready) by (now rewrite map_length).
    change (mkW [g_root g] [] PrimFloat.zero Ready) with ((fun _ : worker => mkW [g_root g] [] PrimFloat.zero Ready) (mkWorker 0 true [] [])).
    rewrite map_nth. exact I.
  - rewrite nth_overflow by (now rewrite map_length). exact I.
Qed.

(* For every graph, every initial pool population and every schedule: each execution is started by
   the worker the node belongs to, and the node is neither flat, a clone source, dry nor the root. *)
Theorem all_starts_ok g p sched :
  forall evs w i u pre l, In evs (snd (run_schedule g (init_state g p) sched)) ->
  In (EStart w i u pre l) evs -> startable g w i.
Proof.
  assert (Hgen : forall sched s, AllP g s -> forall evs w i u pre l,
             In evs (snd (run_schedule g s sched)) -> In (EStart w i u pre l) evs -> startable g w i).
  { clear sched. induction sched as [|[w0 out] r IH]; intros s HA evs w i u pre l Hin Hst; cbn in Hin; [contradiction|].
    pose proof (resume_ok g s w0 out HA) as [H1 H2].
    destruct (resume g s w0 out) as [s1 e]. destruct (run_schedule g s1 r) as [s2 es] eqn:Er. cbn in *.
    destruct Hin as [<-|Hin].
    - destruct (H1 _ _ _ _ _ Hst) as [_ H]. destruct (H1 _ _ _ _ _ Hst) as [-> _]. exact H.
    - eapply (IH s1 H2); [|exact Hst]. rewrite Er. exact Hin. }
  intros evs w i u pre l. apply Hgen. apply AllP_init.
Qed.
