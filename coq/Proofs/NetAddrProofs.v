From Coq Require Import List NArith ZArith Bool Lia.
Import ListNotations.
From I2N Require Import Model.NetAddr.
Local Open Scope N_scope.

(* ---- netmask <-> prefix length (finite domain 0..32, decided by computation) ---- *)
Definition all_prefixes : list N := nseq 0 33.

Lemma in_all_prefixes b : b <= 32 -> In b all_prefixes.
Proof.
  intros H. assert (Hc : exists k : nat, (k <= 32)%nat /\ b = N.of_nat k).
  { exists (N.to_nat b). split; lia. }
  destruct Hc as (k & Hk & ->).
  do 33 (destruct k as [|k]; [vm_compute; tauto|]). lia.
Qed.

Lemma roundtrip_all :
  forallb (fun b => prefix_of_mask (mask_of_prefix b) =? b) all_prefixes = true.
Proof. vm_compute. reflexivity. Qed.

Theorem mask_roundtrip b : b <= 32 -> prefix_of_mask (mask_of_prefix b) = b.
Proof.
  intros H. pose proof roundtrip_all as Ha. rewrite forallb_forall in Ha.
  apply N.eqb_eq. apply Ha. now apply in_all_prefixes.
Qed.

Definition contiguous (m : N) : Prop := exists b, b <= 32 /\ m = mask_of_prefix b.

Theorem mask_roundtrip' m : contiguous m -> mask_of_prefix (prefix_of_mask m) = m.
Proof. intros (b & Hb & ->). now rewrite mask_roundtrip. Qed.

Theorem prefix_of_mask_le m : prefix_of_mask m <= 32.
Proof. unfold prefix_of_mask. destruct (m =? 0); lia. Qed.

(* ---- network membership ---- *)
Theorem network_of_spec ip bits :
  let size := 2 ^ (32 - bits) in
  network_of ip bits mod size = 0 /\
  network_of ip bits <= ip < network_of ip bits + size.
Proof.
  intros size. unfold network_of. fold size.
  assert (Hs : size <> 0) by (apply N.pow_nonzero; lia).
  pose proof (N.mod_upper_bound ip size Hs) as Hu.
  pose proof (N.div_mod ip size Hs) as Hd.
  clearbody size. set (q := ip / size) in *. set (m := ip mod size) in *. clearbody q m.
  assert (E : ip - m = q * size) by nia.
  split.
  - rewrite E. apply N.mod_mul. exact Hs.
  - lia.
Qed.

Lemma multiple_unique size a b x :
  size <> 0 -> a mod size = 0 -> b mod size = 0 ->
  a <= x < a + size -> b <= x < b + size -> a = b.
Proof.
  intros Hs Ha Hb Hax Hbx.
  pose proof (N.div_mod a size Hs) as Da. pose proof (N.div_mod b size Hs) as Db.
  rewrite Ha in Da. rewrite Hb in Db.
  set (qa := a / size) in *. set (qb := b / size) in *. clearbody qa qb.
  assert (qa = qb); [|subst; lia].
  destruct (N.lt_trichotomy qa qb) as [H|[H|H]]; auto; exfalso; nia.
Qed.

Theorem in_network_iff ip net bits :
  let size := 2 ^ (32 - bits) in
  in_network ip net bits = true <-> (net mod size = 0 /\ net <= ip < net + size).
Proof.
  intros size. unfold in_network. rewrite N.eqb_eq.
  assert (Hs : size <> 0) by (apply N.pow_nonzero; lia).
  destruct (network_of_spec ip bits) as [H1 H2]. fold size in H1, H2.
  split.
  - intros <-. auto.
  - intros [Hm Hr]. eapply multiple_unique; eauto.
Qed.

(* ---- allocation ---- *)
Definition used (l : list N) : range := map (fun i => (i, true)) l.
Definition free (l : list N) : range := map (fun i => (i, false)) l.

Lemma alloc_used_app l r :
  alloc (used l ++ r) =
  match alloc r with Some (v, r') => Some (v, used l ++ r') | None => None end.
Proof.
  induction l as [|x l IH].
  - cbn. destruct (alloc r) as [[v r']|]; reflexivity.
  - change (used (x :: l) ++ r) with ((x, true) :: (used l ++ r)).
    cbn [alloc]. rewrite IH. destruct (alloc r) as [[v r']|]; reflexivity.
Qed.

Lemma nseq_snoc lo n : nseq lo (S n) = nseq lo n ++ [lo + N.of_nat n].
Proof.
  revert lo; induction n as [|n IH]; intros lo.
  - cbn [nseq app]. change (N.of_nat 0) with 0. now rewrite N.add_0_r.
  - change (nseq lo (S (S n))) with (lo :: nseq (lo + 1) (S n)).
    rewrite IH. cbn [nseq app]. do 3 f_equal. lia.
Qed.

(* state after k allocations from a fresh range of n offsets starting at lo *)
Definition after (lo : N) (k m : nat) : range :=
  used (nseq lo k) ++ free (nseq (lo + N.of_nat k) m).

Lemma alloc_after lo k m :
  alloc (after lo k (S m)) = Some (lo + N.of_nat k, after lo (S k) m).
Proof.
  unfold after. rewrite alloc_used_app.
  set (x := lo + N.of_nat k).
  change (free (nseq x (S m))) with ((x, false) :: free (nseq (x + 1) m)).
  cbn [alloc]. rewrite nseq_snoc. fold x. unfold used at 2. rewrite map_app.
  rewrite <- app_assoc. cbn [map app].
  replace (lo + N.of_nat (S k)) with (x + 1) by (unfold x; lia). reflexivity.
Qed.

Lemma alloc_after_full lo k : alloc (after lo k 0) = None.
Proof. unfold after. rewrite alloc_used_app. reflexivity. Qed.

(* n successive allocations *)
Fixpoint allocs (n : nat) (r : range) : list (option N) * range :=
  match n with
  | O => ([], r)
  | S n' => match alloc r with
            | Some (v, r') => let '(l, r'') := allocs n' r' in (Some v :: l, r'')
            | None => let '(l, r'') := allocs n' r in (None :: l, r'')
            end
  end.

Lemma allocs_after lo k m :
  allocs m (after lo k m) = (map Some (nseq (lo + N.of_nat k) m), after lo (k + m) 0).
Proof.
  revert k; induction m as [|m IH]; intros k.
  - cbn. now rewrite Nat.add_0_r.
  - cbn [allocs]. rewrite alloc_after, IH. cbn [nseq map].
    replace (lo + N.of_nat k + 1) with (lo + N.of_nat (S k)) by lia.
    replace (S k + m)%nat with (k + S m)%nat by lia. reflexivity.
Qed.

(* C18: a fresh range [lo..hi] hands out every offset lo, lo+1, .., hi exactly
   once, in order, and then reports exhaustion (forever) *)
Theorem alloc_exact lo hi :
  let n := N.to_nat (hi + 1 - lo) in
  exists r', allocs n (mk_range lo hi) = (map Some (nseq lo n), r') /\
             alloc r' = None /\ NoDup (nseq lo n).
Proof.
  intros n. exists (after lo n 0). split; [|split].
  - assert (E : mk_range lo hi = after lo 0 n).
    { unfold after, mk_range. change (N.of_nat 0) with 0. rewrite N.add_0_r. reflexivity. }
    rewrite E, allocs_after. change (N.of_nat 0) with 0. rewrite N.add_0_r. reflexivity.
  - apply alloc_after_full.
  - clear. generalize lo. induction n as [|n IH]; intros l; cbn; constructor; auto.
    assert (forall m k, In k (nseq m n) -> m <= k).
    { clear. induction n as [|n IH]; cbn; intros m k; [tauto|].
      intros [<-|H]; [lia|]. apply IH in H. lia. }
    intros Hin. apply H in Hin. lia.
Qed.

Lemma alloc_none_stays r : alloc r = None -> forall n, fst (allocs n r) = repeat None n.
Proof.
  intros H n. induction n as [|n IH]; cbn; auto. rewrite H.
  destruct (allocs n r) as [l r''] eqn:E. cbn in *. now rewrite IH.
Qed.

(* ---- translation ---- *)
Theorem translate_offset ip net_ip nat_ip bits t :
  translate ip net_ip nat_ip bits = Some t ->
  (t - Z.of_N (network_of nat_ip bits) = Z.of_N ip - Z.of_N net_ip /\
   0 <= t < Z.of_N two32)%Z.
Proof.
  unfold translate. set (t' := (_ + _)%Z).
  destruct ((0 <=? t')%Z && (t' <? Z.of_N two32)%Z) eqn:E; [|discriminate].
  intros H; inversion H; subst. apply andb_true_iff in E as [E1 E2].
  apply Z.leb_le in E1. apply Z.ltb_lt in E2. unfold t' in *. lia.
Qed.

Theorem translate_none_iff ip net_ip nat_ip bits :
  translate ip net_ip nat_ip bits = None <->
  let t := (Z.of_N ip - Z.of_N net_ip + Z.of_N (network_of nat_ip bits))%Z in
  (t < 0 \/ Z.of_N two32 <= t)%Z.
Proof.
  unfold translate. set (t' := (_ + _)%Z). cbn zeta.
  destruct (Z.leb_spec 0 t') as [E1|E1]; destruct (Z.ltb_spec t' (Z.of_N two32)) as [E2|E2];
    cbn [andb]; split; intros H; try discriminate; try reflexivity; lia.
Qed.

(* a host inside the source subnet lands inside the target subnet at the same offset *)
Theorem translate_in_subnet ip net_ip nat_ip bits :
  bits <= 32 -> nat_ip < two32 -> in_network ip net_ip bits = true ->
  exists t, translate ip net_ip nat_ip bits = Some (Z.of_N t) /\
            in_network t (network_of nat_ip bits) bits = true /\
            t - network_of nat_ip bits = ip - net_ip.
Proof.
  intros Hb Hnat Hin. apply in_network_iff in Hin as [Hm Hr].
  set (size := 2 ^ (32 - bits)) in *.
  destruct (network_of_spec nat_ip bits) as [Hn1 Hn2]. fold size in Hn1, Hn2.
  set (tn := network_of nat_ip bits) in *.
  assert (Hs : size <> 0) by (apply N.pow_nonzero; lia).
  assert (H32 : two32 = size * 2 ^ bits).
  { unfold size, two32. rewrite <- N.pow_add_r. replace (32 - bits + bits) with 32 by lia. reflexivity. }
  assert (Hfit : tn + size <= two32).
  { pose proof (N.div_mod tn size Hs) as Hd. rewrite Hn1 in Hd.
    assert (tn / size < 2 ^ bits).
    { apply N.div_lt_upper_bound; auto. rewrite <- H32. lia. }
    rewrite H32. nia. }
  exists (tn + (ip - net_ip)). repeat split.
  - unfold translate. fold tn.
    replace (Z.of_N ip - Z.of_N net_ip + Z.of_N tn)%Z with (Z.of_N (tn + (ip - net_ip))) by lia.
    assert (E1 : (0 <=? Z.of_N (tn + (ip - net_ip)))%Z = true) by (apply Z.leb_le; lia).
    assert (E2 : (Z.of_N (tn + (ip - net_ip)) <? Z.of_N two32)%Z = true) by (apply Z.ltb_lt; lia).
    now rewrite E1, E2.
  - apply in_network_iff. fold size. split; [exact Hn1 | lia].
  - lia.
Qed.
