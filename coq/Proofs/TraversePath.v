(* C02, "no traversal error" over every schedule and any number of workers: the path of every worker stays a chain of
   graph edges that ends in the shared root, a worker whose path is longer than [root] has not yet dropped the root's child
   it descended through, and therefore: no discontinuous path (code 2), no pick from an exhausted node (code 1), no exit
   away from the starting point and no empty path (code 4).  Hypotheses on the graph (pwf, checked on every exported graph):
   edges are symmetric, the root has no parents, a node below the root has the root as its only parent, and the root's
   visit registers are its own. *)
From Coq Require Import List ZArith NArith Bool Arith Lia PrimFloat.
Import ListNotations.
From I2N Require Import Model.Retry Model.Traverse Model.TraverseRun Proofs.TraverseProofs Proofs.TraverseInv
                        Proofs.TraverseExcl Proofs.TraverseLoc Proofs.TraverseUid Proofs.TraverseAvail Proofs.TraverseExit.
Local Open Scope nat_scope.

Record pwf (g : graph) : Prop := mkPwf {
  pw_sym_c : forall a b, In a (n_children (nd g b)) -> In b (n_parents (nd g a));
  pw_sym_p : forall a b, In a (n_parents (nd g b)) -> In b (n_children (nd g a));
  pw_root_top : n_parents (nd g (g_root g)) = [];
  pw_root_only : forall i, In (g_root g) (n_parents (nd g i)) -> n_parents (nd g i) = [g_root g];
  pw_root_reg : forall i p, In p (n_parents (nd g i)) -> n_reg (nd g p) = n_reg (nd g (g_root g)) -> p = g_root g
}.

(* ---- paths (head = the node the worker is at) ---- *)
Definition adj (g : graph) (a b : nat) : Prop := In a (n_children (nd g b)) \/ In a (n_parents (nd g b)).
Fixpoint chain (g : graph) (l : list nat) : Prop :=
  match l with
  | [] => False
  | a :: t => match t with [] => a = g_root g | b :: _ => adj g a b /\ chain g t end
  end.
Definition noroot_mid (g : graph) (l : list nat) : Prop := ~ In (g_root g) (removelast (tl l)).
Definition base (g : graph) (w : nat) (dc : regs) (l : list nat) : Prop :=
  forall l' x, l = l' ++ [x; g_root g] ->
    In x (n_children (nd g (g_root g))) /\ (own g w x || n_flat (nd g x)) = true /\
    ~ In w (reg_workers dc (n_reg (nd g (g_root g)), n_form (nd g x))).
Definition PI (g : graph) (w : nat) (l : list nat) (dc : regs) : Prop := chain g l /\ noroot_mid g l /\ base g w dc l.

Lemma chain_tl g a b t : chain g (a :: b :: t) -> chain g (b :: t).
Proof. cbn. tauto. Qed.
Lemma chain_adj g a b t : chain g (a :: b :: t) -> adj g a b.
Proof. cbn. tauto. Qed.
Lemma chain_push g c l : chain g l -> adj g c (hd 0 l) -> chain g (c :: l).
Proof. destruct l as [|b t]; [intros []|]. intros H A. cbn in A. split; assumption. Qed.
Lemma chain_decomp g l : chain g l -> 2 <= length l -> exists l' x, l = l' ++ [x; g_root g].
Proof.
  induction l as [|a t IH]; [intros []|]. destruct t as [|b t']; [cbn; lia|]. intros H _.
  destruct t' as [|c t''].
  - cbn in H. destruct H as [_ ->]. exists [], a. reflexivity.
  - destruct (IH (chain_tl _ _ _ _ H)) as [l' [x E]]; [cbn; lia|]. exists (a :: l'), x. cbn. now rewrite E.
Qed.
Lemma removelast_cons {A} (a : A) l : l <> [] -> removelast (a :: l) = a :: removelast l.
Proof. destruct l; [congruence | reflexivity]. Qed.
Lemma noroot_mid_tl g a b t : noroot_mid g (a :: b :: t) -> noroot_mid g (b :: t).
Proof.
  unfold noroot_mid. cbn [tl]. intros H Hin. apply H. destruct t as [|c t']; [destruct Hin|].
  rewrite removelast_cons by discriminate. now right.
Qed.
Lemma noroot_mid_push g c a t : noroot_mid g (a :: t) -> (t = [] \/ a <> g_root g) -> noroot_mid g (c :: a :: t).
Proof.
  unfold noroot_mid. cbn [tl]. intros H [->|Hne]; [cbn; tauto|]. destruct t as [|b t']; [cbn; tauto|].
  rewrite removelast_cons by discriminate. intros [E|Hin]; [now apply Hne | now apply H].
Qed.
Lemma base_tl g w dc a t : base g w dc (a :: t) -> base g w dc t.
Proof. intros H l' x E. apply (H (a :: l') x). cbn. now rewrite E. Qed.
Lemma base_push g w dc c l : base g w dc l -> 2 <= length l -> base g w dc (c :: l).
Proof.
  intros H Hl l' x E. destruct l' as [|c' l''].
  - cbn in E. injection E as _ E. subst l. cbn in Hl. lia.
  - cbn in E. injection E as _ E. now apply (H l'' x).
Qed.
Lemma base_one g w dc r : base g w dc [r].
Proof. intros l' x E. destruct l' as [|a [|b t]]; cbn in E; discriminate. Qed.
Lemma base_dc g w dc dc' l : (forall key, In w (reg_workers dc' key) -> In w (reg_workers dc key)) -> base g w dc l -> base g w dc' l.
Proof. intros Hd H l' x E. destruct (H l' x E) as [A [B C]]. split; [exact A|]. split; [exact B|]. intros Hin. apply C. now apply Hd. Qed.

Lemma PI_tl g w dc a b t : PI g w (a :: b :: t) dc -> PI g w (b :: t) dc.
Proof. intros [A [B C]]. split; [eapply chain_tl; eauto|]. split; [eapply noroot_mid_tl; eauto | eapply base_tl; eauto]. Qed.
Lemma PI_root g w dc : PI g w [g_root g] dc.
Proof. split; [reflexivity|]. split; [intros []| apply base_one]. Qed.
Lemma PI_dc g w dc dc' l : (forall key, In w (reg_workers dc' key) -> In w (reg_workers dc key)) -> PI g w l dc -> PI g w l dc'.
Proof. intros Hd [A [B C]]. split; [exact A|]. split; [exact B | now apply (base_dc g w dc dc')]. Qed.
Lemma PI_push g w dc c a b t : PI g w (a :: b :: t) dc -> adj g c a -> a <> g_root g -> PI g w (c :: a :: b :: t) dc.
Proof.
  intros [A [B C]] Ha Hne. split; [now apply (chain_push g c (a :: b :: t))|]. split; [apply noroot_mid_push; [exact B | now right]|].
  apply base_push; [exact C | cbn; lia].
Qed.

(* with a path longer than [root], the root is not cleanup-ready for the worker *)
Lemma root_not_ready g w s l : PI g w l (r_dc s) -> 2 <= length l -> cleanup_ready g s (g_root g) w = false.
Proof.
  intros [A [_ C]] Hl. destruct (chain_decomp g l A Hl) as [l' [x E]]. destruct (C l' x E) as [C1 [C2 C3]].
  unfold cleanup_ready. apply not_true_is_false. intros H. rewrite forallb_forall in H. specialize (H x C1).
  apply orb_true_iff in H. destruct H as [H|H].
  - apply andb_true_iff in H. destruct H as [H1 H2]. apply negb_true_iff in H1, H2. rewrite H1, H2 in C2. discriminate.
  - apply C3. now apply memn_In.
Qed.

(* ---- events: which failure codes a piece may emit ---- *)
Definition okfail (e : list event) : Prop := forall v c, In (EFail v c) e -> c = 3%N \/ c = 5%N \/ c = 6%N.
Definition nofail (e : list event) : Prop := forall v c, ~ In (EFail v c) e.
Lemma nofail_ok e : nofail e -> okfail e. Proof. intros H v c Hin. now destruct (H v c). Qed.
Lemma okfail_app a b : okfail a -> okfail b -> okfail (a ++ b).
Proof. intros A B v c H. apply in_app_or in H. destruct H; [eapply A | eapply B]; eauto. Qed.
Lemma nofail_app a b : nofail a -> nofail b -> nofail (a ++ b).
Proof. intros A B v c H. apply in_app_or in H. destruct H; [eapply A | eapply B]; eauto. Qed.
Lemma nofail_nil : nofail []. Proof. intros v c []. Qed.
Ltac nf1 := let v := fresh "v" in let c := fresh "c" in let H := fresh "H" in
  intros v c H; cbn in H; repeat (destruct H as [H|H]; [discriminate|]); exact H.
Ltac of1 := let v := fresh "v" in let c := fresh "c" in let H := fresh "H" in
  intros v c H; cbn in H; repeat (destruct H as [H|H]; [try discriminate; injection H as _ <-; tauto|]); destruct H.

Lemma nofail_eval_run g s i w b s' e : eval_run g s i w = Some (b, s', e) -> nofail e.
Proof.
  unfold eval_run. destruct (run_decision g s i w) as [[[b0 sc] s0]|]; [|discriminate]. intros H. injection H as _ _ <-.
  destruct (n_root (nd g i)); [apply nofail_nil|]. apply nofail_app; [destruct sc; nf1 | nf1].
Qed.
Lemma nofail_reverse_node g s i w s' e : reverse_node g s i w = Some (s', e) -> nofail e.
Proof.
  unfold reverse_node. destruct (is_occupied g s i w); [intros H; injection H as _ <-; apply nofail_nil|].
  destruct (clean_decision g _ i w) as [[]|]; [| intros H; injection H as _ <-; nf1 | discriminate].
  destruct (stateful (nd g i)); [| intros H; injection H as _ <-; nf1].
  destruct (sync_walk _ _ _ _ _ _) as [[[[[] u] us] gs]|]; [| |discriminate]; intros H; injection H as _ <-; nf1.
Qed.

(* ---- what a section of worker w does to the drop register: it only adds w ---- *)
Definition dc_only (w : nat) (s s' : state) : Prop :=
  forall key v, In v (reg_workers (r_dc s') key) -> In v (reg_workers (r_dc s) key) \/ v = w.
Lemma dc_only_eq w s s' : r_dc s' = r_dc s -> dc_only w s s'.
Proof. intros E key v H. left. now rewrite <- E. Qed.
Lemma dc_only_trans w a b c : dc_only w a b -> dc_only w b c -> dc_only w a c.
Proof. intros A B key v H. destruct (B key v H) as [H1|H1]; [now apply A | now right]. Qed.

(* ---- the invariant of one worker ---- *)
Definition WInv (g : graph) (w : nat) (s : state) : Prop :=
  match ph (wst s w) with
  | Exited | Failed _ => True
  | Running next pre fc uid =>
      PI g w (path (wst s w)) (r_dc s) /\
      exists previous rest, path (wst s w) = next :: previous :: rest /\ (fc = false -> In previous (n_parents (nd g next)))
  | Ready | Sleeping => PI g w (path (wst s w)) (r_dc s)
  end.
Definition Pre (g : graph) (w : nat) (s : state) : Prop := ph (wst s w) = Ready /\ PI g w (path (wst s w)) (r_dc s).

Lemma ready_lt s w : ph (wst s w) = Ready -> w < length (ws s).
Proof.
  intros H. destruct (Nat.lt_ge_cases w (length (ws s))) as [L|L]; [exact L|]. rewrite (wst_overflow s w L) in H. discriminate.
Qed.
Lemma wst_set_path s w p : w < length (ws s) -> wst (set_path s w p) w = mkW p (occ_at (wst s w)) (occ_wait (wst s w)) (ph (wst s w)).
Proof. intros L. unfold set_path. now rewrite wst_set_w_same. Qed.
Lemma wst_set_phase s w p : w < length (ws s) -> wst (set_phase s w p) w = mkW (path (wst s w)) (occ_at (wst s w)) (occ_wait (wst s w)) p.
Proof. intros L. unfold set_phase. now rewrite wst_set_w_same. Qed.

Lemma Pre_pop g w s s2 a b t : Pre g w s -> ws s2 = ws s -> r_dc s2 = r_dc s -> path (wst s w) = a :: b :: t -> Pre g w (pop s2 w).
Proof.
  intros [Hph HPI] Hws Hdc Hp. pose proof (ready_lt s w Hph) as L. unfold Pre, pop.
  rewrite wst_set_path by (now rewrite Hws). rewrite (wst_ws_eq s2 s w Hws). cbn [ph path]. split; [exact Hph|].
  rewrite Hp. cbn [tl]. change (r_dc (set_path s2 w (b :: t))) with (r_dc s2). rewrite Hdc. rewrite Hp in HPI. now apply (PI_tl g w (r_dc s) a b t).
Qed.
Lemma Pre_push g w s s2 c : Pre g w s -> ws s2 = ws s -> r_dc s2 = r_dc s -> PI g w (c :: path (wst s w)) (r_dc s) -> Pre g w (push s2 w c).
Proof.
  intros [Hph _] Hws Hdc HPI. pose proof (ready_lt s w Hph) as L. unfold Pre, push.
  rewrite wst_set_path by (now rewrite Hws). rewrite (wst_ws_eq s2 s w Hws). cbn [ph path]. split; [exact Hph|].
  change (r_dc (set_path s2 w (c :: path (wst s w)))) with (r_dc s2). now rewrite Hdc.
Qed.
Lemma WInv_failed g w s c : w < length (ws s) -> WInv g w (set_phase s w (Failed c)).
Proof. intros L. unfold WInv. rewrite wst_set_phase by exact L. exact I. Qed.

Definition it_p (g : graph) (w : nat) (s : state) (r : it_res) : Prop :=
  match r with
  | Cont s' e => okfail e /\ dc_only w s s' /\ Pre g w s'
  | Halt s' e => okfail e /\ dc_only w s s' /\ WInv g w s'
  end.

Lemma it_p_fail g w s s1 c : (c = 3%N \/ c = 5%N \/ c = 6%N) -> ws s1 = ws s -> w < length (ws s) -> dc_only w s s1 ->
  okfail [EFail w c] /\ dc_only w s (set_phase s1 w (Failed c)) /\ WInv g w (set_phase s1 w (Failed c)).
Proof.
  intros Hc Hws L Hd. split; [intros v c0 [H|[]]; injection H as _ <-; exact Hc|]. split; [exact Hd|].
  apply WInv_failed. now rewrite Hws.
Qed.

Lemma after_from_child_p g s w next previous rest : Pre g w s -> path (wst s w) = next :: previous :: rest ->
  it_p g w s (after_from_child g s w next previous).
Proof.
  intros HP Hp. pose proof (ready_lt s w (proj1 HP)) as L. unfold after_from_child. destruct (eval_run g s next w) as [[[b s1] evs]|] eqn:E.
  - pose proof (ws_eval_run _ _ _ _ _ _ _ E) as Hws. pose proof (rdc_eval_run _ _ _ _ _ _ _ E) as Hdc. pose proof (nofail_eval_run _ _ _ _ _ _ _ E) as Hnf.
    cbn. split; [apply nofail_ok, nofail_app; [exact Hnf | destruct b; nf1]|].
    assert (Hws2 : ws (if b then s1 else drop_parent g s1 previous next w) = ws s) by (destruct b; [exact Hws | cbn; exact Hws]).
    assert (Hdc2 : r_dc (if b then s1 else drop_parent g s1 previous next w) = r_dc s) by (destruct b; [exact Hdc | cbn; exact Hdc]).
    split; [apply dc_only_eq; exact Hdc2|]. now apply (Pre_pop g w s _ next previous rest).
  - unfold fail. cbn. apply it_p_fail; [tauto | reflexivity | exact L | now apply dc_only_eq].
Qed.

(* dropping `next` from its parents does not touch the base of the path below it *)
Lemma base_after_drop g w s1 next previous rest : pwf g ->
  noroot_mid g (next :: previous :: rest) -> In previous (n_parents (nd g next)) ->
  base g w (r_dc s1) (next :: previous :: rest) ->
  base g w (r_dc (fold_left (fun st p => drop_child g st p next w) (n_parents (nd g next)) s1)) (previous :: rest).
Proof.
  intros Hg Hnr Hprev Hb l' x E. destruct (Hb (next :: l') x) as [A [B C]]; [cbn; now rewrite E|].
  split; [exact A|]. split; [exact B|]. intros Hin.
  destruct (reg_workers_dc_fold g next w _ s1 _ w Hin) as [Hold|[p [Hp [Hk _]]]]; [now apply C|].
  injection Hk as Hreg _. assert (p = g_root g) by (apply (pw_root_reg g Hg next p Hp); now symmetry). subst p.
  rewrite (pw_root_only g Hg next Hp) in Hprev. destruct Hprev as [<-|[]].
  assert (Hrest : rest <> []).
  { intros ->. destruct l' as [|a [|b t]]; cbn in E; discriminate. }
  apply Hnr. cbn [tl]. rewrite removelast_cons by exact Hrest. now left.
Qed.

Lemma after_from_parent_p g s w next previous rest : pwf g -> Pre g w s -> path (wst s w) = next :: previous :: rest ->
  In previous (n_parents (nd g next)) -> it_p g w s (after_from_parent g s w next).
Proof.
  intros Hg HP Hp Hprev. pose proof (ready_lt s w (proj1 HP)) as L. destruct HP as [Hph HPI]. rewrite Hp in HPI.
  assert (Hne : next <> g_root g) by (intros ->; rewrite (pw_root_top g Hg) in Hprev; destruct Hprev).
  unfold after_from_parent. destruct (eval_run g s next w) as [[[b s1] evs]|] eqn:E.
  - pose proof (ws_eval_run _ _ _ _ _ _ _ E) as Hws. pose proof (rdc_eval_run _ _ _ _ _ _ _ E) as Hdc. pose proof (nofail_eval_run _ _ _ _ _ _ _ E) as Hnf.
    destruct b.
    + cbn. split; [now apply nofail_ok|]. split; [now apply dc_only_eq|]. apply (Pre_pop g w s s1 next previous rest); auto. split; [exact Hph | now rewrite Hp].
    + destruct (cleanup_ready g s1 next w) eqn:Ecr.
      * set (s2 := fold_left _ (n_parents (nd g next)) s1).
        assert (Hws2 : ws s2 = ws s) by (unfold s2; rewrite ws_fold_drop_child; exact Hws).
        assert (Hd2 : dc_only w s s2).
        { intros key v Hin. destruct (reg_workers_dc_fold g next w _ s1 key v Hin) as [H|[p [_ [_ H]]]]; [left; now rewrite <- Hdc | now right]. }
        assert (HPI2 : PI g w (previous :: rest) (r_dc s2)).
        { destruct HPI as [A [B C]]. split; [eapply chain_tl; eauto|]. split; [eapply noroot_mid_tl; eauto|].
          apply (base_after_drop g w s1 next previous rest Hg B Hprev). now rewrite Hdc. }
        destruct (reverse_node g s2 next w) as [[s3 e]|] eqn:Er.
        -- pose proof (ws_reverse_node _ _ _ _ _ _ Er) as Hws3. pose proof (rdc_reverse_node _ _ _ _ _ _ Er) as Hdc3. cbn.
           split; [apply nofail_ok, nofail_app; [exact Hnf|]; apply (nofail_app [_]); [nf1 | now apply (nofail_reverse_node _ _ _ _ _ _ Er)]|].
           split; [eapply dc_only_trans; [exact Hd2 | now apply dc_only_eq]|].
           unfold Pre, pop. rewrite wst_set_path by (rewrite Hws3, Hws2; exact L).
           rewrite (wst_ws_eq s3 s w) by (now rewrite Hws3). cbn [ph path]. split; [exact Hph|]. rewrite Hp. cbn [tl].
           change (r_dc (set_path s3 w (previous :: rest))) with (r_dc s3). now rewrite Hdc3.
        -- unfold fail. cbn.
           destruct (it_p_fail g w s s2 5%N) as [F1 [F2 F3]]; [tauto | exact Hws2 | exact L | exact Hd2|].
           split; [apply okfail_app; [now apply nofail_ok|]; apply (okfail_app [_]); [apply nofail_ok; nf1 | exact F1]|]. split; assumption.
      * destruct (pick_child g s1 next w) as [[c s2]|] eqn:Ep.
        -- destruct (pick_child_available _ _ _ _ _ _ Ep) as [_ [Hc _]].
           pose proof (ws_pick_child _ _ _ _ _ _ Ep) as Hws2.
           assert (Hdc2 : r_dc s2 = r_dc s1) by (unfold pick_child in Ep; destruct (pick_from _ _ _); [|discriminate]; now injection Ep as _ <-).
           cbn. split; [apply nofail_ok, nofail_app; [exact Hnf | nf1]|]. split; [apply dc_only_eq; unfold push, set_path, set_w; cbn [r_dc]; congruence|].
           apply (Pre_push g w s s2 c); [split; [exact Hph | now rewrite Hp] | congruence | congruence|].
           rewrite Hp. apply PI_push; [exact HPI | now left | exact Hne].
        -- exfalso. now apply (pick_child_succeeds g s1 next w Ecr).
  - unfold fail. cbn. apply it_p_fail; [tauto | reflexivity | exact L | now apply dc_only_eq].
Qed.

Lemma traverse_node_p g s i w :
  match traverse_node g s i w with
  | TnAwait s' e _ | TnDone s' e => nofail e /\ ws s' = ws s /\ r_dc s' = r_dc s
  | TnFail s' e => e = [EFail w 3%N] /\ exists s2, ws s2 = ws s /\ r_dc s2 = r_dc s /\ s' = set_phase s2 w (Failed 3%N)
  end.
Proof.
  unfold traverse_node. destruct (is_occupied g s i w); [split; [apply nofail_nil | split; reflexivity]|].
  set (s2 := pull_locations g _ i).
  assert (Hws2 : ws s2 = ws s) by (unfold s2; rewrite ws_pull_locations; reflexivity).
  assert (Hdc2 : r_dc s2 = r_dc s) by (unfold s2; now rewrite rdc_pull_locations).
  destruct (eval_run g s2 i w) as [[[b s3] evs]|] eqn:E.
  - pose proof (ws_eval_run _ _ _ _ _ _ _ E) as Hws. pose proof (rdc_eval_run _ _ _ _ _ _ _ E) as Hdc. pose proof (nofail_eval_run _ _ _ _ _ _ _ E) as Hnf.
    destruct b.
    + destruct (n_objroot (nd g i)); cbn; (split; [apply nofail_app; [exact Hnf | nf1] | split; congruence]).
    + cbn. split; [exact Hnf | split; congruence].
  - unfold fail. cbn. split; [reflexivity|]. exists s2. repeat split; assumption.
Qed.

Lemma it_p_prepend g w s s1 e r : ws s1 = ws s -> r_dc s1 = r_dc s -> nofail e -> it_p g w s1 r ->
  it_p g w s (match r with Cont s2 e2 => Cont s2 (e ++ e2) | Halt s2 e2 => Halt s2 (e ++ e2) end).
Proof.
  intros Hws Hdc Hnf H. destruct r as [s2 e2|s2 e2]; cbn in *; destruct H as [H1 [H2 H3]];
    (split; [apply okfail_app; [now apply nofail_ok | exact H1]|]; split; [|exact H3];
     eapply dc_only_trans; [apply dc_only_eq; exact Hdc | exact H2]).
Qed.
Lemma Pre_same g w s s1 : ws s1 = ws s -> r_dc s1 = r_dc s -> Pre g w s -> Pre g w s1.
Proof. intros Hws Hdc [A B]. unfold Pre. rewrite (wst_ws_eq s1 s w Hws), Hdc. now split. Qed.

Lemma do_traverse_p g s w next (fc : bool) previous rest : pwf g -> Pre g w s -> path (wst s w) = next :: previous :: rest ->
  (fc = false -> In previous (n_parents (nd g next))) -> it_p g w s (do_traverse g s w next fc previous).
Proof.
  intros Hg HP Hp Hfc. pose proof (ready_lt s w (proj1 HP)) as L. unfold do_traverse. pose proof (traverse_node_p g s next w) as H.
  destruct (traverse_node g s next w) as [s1 e pre|s1 e|s1 e].
  - destruct H as [Hnf [Hws Hdc]]. cbn. split; [now apply nofail_ok|]. split; [now apply dc_only_eq|].
    unfold WInv. rewrite wst_set_phase by (now rewrite Hws). rewrite (wst_ws_eq s1 s w Hws). cbn [ph path].
    change (r_dc (set_phase s1 w (Running next pre fc (start_uid e)))) with (r_dc s1). rewrite Hdc.
    split; [apply HP|]. exists previous, rest. split; assumption.
  - destruct H as [Hnf [Hws Hdc]]. apply (it_p_prepend g w s s1); auto.
    assert (HP1 : Pre g w s1) by now apply (Pre_same g w s s1).
    assert (Hp1 : path (wst s1 w) = next :: previous :: rest) by (now rewrite (wst_ws_eq s1 s w Hws)).
    destruct fc; [now apply (after_from_child_p g s1 w next previous rest) | apply (after_from_parent_p g s1 w next previous rest); auto].
  - destruct H as [-> [s2 [Hws [Hdc ->]]]]. cbn. apply it_p_fail; [tauto | exact Hws | exact L | now apply dc_only_eq].
Qed.

Lemma setup_ready_root g s w : pwf g -> setup_ready g s (g_root g) w = true.
Proof. intros Hg. unfold setup_ready. now rewrite (pw_root_top g Hg). Qed.

Lemma iter_p g s w : pwf g -> Pre g w s -> it_p g w s (iter g s w).
Proof.
  intros Hg HP. pose proof (ready_lt s w (proj1 HP)) as L. destruct HP as [Hph HPI]. pose proof HPI as [Hch [Hnr Hb]].
  unfold iter. destruct (cleanup_ready g s (g_root g) w) eqn:Ecr.
  - destruct (path (wst s w)) as [|r [|r2 t]] eqn:Hp; [destruct Hch| |].
    + cbn in Hch. subst r. rewrite Nat.eqb_refl. cbn. split; [apply nofail_ok; nf1|]. split; [now apply dc_only_eq|].
      unfold WInv. rewrite wst_set_w_same by exact L. exact I.
    + exfalso. rewrite (root_not_ready g w s (r :: r2 :: t) HPI) in Ecr; [discriminate | cbn; lia].
  - destruct (path (wst s w)) as [|next [|previous rest]] eqn:Hp; [destruct Hch| |].
    + cbn in Hch. subst next. destruct (pick_child g s (g_root g) w) as [[c s1]|] eqn:Ep.
      * destruct (pick_child_available _ _ _ _ _ _ Ep) as [Hav [Hc Ht]]. pose proof (ws_pick_child _ _ _ _ _ _ Ep) as Hws.
        assert (Hdc : r_dc s1 = r_dc s) by (unfold pick_child in Ep; destruct (pick_from _ _ _); [|discriminate]; now injection Ep as _ <-).
        cbn. split; [apply nofail_ok; nf1|]. split; [apply dc_only_eq; unfold push, set_path, set_w; cbn [r_dc]; exact Hdc|].
        apply (Pre_push g w s s1 c); [split; [exact Hph | now rewrite Hp] | exact Hws | exact Hdc|]. rewrite Hp.
        split; [split; [now left | reflexivity]|]. split; [intros []|].
        intros l' x E. destruct l' as [|a [|b t]]; cbn in E; try discriminate.
        2: { injection E as _ _ E. destruct t; discriminate. }
        injection E as <-. unfold avail_children in Hav. apply filter_In in Hav. destruct Hav as [_ Hav]. apply andb_true_iff in Hav.
        destruct Hav as [H1 H2]. split; [exact Hc|]. split; [exact H1|]. apply negb_true_iff in H2. intros Hin. apply memn_In in Hin. congruence.
      * exfalso. now apply (pick_child_succeeds g s (g_root g) w Ecr).
    + destruct (is_occupied g s next w).
      * unfold bounce. cbn.
        match goal with |- _ /\ _ /\ WInv g w (set_w ?a w ?f) =>
          assert (Hws : ws a = ws s) by (destruct (_ && _); reflexivity);
          assert (Hdc : r_dc a = r_dc s) by (destruct (_ && _); reflexivity);
          split; [apply nofail_ok; nf1|]; split; [apply dc_only_eq; cbn [set_w r_dc]; exact Hdc|];
          unfold WInv; rewrite wst_set_w_same by (now rewrite Hws); cbn [ph path set_w r_dc]; rewrite Hdc; apply PI_root
        end.
      * assert (Hadj : adj g next previous) by (eapply chain_adj; eauto).
        assert (Hone : In previous (n_children (nd g next)) \/ In previous (n_parents (nd g next))).
        { destruct Hadj as [H|H]; [right; now apply (pw_sym_c g Hg) | left; now apply (pw_sym_p g Hg)]. }
        assert (HP : Pre g w s) by (split; [exact Hph | now rewrite Hp]).
        assert (Hpush : forall p s1, pick_parent g s next w = Some (p, s1) -> next <> g_root g ->
                        it_p g w s (Cont (push s1 w p) [EPick w next p false])).
        { intros p s1 Ep Hne. destruct (pick_parent_available _ _ _ _ _ _ Ep) as [_ [Hpp _]]. pose proof (ws_pick_parent _ _ _ _ _ _ Ep) as Hws.
          assert (Hdc : r_dc s1 = r_dc s) by (unfold pick_parent in Ep; destruct (pick_from _ _ _); [|discriminate]; now injection Ep as _ <-).
          cbn. split; [apply nofail_ok; nf1|]. split; [apply dc_only_eq; unfold push, set_path, set_w; cbn [r_dc]; exact Hdc|].
          apply (Pre_push g w s s1 p); [exact HP | exact Hws | exact Hdc|]. rewrite Hp. apply PI_push; [exact HPI | now right | exact Hne]. }
        destruct (memn previous (n_children (nd g next))) eqn:Emc.
        -- destruct (setup_ready g s next w) eqn:Esr; [apply (do_traverse_p g s w next true previous rest); auto; discriminate|].
           destruct (pick_parent g s next w) as [[p s1]|] eqn:Ep.
           ++ apply Hpush; [reflexivity|]. intros ->. rewrite (setup_ready_root g s w Hg) in Esr. discriminate.
           ++ exfalso. now apply (pick_parent_succeeds g s next w Esr).
        -- assert (Hpar : In previous (n_parents (nd g next))).
           { destruct Hone as [H|H]; [|exact H]. apply memn_In in H. congruence. }
           assert (Emp : memn previous (n_parents (nd g next)) = true) by now apply memn_In.
           rewrite Emp. destruct (setup_ready g s next w) eqn:Esr; cbn [negb].
           ++ apply (do_traverse_p g s w next false previous rest); auto.
           ++ destruct (pick_parent g s next w) as [[p s1]|] eqn:Ep.
              ** apply Hpush; [reflexivity|]. intros ->. rewrite (setup_ready_root g s w Hg) in Esr. discriminate.
              ** exfalso. now apply (pick_parent_succeeds g s next w Esr).
Qed.

Lemma run_loop_p fuel g w : pwf g -> forall s, Pre g w s ->
  okfail (snd (run_loop fuel g s w)) /\ dc_only w s (fst (run_loop fuel g s w)) /\ WInv g w (fst (run_loop fuel g s w)).
Proof.
  intros Hg. induction fuel as [|f IH]; intros s HP; cbn [run_loop].
  - unfold fail. cbn. apply it_p_fail; [tauto | reflexivity | apply (ready_lt s w (proj1 HP)) | now apply dc_only_eq].
  - pose proof (iter_p g s w Hg HP) as H. destruct (iter g s w) as [s1 e|s1 e]; cbn in H.
    + destruct H as [H1 [H2 H3]]. specialize (IH s1 H3). destruct (run_loop f g s1 w) as [s2 e2]. cbn in *. destruct IH as [I1 [I2 I3]].
      split; [now apply okfail_app|]. split; [eapply dc_only_trans; eauto | exact I3].
    + exact H.
Qed.

Lemma continue_p g w s r : pwf g -> it_p g w s r ->
  let x := match r with Halt s2 e => (s2, e) | Cont s2 e => let '(s3, e3) := run_loop FUEL g s2 w in (s3, e ++ e3) end in
  okfail (snd x) /\ dc_only w s (fst x) /\ WInv g w (fst x).
Proof.
  intros Hg H. destruct r as [s2 e|s2 e]; cbn in H; cbn zeta.
  - destruct H as [H1 [H2 H3]]. pose proof (run_loop_p FUEL g w Hg s2 H3) as [I1 [I2 I3]].
    destruct (run_loop FUEL g s2 w) as [s3 e3]. cbn in *. split; [now apply okfail_app|]. split; [eapply dc_only_trans; eauto | exact I3].
  - exact H.
Qed.

Lemma alive_lt s w : ph (wst s w) <> Exited -> w < length (ws s).
Proof.
  intros H. destruct (Nat.lt_ge_cases w (length (ws s))) as [L|L]; [exact L|]. rewrite (wst_overflow s w L) in H. now destruct H.
Qed.

Theorem resume_p g s w out : pwf g -> WInv g w s ->
  okfail (snd (resume g s w out)) /\ dc_only w s (fst (resume g s w out)) /\ WInv g w (fst (resume g s w out)).
Proof.
  intros Hg HW. unfold resume. unfold WInv in HW. destruct (ph (wst s w)) as [| next pre fc uid | | |c] eqn:Eph.
  - assert (L : w < length (ws s)) by (apply alive_lt; rewrite Eph; discriminate).
    assert (HP : Pre g w (set_phase s w Ready)) by (unfold Pre; rewrite wst_set_phase by exact L; split; [reflexivity | exact HW]).
    destruct (run_loop_p FUEL g w Hg _ HP) as [H1 [H2 H3]]. split; [exact H1|]. split; [|exact H3].
    eapply dc_only_trans; [apply dc_only_eq; reflexivity | exact H2].
  - assert (L : w < length (ws s)) by (apply alive_lt; rewrite Eph; discriminate).
    destruct HW as [HPI [previous [rest [Hp Hfc]]]]. rewrite Hp. cbn [tl hd].
    set (s0 := mkS (ws s) (ns s) (r_ps s) (r_pc s) (r_ds s) (r_dc s) (pool s) _).
    set (seen := match find _ (job s0) with Some e => Some (snd e) | None => None end).
    assert (Hcont : forall s1, ws s1 = ws s -> r_dc s1 = r_dc s ->
      let s3 := set_phase s1 w Ready in
      let x := match (if fc then after_from_child g s3 w next previous else after_from_parent g s3 w next) with
               | Halt s2 e => (s2, e) | Cont s2 e => let '(s4, e3) := run_loop FUEL g s2 w in (s4, e ++ e3) end in
      okfail (snd x) /\ dc_only w s (fst x) /\ WInv g w (fst x)).
    { intros s1 Hws Hdc s3.
      assert (HP3 : Pre g w s3).
      { unfold s3, Pre. rewrite wst_set_phase by (now rewrite Hws). rewrite (wst_ws_eq s1 s w Hws). cbn [ph path]. split; [reflexivity|].
        change (r_dc (set_phase s1 w Ready)) with (r_dc s1). now rewrite Hdc. }
      assert (Hp3 : path (wst s3 w) = next :: previous :: rest).
      { unfold s3. rewrite wst_set_phase by (now rewrite Hws). rewrite (wst_ws_eq s1 s w Hws). exact Hp. }
      assert (Hit : it_p g w s3 (if fc then after_from_child g s3 w next previous else after_from_parent g s3 w next)).
      { destruct fc; [now apply (after_from_child_p g s3 w next previous rest) | apply (after_from_parent_p g s3 w next previous rest); auto]. }
      destruct (continue_p g w s3 _ Hg Hit) as [H1 [H2 H3]]. split; [exact H1|]. split; [|exact H3].
      eapply dc_only_trans; [apply dc_only_eq; exact Hdc | exact H2]. }
    destruct pre.
    + destruct (run_ok seen).
      * unfold start_run. cbn [fst snd]. split; [apply nofail_ok; nf1|]. split; [now apply dc_only_eq|].
        unfold WInv. match goal with |- context [set_phase ?a w ?p] => rewrite (wst_set_phase a w p) by exact L; rewrite (wst_ws_eq a s w eq_refl) end.
        cbn [ph path]. split; [exact HPI|]. exists previous, rest. split; assumption.
      * match goal with |- context [set_phase (mark_done ?a next w) w Ready] => apply (Hcont (mark_done a next w)); reflexivity end.
    + apply (Hcont (mark_done (finish_run g s0 next w seen) next w)); unfold mark_done, finish_run; destruct seen as [[]|]; reflexivity.
  - assert (L : w < length (ws s)) by (apply alive_lt; rewrite Eph; discriminate).
    assert (HP : Pre g w (set_phase s w Ready)) by (unfold Pre; rewrite wst_set_phase by exact L; split; [reflexivity | exact HW]).
    destruct (run_loop_p FUEL g w Hg _ HP) as [H1 [H2 H3]]. split; [exact H1|]. split; [|exact H3].
    eapply dc_only_trans; [apply dc_only_eq; reflexivity | exact H2].
  - cbn. split; [intros v c []|]. split; [now apply dc_only_eq|]. unfold WInv. now rewrite Eph.
  - cbn. split; [intros v c0 []|]. split; [now apply dc_only_eq|]. unfold WInv. now rewrite Eph.
Qed.

(* ---- all workers ---- *)
Lemma WInv_other g v w s s' : v <> w -> wst s' v = wst s v -> dc_only w s s' -> WInv g v s -> WInv g v s'.
Proof.
  intros Hne Hw Hd H. unfold WInv in *. rewrite Hw.
  assert (Hdc : forall key, In v (reg_workers (r_dc s') key) -> In v (reg_workers (r_dc s) key)).
  { intros key Hin. destruct (Hd key v Hin) as [A|A]; [exact A | contradiction]. }
  destruct (ph (wst s v)); try exact H; try (now apply (PI_dc g v (r_dc s))).
  destruct H as [H1 H2]. split; [now apply (PI_dc g v (r_dc s)) | exact H2].
Qed.

Record PInv (g : graph) (s : state) : Prop := mkPInv { pi_p : AllP g s; pi_w : forall v, WInv g v s }.

Lemma PInv_init g p : pwf g -> PInv g (init_state g p).
Proof.
  intros Hg. split; [apply AllP_init|]. intros v. unfold WInv. destruct (wst_init g p v) as [E|E]; rewrite E; cbn [ph path]; [apply PI_root | exact I].
Qed.

Lemma schedule_p g sched : pwf g -> forall s, PInv g s ->
  PInv g (fst (run_schedule g s sched)) /\ forall evs, In evs (snd (run_schedule g s sched)) -> okfail evs.
Proof.
  intros Hg. induction sched as [|[w out] r IH]; intros s [HA HW]; cbn [run_schedule].
  - cbn. split; [now split | intros evs []].
  - destruct (resume_p g s w out Hg (HW w)) as [H1 [H2 H3]]. pose proof (resume_ok g s w out HA) as [_ HA1].
    pose proof (resume_os g s w out HA) as Hos.
    destruct (resume g s w out) as [s1 e]. cbn [fst snd] in *.
    assert (HI1 : PInv g s1).
    { split; [exact HA1|]. intros v. destruct (Nat.eq_dec v w) as [->|Hne]; [exact H3|]. apply (WInv_other g v w s s1 Hne); [now apply Hos | exact H2 | apply HW]. }
    specialize (IH s1 HI1). destruct (run_schedule g s1 r) as [s2 es]. cbn [fst snd] in *. destruct IH as [I1 I2].
    split; [exact I1|]. intros evs [<-|Hin]; [exact H1 | now apply I2].
Qed.

(* C02, no traversal error: for every graph meeting pwf, every pool population, every schedule and outcome assignment and
   any number of workers, no section ever reports a pick from an exhausted node (1), a discontinuous path (2) or an exit
   away from the starting point / an empty path (4); what remains possible in the model are the decision errors (3, 5:
   run or clean policy undefined for the node's settings) and the exhaustion of the model's own fuel (6) *)
Theorem no_path_errors g p sched evs v c : pwf g ->
  In evs (snd (run_schedule g (init_state g p) sched)) -> In (EFail v c) evs -> c = 3%N \/ c = 5%N \/ c = 6%N.
Proof. intros Hg Hin Hf. destruct (schedule_p g sched Hg _ (PInv_init g p Hg)) as [_ H]. exact (H evs Hin v c Hf). Qed.

(* a worker that has exited is back at the starting point with nothing left below the root: built into iter (the exit is
   taken only with the path [root]); the theorem above says that the other outcome of that test never occurs *)

Theorem pwf_b_sound g : pwf_b g = true -> pwf g.
Proof.
  unfold pwf_b. intros H. apply andb_prop in H. destruct H as [H0 H]. rewrite forallb_forall in H.
  assert (Hin : forall i, i < length (g_nodes g) -> _) by (intros i Hi; apply (H i); apply in_seq; lia).
  assert (Hout : forall i, length (g_nodes g) <= i -> nd g i = dummy_node) by (intros i Hi; now apply nd_overflow).
  assert (Hparts : forall i, i < length (g_nodes g) ->
     (forall a, In a (n_children (nd g i)) -> In i (n_parents (nd g a))) /\
     (forall a, In a (n_parents (nd g i)) -> In i (n_children (nd g a))) /\
     (In (g_root g) (n_parents (nd g i)) -> n_parents (nd g i) = [g_root g]) /\
     (forall p, In p (n_parents (nd g i)) -> n_reg (nd g p) = n_reg (nd g (g_root g)) -> p = g_root g)).
  { intros i Hi. specialize (Hin i Hi). cbn beta zeta in Hin. repeat (apply andb_prop in Hin; destruct Hin as [Hin ?]).
    split; [intros a Ha; apply memn_In; match goal with Hf : forallb _ (n_children _) = true |- _ => rewrite forallb_forall in Hf; now apply Hf end|].
    split; [intros a Ha; apply memn_In; match goal with Hf : forallb (fun a => memn i _) (n_parents _) = true |- _ => rewrite forallb_forall in Hf; now apply Hf end|].
    split.
    - intros Hr. match goal with Hf : negb (memn _ _) || _ = true |- _ => apply orb_prop in Hf; destruct Hf as [Hf|Hf];
        [apply negb_true_iff in Hf; apply memn_In in Hr; congruence
        | destruct (n_parents (nd g i)) as [|p [|q t]]; try discriminate; apply Nat.eqb_eq in Hf; now subst p] end.
    - intros p Hp Er. match goal with Hf : forallb (fun p => negb _ || _) (n_parents _) = true |- _ => rewrite forallb_forall in Hf; specialize (Hf p Hp);
        apply orb_prop in Hf; destruct Hf as [Hf|Hf];
        [apply negb_true_iff in Hf; apply N.eqb_neq in Hf; contradiction | now apply Nat.eqb_eq in Hf] end. }
  constructor.
  - intros a b Ha. destruct (Nat.lt_ge_cases b (length (g_nodes g))) as [Hb|Hb]; [now apply (Hparts b Hb) | rewrite (Hout b Hb) in Ha; destruct Ha].
  - intros a b Ha. destruct (Nat.lt_ge_cases b (length (g_nodes g))) as [Hb|Hb]; [now apply (Hparts b Hb) | rewrite (Hout b Hb) in Ha; destruct Ha].
  - destruct (n_parents (nd g (g_root g))); [reflexivity | discriminate].
  - intros i Hr. destruct (Nat.lt_ge_cases i (length (g_nodes g))) as [Hi|Hi]; [now apply (Hparts i Hi) | rewrite (Hout i Hi) in Hr; destruct Hr].
  - intros i p Hp. destruct (Nat.lt_ge_cases i (length (g_nodes g))) as [Hi|Hi]; [now apply (Hparts i Hi) | rewrite (Hout i Hi) in Hp; destruct Hp].
Qed.

Theorem no_path_errors_b g p sched evs v c : pwf_b g = true ->
  In evs (snd (run_schedule g (init_state g p) sched)) -> In (EFail v c) evs -> c = 3%N \/ c = 5%N \/ c = 6%N.
Proof. intros Hb. apply no_path_errors. now apply pwf_b_sound. Qed.
