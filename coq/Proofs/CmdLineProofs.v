From Coq Require Import String Ascii List Bool.
Import ListNotations.
From I2N Require Import Model.CmdLine.
Open Scope string_scope.

(* ---- dictionary lemmas ---- *)
Lemma lookup_dset_same {A} (l : list (string * A)) k v : lookup (dset l k v) k = Some v.
Proof.
  induction l as [|[k' v'] l IH]; cbn.
  - now rewrite String.eqb_refl.
  - destruct (String.eqb k' k) eqn:E; cbn; rewrite E; auto.
Qed.

Lemma lookup_dset_other {A} (l : list (string * A)) k v k' :
  k' <> k -> lookup (dset l k v) k' = lookup l k'.
Proof.
  intros Hne. induction l as [|[k0 v0] l IH]; cbn.
  - destruct (String.eqb k k') eqn:E; [apply String.eqb_eq in E; congruence | reflexivity].
  - destruct (String.eqb k0 k) eqn:E; cbn.
    + apply String.eqb_eq in E. subst. destruct (String.eqb k k') eqn:E2; [apply String.eqb_eq in E2; congruence | reflexivity].
    + destruct (String.eqb k0 k'); auto.
Qed.

(* ---- rejection: an argument that no state accepts makes the whole command line fail ---- *)
Definition never_ok (e : env) (x : string) : Prop := forall a a', step e a x <> Ok a'.

Lemma loop_rejects e args x : In x args -> never_ok e x -> forall a a', loop e a args <> Ok a'.
Proof.
  induction args as [|y r IH]; intros Hin Hx a a'; [contradiction|]. cbn [loop].
  destruct Hin as [->|Hin].
  - destruct (step e a x) eqn:E; try discriminate. exfalso. exact (Hx _ _ E).
  - destruct (step e a y); try discriminate. now apply IH.
Qed.

Theorem malformed_never_ok e x : split_arg x = None -> never_ok e x.
Proof. intros H a a'. unfold step. rewrite H. discriminate. Qed.

Lemma key_cases k :
  (String.eqb k "only" || String.eqb k "no") = false ->
  (String.eqb k "vms" = true -> (starts "only_" k || starts "no_" k) = false).
Proof.
  intros _ H. apply String.eqb_eq in H. subst. reflexivity.
Qed.

Theorem unknown_vm_never_ok e x v :
  split_arg x = Some ("vms", v) ->
  forallb (fun n => mem n (avail_vms e)) (split_commas v) = false -> never_ok e x.
Proof.
  intros H Hbad a a'. unfold step. rewrite H. cbn [String.eqb Ascii.eqb Bool.eqb orb starts String.prefix].
  change (String.eqb "vms" "vms") with true. cbv iota. rewrite Hbad. discriminate.
Qed.

Theorem unknown_object_never_ok e x k v :
  split_arg x = Some (k, v) -> is_test_key k = false -> is_obj_key k = true ->
  is_nets_restr_key k = false -> vm_of_key e k = None -> never_ok e x.
Proof.
  unfold is_test_key, is_obj_key, is_nets_restr_key. intros H Ht Ho Hn Hv a a'.
  unfold step. rewrite H, Ht, Ho, Hn, Hv. discriminate.
Qed.

(* ---- conflicting net selections ---- *)
Lemma step_explicit_mono e a x a' : step e a x = Ok a' -> explicit_nets a = true -> explicit_nets a' = true.
Proof.
  unfold step. intros H He. destruct (split_arg x) as [[k v]|]; [|discriminate].
  repeat match type of H with
         | (if ?c then _ else _) = _ => destruct c eqn:?
         | match ?c with _ => _ end = _ => destruct c eqn:?
         end; try discriminate; injection H as <-; cbn; auto.
Qed.

Lemma loop_explicit_mono e args : forall a a', loop e a args = Ok a' -> explicit_nets a = true -> explicit_nets a' = true.
Proof.
  induction args as [|x r IH]; intros a a' H He; cbn in H; [now injection H as <-|].
  destruct (step e a x) eqn:E; try discriminate. eapply IH; eauto. eapply step_explicit_mono; eauto.
Qed.

Lemma step_nets_sets_explicit e a x w a' :
  split_arg x = Some ("nets", w) -> step e a x = Ok a' -> explicit_nets a' = true.
Proof.
  unfold step. intros H. rewrite H. cbn [String.eqb Ascii.eqb Bool.eqb orb starts String.prefix].
  change (String.eqb "nets" "vms") with false. change (String.eqb "nets" "nets") with true. cbv iota.
  destruct (negb (String.eqb (nets_str a) "")); [discriminate|]. intros E. now injection E as <-.
Qed.

Lemma step_restr_rejected_when_explicit e a x k v :
  split_arg x = Some (k, v) -> is_nets_restr_key k = true -> explicit_nets a = true ->
  forall a', step e a x <> Ok a'.
Proof.
  unfold is_nets_restr_key. intros H Hk He a'. unfold step. rewrite H.
  assert (Ht : (String.eqb k "only" || String.eqb k "no") = false).
  { apply orb_true_iff in Hk. destruct Hk as [Hk|Hk]; apply String.eqb_eq in Hk; subst; reflexivity. }
  assert (Ho : (starts "only_" k || starts "no_" k) = true).
  { apply orb_true_iff in Hk. destruct Hk as [Hk|Hk]; apply String.eqb_eq in Hk; subst; reflexivity. }
  rewrite Ht, Ho, Hk, He. discriminate.
Qed.

(* nets=... followed (anywhere later) by only_nets / no_nets: rejected *)
Theorem nets_then_restriction_rejected e pre x mid y post w k v :
  split_arg x = Some ("nets", w) -> split_arg y = Some (k, v) -> is_nets_restr_key k = true ->
  forall a a', loop e a (pre ++ x :: mid ++ y :: post) <> Ok a'.
Proof.
  intros Hx Hy Hk. induction pre as [|p pre IH]; intros a a'; cbn [app loop].
  - destruct (step e a x) as [a1| |] eqn:E1; try discriminate.
    pose proof (step_nets_sets_explicit _ _ _ _ _ Hx E1) as He.
    clear E1. revert a1 He. induction mid as [|m mid IHm]; intros a1 He; cbn [app loop].
    + destruct (step e a1 y) eqn:E2; try discriminate. exfalso.
      exact (step_restr_rejected_when_explicit _ _ _ _ _ Hy Hk He _ E2).
    + destruct (step e a1 m) eqn:E2; try discriminate. apply IHm. eapply step_explicit_mono; eauto.
  - destruct (step e a p); try discriminate. apply IH.
Qed.

(* an effective only_nets / no_nets followed by nets=..., with no nets restriction in between: rejected *)
Lemma step_restr_sets_nets_str e a x k v a' :
  split_arg x = Some (k, v) -> is_nets_restr_key k = true -> v <> "" -> step e a x = Ok a' -> nets_str a' <> "".
Proof.
  unfold is_nets_restr_key. intros H Hk Hv. unfold step. rewrite H.
  assert (Ht : (String.eqb k "only" || String.eqb k "no") = false).
  { apply orb_true_iff in Hk. destruct Hk as [Hk|Hk]; apply String.eqb_eq in Hk; subst; reflexivity. }
  assert (Ho : (starts "only_" k || starts "no_" k) = true).
  { apply orb_true_iff in Hk. destruct Hk as [Hk|Hk]; apply String.eqb_eq in Hk; subst; reflexivity. }
  rewrite Ht, Ho, Hk. destruct (explicit_nets a); [discriminate|].
  assert (Ev : String.eqb v "" = false) by (apply String.eqb_neq; exact Hv). rewrite Ev.
  destruct (lookup (nets_oracle e) _) as [[s|]|]; try discriminate. intros E. injection E as <-. cbn.
  unfold line. destruct (if String.eqb k "only_nets" then "only" else "no"); discriminate.
Qed.

Lemma step_keeps_nets_str e a x a' :
  (forall k v, split_arg x = Some (k, v) -> is_nets_restr_key k = false) ->
  step e a x = Ok a' -> nets_str a' = nets_str a.
Proof.
  unfold step, is_nets_restr_key. intros Hk H. destruct (split_arg x) as [[k v]|]; [|discriminate].
  specialize (Hk k v eq_refl). rewrite Hk in H.
  repeat match type of H with
         | (if ?c then _ else _) = _ => destruct c eqn:?
         | match ?c with _ => _ end = _ => destruct c eqn:?
         end; try discriminate; injection H as <-; reflexivity.
Qed.

Theorem restriction_then_nets_rejected e pre x mid y post k v w :
  split_arg x = Some (k, v) -> is_nets_restr_key k = true -> v <> "" ->
  (forall m k' v', In m mid -> split_arg m = Some (k', v') -> is_nets_restr_key k' = false) ->
  split_arg y = Some ("nets", w) ->
  forall a a', loop e a (pre ++ x :: mid ++ y :: post) <> Ok a'.
Proof.
  intros Hx Hk Hv Hmid Hy. induction pre as [|p pre IH]; intros a a'; cbn [app loop].
  - destruct (step e a x) as [a1| |] eqn:E1; try discriminate.
    pose proof (step_restr_sets_nets_str _ _ _ _ _ _ Hx Hk Hv E1) as Hn. clear E1.
    revert a1 Hn. induction mid as [|m mid IHm]; intros a1 Hn; cbn [app loop].
    + unfold step at 1. rewrite Hy. cbn [String.eqb Ascii.eqb Bool.eqb orb starts String.prefix].
      change (String.eqb "nets" "vms") with false. change (String.eqb "nets" "nets") with true. cbv iota.
      assert (E : String.eqb (nets_str a1) "" = false) by (apply String.eqb_neq; exact Hn).
      rewrite E. cbn. discriminate.
    + destruct (step e a1 m) eqn:E2; try discriminate. apply IHm.
      * intros m' k' v' Hin. apply Hmid. now right.
      * rewrite (step_keeps_nets_str _ _ _ _ (fun k' v' H => Hmid m k' v' (or_introl eq_refl) H) E2). exact Hn.
  - destruct (step e a p); try discriminate. apply IH.
Qed.

(* ---- the test restriction string ---- *)
Lemma loop_tests e args : forall a a',
  loop e a args = Ok a' ->
  tests_str a' = tests_str a ++ test_lines args /\
  tests_def a' = tests_def a && negb (has_primary e args).
Proof.
  induction args as [|x r IH]; intros a a' H; cbn in H.
  - injection H as <-. cbn. rewrite andb_true_r. split; [|reflexivity].
    clear. induction (tests_str a); cbn; congruence.
  - destruct (step e a x) as [a1| |] eqn:E; try discriminate.
    destruct (IH _ _ H) as [H1 H2]. cbn [test_lines has_primary].
    unfold step in E. destruct (split_arg x) as [[k v]|]; [|discriminate].
    unfold is_test_key.
    destruct (String.eqb k "only" || String.eqb k "no") eqn:Et.
    + injection E as <-. cbn in *. rewrite H1, H2. split.
      * clear. generalize (line k v) (test_lines r). intros l t.
        induction (tests_str a); cbn; [reflexivity | now rewrite IHs].
      * rewrite negb_orb. now rewrite andb_assoc.
    + cbn [andb orb].
      assert (Hsame : tests_str a1 = tests_str a /\ tests_def a1 = tests_def a).
      { repeat match type of E with
               | (if ?c then _ else _) = _ => destruct c eqn:?
               | match ?c with _ => _ end = _ => destruct c eqn:?
               end; try discriminate; injection E as <-; cbn; auto. }
      destruct Hsame as [Hs Hd]. rewrite H1, H2, Hs, Hd. auto.
Qed.

Theorem tests_str_spec e args r :
  params_from_cmd e args = Ok r ->
  (has_primary e args = true -> r_tests_str r = test_lines args) /\
  (has_primary e args = false ->
   exists d, mem d (avail_restr e) = true /\ r_tests_str r = test_lines args ++ line "only" d).
Proof.
  unfold params_from_cmd. destruct (loop e (init e) args) as [a| |] eqn:E; try discriminate.
  destruct (loop_tests _ _ _ _ E) as [H1 H2]. cbn in H1, H2. unfold finish. rewrite H2.
  destruct (has_primary e args); cbn [negb].
  - intros H. injection H as <-. cbn. split; [now intros _ | discriminate].
  - set (d := match cfg_get a (tests_default e) "default_only" with Some d => d | None => "all" end).
    destruct (mem d (avail_restr e)) eqn:Em; [|discriminate].
    intros H. injection H as <-. cbn. split; [discriminate|]. intros _. exists d. rewrite H1. auto.
Qed.

(* ---- a free K=V overrides that parameter: the last value, commas as spaces ---- *)
Lemma step_pdict_other e a x a' key :
  is_special key = false -> step e a x = Ok a' ->
  lookup (pdict a') key =
  match split_arg x with
  | Some (k, v) => if String.eqb k key then Some (commas_to_spaces v) else lookup (pdict a) key
  | None => lookup (pdict a) key
  end.
Proof.
  unfold is_special, is_test_key, is_obj_key. intros Hs H. unfold step in H.
  destruct (split_arg x) as [[k v]|]; [|discriminate].
  apply orb_false_iff in Hs. destruct Hs as [Hs Hnets]. apply orb_false_iff in Hs. destruct Hs as [Hs Hvms].
  apply orb_false_iff in Hs. destruct Hs as [Htest Hobj].
  destruct (String.eqb k key) eqn:Ek.
  - apply String.eqb_eq in Ek. subst k. rewrite Htest, Hobj, Hvms, Hnets in H.
    injection H as <-. cbn. apply lookup_dset_same.
  - assert (Hne : key <> k) by (intros ->; rewrite String.eqb_refl in Ek; discriminate).
    assert (Hn : key <> "nets") by (intros ->; discriminate).
    repeat match type of H with
           | (if ?c then _ else _) = _ => destruct c eqn:?
           | match ?c with _ => _ end = _ => destruct c eqn:?
           end; try discriminate; injection H as <-; cbn; try reflexivity;
      rewrite lookup_dset_other; auto.
Qed.

Theorem override_spec e args key : is_special key = false ->
  forall a a', loop e a args = Ok a' ->
  lookup (pdict a') key =
  match last_arg args key with Some v => Some (commas_to_spaces v) | None => lookup (pdict a) key end.
Proof.
  intros Hs. induction args as [|x r IH]; intros a a' H; cbn in H.
  - now injection H as <-.
  - destruct (step e a x) as [a1| |] eqn:E; try discriminate.
    rewrite (IH _ _ H). cbn [last_arg]. destruct (last_arg r key); [reflexivity|].
    rewrite (step_pdict_other _ _ _ _ _ Hs E). destruct (split_arg x) as [[k v]|]; [|reflexivity].
    destruct (String.eqb k key); reflexivity.
Qed.
