(* Proofs about Model/Register.v *)
From Coq Require Import List NArith Bool Lia Arith.
Import ListNotations.
From I2N Require Import Model.Register.

Lemma wlookup_bump_same ws w : wlookup (bump ws w) w = S (wlookup ws w).
Proof.
  induction ws as [|[w' c] ws IH]; cbn.
  - now rewrite N.eqb_refl.
  - destruct (N.eqb w' w) eqn:E; cbn; rewrite E; auto.
Qed.

Lemma wlookup_bump_other ws w v : v <> w -> wlookup (bump ws w) v = wlookup ws v.
Proof.
  intros Hne. induction ws as [|[w' c] ws IH]; cbn.
  - destruct (N.eqb w v) eqn:E; auto. apply N.eqb_eq in E; congruence.
  - destruct (N.eqb w' w) eqn:E; cbn.
    + apply N.eqb_eq in E; subst. destruct (N.eqb w v) eqn:E2; auto.
      apply N.eqb_eq in E2; congruence.
    + destruct (N.eqb w' v); auto.
Qed.

Lemma sum_bump ws w : sum (map snd (bump ws w)) = S (sum (map snd ws)).
Proof.
  induction ws as [|[w' c] ws IH]; cbn; auto.
  destruct (N.eqb w' w); cbn; auto. rewrite IH. lia.
Qed.

Lemma rlookup_register_same r k w : rlookup (register r k w) k = bump (rlookup r k) w.
Proof.
  induction r as [|[k' ws] r IH]; cbn.
  - now rewrite N.eqb_refl.
  - destruct (N.eqb k' k) eqn:E; cbn; rewrite E; auto.
Qed.

Lemma rlookup_register_other r k w j : j <> k -> rlookup (register r k w) j = rlookup r j.
Proof.
  intros Hne. induction r as [|[k' ws] r IH]; cbn.
  - destruct (N.eqb k j) eqn:E; auto. apply N.eqb_eq in E; congruence.
  - destruct (N.eqb k' k) eqn:E; cbn.
    + apply N.eqb_eq in E; subst. destruct (N.eqb k j) eqn:E2; auto.
      apply N.eqb_eq in E2; congruence.
    + destruct (N.eqb k' j); auto.
Qed.

(* per-row aggregate used by get_counters *)
Definition rowval (w : option wid) (ws : list (wid * nat)) : nat :=
  match w with Some w => wlookup ws w | None => sum (map snd ws) end.

Lemma get_counters_unfold r k w :
  get_counters r k w =
  sum (map (rowval w) (match k with Some k => [rlookup r k] | None => map snd r end)).
Proof. reflexivity. Qed.

Definition hit (w : option wid) (x : wid) : nat :=
  match w with Some w => if N.eqb x w then 1 else 0 | None => 1 end.

Lemma rowval_bump w ws x : rowval w (bump ws x) = rowval w ws + hit w x.
Proof.
  destruct w as [w|]; cbn.
  - destruct (N.eqb x w) eqn:E.
    + apply N.eqb_eq in E; subst. rewrite wlookup_bump_same. lia.
    + rewrite wlookup_bump_other; [lia|]. intros ->. now rewrite N.eqb_refl in E.
  - rewrite sum_bump. lia.
Qed.

Lemma rowval_nil w : rowval w [] = 0.
Proof. destruct w; reflexivity. Qed.

Lemma sum_rows_register r k x w :
  sum (map (rowval w) (map snd (register r k x))) =
  sum (map (rowval w) (map snd r)) + hit w x.
Proof.
  induction r as [|[k' ws] r IH]; cbn.
  - destruct w as [w|]; cbn; [destruct (N.eqb x w)|]; lia.
  - destruct (N.eqb k' k); cbn.
    + rewrite rowval_bump. lia.
    + rewrite IH. lia.
Qed.

Lemma get_counters_register r k x ko w :
  get_counters (register r k x) ko w =
  get_counters r ko w +
  (if match ko with Some k' => N.eqb k k' | None => true end then hit w x else 0).
Proof.
  rewrite !get_counters_unfold. destruct ko as [k'|].
  - cbn [map sum]. destruct (N.eqb k k') eqn:E.
    + apply N.eqb_eq in E; subst. rewrite rlookup_register_same, rowval_bump. lia.
    + rewrite rlookup_register_other; [lia|]. intros ->. now rewrite N.eqb_refl in E.
  - apply sum_rows_register.
Qed.

Lemma count_kw_snoc ops k x ko w :
  count_kw (ops ++ [(k, x)]) ko w =
  count_kw ops ko w +
  (if match ko with Some k' => N.eqb k k' | None => true end then hit w x else 0).
Proof.
  unfold count_kw. rewrite filter_app, app_length. f_equal. cbn.
  destruct ko as [k'|]; destruct w as [w'|]; cbn;
    repeat match goal with |- context [N.eqb ?a ?b] => destruct (N.eqb a b) end; reflexivity.
Qed.

Lemma register_all_snoc ops k x :
  register_all (ops ++ [(k, x)]) = register (register_all ops) k x.
Proof. unfold register_all. now rewrite fold_left_app. Qed.

(* C16: the counters are exact, for every register sequence and all four
   combinations of the optional arguments *)
Theorem counters_exact ops ko w :
  get_counters (register_all ops) ko w = count_kw ops ko w.
Proof.
  induction ops as [|[k x] ops IH] using rev_ind.
  - destruct ko, w; reflexivity.
  - rewrite register_all_snoc, get_counters_register, count_kw_snoc, IH. reflexivity.
Qed.

(* workers *)
Lemma In_bump ws w v : In v (map fst (bump ws w)) <-> v = w \/ In v (map fst ws).
Proof.
  induction ws as [|[w' c] ws IH]; cbn.
  - intuition.
  - destruct (N.eqb w' w) eqn:E; cbn.
    + apply N.eqb_eq in E; subst. intuition.
    + rewrite IH. intuition.
Qed.

Lemma In_workers_register r k x ko v :
  In v (get_workers (register r k x) ko) <->
  In v (get_workers r ko) \/
  (v = x /\ match ko with Some k' => k = k' | None => True end).
Proof.
  unfold get_workers. destruct ko as [k'|].
  - cbn [flat_map]. rewrite !app_nil_r. destruct (N.eq_dec k k') as [->|Hne].
    + rewrite rlookup_register_same, In_bump. intuition.
    + rewrite rlookup_register_other by congruence. intuition.
  - induction r as [|[k0 ws] r IH]; cbn.
    + intuition.
    + destruct (N.eqb k0 k); cbn; rewrite !in_app_iff.
      * rewrite In_bump. intuition.
      * rewrite IH. intuition.
Qed.

Theorem workers_exact ops ko v :
  In v (get_workers (register_all ops) ko) <->
  exists k, In (k, v) ops /\ match ko with Some k' => k = k' | None => True end.
Proof.
  induction ops as [|[k x] ops IH] using rev_ind.
  - destruct ko; cbn; split; try tauto; intros (k0 & [] & _).
  - rewrite register_all_snoc, In_workers_register, IH. split.
    + intros [(k0 & Hin & Hk)|(-> & Hk)].
      * exists k0. split; auto. apply in_or_app; auto.
      * exists k. split; auto. apply in_or_app; right; left; auto.
    + intros (k0 & Hin & Hk). apply in_app_or in Hin as [Hin|[Heq|[]]].
      * left. exists k0; auto.
      * inversion Heq; subst. right; auto.
Qed.
