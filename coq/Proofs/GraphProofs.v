From Coq Require Import List NArith Bool Arith Lia.
Import ListNotations.
From I2N Require Import Model.Graph.

(* a dependency edge: p is recorded as a parent of c *)
Definition edge (g : pgraph) (p c : nat) : Prop := c < length g /\ In p (map fst (gn_parents (gnd g c))).
Inductive path (g : pgraph) : nat -> nat -> Prop :=
| path_one a b : edge g a b -> path g a b
| path_cons a b c : edge g a b -> path g b c -> path g a c.

Lemma in_idxs g i : In i (idxs g) <-> i < length g.
Proof. unfold idxs. rewrite in_seq. lia. Qed.

Lemma ranks_edge g r p c : ranks_ok g r = true -> edge g p c -> p < length g /\ rank r p < rank r c.
Proof.
  unfold ranks_ok. rewrite forallb_forall. intros H [Hc Hp]. apply in_map_iff in Hp. destruct Hp as [[p' objs] [<- Hin]].
  specialize (H c (proj2 (in_idxs g c) Hc)). rewrite forallb_forall in H. specialize (H _ Hin). cbn in *.
  apply andb_true_iff in H. destruct H as [H1 H2]. apply Nat.ltb_lt in H1. apply Nat.ltb_lt in H2. auto.
Qed.

Lemma ranks_path g r a b : ranks_ok g r = true -> path g a b -> rank r a < rank r b.
Proof.
  intros H Hp. induction Hp as [a b He | a b c He _ IH].
  - now apply (ranks_edge g r a b H).
  - pose proof (ranks_edge g r a b H He). lia.
Qed.

Lemma path_trans_one g a b c : path g a b -> edge g b c -> path g a c.
Proof. induction 1 as [a b He | a b d He _ IH]; intros H2; [eapply path_cons; [exact He | now constructor] | eapply path_cons; [exact He | now apply IH]]. Qed.

(* C06: acyclic *)
Theorem ranks_ok_acyclic g r : ranks_ok g r = true -> forall a, ~ path g a a.
Proof. intros H a Hp. pose proof (ranks_path g r a a H Hp). lia. Qed.

(* C06: exactly one starting node, from which every node is reachable *)
Theorem one_root_unique g : one_root g = true -> exists r, roots g = [r] /\ gn_parents (gnd g r) = [] /\
  forall i, i < length g -> gn_root (gnd g i) = true -> i = r.
Proof.
  unfold one_root. destruct (roots g) as [|r [|r2 rest]] eqn:E; try discriminate. intros H.
  apply andb_true_iff in H. destruct H as [H1 _]. exists r. split; [reflexivity|]. split.
  - destruct (gn_parents (gnd g r)); [reflexivity | discriminate].
  - intros i Hi Hr. assert (Hin : In i (roots g)) by (unfold roots; apply filter_In; split; [now apply in_idxs | exact Hr]).
    rewrite E in Hin. destruct Hin as [<-|[]]. reflexivity.
Qed.

Theorem all_reachable g r root :
  ranks_ok g r = true -> one_root g = true -> roots g = [root] ->
  forall i, i < length g -> i = root \/ path g root i.
Proof.
  intros Hr Ho Eroot. unfold one_root in Ho. rewrite Eroot in Ho. apply andb_true_iff in Ho. destruct Ho as [_ Hpar].
  rewrite forallb_forall in Hpar.
  assert (Hgen : forall k i, rank r i < k -> i < length g -> i = root \/ path g root i).
  { induction k as [|k IH]; intros i Hk Hi; [lia|].
    specialize (Hpar i (proj2 (in_idxs g i) Hi)). apply orb_true_iff in Hpar. destruct Hpar as [Hpar|Hpar].
    - left. now apply Nat.eqb_eq in Hpar.
    - destruct (gn_parents (gnd g i)) as [|[p objs] rest] eqn:Ep; [discriminate|].
      assert (He : edge g p i) by (split; [exact Hi | rewrite Ep; now left]).
      destruct (ranks_edge g r p i Hr He) as [Hp Hlt].
      destruct (IH p ltac:(lia) Hp) as [->|Hpath]; right; [now constructor | eapply path_trans_one; eauto]. }
  intros i Hi. apply (Hgen (S (rank r i))); [lia | exact Hi].
Qed.

(* ---- C06: every dependency is recorded on both ends ---- *)
Lemma memN_In x l : memN x l = true <-> In x l.
Proof.
  unfold memN. rewrite existsb_exists. split.
  - intros [y [Hy E]]. apply N.eqb_eq in E. now subst.
  - intros H. exists x. split; [exact H | apply N.eqb_refl].
Qed.

Lemma seteqN_spec a b : seteqN a b = true -> forall x, In x a <-> In x b.
Proof.
  unfold seteqN, subsetN. intros H x. apply andb_true_iff in H. destruct H as [H1 H2].
  rewrite forallb_forall in H1, H2. split; intros Hx; apply memN_In; auto.
Qed.

Theorem edge_sym_sound g : edge_sym g = true ->
  forall c p objs, c < length g ->
  (In (p, objs) (gn_parents (gnd g c)) -> exists objs', In (c, objs') (gn_children (gnd g p)) /\ forall x, In x objs' <-> In x objs) /\
  (In (p, objs) (gn_children (gnd g c)) -> exists objs', In (c, objs') (gn_parents (gnd g p)) /\ forall x, In x objs' <-> In x objs).
Proof.
  unfold edge_sym. rewrite forallb_forall. intros H c p objs Hc. specialize (H c (proj2 (in_idxs g c) Hc)).
  apply andb_true_iff in H. destruct H as [H1 H2]. rewrite forallb_forall in H1, H2. split; intros Hin.
  - specialize (H1 _ Hin). cbn in H1. unfold has_edge in H1. apply existsb_exists in H1. destruct H1 as [[c' objs'] [Hin' E]].
    cbn in E. apply andb_true_iff in E. destruct E as [E1 E2]. apply Nat.eqb_eq in E1. subst c'.
    exists objs'. split; [exact Hin' | now apply seteqN_spec].
  - specialize (H2 _ Hin). cbn in H2. unfold has_edge in H2. apply existsb_exists in H2. destruct H2 as [[c' objs'] [Hin' E]].
    cbn in E. apply andb_true_iff in E. destruct E as [E1 E2]. apply Nat.eqb_eq in E1. subst c'.
    exists objs'. split; [exact Hin' | now apply seteqN_spec].
Qed.

(* ---- C06: no two nodes with the same identity ---- *)
Lemma nodupN_sound l : nodupN l = true -> NoDup l.
Proof.
  induction l as [|x r IH]; intros H; [constructor|]. cbn in H. apply andb_true_iff in H. destruct H as [H1 H2].
  constructor; [|now apply IH]. intros Hin. apply memN_In in Hin. rewrite Hin in H1. discriminate.
Qed.

Theorem nodup_ids_sound g : nodup_ids g = true -> NoDup (map gn_id g).
Proof. apply nodupN_sound. Qed.

(* ---- C06 / C07: exactly one producer per required state; no spurious dependency ---- *)
Theorem producer_unique g c o st :
  producers_ok g = true -> c < length g -> gn_flat (gnd g c) = false -> gn_clones (gnd g c) = [] ->
  In o (gn_objs (gnd g c)) -> go_get o = Some st -> go_net o = false -> go_given o = false ->
  exists p, producers g c (go_id o) st = [p].
Proof.
  unfold producers_ok. rewrite forallb_forall. intros H Hc Hf Hcl Ho Hg Hn Hv.
  specialize (H c (proj2 (in_idxs g c) Hc)). unfold node_producers_ok in H. rewrite Hf, Hcl in H. cbn [orb] in H.
  apply andb_true_iff in H. destruct H as [H _]. rewrite forallb_forall in H. specialize (H o Ho).
  rewrite Hg, Hn, Hv in H. cbn [orb] in H. apply Nat.eqb_eq in H.
  destruct (producers g c (go_id o) st) as [|p [|q r]]; try discriminate. now exists p.
Qed.

Theorem producer_is_parent g c o st p :
  In p (producers g c o st) ->
  exists objs, In (p, objs) (gn_parents (gnd g c)) /\ In o objs /\ sets_state (gnd g p) o st = true /\
               opt_eqN (gn_worker (gnd g p)) (gn_worker (gnd g c)) = true.
Proof.
  unfold producers. intros H. apply in_map_iff in H. destruct H as [[p' objs] [<- H]]. apply filter_In in H.
  destruct H as [Hin E]. cbn in E. apply andb_true_iff in E. destruct E as [E E3]. apply andb_true_iff in E. destruct E as [E1 E2].
  exists objs. repeat split; auto. now apply memN_In.
Qed.

Theorem no_spurious_dependency g c p objs :
  producers_ok g = true -> c < length g -> gn_flat (gnd g c) = false -> gn_clones (gnd g c) = [] ->
  In (p, objs) (gn_parents (gnd g c)) -> gn_root (gnd g p) = false -> gn_flat (gnd g p) = false ->
  opt_eqN (gn_worker (gnd g p)) (gn_worker (gnd g c)) = true /\
  forall o, In o objs -> exists x st, In x (gn_objs (gnd g c)) /\ go_id x = o /\ go_get x = Some st /\
                                  sets_state (gnd g p) o st = true.
Proof.
  unfold producers_ok. rewrite forallb_forall. intros H Hc Hf Hcl Hin Hr Hfp.
  specialize (H c (proj2 (in_idxs g c) Hc)). unfold node_producers_ok in H. rewrite Hf, Hcl in H. cbn [orb] in H.
  apply andb_true_iff in H. destruct H as [_ H]. rewrite forallb_forall in H. specialize (H _ Hin). cbn [fst snd] in H.
  rewrite Hr, Hfp in H. apply andb_true_iff in H. destruct H as [H1 H2]. split; [exact H2|].
  rewrite forallb_forall in H1. intros o Ho. specialize (H1 o Ho). apply existsb_exists in H1.
  destruct H1 as [x [Hx E]]. apply andb_true_iff in E. destruct E as [E1 E2]. apply N.eqb_eq in E1.
  destruct (go_get x) as [st|] eqn:Eg; [|discriminate]. exists x, st. auto.
Qed.

(* the shared root only carries object creation nodes, each for the object it creates *)
Theorem root_children_create g c p objs :
  producers_ok g = true -> c < length g -> gn_flat (gnd g c) = false -> gn_clones (gnd g c) = [] ->
  In (p, objs) (gn_parents (gnd g c)) -> gn_root (gnd g p) = true ->
  exists o, gn_objroot (gnd g c) = Some o /\ forall x, In x objs <-> In x [o].
Proof.
  unfold producers_ok. rewrite forallb_forall. intros H Hc Hf Hcl Hin Hr.
  specialize (H c (proj2 (in_idxs g c) Hc)). unfold node_producers_ok in H. rewrite Hf, Hcl in H. cbn [orb] in H.
  apply andb_true_iff in H. destruct H as [_ H]. rewrite forallb_forall in H. specialize (H _ Hin). cbn [fst snd] in H.
  rewrite Hr in H. destruct (gn_objroot (gnd g c)) as [o|]; [|discriminate]. exists o. split; [reflexivity|].
  now apply seteqN_spec.
Qed.

(* ---- C06: one network object, the vms the parameters name ---- *)
Theorem nets_ok_sound g n : nets_ok g = true -> In n g -> gn_flat n = false ->
  length (filter go_net (gn_objs n)) = 1 /\ (forall v, In v (gn_param_vms n) <-> In v (gn_attr_vms n)).
Proof.
  unfold nets_ok. rewrite forallb_forall. intros H Hin Hf. specialize (H n Hin). unfold one_net in H. rewrite Hf in H.
  cbn [orb] in H. apply andb_true_iff in H. destruct H as [H H3]. apply andb_true_iff in H. destruct H as [H1 _].
  apply Nat.eqb_eq in H1. split; [exact H1 | now apply seteqN_spec].
Qed.

(* ---- C07: a dependant is cloned once per producer: distinct clones with different required states,
        and the source itself has no dependants ---- *)
Theorem clones_ok_sound g i : clones_ok g = true -> i < length g -> gn_clones (gnd g i) <> [] ->
  (forall c objs, In (c, objs) (gn_children (gnd g i)) -> gn_clones (gnd g c) <> []) /\
  NoDup (map (fun c => gn_name (gnd g c)) (gn_clones (gnd g i))) /\
  forall c1 c2, In c1 (gn_clones (gnd g i)) -> In c2 (gn_clones (gnd g i)) -> c1 <> c2 ->
                seteqN (clone_states g c1) (clone_states g c2) = false.
Proof.
  unfold clones_ok. rewrite forallb_forall. intros H Hi Hne. specialize (H i (proj2 (in_idxs g i) Hi)).
  destruct (gn_clones (gnd g i)) as [|c0 cl] eqn:E; [contradiction|].
  apply andb_true_iff in H. destruct H as [H H4]. apply andb_true_iff in H. destruct H as [H H3].
  apply andb_true_iff in H. destruct H as [H1 _]. split.
  - rewrite forallb_forall in H1. intros c objs Hc Hnil. specialize (H1 _ Hc). cbn in H1. rewrite Hnil in H1. discriminate.
  - split; [now apply nodupN_sound|]. intros c1 c2 Hc1 Hc2 Hd. rewrite forallb_forall in H4. specialize (H4 c1 Hc1).
    rewrite forallb_forall in H4. specialize (H4 c2 Hc2). apply orb_true_iff in H4. destruct H4 as [H4|H4].
    + apply Nat.eqb_eq in H4. contradiction.
    + now apply negb_true_iff in H4.
Qed.

(* ---- C09: links are symmetric, join equal forms of different workers, and share the registers ---- *)
Theorem bridges_ok_sound g i j : bridges_ok g = true -> i < length g -> In j (gn_bridged (gnd g i)) ->
  In i (gn_bridged (gnd g j)) /\ gn_form (gnd g j) = gn_form (gnd g i) /\ gn_reg (gnd g j) = gn_reg (gnd g i) /\ i <> j.
Proof.
  unfold bridges_ok. rewrite forallb_forall. intros H Hi Hj. specialize (H i (proj2 (in_idxs g i) Hi)).
  rewrite forallb_forall in H. specialize (H j Hj).
  repeat (apply andb_true_iff in H; destruct H as [H ?]).
  repeat split.
  - match goal with Hm : memn i _ = true |- _ => unfold memn in Hm; apply existsb_exists in Hm; destruct Hm as [y [Hy E]]; apply Nat.eqb_eq in E; now subst end.
  - match goal with Hf : N.eqb (gn_form _) _ = true |- _ => now apply N.eqb_eq in Hf end.
  - match goal with Hf : N.eqb (gn_reg _) _ = true |- _ => now apply N.eqb_eq in Hf end.
  - match goal with Hn : negb (Nat.eqb i j) = true |- _ => apply negb_true_iff in Hn; now apply Nat.eqb_neq in Hn end.
Qed.

(* ---- C09: equivalence of the worker copies ---- *)

Lemma copies_equiv_sound g w1 w2 i :
  copies_equiv g w1 w2 = true -> i < length g -> gn_worker (gnd g i) = Some w1 ->
  (mirror g w2 i = None /\ In w2 (gn_excl (gnd g i))) \/
  (exists j, mirror g w2 i = Some j /\ ~ In w2 (gn_excl (gnd g i)) /\
             length (gn_parents (gnd g i)) = length (gn_parents (gnd g j)) /\
             forall p objs, In (p, objs) (gn_parents (gnd g i)) -> gn_root (gnd g p) = true \/
                exists pj, mirror g w2 p = Some pj /\ In pj (map fst (gn_parents (gnd g j)))).
Proof.
  intros H Hi Hw. unfold copies_equiv in H. rewrite forallb_forall in H.
  assert (Hin : In i (worker_nodes g w1)).
  { unfold worker_nodes. apply filter_In. split.
    - unfold idxs. apply in_seq. split; [apply Nat.le_0_l | exact Hi].
    - rewrite Hw. cbn. apply N.eqb_refl. }
  specialize (H i Hin). unfold node_mirrored in H.
  destruct (mirror g w2 i) as [j|] eqn:Em.
  - right. exists j. apply andb_prop in H. destruct H as [H Hlen]. apply andb_prop in H. destruct H as [Hex Hpar].
    split; [reflexivity|]. split.
    + intros Hc. apply memN_In in Hc. rewrite Hc in Hex. discriminate.
    + split; [now apply Nat.eqb_eq|]. intros p objs Hp. rewrite forallb_forall in Hpar.
      specialize (Hpar (p, objs) Hp). cbn [fst] in Hpar. apply orb_prop in Hpar. destruct Hpar as [Hr|Hm]; [now left|].
      right. destruct (mirror g w2 p) as [pj|]; [|discriminate]. exists pj. split; [reflexivity|].
      unfold memn in Hm. apply existsb_exists in Hm. destruct Hm as [y [Hy E]]. apply Nat.eqb_eq in E. now subst.
  - left. split; [reflexivity|]. now apply memN_In.
Qed.
