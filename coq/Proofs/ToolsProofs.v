From Coq Require Import List NArith Bool Arith Lia.
Import ListNotations.
From I2N Require Import Model.Tools.

(* ---- the chain ---- *)
Lemma chain_from_calls k outs code : fst (chain_from k outs code) = seq k (length outs).
Proof.
  revert k code. induction outs as [|o r IH]; intros k code; cbn; [reflexivity|].
  specialize (IH (S k) (if step_failed o then 1%N else code)).
  destruct (chain_from (S k) r _) as [calls c]. cbn in *. now rewrite IH.
Qed.

Lemma chain_from_code k outs code :
  snd (chain_from k outs code) = if existsb step_failed outs then 1%N else code.
Proof.
  revert k code. induction outs as [|o r IH]; intros k code; cbn; [reflexivity|].
  specialize (IH (S k) (if step_failed o then 1%N else code)).
  destruct (chain_from (S k) r _) as [calls c]. cbn in *. rewrite IH.
  destruct (step_failed o); cbn; [now destruct (existsb step_failed r) | reflexivity].
Qed.

(* all steps run, in the given order, whatever fails *)
Theorem chain_runs_all outs : fst (chain outs) = seq 0 (length outs).
Proof. apply chain_from_calls. Qed.

(* the chain reports failure iff some step failed *)
Theorem chain_code outs : snd (chain outs) = 1%N <-> exists o, In o outs /\ step_failed o = true.
Proof.
  unfold chain. rewrite chain_from_code. destruct (existsb step_failed outs) eqn:E.
  - split; [intros _ | reflexivity]. now apply existsb_exists in E.
  - split; [discriminate|]. intros H. apply existsb_exists in H. congruence.
Qed.

Theorem chain_code_ok outs : snd (chain outs) = 0%N <-> forall o, In o outs -> step_failed o = false.
Proof.
  unfold chain. rewrite chain_from_code. destruct (existsb step_failed outs) eqn:E.
  - split; [discriminate|]. intros H. apply existsb_exists in E. destruct E as [o [Ho E]]. rewrite (H o Ho) in E. discriminate.
  - split; [|reflexivity]. intros _ o Ho. destruct (step_failed o) eqn:Eo; [|reflexivity].
    assert (existsb step_failed outs = true) by (apply existsb_exists; eauto). congruence.
Qed.

(* ---- flag_children: exactly the nodes reachable through at most `fuel` child edges ---- *)
Inductive path_le (g : dag) : nat -> N -> N -> Prop :=
| path_refl k n : path_le g k n n
| path_step k n c x : In c (kids g n) -> path_le g k c x -> path_le g (S k) n x.

Theorem desc_spec g fuel : forall n x, In x (desc fuel g n) <-> path_le g fuel n x.
Proof.
  induction fuel as [|f IH]; intros n x; cbn.
  - split.
    + intros [<-|[]]. constructor.
    + intros H. inversion H; subst. now left.
  - split.
    + intros [<-|H]; [constructor|]. apply in_flat_map in H. destruct H as [c [Hc Hx]].
      econstructor; [exact Hc | now apply IH].
    + intros H. inversion H; subst; [now left|]. right. apply in_flat_map. exists c. split; [assumption | now apply IH].
Qed.

Lemma path_le_mono g k n x : path_le g k n x -> forall k', k <= k' -> path_le g k' n x.
Proof.
  induction 1; intros k' Hk; [constructor|]. destruct k' as [|k']; [lia|].
  econstructor; [eassumption|]. apply IHpath_le. lia.
Qed.

Theorem flag_children_all g fuel start x :
  In x (flag_children fuel g start false false) <-> path_le g (S fuel) start x.
Proof. unfold flag_children. apply desc_spec. Qed.

Theorem flag_children_strict g fuel start x :
  In x (flag_children fuel g start true false) <-> exists c, In c (kids g start) /\ path_le g fuel c x.
Proof.
  unfold flag_children. rewrite in_flat_map. split; intros [c [Hc H]]; exists c; (split; [exact Hc|]); now apply desc_spec.
Qed.

Theorem flag_children_only_start g fuel start : flag_children fuel g start false true = [start].
Proof. reflexivity. Qed.

(* ---- update on a vm's chain of states ---- *)
Lemma memN_In x l : memN x l = true <-> In x l.
Proof.
  unfold memN. rewrite existsb_exists. split.
  - intros [y [Hy E]]. apply N.eqb_eq in E. now subst.
  - intros H. exists x. split; [exact H | apply N.eqb_refl].
Qed.

Lemma upto_app l1 x l2 : ~ In x l1 -> upto (l1 ++ x :: l2) x = l1 ++ [x].
Proof.
  induction l1 as [|y r IH]; intros Hn; cbn.
  - now rewrite N.eqb_refl.
  - destruct (N.eqb y x) eqn:E; [apply N.eqb_eq in E; subst; exfalso; apply Hn; now left|].
    rewrite IH; [reflexivity|]. intros H. apply Hn. now right.
Qed.

Lemma after_app l1 x l2 : ~ In x l1 -> after (l1 ++ x :: l2) x = l2.
Proof.
  induction l1 as [|y r IH]; intros Hn; cbn.
  - now rewrite N.eqb_refl.
  - destruct (N.eqb y x) eqn:E; [apply N.eqb_eq in E; subst; exfalso; apply Hn; now left|].
    apply IH. intros H. apply Hn. now right.
Qed.

Lemma filter_all_false {A} (p : A -> bool) l : (forall x, In x l -> p x = false) -> filter p l = [].
Proof. induction l as [|y r IH]; intros H; cbn; [reflexivity|]. rewrite (H y (or_introl eq_refl)). apply IH. intros x Hx. apply H. now right. Qed.
Lemma filter_all_true {A} (p : A -> bool) l : (forall x, In x l -> p x = true) -> filter p l = l.
Proof. induction l as [|y r IH]; intros H; cbn; [reflexivity|]. rewrite (H y (or_introl eq_refl)). f_equal. apply IH. intros x Hx. apply H. now right. Qed.

Lemma nodup_app_disjoint {A} (l1 l2 : list A) x : NoDup (l1 ++ l2) -> In x l1 -> In x l2 -> False.
Proof.
  induction l1 as [|y r IH]; intros Hnd H1 H2; [contradiction|]. cbn in Hnd. inversion Hnd as [|? ? Hny Hnd']; subst.
  destruct H1 as [->|H1]; [apply Hny; apply in_or_app; now right | now apply IH].
Qed.

(* from_state above to_state: exactly the tests from from_state to to_state, both included *)
Theorem update_runs_path a f b t c :
  NoDup (a ++ f :: b ++ t :: c) ->
  update_runs (a ++ f :: b ++ t :: c) f t = f :: b ++ [t].
Proof.
  intros Hnd. unfold update_runs.
  assert (Hfa : ~ In f a).
  { apply NoDup_remove_2 in Hnd. intros H. apply Hnd. apply in_or_app. now left. }
  assert (Hta : ~ In t (a ++ f :: b)).
  { replace (a ++ f :: b ++ t :: c) with ((a ++ f :: b) ++ t :: c) in Hnd by (rewrite <- app_assoc; reflexivity).
    apply NoDup_remove_2 in Hnd. intros H. apply Hnd. apply in_or_app. now left. }
  rewrite (upto_app a f (b ++ t :: c) Hfa).
  replace (a ++ f :: b ++ t :: c) with ((a ++ f :: b) ++ t :: c) by (rewrite <- app_assoc; reflexivity).
  rewrite (upto_app (a ++ f :: b) t c Hta).
  replace ((a ++ f :: b) ++ [t]) with (a ++ f :: (b ++ [t])) by (rewrite <- app_assoc; reflexivity).
  rewrite filter_app. rewrite filter_all_false.
  - cbn [app filter]. rewrite N.eqb_refl, orb_true_r. f_equal. apply filter_all_true.
    intros x Hx. apply orb_true_iff. left. apply negb_true_iff. apply not_true_is_false. intros Hm.
    apply memN_In in Hm.
    assert (Hx' : In x (b ++ t :: c)) by (apply in_app_or in Hx; apply in_or_app; destruct Hx as [Hx|[<-|[]]]; [now left | right; now left]).
    replace (a ++ f :: b ++ t :: c) with ((a ++ [f]) ++ (b ++ t :: c)) in Hnd by (rewrite <- app_assoc; reflexivity).
    exact (nodup_app_disjoint _ _ x Hnd Hm Hx').
  - intros x Hx. apply orb_false_iff. split.
    + apply negb_false_iff. apply memN_In. apply in_or_app. now left.
    + apply N.eqb_neq. intros ->. contradiction.
Qed.

(* from_state = to_state: that single test *)
Theorem update_runs_single a f c : NoDup (a ++ f :: c) -> update_runs (a ++ f :: c) f f = [f].
Proof.
  intros Hnd. unfold update_runs.
  assert (Hfa : ~ In f a) by (apply NoDup_remove_2 in Hnd; intros H; apply Hnd; apply in_or_app; now left).
  rewrite (upto_app a f c Hfa). rewrite filter_app. rewrite filter_all_false.
  - cbn. now rewrite N.eqb_refl, orb_true_r.
  - intros x Hx. apply orb_false_iff. split.
    + apply negb_false_iff. apply memN_In. apply in_or_app. now left.
    + apply N.eqb_neq. intros ->. contradiction.
Qed.

(* the removed states are exactly those derived from to_state; nothing up to to_state *)
Theorem update_unsets_spec a t c : NoDup (a ++ t :: c) -> update_unsets (a ++ t :: c) t = c.
Proof.
  intros Hnd. unfold update_unsets. apply after_app. apply NoDup_remove_2 in Hnd. intros H. apply Hnd. apply in_or_app. now left.
Qed.
