(* C02, second sentence, assembled: over every schedule in which every awaited test reports a status, for any number of
   workers - when the run has ended for a worker (it emitted its exit event) and no worker is awaiting a test any more, every
   leaf test of that worker reachable from the root has, on some copy of its class, a result with a definite status. *)
From Coq Require Import List ZArith NArith Bool Arith Lia PrimFloat.
Import ListNotations.
From I2N Require Import Model.Retry Model.Traverse Model.TraverseRun Proofs.TraverseProofs Proofs.TraverseInv
                        Proofs.TraverseExcl Proofs.TraverseUid Proofs.TraverseExitN Proofs.TraverseDefinite.
Local Open Scope nat_scope.

Theorem exit_means_definite_result g p sched v c :
  ewf g -> all_definite g (init_state g p) sched ->
  let r := run_schedule g (init_state g p) sched in
  (forall u, not_running (fst r) u) -> In (EExit v) (concat (snd r)) -> reachN g v c ->
  stateful (nd g c) = false -> nonobjc g c ->
  exists res, In res (shared_results g (fst r) c) /\ r_status res <> SUnknown.
Proof.
  intros Hg Ha. cbn zeta. intros Hn Hx Hr Hs Hno.
  destruct (exit_means_doneN g p sched v c Hg Hx Hr) as [_ HD]. specialize (HD Hs Hno).
  destruct (shared_results g (fst (run_schedule g (init_state g p) sched)) c) as [|res l] eqn:E; [now destruct HD|].
  exists res. split; [now left|].
  assert (Hin : In res (shared_results g (fst (run_schedule g (init_state g p) sched)) c)) by (rewrite E; now left).
  unfold shared_results in Hin. apply in_flat_map in Hin. destruct Hin as [j [_ Hj]].
  exact (no_pending_results g p sched j res Ha Hn Hj).
Qed.

Theorem exit_means_definite_result_b g p sched v c :
  ewf_b g = true -> all_definite g (init_state g p) sched ->
  let r := run_schedule g (init_state g p) sched in
  (forall u, not_running (fst r) u) -> In (EExit v) (concat (snd r)) -> reachN g v c ->
  stateful (nd g c) = false -> nonobjc g c ->
  exists res, In res (shared_results g (fst r) c) /\ r_status res <> SUnknown.
Proof. intros Hb. apply exit_means_definite_result. now apply ewf_b_sound. Qed.
