From Coq Require Import List NArith ZArith Bool Lia.
Import ListNotations.
From I2N Require Import Model.NetAddr Model.NetBuild.
Local Open Scope N_scope.

Definition nc_ok (nc : netconfig) : Prop :=
  forall ip k, In (ip, k) (nifaces nc) -> in_network ip (nnet nc) (nbits nc) = true.

Definition heap_ok (h : list netconfig) : Prop := Forall nc_ok h.

Lemma validate_nc_ok nc u : validate nc = Ok u -> nc_ok nc.
Proof.
  unfold validate. intros H ip k Hin.
  destruct (negb _); [discriminate|].
  destruct (negb _); [discriminate|].
  destruct (negb _); [discriminate|].
  destruct (forallb _ (nifaces nc)) eqn:E; [|discriminate].
  rewrite forallb_forall in E. apply (E (ip, k) Hin).
Qed.

Lemma set_nth_Forall {A} (P : A -> Prop) l n a : Forall P l -> P a -> Forall P (set_nth l n a).
Proof.
  revert n; induction l as [|x l IH]; intros n Hl Ha; cbn; auto.
  inversion Hl; subst. destruct n; constructor; auto.
Qed.

Lemma dict_del_incl {V} (l : list (N * V)) k e : In e (dict_del l k) -> In e l.
Proof.
  induction l as [|[k' v'] l IH]; cbn; auto.
  destruct (k' =? k); cbn; intuition.
Qed.

Lemma integrate_heap_ok s i s' : heap_ok (heap s) -> integrate_iface s i = Ok s' -> heap_ok (heap s').
Proof.
  unfold integrate_iface. intros Hh.
  destruct (find_nc (heap s) (reg s) i) as [[id|]|e]; try discriminate.
  - destruct (nth_error (heap s) id) as [nc|]; [|discriminate].
    destruct (validate _) as [u|e] eqn:Ev; [|discriminate].
    intros H; inversion H; subst; cbn. apply set_nth_Forall; auto. eapply validate_nc_ok; eauto.
  - destruct (validate _) as [u|e] eqn:Ev; [|discriminate].
    intros H; inversion H; subst; cbn. apply Forall_app. split; auto.
    constructor; auto. eapply validate_nc_ok; eauto.
Qed.

Lemma build_from_heap_ok l : forall s s', heap_ok (heap s) -> build_from s l = Ok s' -> heap_ok (heap s').
Proof.
  induction l as [|i l IH]; cbn; intros s s' Hh H.
  - inversion H; subst; auto.
  - destruct (integrate_iface s i) as [s1|e] eqn:E; [|discriminate].
    eapply IH; [|exact H]. eapply integrate_heap_ok; eauto.
Qed.

Lemma reattach_heap_ok s c r s' : heap_ok (heap s) -> reattach s c r = Ok s' -> heap_ok (heap s').
Proof.
  unfold reattach. intros Hh.
  destruct (dict_get (ifs s) c) as [[cip cid]|]; [|discriminate].
  destruct (dict_get (ifs s) r) as [[rip rid]|]; [|discriminate].
  destruct (nth_error (heap s) cid) as [cnc|] eqn:Ec; [|discriminate].
  destruct (dict_get (nifaces cnc) cip); [|discriminate].
  set (h1 := set_nth (heap s) cid _).
  assert (H1 : heap_ok h1).
  { apply set_nth_Forall; auto. intros ip k Hin. cbn in Hin. apply dict_del_incl in Hin.
    unfold heap_ok in Hh. rewrite Forall_forall in Hh.
    apply (Hh cnc (nth_error_In _ _ Ec) ip k Hin). }
  destruct (nth_error h1 rid) as [rnc|]; [|discriminate].
  destruct (allocate (nnet rnc) (nrange rnc)) as [[ip'|[|]] rg']; try discriminate.
  destruct (validate _) as [u|e] eqn:Ev; [|discriminate].
  intros H; inversion H; subst; cbn. apply set_nth_Forall; auto. eapply validate_nc_ok; eauto.
Qed.

Lemma run_ops_heap_ok ops : forall s, heap_ok (heap s) -> heap_ok (heap (snd (run_ops s ops))).
Proof.
  induction ops as [|[c r] ops IH]; cbn; intros s Hh; auto.
  destruct (reattach s c r) as [s1|e] eqn:E; cbn; auto.
  specialize (IH s1 (reattach_heap_ok _ _ _ _ Hh E)).
  destruct (run_ops s1 ops); auto.
Qed.

(* C18 (partial): whatever the parameters, if the network builds then, after any
   sequence of reattachments, every interface recorded in a netconfig has an
   address inside that netconfig's network. *)
Theorem build_subnet_inv l ops s :
  build l = Ok s -> heap_ok (heap (snd (run_ops s ops))).
Proof.
  intros H. apply run_ops_heap_ok. eapply build_from_heap_ok; [|exact H]. constructor.
Qed.

Definition built_consistent (l : list iface_cfg) : option bool :=
  match build l with Ok s => Some (consistent s) | Err _ => None end.

(* Outside well-formed configurations the model (faithfully) loses data silently:
   a duplicate address drops the earlier interface from its netconfig ... *)
Example duplicate_address_loses_interface :
  let m := mask_of_prefix 24 in
  built_consistent [mkIface 1 167772417 m 100 200 None; mkIface 2 167772417 m 100 200 None]
  = Some false.
Proof. vm_compute. reflexivity. Qed.

(* ... and a wider subnet with the same network address replaces the narrower
   netconfig in the registry *)
Example overlapping_subnet_unregisters_netconfig :
  built_consistent [mkIface 1 167772161 (mask_of_prefix 24) 100 200 None;
                    mkIface 2 167772421 (mask_of_prefix 16) 100 200 None] = Some false.
Proof. vm_compute. reflexivity. Qed.

Example consistent_somewhere :
  built_consistent [mkIface 1 167772417 (mask_of_prefix 24) 100 200 None;
                    mkIface 2 167772418 (mask_of_prefix 24) 100 200 None;
                    mkIface 3 167837953 (mask_of_prefix 16) 100 200 None] = Some true.
Proof. vm_compute. reflexivity. Qed.
