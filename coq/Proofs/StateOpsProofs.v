From Coq Require Import List NArith Bool.
Import ListNotations.
From I2N Require Import Model.StateOps Model.StateSpec.

(* ---- the dispatch chains implement the documented table ---- *)
Theorem table_get ex m : get_dispatch ex m = doc_to_action OGet (spec_action OGet ex m).
Proof. destruct ex, m as [[] []]; reflexivity. Qed.
Theorem table_set ex m : set_dispatch ex m = doc_to_action OSet (spec_action OSet ex m).
Proof. destruct ex, m as [[] []]; reflexivity. Qed.
Theorem table_unset ex m : unset_dispatch ex m = doc_to_action OUnset (spec_action OUnset ex m).
Proof. destruct ex, m as [[] []]; reflexivity. Qed.

(* ---- store lemmas ---- *)
Lemma sget_sset_same s k e : sget (sset s k e) k = e.
Proof.
  induction s as [|[k' e'] s IH]; cbn.
  - now rewrite N.eqb_refl.
  - destruct (N.eqb k' k) eqn:E; cbn; rewrite E; auto.
Qed.

Lemma sget_sset_other s k e j : j <> k -> sget (sset s k e) j = sget s j.
Proof.
  intros Hne. induction s as [|[k' e'] s IH]; cbn.
  - destruct (N.eqb k j) eqn:E; auto. apply N.eqb_eq in E. congruence.
  - destruct (N.eqb k' k) eqn:E; cbn.
    + apply N.eqb_eq in E. subst. destruct (N.eqb k j) eqn:E2; auto.
      apply N.eqb_eq in E2. congruence.
    + destruct (N.eqb k' j); auto.
Qed.

Lemma sset_sset s k e1 e2 : sset (sset s k e1) k e2 = sset s k e2.
Proof.
  induction s as [|[k' e'] s IH]; cbn.
  - now rewrite N.eqb_refl.
  - destruct (N.eqb k' k) eqn:E; cbn; rewrite E; congruence.
Qed.

(* ---- erasing the call log ---- *)
Definition cres_opt (r : cres) : option bool :=
  match r with CTrue => Some true | CFalse => Some false | CErr => None end.

Ltac store_simpl := repeat (rewrite ?sget_sset_same, ?sset_sset; cbn [fst snd]).

Lemma inner_check_spec o st s lg :
  let '(c', r) := inner_check o st (s, lg) in
  spec_presence o st s = (fst c', cres_opt r).
Proof.
  unfold inner_check, spec_presence, check_body, logc, b_set_root, b_unset_root.
  destruct (oskip_inner o); [reflexivity|]. cbn [fst snd].
  destruct (sget s (okey o)) as [root names] eqn:E. cbn [fst snd negb].
  destruct root; cbn [negb].
  - destruct (fst (ocheck o)); cbn [fst snd]; store_simpl; rewrite ?E; cbn [fst snd];
      destruct (snd st); try reflexivity; cbn [fst snd]; store_simpl;
      destruct (has _ _); reflexivity.
  - destruct (snd (ocheck o)); cbn [fst snd]; store_simpl; rewrite ?E; cbn [fst snd]; try reflexivity;
      destruct (snd st); try reflexivity; cbn [fst snd]; store_simpl; destruct (has _ _); reflexivity.
Qed.

Lemma get_one_spec inner dm o s lg :
  let '(c', r) := get_one inner dm o (s, lg) in spec_one OGet inner dm o s = (fst c', r).
Proof.
  unfold get_one, spec_one.
  destruct (if inner then oskip_inner o else skipped o); [reflexivity|].
  destruct (ostate o) as [st|]; [|reflexivity].
  pose proof (inner_check_spec o st s lg) as H.
  destruct (inner_check o st (s, lg)) as [c1 r]. rewrite H.
  destruct r; cbn [cres_opt finish_check]; try reflexivity;
    rewrite table_get; destruct (doc_to_action _ _); try reflexivity;
    unfold spec_effect, logc; cbn [fst snd];
    destruct (sget (fst c1) (okey o)); destruct (snd st); reflexivity.
Qed.

Lemma unset_one_spec inner dm o s lg :
  let '(c', r) := unset_one inner dm o (s, lg) in spec_one OUnset inner dm o s = (fst c', r).
Proof.
  unfold unset_one, spec_one.
  destruct (if inner then oskip_inner o else skipped o); [reflexivity|].
  destruct (ostate o) as [st|]; [|reflexivity].
  pose proof (inner_check_spec o st s lg) as H.
  destruct (inner_check o st (s, lg)) as [c1 r]. rewrite H.
  destruct r; cbn [cres_opt finish_check]; try reflexivity;
    rewrite table_unset; destruct (doc_to_action _ _); try reflexivity;
    unfold spec_effect, b_unset_root, b_unset, logc; cbn [fst snd];
    destruct (sget (fst c1) (okey o)) as [root names]; destruct (snd st); reflexivity.
Qed.

Lemma set_one_spec inner dm o s lg :
  let '(c', r) := set_one inner dm o (s, lg) in spec_one OSet inner dm o s = (fst c', r).
Proof.
  unfold set_one, spec_one.
  destruct (if inner then oskip_inner o else skipped o); [reflexivity|].
  destruct (ostate o) as [st|]; [|reflexivity].
  pose proof (inner_check_spec o st s lg) as H.
  destruct (inner_check o st (s, lg)) as [c1 r]. rewrite H.
  destruct r; cbn [cres_opt finish_check]; try reflexivity;
    rewrite table_set; destruct (doc_to_action _ _); try reflexivity;
    unfold spec_effect, b_unset_root, b_set_root, b_unset, b_set, logc; cbn [fst snd];
    destruct (sget (fst c1) (okey o)) as [root names] eqn:E; destruct (snd st); cbn [fst snd];
    store_simpl; try reflexivity.
  - destruct (osourced o); cbn [fst snd]; store_simpl; rewrite ?E; reflexivity.
  - rewrite E. cbn [fst snd]. destruct root; cbn [fst snd]; rewrite ?E; reflexivity.
  - destruct root; cbn [fst snd]; rewrite ?E; reflexivity.
Qed.

Lemma push_one_spec o s lg :
  let '(c', r) := push_one o (s, lg) in spec_push_one o s = (fst c', r).
Proof.
  unfold push_one, spec_push_one. destruct (ostate o) as [[n [|]]|]; try reflexivity.
  apply set_one_spec.
Qed.

Lemma pop_one_spec o s lg :
  let '(c', r) := pop_one o (s, lg) in spec_pop_one o s = (fst c', r).
Proof.
  unfold pop_one, spec_pop_one. destruct (ostate o) as [[n [|]]|]; try reflexivity.
  pose proof (get_one_spec true (Lr, La) o s lg) as H.
  destruct (get_one true (Lr, La) o (s, lg)) as [[s1 lg1] r]. rewrite H. cbn [fst].
  destruct r; [|reflexivity]. apply unset_one_spec.
Qed.

Lemma iterate_spec f g :
  (forall o s lg, let '(c', r) := f o (s, lg) in g o s = (fst c', r)) ->
  forall objs s lg, let '(c', e) := iterate f objs (s, lg) in spec_iterate g objs s = (fst c', e).
Proof.
  intros H objs. induction objs as [|o objs IH]; intros s lg; cbn; [reflexivity|].
  specialize (H o s lg). destruct (f o (s, lg)) as [[s1 lg1] r]. rewrite H. cbn [fst].
  destruct r; [apply IH | reflexivity].
Qed.

Lemma check_states_spec objs : forall s lg,
  let '(c', r) := check_states objs (s, lg) in spec_check objs s = (fst c', r).
Proof.
  induction objs as [|o objs IH]; intros s lg; cbn [check_states spec_check]; [reflexivity|].
  destruct (skipped o); [apply IH|]. destruct (ostate o) as [st|]; [|apply IH].
  unfold check_body, logc, b_set_root, b_unset_root. cbn [fst snd].
  destruct (sget s (okey o)) as [root names] eqn:E. cbn [fst snd negb].
  destruct root; cbn [negb].
  - destruct (fst (ocheck o)); cbn [fst snd]; store_simpl; rewrite ?E; cbn [fst snd];
      try (destruct (snd st); cbn [fst snd]; store_simpl; [apply IH|];
           destruct (has _ _); [apply IH | reflexivity]).
    destruct (otyp o); cbn [fst snd]; store_simpl; rewrite ?E; cbn [fst snd];
      destruct (snd st); cbn [fst snd]; store_simpl; try apply IH;
      destruct (has _ _); try apply IH; reflexivity.
  - destruct (snd (ocheck o)); cbn [fst snd]; store_simpl; rewrite ?E; cbn [fst snd]; try reflexivity.
    destruct (snd st); cbn [fst snd]; store_simpl; [apply IH|].
    destruct (has _ _); [apply IH | reflexivity].
Qed.

(* C12: the store and the outcome of every operation are those of the plain
   set-of-names specification driven by the documented policy table *)
Theorem run_op_refines op objs s lg :
  let '(c', code) := run_op op objs (s, lg) in spec_run_op op objs s = (fst c', code).
Proof.
  unfold run_op, spec_run_op. destruct op.
  - pose proof (check_states_spec objs s lg) as H.
    destruct (check_states objs (s, lg)) as [c' r]. rewrite H. reflexivity.
  - pose proof (iterate_spec _ _ (get_one_spec false (Lr, La)) objs s lg) as H.
    destruct (iterate _ objs (s, lg)) as [c' e]. rewrite H. reflexivity.
  - pose proof (iterate_spec _ _ (set_one_spec false (Lf, Lf)) objs s lg) as H.
    destruct (iterate _ objs (s, lg)) as [c' e]. rewrite H. reflexivity.
  - pose proof (iterate_spec _ _ (unset_one_spec false (Lf, Li)) objs s lg) as H.
    destruct (iterate _ objs (s, lg)) as [c' e]. rewrite H. reflexivity.
  - pose proof (iterate_spec _ _ push_one_spec objs s lg) as H.
    destruct (iterate _ objs (s, lg)) as [c' e]. rewrite H. reflexivity.
  - pose proof (iterate_spec _ _ pop_one_spec objs s lg) as H.
    destruct (iterate _ objs (s, lg)) as [c' e]. rewrite H. reflexivity.
Qed.

Theorem run_ops_refines ops : forall s,
  spec_run_ops ops s = (fst (run_ops ops s), map snd (snd (run_ops ops s))).
Proof.
  induction ops as [|[op objs] ops IH]; intros s; cbn [run_ops spec_run_ops]; [reflexivity|].
  pose proof (run_op_refines op objs s []) as H.
  destruct (run_op op objs (s, [])) as [[s' lg] code]. rewrite H. cbn [fst].
  rewrite IH. destruct (run_ops ops s') as [s'' out]. reflexivity.
Qed.

(* ---- an abort / invalid policy leaves the store as the embedded check left it ---- *)
Lemma spec_one_stop op inner dm o s s' e :
  spec_one op inner dm o s = (s', SStop e) ->
  exists st, ostate o = Some st /\ s' = fst (spec_presence o st s).
Proof.
  unfold spec_one. destruct (if inner then oskip_inner o else skipped o); [discriminate|].
  destruct (ostate o) as [st|]; [|discriminate]. intros H. exists st. split; [reflexivity|].
  destruct (spec_presence o st s) as [s1 [ex|]]; cbn [fst].
  - destruct (doc_to_action op (spec_action op ex (default dm (omode o)))); try congruence.
    destruct (spec_effect op o st ex s1); congruence.
  - congruence.
Qed.

(* the embedded check alters nothing unless check_mode says "force" for the root's situation *)
Lemma spec_presence_no_force o st s :
  (fst (sget s (okey o)) = true -> fst (ocheck o) <> Lf) ->
  (fst (sget s (okey o)) = false -> snd (ocheck o) <> Lf) ->
  fst (spec_presence o st s) = s.
Proof.
  unfold spec_presence. intros H1 H2. destruct (oskip_inner o); [reflexivity|].
  destruct (sget s (okey o)) as [root names]. cbn [fst] in *. destruct root; cbn [negb].
  - destruct (fst (ocheck o)); try reflexivity. now specialize (H1 eq_refl).
  - destruct (snd (ocheck o)); try reflexivity. now specialize (H2 eq_refl).
Qed.

Theorem abort_alters_nothing op inner dm o s s' e :
  spec_one op inner dm o s = (s', SStop e) ->
  (fst (sget s (okey o)) = true -> fst (ocheck o) <> Lf) ->
  (fst (sget s (okey o)) = false -> snd (ocheck o) <> Lf) ->
  s' = s.
Proof.
  intros H H1 H2. destruct (spec_one_stop _ _ _ _ _ _ _ H) as [st [_ ->]].
  now apply spec_presence_no_force.
Qed.

(* ... and when it forces, all it does is (re)create the object's root *)
Lemma spec_presence_frame o st s k : k <> okey o -> sget (fst (spec_presence o st s)) k = sget s k.
Proof.
  intros Hk. unfold spec_presence. destruct (oskip_inner o); [reflexivity|].
  destruct (sget s (okey o)) as [root names]. destruct root; cbn [negb].
  - destruct (fst (ocheck o)); cbn [fst]; try reflexivity. now apply sget_sset_other.
  - destruct (snd (ocheck o)); cbn [fst]; try reflexivity. now apply sget_sset_other.
Qed.

(* ---- frame: an operation changes only entries of objects it addresses ---- *)
Lemma spec_effect_frame op o st ex s s2 k :
  spec_effect op o st ex s = inl s2 -> k <> okey o -> sget s2 k = sget s k.
Proof.
  unfold spec_effect. intros H Hk. destruct (sget s (okey o)) as [root names].
  destruct op; try (injection H as <-; reflexivity).
  - destruct (snd st); [injection H as <-; now apply sget_sset_other|].
    destruct ex; [injection H as <-; now apply sget_sset_other|].
    destruct root; [injection H as <-; now apply sget_sset_other | discriminate].
  - destruct (snd st); injection H as <-; now apply sget_sset_other.
Qed.

Lemma spec_one_frame op inner dm o s k :
  k <> okey o -> sget (fst (spec_one op inner dm o s)) k = sget s k.
Proof.
  intros Hk. unfold spec_one. destruct (if inner then oskip_inner o else skipped o); [reflexivity|].
  destruct (ostate o) as [st|]; [|reflexivity].
  pose proof (spec_presence_frame o st s k Hk) as Hp.
  destruct (spec_presence o st s) as [s1 [ex|]]; cbn [fst] in *; [|exact Hp].
  destruct (doc_to_action op (spec_action op ex (default dm (omode o)))); cbn [fst]; try exact Hp.
  destruct (spec_effect op o st ex s1) as [s2|] eqn:E; cbn [fst]; [|exact Hp].
  rewrite (spec_effect_frame _ _ _ _ _ _ _ E Hk). exact Hp.
Qed.

Lemma spec_one_unaddressed op (inner : bool) dm o s :
  (if inner then oskip_inner o else skipped o) = true \/ ostate o = None ->
  spec_one op inner dm o s = (s, SNext).
Proof.
  unfold spec_one. intros [H|H]; rewrite H; [reflexivity|].
  destruct (if inner then oskip_inner o else skipped o); reflexivity.
Qed.

Lemma spec_iterate_frame f objs k :
  (forall o s, In o objs -> k <> okey o -> sget (fst (f o s)) k = sget s k) ->
  (forall o, In o objs -> k <> okey o) ->
  forall s, sget (fst (spec_iterate f objs s)) k = sget s k.
Proof.
  induction objs as [|o objs IH]; intros Hf Hk s; cbn [spec_iterate]; [reflexivity|].
  pose proof (Hf o s (or_introl eq_refl) (Hk o (or_introl eq_refl))) as H1.
  destruct (f o s) as [s1 r]. cbn [fst] in H1. destruct r; cbn [fst]; [|exact H1].
  rewrite IH; [exact H1| |]; intros; [apply Hf | apply Hk]; try right; assumption.
Qed.

Lemma spec_check_frame objs k :
  (forall o, In o objs -> k <> okey o) -> forall s, sget (fst (spec_check objs s)) k = sget s k.
Proof.
  induction objs as [|o objs IH]; intros Hk s; cbn [spec_check]; [reflexivity|].
  assert (Hrest : forall o', In o' objs -> k <> okey o') by (intros; apply Hk; now right).
  assert (Ho : k <> okey o) by (apply Hk; now left).
  destruct (skipped o); [now apply IH|]. destruct (ostate o) as [st|]; [|now apply IH].
  destruct (sget s (okey o)) as [root names]. destruct root; cbn [negb].
  - destruct (fst (ocheck o)); cbn [fst];
      match goal with
      | |- context [if ?b then _ else _] => destruct b; cbn [fst]; rewrite ?IH by assumption;
                                            rewrite ?sget_sset_other by assumption; reflexivity
      end.
  - destruct (snd (ocheck o)); cbn [fst]; try reflexivity.
    match goal with
    | |- context [if ?b then _ else _] => destruct b; cbn [fst]; rewrite ?IH by assumption;
                                          rewrite ?sget_sset_other by assumption; reflexivity
    end.
Qed.

Theorem spec_run_op_frame op objs s k :
  (forall o, In o objs -> k <> okey o) -> sget (fst (spec_run_op op objs s)) k = sget s k.
Proof.
  intros Hk. unfold spec_run_op. destruct op.
  - pose proof (spec_check_frame objs k Hk s) as H. destruct (spec_check objs s); exact H.
  - pose proof (spec_iterate_frame (spec_one OGet false (Lr, La)) objs k
                  (fun o s _ Ho => spec_one_frame _ _ _ _ _ _ Ho) Hk s) as H.
    destruct (spec_iterate _ objs s); exact H.
  - pose proof (spec_iterate_frame (spec_one OSet false (Lf, Lf)) objs k
                  (fun o s _ Ho => spec_one_frame _ _ _ _ _ _ Ho) Hk s) as H.
    destruct (spec_iterate _ objs s); exact H.
  - pose proof (spec_iterate_frame (spec_one OUnset false (Lf, Li)) objs k
                  (fun o s _ Ho => spec_one_frame _ _ _ _ _ _ Ho) Hk s) as H.
    destruct (spec_iterate _ objs s); exact H.
  - assert (Hf : forall o s, In o objs -> k <> okey o -> sget (fst (spec_push_one o s)) k = sget s k).
    { intros o s0 _ Ho. unfold spec_push_one. destruct (ostate o) as [[n [|]]|]; try reflexivity.
      now apply spec_one_frame. }
    pose proof (spec_iterate_frame spec_push_one objs k Hf Hk s) as H.
    destruct (spec_iterate _ objs s); exact H.
  - assert (Hf : forall o s, In o objs -> k <> okey o -> sget (fst (spec_pop_one o s)) k = sget s k).
    { intros o s0 _ Ho. unfold spec_pop_one. destruct (ostate o) as [[n [|]]|]; try reflexivity.
      pose proof (spec_one_frame OGet true (Lr, La) o s0 k Ho) as H1.
      destruct (spec_one OGet true (Lr, La) o s0) as [s1 r]. cbn [fst] in H1.
      destruct r; cbn [fst]; [|exact H1]. rewrite spec_one_frame by assumption. exact H1. }
    pose proof (spec_iterate_frame spec_pop_one objs k Hf Hk s) as H.
    destruct (spec_iterate _ objs s); exact H.
Qed.

(* ---- every backend call is about an addressed object ---- *)
Definition keyed (k : N) (lg lg' : list call) : Prop :=
  forall x, In x lg' -> In x lg \/ call_key x = k.

Lemma keyed_refl k lg : keyed k lg lg.
Proof. intros x H; now left. Qed.

Ltac keyed_solve :=
  unfold keyed, logc; cbn [fst snd]; let Hin := fresh "Hin" in intros ? Hin; cbn [In] in Hin;
  repeat match goal with
         | H : _ \/ _ |- _ => destruct H
         end; subst; cbn [call_key]; auto.

Lemma check_body_keyed d o st c :
  keyed (okey o) (snd c) (snd (fst (check_body d o st c))).
Proof.
  unfold check_body. destruct c as [s lg]. unfold logc, b_set_root, b_unset_root. cbn [fst snd].
  destruct (fst (sget s (okey o))); cbn [negb].
  - destruct (fst (ocheck o)); cbn [fst snd];
      try (destruct d; destruct (otyp o); cbn [fst snd]);
      destruct (snd st); cbn [fst snd]; keyed_solve.
  - destruct (snd (ocheck o)); cbn [fst snd]; try (destruct (snd st); cbn [fst snd]); keyed_solve.
Qed.

Lemma inner_check_keyed o st c :
  keyed (okey o) (snd c) (snd (fst (inner_check o st c))).
Proof.
  unfold inner_check. destruct (oskip_inner o); [apply keyed_refl | apply check_body_keyed].
Qed.

Lemma keyed_trans k a b c : keyed k a b -> keyed k b c -> keyed k a c.
Proof. intros H1 H2 x Hx. destruct (H2 x Hx) as [H|H]; auto. Qed.

Lemma get_one_keyed inner dm o c : keyed (okey o) (snd c) (snd (fst (get_one inner dm o c))).
Proof.
  unfold get_one. destruct (if inner then oskip_inner o else skipped o); [apply keyed_refl|].
  destruct (ostate o) as [st|]; [|apply keyed_refl].
  pose proof (inner_check_keyed o st c) as H. destruct (inner_check o st c) as [c1 r]. cbn [fst] in H.
  destruct (finish_check r) as [ex|]; [|exact H].
  destruct (get_dispatch ex (default dm (omode o))); cbn [fst]; try exact H.
  eapply keyed_trans; [exact H|]. destruct (snd st); keyed_solve.
Qed.

Lemma unset_one_keyed inner dm o c : keyed (okey o) (snd c) (snd (fst (unset_one inner dm o c))).
Proof.
  unfold unset_one. destruct (if inner then oskip_inner o else skipped o); [apply keyed_refl|].
  destruct (ostate o) as [st|]; [|apply keyed_refl].
  pose proof (inner_check_keyed o st c) as H. destruct (inner_check o st c) as [c1 r]. cbn [fst] in H.
  destruct (finish_check r) as [ex|]; [|exact H].
  destruct (unset_dispatch ex (default dm (omode o))); cbn [fst]; try exact H.
  eapply keyed_trans; [exact H|]. destruct (snd st); keyed_solve.
Qed.

Lemma set_one_keyed inner dm o c : keyed (okey o) (snd c) (snd (fst (set_one inner dm o c))).
Proof.
  unfold set_one. destruct (if inner then oskip_inner o else skipped o); [apply keyed_refl|].
  destruct (ostate o) as [st|]; [|apply keyed_refl].
  pose proof (inner_check_keyed o st c) as H. destruct (inner_check o st c) as [c1 r]. cbn [fst] in H.
  destruct (finish_check r) as [ex|]; [|exact H].
  destruct (set_dispatch ex (default dm (omode o))); cbn [fst]; try exact H.
  eapply keyed_trans; [exact H|]. unfold logc, b_unset_root, b_unset, b_set_root, b_set. cbn [fst snd].
  destruct ex; destruct (snd st); cbn [fst snd]; try destruct (osourced o); cbn [fst snd];
    try destruct (fst (sget (fst c1) (okey o))); cbn [fst snd]; keyed_solve.
Qed.

Definition addressed_keyed (op : opkind) (objs : list obj) (lg lg' : list call) : Prop :=
  forall x, In x lg' -> In x lg \/ exists o, In o objs /\ okey o = call_key x /\ addressed op o = true.

Lemma one_step_addressed (op : opkind) (f : obj -> ctx -> ctx * sres) :
  (forall o c, keyed (okey o) (snd c) (snd (fst (f o c)))) ->
  (forall o c, addressed op o = false -> snd (fst (f o c)) = snd c) ->
  forall objs c, addressed_keyed op objs (snd c) (snd (fst (iterate f objs c))).
Proof.
  intros Hk Hu objs. induction objs as [|o objs IH]; intros c; cbn [iterate].
  - intros x Hx. now left.
  - pose proof (Hk o c) as H1. pose proof (Hu o c) as H2.
    destruct (f o c) as [c1 r]. cbn [fst] in *.
    assert (Hstep : addressed_keyed op (o :: objs) (snd c) (snd c1)).
    { intros x Hx. destruct (addressed op o) eqn:Ea.
      - destruct (H1 x Hx) as [Hin|Hkey]; [now left|]. right. exists o. repeat split; auto. now left.
      - rewrite (H2 eq_refl) in Hx. now left. }
    destruct r; cbn [fst]; [|exact Hstep].
    intros x Hx. destruct (IH c1 x Hx) as [Hin|[o' [Ho' Hr]]].
    + apply Hstep, Hin.
    + right. exists o'. split; [now right | exact Hr].
Qed.

Theorem run_op_calls_addressed op objs c :
  addressed_keyed op objs (snd c) (snd (fst (run_op op objs c))).
Proof.
  unfold run_op. destruct op.
  - (* check *)
    assert (H : forall objs c, addressed_keyed OCheck objs (snd c) (snd (fst (check_states objs c)))).
    { clear. induction objs as [|o objs IH]; intros c; cbn [check_states].
      - intros x Hx; now left.
      - assert (Hw : forall c' : ctx, addressed_keyed OCheck objs (snd c) (snd c') ->
                                addressed_keyed OCheck (o :: objs) (snd c) (snd c')).
        { intros c' Hc x Hx. destruct (Hc x Hx) as [?|[o' [? ?]]]; [now left|].
          right. exists o'. split; [now right | assumption]. }
        destruct (skipped o) eqn:Es; [apply Hw, IH|].
        destruct (ostate o) as [st|] eqn:Est; [|apply Hw, IH].
        pose proof (check_body_keyed true o st c) as Hb.
        destruct (check_body true o st c) as [c1 r]. cbn [fst] in Hb.
        assert (Hstep : addressed_keyed OCheck (o :: objs) (snd c) (snd c1)).
        { intros x Hx. destruct (Hb x Hx) as [?|Hkey]; [now left|]. right. exists o.
          repeat split; auto; [now left|]. unfold addressed. rewrite Est, Es. reflexivity. }
        destruct r; cbn [fst]; try exact Hstep.
        intros x Hx. destruct (IH c1 x Hx) as [Hin|[o' [Ho' Hr]]].
        + apply Hstep, Hin.
        + right. exists o'. split; [now right | exact Hr]. }
    specialize (H objs c). destruct (check_states objs c). exact H.
  - pose proof (one_step_addressed OGet (get_one false (Lr, La)) (get_one_keyed _ _)) as H.
    assert (Hu : forall o c, addressed OGet o = false -> snd (fst (get_one false (Lr, La) o c)) = snd c).
    { intros o c0 Ha. unfold get_one, addressed in *. destruct (ostate o); destruct (skipped o); try discriminate; reflexivity. }
    specialize (H Hu objs c). destruct (iterate _ objs c). exact H.
  - pose proof (one_step_addressed OSet (set_one false (Lf, Lf)) (set_one_keyed _ _)) as H.
    assert (Hu : forall o c, addressed OSet o = false -> snd (fst (set_one false (Lf, Lf) o c)) = snd c).
    { intros o c0 Ha. unfold set_one, addressed in *. destruct (ostate o); destruct (skipped o); try discriminate; reflexivity. }
    specialize (H Hu objs c). destruct (iterate _ objs c). exact H.
  - pose proof (one_step_addressed OUnset (unset_one false (Lf, Li)) (unset_one_keyed _ _)) as H.
    assert (Hu : forall o c, addressed OUnset o = false -> snd (fst (unset_one false (Lf, Li) o c)) = snd c).
    { intros o c0 Ha. unfold unset_one, addressed in *. destruct (ostate o); destruct (skipped o); try discriminate; reflexivity. }
    specialize (H Hu objs c). destruct (iterate _ objs c). exact H.
  - assert (Hk : forall o c, keyed (okey o) (snd c) (snd (fst (push_one o c)))).
    { intros o c0. unfold push_one. destruct (ostate o) as [[n [|]]|]; try apply keyed_refl. apply set_one_keyed. }
    assert (Hu : forall o c, addressed OPush o = false -> snd (fst (push_one o c)) = snd c).
    { intros o c0 Ha. unfold push_one, set_one, addressed in *.
      destruct (ostate o) as [[n [|]]|]; try reflexivity. cbn [snd negb andb] in Ha.
      destruct (oskip_inner o); [reflexivity | discriminate]. }
    pose proof (one_step_addressed OPush push_one Hk Hu objs c) as H. destruct (iterate _ objs c). exact H.
  - assert (Hk : forall o c, keyed (okey o) (snd c) (snd (fst (pop_one o c)))).
    { intros o c0. unfold pop_one. destruct (ostate o) as [[n [|]]|]; try apply keyed_refl.
      pose proof (get_one_keyed true (Lr, La) o c0) as H1.
      destruct (get_one true (Lr, La) o c0) as [c1 r]. cbn [fst] in H1. destruct r; [|exact H1].
      eapply keyed_trans; [exact H1 | apply unset_one_keyed]. }
    assert (Hu : forall o c, addressed OPop o = false -> snd (fst (pop_one o c)) = snd c).
    { intros o c0 Ha. unfold pop_one, get_one, unset_one, addressed in *.
      destruct (ostate o) as [[n [|]]|]; try reflexivity. cbn [snd negb andb] in Ha.
      destruct (oskip_inner o); [reflexivity | discriminate]. }
    pose proof (one_step_addressed OPop pop_one Hk Hu objs c) as H. destruct (iterate _ objs c). exact H.
Qed.
