From Coq Require Import List NArith Bool.
Import ListNotations.
From I2N Require Import Model.StateOps Model.StateSpec.

(* ---- the dispatch chains implement the documented table ---- *)
Theorem table_get ex m : get_dispatch ex m = doc_to_action OGet (spec_action OGet ex m).
Proof. destruct ex, m as [[] []]; reflexivity. Qed.
Theorem table_set ex m : set_dispatch ex m = doc_to_action OSet (spec_action OSet ex m).
Proof. destruct ex, m as [[] []]; reflexivity. Qed.
Theorem table_unset ex m : unset_dispatch ex m = doc_to_action OUnset (spec_action OUnset ex m).
Proof. destruct ex, m as [[] []]; reflexivity. Qed.

(* ---- store lemmas ---- *)
Lemma sget_sset_same s k e : sget (sset s k e) k = e.
Proof.
  induction s as [|[k' e'] s IH]; cbn.
  - now rewrite N.eqb_refl.
  - destruct (N.eqb k' k) eqn:E; cbn; rewrite E; auto.
Qed.

Lemma sget_sset_other s k e j : j <> k -> sget (sset s k e) j = sget s j.
Proof.
  intros Hne. induction s as [|[k' e'] s IH]; cbn.
  - destruct (N.eqb k j) eqn:E; auto. apply N.eqb_eq in E. congruence.
  - destruct (N.eqb k' k) eqn:E; cbn.
    + apply N.eqb_eq in E. subst. destruct (N.eqb k j) eqn:E2; auto.
      apply N.eqb_eq in E2. congruence.
    + destruct (N.eqb k' j); auto.
Qed.

Lemma sset_sset s k e1 e2 : sset (sset s k e1) k e2 = sset s k e2.
Proof.
  induction s as [|[k' e'] s IH]; cbn.
  - now rewrite N.eqb_refl.
  - destruct (N.eqb k' k) eqn:E; cbn; rewrite E; congruence.
Qed.

(* ---- erasing the call log ---- *)
Definition cres_opt (r : cres) : option bool :=
  match r with CTrue => Some true | CFalse => Some false | CErr => None end.

Ltac store_simpl := repeat (rewrite ?sget_sset_same, ?sset_sset; cbn [fst snd]).

Lemma inner_check_spec o st s lg :
  let '(c', r) := inner_check o st (s, lg) in
  spec_presence o st s = (fst c', cres_opt r).
Proof.
  unfold inner_check, spec_presence, check_body, logc, b_set_root, b_unset_root.
  destruct (oskip_inner o); [reflexivity|]. cbn [fst snd].
  destruct (sget s (okey o)) as [root names] eqn:E. cbn [fst snd negb].
  destruct root; cbn [negb].
  - destruct (fst (ocheck o)); cbn [fst snd]; store_simpl; rewrite ?E; cbn [fst snd];
      destruct (snd st); try reflexivity; cbn [fst snd]; store_simpl;
      destruct (has _ _); reflexivity.
  - destruct (snd (ocheck o)); cbn [fst snd]; store_simpl; rewrite ?E; cbn [fst snd]; try reflexivity;
      destruct (snd st); try reflexivity; cbn [fst snd]; store_simpl; destruct (has _ _); reflexivity.
Qed.

Lemma get_one_spec inner dm o s lg :
  let '(c', r) := get_one inner dm o (s, lg) in spec_one OGet inner dm o s = (fst c', r).
Proof.
  unfold get_one, spec_one.
  destruct (if inner then oskip_inner o else skipped o); [reflexivity|].
  destruct (ostate o) as [st|]; [|reflexivity].
  pose proof (inner_check_spec o st s lg) as H.
  destruct (inner_check o st (s, lg)) as [c1 r]. rewrite H.
  destruct r; cbn [cres_opt finish_check]; try reflexivity;
    rewrite table_get; destruct (doc_to_action _ _); try reflexivity;
    unfold spec_effect, logc; cbn [fst snd];
    destruct (sget (fst c1) (okey o)); destruct (snd st); reflexivity.
Qed.

Lemma unset_one_spec inner dm o s lg :
  let '(c', r) := unset_one inner dm o (s, lg) in spec_one OUnset inner dm o s = (fst c', r).
Proof.
  unfold unset_one, spec_one.
  destruct (if inner then oskip_inner o else skipped o); [reflexivity|].
  destruct (ostate o) as [st|]; [|reflexivity].
  pose proof (inner_check_spec o st s lg) as H.
  destruct (inner_check o st (s, lg)) as [c1 r]. rewrite H.
  destruct r; cbn [cres_opt finish_check]; try reflexivity;
    rewrite table_unset; destruct (doc_to_action _ _); try reflexivity;
    unfold spec_effect, b_unset_root, b_unset, logc; cbn [fst snd];
    destruct (sget (fst c1) (okey o)) as [root names]; destruct (snd st); reflexivity.
Qed.

Lemma set_one_spec inner dm o s lg :
  let '(c', r) := set_one inner dm o (s, lg) in spec_one OSet inner dm o s = (fst c', r).
Proof.
  unfold set_one, spec_one.
  destruct (if inner then oskip_inner o else skipped o); [reflexivity|].
  destruct (ostate o) as [st|]; [|reflexivity].
  pose proof (inner_check_spec o st s lg) as H.
  destruct (inner_check o st (s, lg)) as [c1 r]. rewrite H.
  destruct r; cbn [cres_opt finish_check]; try reflexivity;
    rewrite table_set; destruct (doc_to_action _ _); try reflexivity;
    unfold spec_effect, b_unset_root, b_set_root, b_unset, b_set, logc; cbn [fst snd];
    destruct (sget (fst c1) (okey o)) as [root names] eqn:E; destruct (snd st); cbn [fst snd];
    store_simpl; try reflexivity.
  - destruct (osourced o); cbn [fst snd]; store_simpl; rewrite ?E; reflexivity.
  - rewrite E. cbn [fst snd]. destruct root; cbn [fst snd]; rewrite ?E; reflexivity.
  - destruct root; cbn [fst snd]; rewrite ?E; reflexivity.
Qed.

Lemma push_one_spec o s lg :
  let '(c', r) := push_one o (s, lg) in spec_push_one o s = (fst c', r).
Proof.
  unfold push_one, spec_push_one. destruct (ostate o) as [[n [|]]|]; try reflexivity.
  apply set_one_spec.
Qed.

Lemma pop_one_spec o s lg :
  let '(c', r) := pop_one o (s, lg) in spec_pop_one o s = (fst c', r).
Proof.
  unfold pop_one, spec_pop_one. destruct (ostate o) as [[n [|]]|]; try reflexivity.
  pose proof (get_one_spec true (Lr, La) o s lg) as H.
  destruct (get_one true (Lr, La) o (s, lg)) as [[s1 lg1] r]. rewrite H. cbn [fst].
  destruct r; [|reflexivity]. apply unset_one_spec.
Qed.

Lemma iterate_spec f g :
  (forall o s lg, let '(c', r) := f o (s, lg) in g o s = (fst c', r)) ->
  forall objs s lg, let '(c', e) := iterate f objs (s, lg) in spec_iterate g objs s = (fst c', e).
Proof.
  intros H objs. induction objs as [|o objs IH]; intros s lg; cbn; [reflexivity|].
  specialize (H o s lg). destruct (f o (s, lg)) as [[s1 lg1] r]. rewrite H. cbn [fst].
  destruct r; [apply IH | reflexivity].
Qed.

Lemma check_states_spec objs : forall s lg,
  let '(c', r) := check_states objs (s, lg) in spec_check objs s = (fst c', r).
Proof.
  induction objs as [|o objs IH]; intros s lg; cbn [check_states spec_check]; [reflexivity|].
  destruct (skipped o); [apply IH|]. destruct (ostate o) as [st|]; [|apply IH].
  unfold check_body, logc, b_set_root, b_unset_root. cbn [fst snd].
  destruct (sget s (okey o)) as [root names] eqn:E. cbn [fst snd negb].
  destruct root; cbn [negb].
  - destruct (fst (ocheck o)); cbn [fst snd]; store_simpl; rewrite ?E; cbn [fst snd];
      try (destruct (snd st); cbn [fst snd]; store_simpl; [apply IH|];
           destruct (has _ _); [apply IH | reflexivity]).
    destruct (otyp o); cbn [fst snd]; store_simpl; rewrite ?E; cbn [fst snd];
      destruct (snd st); cbn [fst snd]; store_simpl; try apply IH;
      destruct (has _ _); try apply IH; reflexivity.
  - destruct (snd (ocheck o)); cbn [fst snd]; store_simpl; rewrite ?E; cbn [fst snd]; try reflexivity.
    destruct (snd st); cbn [fst snd]; store_simpl; [apply IH|].
    destruct (has _ _); [apply IH | reflexivity].
Qed.

(* C12: the store and the outcome of every operation are those of the plain
   set-of-names specification driven by the documented policy table *)
Theorem run_op_refines op objs s lg :
  let '(c', code) := run_op op objs (s, lg) in spec_run_op op objs s = (fst c', code).
Proof.
  unfold run_op, spec_run_op. destruct op.
  - pose proof (check_states_spec objs s lg) as H.
    destruct (check_states objs (s, lg)) as [c' r]. rewrite H. reflexivity.
  - pose proof (iterate_spec _ _ (get_one_spec false (Lr, La)) objs s lg) as H.
    destruct (iterate _ objs (s, lg)) as [c' e]. rewrite H. reflexivity.
  - pose proof (iterate_spec _ _ (set_one_spec false (Lf, Lf)) objs s lg) as H.
    destruct (iterate _ objs (s, lg)) as [c' e]. rewrite H. reflexivity.
  - pose proof (iterate_spec _ _ (unset_one_spec false (Lf, Li)) objs s lg) as H.
    destruct (iterate _ objs (s, lg)) as [c' e]. rewrite H. reflexivity.
  - pose proof (iterate_spec _ _ push_one_spec objs s lg) as H.
    destruct (iterate _ objs (s, lg)) as [c' e]. rewrite H. reflexivity.
  - pose proof (iterate_spec _ _ pop_one_spec objs s lg) as H.
    destruct (iterate _ objs (s, lg)) as [c' e]. rewrite H. reflexivity.
Qed.

Theorem run_ops_refines ops : forall s,
  spec_run_ops ops s = (fst (run_ops ops s), map snd (snd (run_ops ops s))).
Proof.
  induction ops as [|[op objs] ops IH]; intros s; cbn [run_ops spec_run_ops]; [reflexivity|].
  pose proof (run_op_refines op objs s []) as H.
  destruct (run_op op objs (s, [])) as [[s' lg] code]. rewrite H. cbn [fst].
  rewrite IH. destruct (run_ops ops s') as [s'' out]. reflexivity.
Qed.
