From Coq Require Import List NArith Bool Arith Lia.
Import ListNotations.
From I2N Require Import Model.Session.

Definition SInvC (c : scache) : Prop := forall k s, lookup (entries c) k = Some s -> opened_to s = k.
Lemma lookup_store l a s k : lookup (store l a s) k = if N.eqb a k then Some s else lookup l k.
Proof.
  induction l as [|[k0 x] r IH]; cbn.
  - destruct (N.eqb a k); reflexivity.
  - destruct (N.eqb k0 a) eqn:E; cbn.
    + apply N.eqb_eq in E. subst k0. destruct (N.eqb a k); reflexivity.
    + rewrite IH. destruct (N.eqb k0 k) eqn:E2; [|reflexivity]. apply N.eqb_eq in E2. subst k0.
      rewrite N.eqb_sym in E. now rewrite E.
Qed.
Lemma SInvC_empty : SInvC empty_cache. Proof. intros k s H. discriminate. Qed.
(* the session handed to a worker was opened to that worker's own address, whatever is cached for the others *)
Theorem get_session_own c a h : SInvC c ->
  let '(c', s, _) := get_session c a h in opened_to s = a /\ SInvC c'.
Proof.
  intros HI. unfold get_session.
  assert (Hnew : SInvC (mkSC (store (entries c) a (mkSess (next_id c) a)) (S (next_id c)))).
  { intros k s H. cbn in H. rewrite lookup_store in H. destruct (N.eqb a k) eqn:E; [|now apply HI].
    apply N.eqb_eq in E. injection H as <-. exact E. }
  destruct (lookup (entries c) a) as [s|] eqn:E.
  - destruct h; [split; [now apply HI | exact HI] | split; [reflexivity | exact Hnew]].
  - split; [reflexivity | exact Hnew].
Qed.
Theorem sessions_own ops : forall c, SInvC c -> forall i a f, In (i, a, f) (run_sessions c ops) -> exists h, In (a, h) ops.
Proof.
  induction ops as [|[a0 h0] r IH]; intros c HI i a f Hin; cbn in Hin; [destruct Hin|].
  pose proof (get_session_own c a0 h0 HI) as H. destruct (get_session c a0 h0) as [[c' s] fresh]. destruct H as [Ho HI'].
  destruct Hin as [E|Hin].
  - injection E as _ <- _. exists h0. left. now rewrite Ho.
  - destruct (IH c' HI' i a f Hin) as [h Hh]. exists h. now right.
Qed.
(* position by position: the k-th call gets a session opened to the k-th caller's address *)
Theorem sessions_pointwise ops : forall c, SInvC c -> map (fun x => snd (fst x)) (run_sessions c ops) = map fst ops.
Proof.
  induction ops as [|[a0 h0] r IH]; intros c HI; [reflexivity|]. cbn.
  pose proof (get_session_own c a0 h0 HI) as H. destruct (get_session c a0 h0) as [[c' s] fresh]. destruct H as [Ho HI']. cbn.
  now rewrite Ho, (IH c' HI').
Qed.
