(* C05, for every schedule: whatever a worker asks the state-control door to remove while it backs out of a node is a
   state of that node that is marked for removal (unset_mode f.), belongs to a selected vm and is not a net state -
   and the request comes from the node's own worker, after a positive clean decision in the same atomic section. *)
From Coq Require Import List ZArith NArith Bool Arith Lia PrimFloat.
Import ListNotations.
From I2N Require Import Model.Retry Model.Traverse Model.TraverseRun Proofs.TraverseProofs Proofs.TraverseInv.
Local Open Scope nat_scope.

Definition marked (g : graph) (i : nat) (x : N * N) : Prop :=
  exists o st, In o (n_objs (nd g i)) /\ o_set o = Some st /\ x = (o_id o, st) /\ (o_unset o =? 0)%N = true /\
               o_net o = false /\ o_selected o = true.

(* the door events of a piece of a section: removal requests only name marked states of the node, come from its own
   worker, and follow the positive clean decision of that worker on that node *)
Definition doors_ok (g : graph) (e : list event) : Prop :=
  forall w i u sts, In (EDoor w i u sts) e ->
    own g w i = true /\ In (EClean w i true) e /\ (u = true -> forall x, In x sts -> marked g i x).
Definition door_free (e : list event) : Prop := forall w i u sts, ~ In (EDoor w i u sts) e.

Lemma doors_ok_free g e : door_free e -> doors_ok g e.
Proof. intros H w i u sts Hin. exfalso. eapply H; eauto. Qed.
Lemma doors_ok_app g a b : doors_ok g a -> doors_ok g b -> doors_ok g (a ++ b).
Proof.
  intros Ha Hb w i u sts H. apply in_app_or in H. destruct H as [H|H].
  - destruct (Ha w i u sts H) as [A [B C]]. split; [exact A|]. split; [apply in_or_app; now left | exact C].
  - destruct (Hb w i u sts H) as [A [B C]]. split; [exact A|]. split; [apply in_or_app; now right | exact C].
Qed.
Lemma door_free_app a b : door_free a -> door_free b -> door_free (a ++ b).
Proof. intros Ha Hb w i u sts H. apply in_app_or in H. destruct H; [eapply Ha | eapply Hb]; eauto. Qed.
Lemma door_free_nil : door_free [].
Proof. intros w i u sts []. Qed.

Ltac df_simple := let Hq := fresh "Hq" in intros ? ? ? ? Hq; cbn in Hq;
  repeat match goal with H : _ \/ _ |- _ => destruct H end; try discriminate; try contradiction.

Lemma door_free_eval_run g s i w b s' e : eval_run g s i w = Some (b, s', e) -> door_free e.
Proof.
  unfold eval_run. destruct (run_decision g s i w) as [[[b0 sc] s0]|]; [|discriminate].
  intros H. injection H as _ _ <-. destruct (n_root (nd g i)); [apply door_free_nil|]. destruct sc; df_simple.
Qed.

Lemma clean_decision_own g s i w : clean_decision g s i w = Some true -> own g w i = true.
Proof.
  unfold clean_decision. destruct (n_dry (nd g i)); [discriminate|]. destruct (n_flat (nd g i)); [discriminate|].
  destruct (n_cloned (nd g i)); [discriminate|]. destruct (own g w i); [reflexivity | discriminate].
Qed.

Lemma doors_ok_reverse_node g s i w s' e : reverse_node g s i w = Some (s', e) -> doors_ok g e.
Proof.
  unfold reverse_node. destruct (is_occupied g s i w); [intros H; injection H as _ <-; apply doors_ok_free, door_free_nil|].
  set (s1 := set_n s i _).
  destruct (clean_decision g s1 i w) as [[|]|] eqn:Ec; [| intros H; injection H as _ <-; apply doors_ok_free; df_simple | discriminate].
  pose proof (clean_decision_own g s1 i w Ec) as Hown.
  destruct (stateful (nd g i)); [|intros H; injection H as _ <-; apply doors_ok_free; df_simple].
  destruct (sync_walk (n_objs (nd g i)) (n_filter_copy (nd g i)) false false [] []) as [[[[c u] us] gs]|] eqn:Es; [|discriminate].
  destruct c; [|intros H; injection H as _ <-; apply doors_ok_free; df_simple].
  intros H. injection H as _ <-. intros w' i' u' sts [Hd|[Hd|[]]]; [discriminate|]. injection Hd as <- <- <- <-.
  split; [exact Hown|]. split; [now left|]. intros -> x Hx.
  destruct (removal_only_marked _ _ _ _ _ _ x Es Hx) as [o [st [A [B [C [D [E F]]]]]]]. exists o, st. repeat split; assumption.
Qed.

Definition dit (g : graph) (r : it_res) : Prop := match r with Cont _ e | Halt _ e => doors_ok g e end.

Lemma after_from_child_d g s w next previous : dit g (after_from_child g s w next previous).
Proof.
  unfold after_from_child. destruct (eval_run g s next w) as [[[b s1] evs]|] eqn:E.
  - cbn. apply doors_ok_free. apply door_free_app; [eapply door_free_eval_run; eauto|]. destruct b; df_simple.
  - unfold fail. cbn. apply doors_ok_free. df_simple.
Qed.

Lemma after_from_parent_d g s w next : dit g (after_from_parent g s w next).
Proof.
  unfold after_from_parent. destruct (eval_run g s next w) as [[[b s1] evs]|] eqn:E.
  - pose proof (door_free_eval_run _ _ _ _ _ _ _ E) as Hf. destruct b; [cbn; now apply doors_ok_free|].
    destruct (cleanup_ready g s1 next w).
    + set (s2 := fold_left _ (n_parents (nd g next)) s1).
      destruct (reverse_node g s2 next w) as [[s3 e]|] eqn:Er.
      * cbn. apply doors_ok_app; [now apply doors_ok_free|]. apply (doors_ok_app g [EDropChildren w next] e); [apply doors_ok_free; df_simple|].
        eapply doors_ok_reverse_node; eauto.
      * unfold fail. cbn. apply doors_ok_free. apply door_free_app; [exact Hf | df_simple].
    + destruct (pick_child g s1 next w) as [[c s2]|].
      * cbn. apply doors_ok_free. apply door_free_app; [exact Hf | df_simple].
      * unfold fail. cbn. apply doors_ok_free. apply door_free_app; [exact Hf | df_simple].
  - unfold fail. cbn. apply doors_ok_free. df_simple.
Qed.

Lemma door_free_traverse_node g s i w :
  match traverse_node g s i w with TnAwait _ e _ | TnDone _ e | TnFail _ e => door_free e end.
Proof.
  unfold traverse_node. destruct (is_occupied g s i w); [apply door_free_nil|].
  unfold eval_run. destruct (run_decision g _ i w) as [[[b sc] s3]|].
  - assert (Hf : door_free (if n_root (nd g i) then [] else (match sc with Some m => [EScan w i m] | None => [] end) ++ [EDecide w i b])).
    { destruct (n_root (nd g i)); [apply door_free_nil|]. destruct sc; df_simple. }
    destruct b; [|exact Hf]. destruct (n_objroot (nd g i)); cbn; (apply door_free_app; [exact Hf | df_simple]).
  - unfold fail. cbn. df_simple.
Qed.

Lemma do_traverse_d g s w next (fc : bool) previous : dit g (do_traverse g s w next fc previous).
Proof.
  unfold do_traverse. pose proof (door_free_traverse_node g s next w) as H.
  destruct (traverse_node g s next w) as [s1 e pre|s1 e|s1 e]; [cbn; now apply doors_ok_free | | cbn; now apply doors_ok_free].
  assert (Hd : dit g (if fc then after_from_child g s1 w next previous else after_from_parent g s1 w next))
    by (destruct fc; [apply after_from_child_d | apply after_from_parent_d]).
  destruct (if fc then after_from_child g s1 w next previous else after_from_parent g s1 w next) as [s2 e2|s2 e2]; cbn in *;
    (apply doors_ok_app; [now apply doors_ok_free | exact Hd]).
Qed.

Lemma iter_d g s w : dit g (iter g s w).
Proof.
  unfold iter.
  assert (Hfail : forall c, dit g (let '(s1, e) := fail s w c in Halt s1 e)) by (intros c; unfold fail; cbn; apply doors_ok_free; df_simple).
  destruct (cleanup_ready g s (g_root g) w).
  - destruct (path (wst s w)) as [|r [|r2 rest]]; try apply Hfail.
    destruct (Nat.eqb r (g_root g)); [cbn; apply doors_ok_free; df_simple | apply Hfail].
  - destruct (path (wst s w)) as [|next [|previous rest]]; try apply Hfail.
    + destruct (pick_child g s next w) as [[c s1]|]; [cbn; apply doors_ok_free; df_simple | apply Hfail].
    + destruct (is_occupied g s next w); [unfold bounce; cbn; apply doors_ok_free; df_simple|].
      assert (Hpp : dit g (match pick_parent g s next w with
                           | None => let '(s1, e) := fail s w 1 in Halt s1 e
                           | Some (p, s1) => Cont (push s1 w p) [EPick w next p false]
                           end)) by (destruct (pick_parent g s next w) as [[p s1]|]; [cbn; apply doors_ok_free; df_simple | apply Hfail]).
      destruct (memn previous (n_children (nd g next))).
      * destruct (setup_ready g s next w); [apply do_traverse_d | exact Hpp].
      * destruct (memn previous (n_parents (nd g next))); [|apply Hfail].
        destruct (negb (setup_ready g s next w)); [exact Hpp | apply do_traverse_d].
Qed.

(* pieces are only ever concatenated, but the EClean witness has to stay in the SAME list: doors_ok_app keeps it *)
Lemma run_loop_d fuel g w : forall s, doors_ok g (snd (run_loop fuel g s w)).
Proof.
  induction fuel as [|f IH]; intros s; cbn [run_loop]; [unfold fail; cbn; apply doors_ok_free; df_simple|].
  pose proof (iter_d g s w) as H. destruct (iter g s w) as [s1 e|s1 e]; cbn in H; [|exact H].
  specialize (IH s1). destruct (run_loop f g s1 w) as [s2 e2]. cbn in *. now apply doors_ok_app.
Qed.

Lemma continue_d g w r : dit g r ->
  doors_ok g (snd (match r with Halt s2 e => (s2, e) | Cont s2 e => let '(s3, e3) := run_loop FUEL g s2 w in (s3, e ++ e3) end)).
Proof.
  intros H. destruct r as [s2 e|s2 e]; cbn in H; [|exact H].
  pose proof (run_loop_d FUEL g w s2) as HL. destruct (run_loop FUEL g s2 w) as [s3 e3]. cbn in *. now apply doors_ok_app.
Qed.

Theorem resume_d g s w out : doors_ok g (snd (resume g s w out)).
Proof.
  unfold resume. destruct (ph (wst s w)) as [| next pre fc uid | | |c].
  - apply run_loop_d.
  - destruct pre.
    + destruct (run_ok _).
      * unfold start_run. cbn. apply doors_ok_free. df_simple.
      * apply continue_d. destruct fc; [apply after_from_child_d | apply after_from_parent_d].
    + apply continue_d. destruct fc; [apply after_from_child_d | apply after_from_parent_d].
  - apply run_loop_d.
  - cbn. apply doors_ok_free, door_free_nil.
  - cbn. apply doors_ok_free, door_free_nil.
Qed.

(* C05: for every graph, pool population and schedule *)
Theorem removals_only_marked g p sched evs w i sts :
  In evs (snd (run_schedule g (init_state g p) sched)) -> In (EDoor w i true sts) evs ->
  own g w i = true /\ In (EClean w i true) evs /\ forall x, In x sts -> marked g i x.
Proof.
  generalize (init_state g p). induction sched as [|[w0 out] r IH]; intros s Hin Hd; cbn in Hin; [contradiction|].
  pose proof (resume_d g s w0 out) as H. destruct (resume g s w0 out) as [s1 e]. destruct (run_schedule g s1 r) as [s2 es] eqn:Er.
  cbn in *. destruct Hin as [<-|Hin].
  - destruct (H w i true sts Hd) as [A [B C]]. split; [exact A|]. split; [exact B | now apply C].
  - apply (IH s1); [rewrite Er; exact Hin | exact Hd].
Qed.
