(* C05, "states not marked for removal are never removed by a test run", as a statement about the pools themselves and over
   every schedule: a state that no node marks for removal and that is in some pool (own pool of any worker, or the shared
   pool) stays in that pool for the rest of the run - whatever was there initially and whatever a passing test added. *)
From Coq Require Import List ZArith NArith Bool Arith Lia PrimFloat.
Import ListNotations.
From I2N Require Import Model.Retry Model.Traverse Model.TraverseRun Proofs.TraverseProofs Proofs.TraverseInv
                        Proofs.TraverseExcl Proofs.TraverseLoc Proofs.TraverseUid Proofs.TraverseAvail Proofs.TraverseDoor.
Local Open Scope nat_scope.

Definition unmarked (g : graph) (x : N * N) : Prop := forall i, ~ marked g i x.
Definition keeps (g : graph) (s s' : state) : Prop :=
  forall l x, unmarked g x -> has_state (pool s) l x = true -> has_state (pool s') l x = true.
Lemma keeps_refl g s : keeps g s s. Proof. intros l x _ H. exact H. Qed.
Lemma keeps_trans g a b c : keeps g a b -> keeps g b c -> keeps g a c.
Proof. intros A B l x U H. apply (B l x U). now apply (A l x U). Qed.
Lemma keeps_eq g s s' : pool s' = pool s -> keeps g s s'.
Proof. intros E l x _ H. now rewrite E. Qed.

Lemma has_state_upd_keep p l f l' x :
  (forall old y, In y old -> pair_eqb x y = true -> In y (f old)) -> has_state p l' x = true -> has_state (pool_upd p l f) l' x = true.
Proof.
  intros Hf H. apply has_state_In in H. destruct H as [y [Hy E]]. apply has_state_In. exists y. split; [|exact E].
  rewrite pool_get_upd. destruct (loc_eqb l l') eqn:El; [|exact Hy]. apply loc_eqb_eq in El. subst l'. now apply Hf.
Qed.
Lemma fold_get_keeps (cond : N * N -> list (N * N) -> bool) (sts : list (N * N)) : forall acc y, In y acc ->
  In y (fold_left (fun acc x => if cond x acc then acc ++ [x] else acc) sts acc).
Proof.
  induction sts as [|x r IH]; intros acc y H; cbn; [exact H|]. apply IH. destruct (cond x acc); [apply in_or_app; now left | exact H].
Qed.

Lemma keeps_door_effect g s i w u sts : (u = true -> forall y, In y sts -> marked g i y) -> keeps g s (door_effect s w u sts).
Proof.
  intros Hm l x U H. unfold door_effect. cbn [pool]. destruct u.
  - apply has_state_upd_keep; [|exact H]. intros old y Hy E. apply filter_In. split; [exact Hy|]. apply negb_true_iff.
    apply not_true_is_false. intros Hex. apply existsb_exists in Hex. destruct Hex as [z [Hz Ez]].
    apply pair_eqb_eq in E. apply pair_eqb_eq in Ez. subst. apply (U i). now apply Hm.
  - apply has_state_upd_keep; [|exact H]. intros old y Hy _.
    apply (fold_get_keeps (fun x acc => has_state (pool s) None x && negb (existsb (pair_eqb x) acc)) sts old y Hy).
Qed.

Lemma pool_run_decision g s i w b sc s' : run_decision g s i w = Some (b, sc, s') -> pool s' = pool s.
Proof.
  unfold run_decision. intros H.
  repeat match type of H with
         | (if ?c then _ else _) = _ => destruct c
         | match ?x with _ => _ end = _ => destruct x eqn:?
         end; try discriminate; injection H as _ _ <-; reflexivity.
Qed.
Lemma pool_eval_run g s i w b s' e : eval_run g s i w = Some (b, s', e) -> pool s' = pool s.
Proof.
  unfold eval_run. destruct (run_decision g s i w) as [[[b0 sc] s0]|] eqn:E; [|discriminate].
  intros H. injection H as _ <- _. eapply pool_run_decision; eauto.
Qed.
Lemma pool_pull_locations g s i : pool (pull_locations g s i) = pool s.
Proof. unfold pull_locations. destruct (n_flat (nd g i)); reflexivity. Qed.
Lemma pool_traverse_node g s i w :
  match traverse_node g s i w with TnAwait s' _ _ | TnDone s' _ | TnFail s' _ => pool s' = pool s end.
Proof.
  unfold traverse_node. destruct (is_occupied g s i w); [reflexivity|].
  set (s2 := pull_locations g _ i). assert (H2 : pool s2 = pool s) by (unfold s2; now rewrite pool_pull_locations).
  unfold eval_run. destruct (run_decision g s2 i w) as [[[b sc] s3]|] eqn:E; [|unfold fail; cbn; exact H2].
  pose proof (pool_run_decision _ _ _ _ _ _ _ E) as H3. destruct b; [destruct (n_objroot (nd g i)); cbn; congruence | cbn; congruence].
Qed.
Lemma pool_fold_drop_child g w next l : forall s, pool (fold_left (fun st p => drop_child g st p next w) l s) = pool s.
Proof. induction l as [|p l IH]; intros s; cbn; [reflexivity|]. now rewrite IH. Qed.

Lemma keeps_reverse_node g s i w s' e : reverse_node g s i w = Some (s', e) -> keeps g s s'.
Proof.
  unfold reverse_node. destruct (is_occupied g s i w); [intros H; injection H as <- _; apply keeps_refl|].
  destruct (clean_decision g _ i w) as [[]|]; [| intros H; injection H as <- _; apply keeps_eq; reflexivity | discriminate].
  destruct (stateful (nd g i)); [| intros H; injection H as <- _; apply keeps_eq; reflexivity].
  destruct (sync_walk _ _ _ _ _ _) as [[[[[] u] us] gs]|] eqn:Es; [| |discriminate]; intros H; injection H as <- _; [|apply keeps_eq; reflexivity].
  match goal with |- keeps g s (set_n (door_effect ?s1 w u ?sts) i ?f) =>
    apply (keeps_trans g s (door_effect s1 w u sts)); [|apply keeps_eq; reflexivity];
    apply (keeps_trans g s s1); [apply keeps_eq; reflexivity|]; apply (keeps_door_effect g s1 i w u sts) end.
  intros -> y Hy. exact (removal_only_marked _ _ _ _ _ _ y Es Hy).
Qed.

Definition kit (g : graph) (s : state) (r : it_res) : Prop := match r with Cont s' _ | Halt s' _ => keeps g s s' end.

Lemma after_from_child_k g s w next previous : kit g s (after_from_child g s w next previous).
Proof.
  unfold after_from_child. destruct (eval_run g s next w) as [[[b s1] evs]|] eqn:E; [|unfold fail; cbn; apply keeps_eq; reflexivity].
  pose proof (pool_eval_run _ _ _ _ _ _ _ E) as H1. cbn. apply keeps_eq. destruct b; cbn; exact H1.
Qed.
Lemma after_from_parent_k g s w next : kit g s (after_from_parent g s w next).
Proof.
  unfold after_from_parent. destruct (eval_run g s next w) as [[[b s1] evs]|] eqn:E; [|unfold fail; cbn; apply keeps_eq; reflexivity].
  pose proof (pool_eval_run _ _ _ _ _ _ _ E) as H1. destruct b; [cbn; apply keeps_eq; exact H1|].
  destruct (cleanup_ready g s1 next w).
  - set (s2 := fold_left _ (n_parents (nd g next)) s1). assert (H2 : pool s2 = pool s) by (unfold s2; rewrite pool_fold_drop_child; exact H1).
    destruct (reverse_node g s2 next w) as [[s3 e]|] eqn:Er.
    + cbn. apply (keeps_trans g s s2); [now apply keeps_eq|]. apply (keeps_trans g s2 s3); [eapply keeps_reverse_node; eauto | apply keeps_eq; reflexivity].
    + unfold fail. cbn. apply keeps_eq. exact H2.
  - destruct (pick_child g s1 next w) as [[c s2]|] eqn:Ep.
    + unfold pick_child in Ep. destruct (pick_from _ _ _); [|discriminate]. injection Ep as _ <-. cbn. apply keeps_eq. exact H1.
    + unfold fail. cbn. apply keeps_eq. exact H1.
Qed.
Lemma do_traverse_k g s w next (fc : bool) previous : kit g s (do_traverse g s w next fc previous).
Proof.
  unfold do_traverse. pose proof (pool_traverse_node g s next w) as H. destruct (traverse_node g s next w) as [s1 e pre|s1 e|s1 e].
  - cbn. apply keeps_eq. exact H.
  - assert (Hr : kit g s1 (if fc then after_from_child g s1 w next previous else after_from_parent g s1 w next))
      by (destruct fc; [apply after_from_child_k | apply after_from_parent_k]).
    destruct (if fc then _ else _) as [s2 e2|s2 e2]; cbn in *; (apply (keeps_trans g s s1); [now apply keeps_eq | exact Hr]).
  - cbn. apply keeps_eq. exact H.
Qed.
Lemma iter_k g s w : kit g s (iter g s w).
Proof.
  unfold iter. destruct (cleanup_ready g s (g_root g) w).
  - destruct (path (wst s w)) as [|r [|r2 t]]; try (unfold fail; cbn; apply keeps_eq; reflexivity).
    destruct (Nat.eqb r (g_root g)); [cbn; apply keeps_eq; reflexivity | unfold fail; cbn; apply keeps_eq; reflexivity].
  - destruct (path (wst s w)) as [|next [|previous t]]; [unfold fail; cbn; apply keeps_eq; reflexivity| |].
    + destruct (pick_child g s next w) as [[c s1]|] eqn:Ep; [|unfold fail; cbn; apply keeps_eq; reflexivity].
      unfold pick_child in Ep. destruct (pick_from _ _ _); [|discriminate]. injection Ep as _ <-. cbn. apply keeps_eq. reflexivity.
    + destruct (is_occupied g s next w).
      * unfold bounce. cbn. apply keeps_eq. destruct (_ && _); reflexivity.
      * assert (Hpp : match pick_parent g s next w with
                      | Some (p, s1) => kit g s (Cont (push s1 w p) [EPick w next p false])
                      | None => kit g s (let '(s1, e) := fail s w 1 in Halt s1 e) end).
        { destruct (pick_parent g s next w) as [[p s1]|] eqn:Ep; [|unfold fail; cbn; apply keeps_eq; reflexivity].
          unfold pick_parent in Ep. destruct (pick_from _ _ _); [|discriminate]. injection Ep as _ <-. cbn. apply keeps_eq. reflexivity. }
        destruct (memn previous (n_children (nd g next))).
        -- destruct (setup_ready g s next w); [apply do_traverse_k|]. destruct (pick_parent g s next w) as [[p s1]|]; exact Hpp.
        -- destruct (memn previous (n_parents (nd g next))); [|unfold fail; cbn; apply keeps_eq; reflexivity].
           destruct (negb (setup_ready g s next w)); [|apply do_traverse_k]. destruct (pick_parent g s next w) as [[p s1]|]; exact Hpp.
Qed.
Lemma run_loop_k fuel g w : forall s, keeps g s (fst (run_loop fuel g s w)).
Proof.
  induction fuel as [|f IH]; intros s; cbn [run_loop]; [unfold fail; cbn; apply keeps_eq; reflexivity|].
  pose proof (iter_k g s w) as H. destruct (iter g s w) as [s1 e|s1 e]; cbn in H; [|exact H].
  specialize (IH s1). destruct (run_loop f g s1 w) as [s2 e2]. cbn in *. eapply keeps_trans; eauto.
Qed.
Lemma continue_k g w s r : kit g s r ->
  keeps g s (fst (match r with Halt s2 e => (s2, e) | Cont s2 e => let '(s3, e3) := run_loop FUEL g s2 w in (s3, e ++ e3) end)).
Proof.
  intros H. destruct r as [s2 e|s2 e]; cbn in H; [|exact H].
  pose proof (run_loop_k FUEL g w s2) as HL. destruct (run_loop FUEL g s2 w) as [s3 e3]. cbn in *. eapply keeps_trans; eauto.
Qed.
Lemma keeps_finish_run g s i w out : keeps g s (finish_run g s i w out).
Proof.
  unfold finish_run. destruct out as [st|]; [|apply keeps_refl]. destruct st; try (apply keeps_eq; reflexivity).
  intros l x _ H. apply produce_grow. exact H.
Qed.

Theorem resume_k g s w out : keeps g s (fst (resume g s w out)).
Proof.
  unfold resume. destruct (ph (wst s w)) as [| next pre fc uid | | |c].
  - apply (keeps_trans g s (set_phase s w Ready)); [apply keeps_eq; reflexivity | apply run_loop_k].
  - cbv zeta. set (s0 := mkS (ws s) (ns s) (r_ps s) (r_pc s) (r_ds s) (r_dc s) (pool s) _).
    set (seen := match find _ (job s0) with Some e => Some (snd e) | None => None end).
    assert (Hc : forall s1, keeps g s s1 -> keeps g s
               (fst (match (if fc then after_from_child g (set_phase s1 w Ready) w next (hd 0 (tl (path (wst s w)))) else after_from_parent g (set_phase s1 w Ready) w next) with
                     | Halt s2 e => (s2, e) | Cont s2 e => let '(s3, e3) := run_loop FUEL g s2 w in (s3, e ++ e3) end))).
    { intros s1 H1. apply (keeps_trans g s (set_phase s1 w Ready)); [eapply keeps_trans; [exact H1 | apply keeps_eq; reflexivity]|].
      apply continue_k. destruct fc; [apply after_from_child_k | apply after_from_parent_k]. }
    destruct pre.
    + destruct (run_ok seen).
      * unfold start_run. cbn [fst]. apply keeps_eq. reflexivity.
      * match goal with |- context [set_phase (mark_done ?a next w) w Ready] => apply (Hc (mark_done a next w)) end. apply keeps_eq. reflexivity.
    + apply (Hc (mark_done (finish_run g s0 next w seen) next w)).
      apply (keeps_trans g s (finish_run g s0 next w seen)); [|apply keeps_eq; reflexivity].
      apply (keeps_trans g s s0); [apply keeps_eq; reflexivity | apply keeps_finish_run].
  - apply (keeps_trans g s (set_phase s w Ready)); [apply keeps_eq; reflexivity | apply run_loop_k].
  - cbn. apply keeps_refl.
  - cbn. apply keeps_refl.
Qed.

Lemma schedule_k g sched : forall s, keeps g s (fst (run_schedule g s sched)).
Proof.
  induction sched as [|[w out] r IH]; intros s; cbn [run_schedule]; [apply keeps_refl|].
  pose proof (resume_k g s w out) as H. destruct (resume g s w out) as [s1 e]. cbn [fst] in H.
  specialize (IH s1). destruct (run_schedule g s1 r) as [s2 es]. cbn [fst] in *. eapply keeps_trans; eauto.
Qed.

(* for every graph, every pool population, every schedule and outcome assignment, any number of workers: a state that no
   node marks for removal and that is in a pool at some point of the run is still in that pool at every later point *)
Theorem unmarked_states_persist g p sched1 sched2 l x :
  unmarked g x ->
  has_state (pool (fst (run_schedule g (init_state g p) sched1))) l x = true ->
  has_state (pool (fst (run_schedule g (init_state g p) (sched1 ++ sched2)))) l x = true.
Proof.
  intros U H. rewrite run_schedule_app. cbn [fst]. now apply (schedule_k g sched2 _ l x U).
Qed.

(* the hypothesis as an executable check *)
Definition unmarked_b (g : graph) (x : N * N) : bool :=
  forallb (fun n => forallb (fun o => negb (match o_set o with Some st => pair_eqb x (o_id o, st) | None => false end &&
                                           (o_unset o =? 0)%N && negb (o_net o) && o_selected o)) (n_objs n)) (g_nodes g).
Lemma unmarked_b_sound g x : unmarked_b g x = true -> unmarked g x.
Proof.
  unfold unmarked_b. intros H i [o [st [Ho [Hs [-> [Hu [Hn Hsel]]]]]]]. rewrite forallb_forall in H.
  destruct (Nat.lt_ge_cases i (length (g_nodes g))) as [Hi|Hi]; [|rewrite (nd_overflow g i Hi) in Ho; destruct Ho].
  specialize (H (nd g i) (nth_In _ _ Hi)). rewrite forallb_forall in H. specialize (H o Ho).
  rewrite Hs, Hu, Hn, Hsel, pair_eqb_refl in H. discriminate.
Qed.
