From Coq Require Import List NArith Bool.
Import ListNotations.
From I2N Require Import Model.Restr.

Theorem select_spec lines U n :
  In n (select lines U) <->
  In n U /\ (forall f, In (Only f) lines -> matches f n = true) /\
            (forall f, In (No f) lines -> matches f n = false).
Proof.
  unfold select. rewrite filter_In, forallb_forall. split.
  - intros [HU H]. repeat split; auto.
    + intros f Hf. exact (H _ Hf).
    + intros f Hf. specialize (H _ Hf). cbn in H. now apply negb_true_iff in H.
  - intros [HU [Ho Hn]]. split; auto. intros [f|f] Hl; cbn.
    + now apply Ho.
    + apply negb_true_iff. now apply Hn.
Qed.

(* repeated restrictions narrow successively, in any grouping *)
Theorem select_app l1 l2 U : select (l1 ++ l2) U = select l1 (select l2 U).
Proof.
  unfold select. induction U as [|n U IH]; cbn; [reflexivity|].
  rewrite forallb_app. destruct (forallb (fun l => keep l n) l2); cbn.
  - destruct (forallb (fun l => keep l n) l1); cbn; now rewrite IH.
  - rewrite andb_false_r. exact IH.
Qed.

Theorem select_comm l1 l2 U : select (l1 ++ l2) U = select (l2 ++ l1) U.
Proof.
  unfold select. apply filter_ext. intros n. rewrite !forallb_app. apply andb_comm.
Qed.

(* two only= arguments without commas equal the single ".." form *)
Theorem only_dotdot wa wb rest U :
  select (Only [wa] :: Only [wb] :: rest) U = select (Only [wa ++ wb] :: rest) U.
Proof.
  unfold select. apply filter_ext. intros n. cbn [forallb keep matches existsb].
  unfold word_matches. rewrite forallb_app, !orb_false_r. now rewrite andb_assoc.
Qed.

(* ... which is false with commas: the counterexample *)
Example only_dotdot_needs_comma_free :
  let a := [[[1%N]]; [[2%N]]] in       (* "x,y" *)
  let b := [[[3%N]]] in                (* "z" *)
  select [Only a; Only b] [[2%N; 3%N]] <> select [Only [[[1%N]]; [[2%N]; [3%N]]] ] [[1%N]].
Proof. vm_compute. discriminate. Qed.

Theorem no_excludes f rest U n : In n (select (No f :: rest) U) -> matches f n = false.
Proof. intros H. apply select_spec in H. destruct H as [_ [_ H]]. apply H. now left. Qed.

Theorem only_includes f rest U n : In n (select (Only f :: rest) U) -> matches f n = true.
Proof. intros H. apply select_spec in H. destruct H as [_ [H _]]. apply H. now left. Qed.

(* what "contiguous" means *)
Lemma prefixb_app b n : prefixb b n = true <-> exists r, n = b ++ r.
Proof.
  revert n. induction b as [|x b IH]; intros n; cbn.
  - split; [intros _; now exists n | reflexivity].
  - destruct n as [|y n]; [split; [discriminate | intros [r Hr]; discriminate]|].
    rewrite andb_true_iff, N.eqb_eq, IH. split.
    + intros [-> [r ->]]. now exists r.
    + intros [r Hr]. injection Hr as -> ->. split; [reflexivity | now exists r].
Qed.

Theorem contiguous_spec b n : contiguous b n = true <-> exists l r, n = l ++ b ++ r.
Proof.
  induction n as [|y n IH]; cbn [contiguous].
  - rewrite orb_false_r, prefixb_app. split.
    + intros [r Hr]. exists [], r. exact Hr.
    + intros [l [r H]]. destruct l; [now exists r | discriminate].
  - rewrite orb_true_iff, prefixb_app, IH. split.
    + intros [[r Hr]|[l [r Hr]]]; [exists [], r; exact Hr | exists (y :: l), r; now rewrite Hr].
    + intros [l [r H]]. destruct l as [|z l]; [left; now exists r|].
      right. injection H as -> ->. now exists l, r.
Qed.
