(* C02 for the plain sequential configuration, over every schedule: the worker only exits after every ordinary own test
   reachable from the root through child edges has been dealt with - it has results (for a test that saves no state:
   it ran, or had replayed results), or (for a setup test) its states are in the own or shared pool - and all its own
   children have been dealt with in turn.  Same hypotheses as C01_available_at_start_single_worker plus: children lie
   inside the graph. *)
From Coq Require Import List ZArith NArith Bool Arith Lia PrimFloat.
Import ListNotations.
From I2N Require Import Model.Retry Model.Traverse Model.TraverseRun Proofs.TraverseProofs Proofs.TraverseInv
                        Proofs.TraverseExcl Proofs.TraverseLoc Proofs.TraverseUid Proofs.TraverseAvail.
Local Open Scope nat_scope.

(* ---- the drop-children register only grows, and only after_from_parent writes it ---- *)
Definition growc (s s' : state) : Prop := forall key v, In v (reg_workers (r_dc s) key) -> In v (reg_workers (r_dc s') key).
Lemma growc_refl s : growc s s. Proof. intros k v H. exact H. Qed.
Lemma growc_trans a b c : growc a b -> growc b c -> growc a c. Proof. intros H1 H2 k v H. auto. Qed.
Lemma growc_eq s s' : r_dc s' = r_dc s -> growc s s'. Proof. intros E k v H. now rewrite E. Qed.

Lemma rdc_run_decision g s i w b sc s' : run_decision g s i w = Some (b, sc, s') -> r_dc s' = r_dc s.
Proof.
  unfold run_decision. intros H.
  repeat match type of H with
         | (if ?c then _ else _) = _ => destruct c
         | match ?x with _ => _ end = _ => destruct x eqn:?
         end; try discriminate; injection H as _ _ <-; reflexivity.
Qed.
Lemma rdc_eval_run g s i w b s' e : eval_run g s i w = Some (b, s', e) -> r_dc s' = r_dc s.
Proof.
  unfold eval_run. destruct (run_decision g s i w) as [[[b0 sc] s0]|] eqn:E; [|discriminate].
  intros H. injection H as _ <- _. eapply rdc_run_decision; eauto.
Qed.
Lemma rdc_pull_locations g s i : r_dc (pull_locations g s i) = r_dc s.
Proof. unfold pull_locations. destruct (n_flat (nd g i)); reflexivity. Qed.
Lemma rdc_reverse_node g s i w s' e : reverse_node g s i w = Some (s', e) -> r_dc s' = r_dc s.
Proof.
  unfold reverse_node. intros H.
  repeat match type of H with
         | (if ?c then _ else _) = _ => destruct c
         | match ?x with _ => _ end = _ => destruct x eqn:?
         | (let '(_, _) := ?x in _) = _ => destruct x eqn:?
         end; try discriminate; injection H as <- _; reflexivity.
Qed.
Lemma rdc_traverse_node g s i w :
  match traverse_node g s i w with TnAwait s' _ _ | TnDone s' _ | TnFail s' _ => r_dc s' = r_dc s end.
Proof.
  unfold traverse_node. destruct (is_occupied g s i w); [reflexivity|].
  set (s2 := pull_locations g _ i). assert (H2 : r_dc s2 = r_dc s) by (unfold s2; now rewrite rdc_pull_locations).
  unfold eval_run. destruct (run_decision g s2 i w) as [[[b sc] s3]|] eqn:E; [|unfold fail; cbn; exact H2].
  pose proof (rdc_run_decision _ _ _ _ _ _ _ E) as H3. destruct b; [destruct (n_objroot (nd g i)); cbn; congruence | cbn; congruence].
Qed.

(* ---- a node the worker is done with ---- *)
Definition Done (g : graph) (s : state) (c : nat) : Prop :=
  cleanup_ready g s c 0 = true /\ Settled g s c /\ (stateful (nd g c) = false -> results (nst s c) <> []).

Lemma cleanup_ready_growc g s s' c w : growc s s' -> cleanup_ready g s c w = true -> cleanup_ready g s' c w = true.
Proof.
  intros Hg H. unfold cleanup_ready in *. rewrite forallb_forall in *. intros x Hx. specialize (H x Hx).
  apply orb_true_iff in H. apply orb_true_iff. destruct H as [H|H]; [now left|]. right. apply memn_In. apply Hg. now apply memn_In.
Qed.
Lemma Done_grow g s s' c : grow s s' -> growc s s' -> Done g s c -> Done g s' c.
Proof.
  intros Hg Hc [D1 [D2 D3]]. split; [now apply (cleanup_ready_growc g s s')|]. split; [now apply (Settled_grow g s s')|].
  intros Hs. destruct Hg as [_ [_ [H3 _]]]. apply H3. now apply D3.
Qed.

(* a child that was dropped is done *)
Definition EInv (g : graph) (s : state) : Prop :=
  forall rid f v, In v (reg_workers (r_dc s) (rid, f)) ->
    exists c, n_form (nd g c) = f /\ (plain g c -> own g 0 c = true -> Done g s c).

Definition estep (g : graph) (s s' : state) : Prop := growc s s' /\ (grow s s' -> EInv g s -> EInv g s').
Lemma estep_eq g s s' : r_dc s' = r_dc s -> estep g s s'.
Proof.
  intros E. split; [now apply growc_eq|]. intros Hg HE rid f v Hv. rewrite E in Hv. destruct (HE rid f v Hv) as [c [A B]].
  exists c. split; [exact A|]. intros Hp Ho. apply (Done_grow g s s' c Hg (growc_eq s s' E)). now apply B.
Qed.
Lemma estep_trans g a b c : grow a b -> grow b c -> estep g a b -> estep g b c -> estep g a c.
Proof.
  intros G1 G2 [A1 A2] [B1 B2]. split; [eapply growc_trans; eauto|]. intros _ HE. apply B2; [exact G2|]. now apply A2.
Qed.

(* decision false on a plain own node: it has results if it saves no state *)
Lemma decision_false_results g s i sc s' :
  simple g -> run_decision g s i 0 = Some (false, sc, s') -> plain g i -> own g 0 i = true -> stateful (nd g i) = false ->
  results (nst s i) <> [].
Proof.
  intros Hg H [Hf [Hd [Hc Hr]]] Ho Hs. unfold run_decision in H. rewrite Hr, Hd, Hf, Hc, Ho, Hs in H. cbn [negb] in H.
  destruct (sg_cfg g Hg i) as [Cd [Cf Cc]].
  destruct (run_stateless (n_cfg (nd g i)) (result_statuses (shared_results g s i))) as [b|] eqn:E; [|discriminate].
  injection H as -> _ _. unfold run_stateless in E. rewrite Cd, Cf, Cc, Hd, Hf, Hc in E.
  destruct (length (result_statuses (shared_results g s i)) =? 0) eqn:E0; [discriminate|].
  unfold shared_results, class_of in E0. rewrite (sg_nobridge g Hg i) in E0. cbn in E0. rewrite app_nil_r in E0.
  unfold result_statuses in E0. rewrite map_length in E0. intros Hn. rewrite Hn in E0. discriminate.
Qed.

(* the one place where children are dropped *)
Lemma reg_workers_dc_fold g next w : forall (l : list nat) s key v,
  In v (reg_workers (r_dc (fold_left (fun st p => drop_child g st p next w) l s)) key) ->
  In v (reg_workers (r_dc s) key) \/ (exists p, In p l /\ key = (n_reg (nd g p), n_form (nd g next)) /\ v = w).
Proof.
  induction l as [|p l IH]; intros s key v H; cbn in H; [now left|].
  destruct (IH _ key v H) as [A|[p' [A1 [A2 A3]]]].
  - unfold drop_child in A. cbn in A. apply reg_workers_add in A. destruct A as [A|[A1 A2]]; [now left|].
    right. exists p. split; [now left | split; assumption].
  - right. exists p'. split; [now right | split; assumption].
Qed.
Lemma growc_dc_fold g next w : forall (l : list nat) s, growc s (fold_left (fun st p => drop_child g st p next w) l s).
Proof.
  induction l as [|p l IH]; intros s; cbn; [apply growc_refl|]. eapply growc_trans; [|apply IH].
  intros key v H. unfold drop_child. cbn. apply reg_workers_add. now left.
Qed.

Definition eit (g : graph) (s : state) (r : it_res) : Prop := match r with Cont s' _ | Halt s' _ => estep g s s' end.
Definition git_ (s : state) (r : it_res) : Prop := match r with Cont s' _ | Halt s' _ => grow s s' end.

Lemma ait_grow g s r : ait g s r -> git_ s r.
Proof. destruct r; intros [[H _] _]; exact H. Qed.

Lemma after_from_child_e g s next previous : eit g s (after_from_child g s 0 next previous).
Proof.
  unfold after_from_child. destruct (eval_run g s next 0) as [[[b s1] evs]|] eqn:E.
  - cbn. apply estep_eq. pose proof (rdc_eval_run _ _ _ _ _ _ _ E) as H. destruct b; cbn; exact H.
  - unfold fail. cbn. apply estep_eq. reflexivity.
Qed.

Lemma after_from_parent_e g s next : simple g -> AInv g s -> eit g s (after_from_parent g s 0 next).
Proof.
  intros Hg HA. unfold after_from_parent. destruct (eval_run g s next 0) as [[[b s1] evs]|] eqn:E.
  - pose proof (rdc_eval_run _ _ _ _ _ _ _ E) as Hdc1. pose proof (astep_eval_run _ _ _ _ _ _ _ E) as [Hg1 _].
    destruct b; [cbn; apply estep_eq; exact Hdc1|].
    destruct (cleanup_ready g s1 next 0) eqn:Ecr.
    + set (s2 := fold_left _ (n_parents (nd g next)) s1).
      assert (Hc12 : growc s1 s2) by apply growc_dc_fold.
      assert (Hg12 : grow s1 s2).
      { apply grow_same_parts; [apply ns_fold_drop_child | | ].
        - unfold s2. clear. generalize s1. induction (n_parents (nd g next)) as [|p l IH]; intros st; cbn; [reflexivity | now rewrite IH].
        - unfold s2. clear. generalize s1. induction (n_parents (nd g next)) as [|p l IH]; intros st; cbn; [reflexivity | now rewrite IH]. }
      assert (Hstep2 : estep g s s2).
      { split; [eapply growc_trans; [apply growc_eq; exact Hdc1 | exact Hc12]|]. intros _ HE rid f v Hv.
        destruct (reg_workers_dc_fold g next 0 _ s1 (rid, f) v Hv) as [Hold|[p [Hp [Hk Hv0]]]].
        - rewrite Hdc1 in Hold. destruct (HE rid f v Hold) as [c [A B]]. exists c. split; [exact A|]. intros Hpl Ho.
          apply (Done_grow g s s2 c); [eapply grow_trans; eauto | eapply growc_trans; [apply growc_eq; exact Hdc1 | exact Hc12] | now apply B].
        - injection Hk as _ ->. exists next. split; [reflexivity|]. intros Hpl Ho.
          unfold eval_run in E. destruct (run_decision g s next 0) as [[[b0 sc] s0]|] eqn:Ed; [|discriminate]. injection E as -> <- _.
          split; [now apply (cleanup_ready_growc g s0 s2)|]. split.
          + apply (Settled_grow g s s2 next); [eapply grow_trans; eauto|]. now apply (decision_false_settled g s next sc s0).
          + intros Hs. destruct (grow_trans _ _ _ Hg1 Hg12) as [_ [_ [H3 _]]]. apply H3. now apply (decision_false_results g s next sc s0). }
      destruct (reverse_node g s2 next 0) as [[s3 e]|] eqn:Er.
      * pose proof (rdc_reverse_node _ _ _ _ _ _ Er) as Hdc3. pose proof (astep_reverse_node _ _ _ _ _ _ Hg Er) as [Hg23 _].
        cbn. apply (estep_trans g s s2); [eapply grow_trans; eauto | | exact Hstep2 | apply estep_eq; cbn; exact Hdc3].
        eapply grow_trans; [exact Hg23 | apply grow_same_parts; reflexivity].
      * unfold fail. cbn. apply (estep_trans g s s2); [eapply grow_trans; eauto | apply grow_same_parts; reflexivity | exact Hstep2 | apply estep_eq; reflexivity].
    + destruct (pick_child g s1 next 0) as [[c s2]|] eqn:Ep.
      * unfold pick_child in Ep. destruct (pick_from _ _ _); [|discriminate]. injection Ep as _ <-. cbn. apply estep_eq. cbn. exact Hdc1.
      * unfold fail. cbn. apply estep_eq. cbn. exact Hdc1.
  - unfold fail. cbn. apply estep_eq. reflexivity.
Qed.

Lemma eit_prepend g s s1 e r : grow s s1 -> git_ s1 r -> estep g s s1 -> eit g s1 r ->
  eit g s (match r with Cont s2 e2 => Cont s2 (e ++ e2) | Halt s2 e2 => Halt s2 (e ++ e2) end).
Proof. intros G1 G2 H1 H2. destruct r as [s2 e2|s2 e2]; cbn in *; now apply (estep_trans g s s1 s2). Qed.

Lemma do_traverse_e g s next (fc : bool) previous : simple g -> AInv g s -> LenOk g s -> setup_ready g s next 0 = true ->
  eit g s (do_traverse g s 0 next fc previous).
Proof.
  intros Hg HA Hlen Hr. unfold do_traverse. pose proof (traverse_node_a g s next Hg HA Hlen Hr) as Ha.
  pose proof (AInv_traverse_done g s next Hg HA Hlen Hr) as HA1. pose proof (rdc_traverse_node g s next 0) as Hdc.
  destruct (traverse_node g s next 0) as [s1 e pre|s1 e|s1 e].
  - cbn. apply estep_eq. cbn. exact Hdc.
  - apply (eit_prepend g s s1); [exact (proj1 (proj1 Ha)) | | apply estep_eq; exact Hdc|].
    + apply (ait_grow g). destruct fc; [now apply after_from_child_a | now apply after_from_parent_a].
    + destruct fc; [apply after_from_child_e | now apply after_from_parent_e].
  - cbn. apply estep_eq. exact Hdc.
Qed.

Lemma iter_e g s : simple g -> AInv g s -> LenOk g s -> eit g s (iter g s 0).
Proof.
  intros Hg HA Hlen. unfold iter.
  assert (Hfail : forall c, eit g s (let '(s1, e) := fail s 0 c in Halt s1 e)) by (intros c; unfold fail; cbn; apply estep_eq; reflexivity).
  destruct (cleanup_ready g s (g_root g) 0).
  - destruct (path (wst s 0)) as [|r [|r2 rest]]; try apply Hfail.
    destruct (Nat.eqb r (g_root g)); [cbn; apply estep_eq; reflexivity | apply Hfail].
  - destruct (path (wst s 0)) as [|next [|previous rest]]; try apply Hfail.
    + destruct (pick_child g s next 0) as [[c s1]|] eqn:Ep; [|apply Hfail].
      unfold pick_child in Ep. destruct (pick_from _ _ _); [|discriminate]. injection Ep as _ <-. cbn. apply estep_eq. reflexivity.
    + destruct (is_occupied g s next 0).
      * unfold bounce. cbn. apply estep_eq. cbn. destruct (_ && _); reflexivity.
      * assert (Hpp : eit g s (match pick_parent g s next 0 with
                                | None => let '(s1, e) := fail s 0 1 in Halt s1 e
                                | Some (p, s1) => Cont (push s1 0 p) [EPick 0 next p false]
                                end)).
        { destruct (pick_parent g s next 0) as [[p s1]|] eqn:Ep; [|apply Hfail].
          unfold pick_parent in Ep. destruct (pick_from _ _ _); [|discriminate]. injection Ep as _ <-. cbn. apply estep_eq. reflexivity. }
        destruct (memn previous (n_children (nd g next))).
        -- destruct (setup_ready g s next 0) eqn:Er; [now apply do_traverse_e | exact Hpp].
        -- destruct (memn previous (n_parents (nd g next))); [|apply Hfail].
           destruct (setup_ready g s next 0) eqn:Er; cbn [negb]; [now apply do_traverse_e | exact Hpp].
Qed.

Lemma run_loop_e fuel g : simple g -> forall s, AInv g s -> LenOk g s -> estep g s (fst (run_loop fuel g s 0)).
Proof.
  intros Hg. induction fuel as [|f IH]; intros s HA Hlen; cbn [run_loop].
  - unfold fail. cbn. apply estep_eq. reflexivity.
  - pose proof (iter_a g s Hg HA Hlen) as Ha. pose proof (iter_e g s Hg HA Hlen) as He.
    destruct (iter g s 0) as [s1 e|s1 e]; cbn in Ha, He; [|exact He].
    destruct Ha as [[Hgr HAI] _]. pose proof (run_loop_a f g Hg s1 (HAI HA) (LenOk_grow g s s1 Hgr Hlen)) as [[Hgr2 _] _].
    specialize (IH s1 (HAI HA) (LenOk_grow g s s1 Hgr Hlen)).
    destruct (run_loop f g s1 0) as [s2 e2]. cbn in *. now apply (estep_trans g s s1 s2).
Qed.

Lemma continue_e g s r : simple g -> AInv g s -> LenOk g s -> ait g s r -> eit g s r ->
  estep g s (fst (match r with Halt s2 e => (s2, e) | Cont s2 e => let '(s3, e3) := run_loop FUEL g s2 0 in (s3, e ++ e3) end)).
Proof.
  intros Hg HA Hlen Ha He. destruct r as [s2 e|s2 e]; cbn in Ha, He; [|exact He].
  destruct Ha as [[Hgr HAI] _]. pose proof (run_loop_e FUEL g Hg s2 (HAI HA) (LenOk_grow g s s2 Hgr Hlen)) as HL.
  pose proof (run_loop_a FUEL g Hg s2 (HAI HA) (LenOk_grow g s s2 Hgr Hlen)) as [[Hgr2 _] _].
  destruct (run_loop FUEL g s2 0) as [s3 e3]. cbn in *. now apply (estep_trans g s s2 s3).
Qed.

Lemma estep_pre g s s1 s2 : astep g s s1 -> r_dc s1 = r_dc s -> grow s1 s2 -> estep g s1 s2 -> estep g s s2.
Proof. intros [G1 _] E G2 H. apply (estep_trans g s s1 s2); [exact G1 | exact G2 | now apply estep_eq | exact H]. Qed.

Theorem resume_e g s out : simple g -> AInv g s -> LenOk g s -> PhaseOk g s -> estep g s (fst (resume g s 0 out)).
Proof.
  intros Hg HA Hlen HPh. unfold resume. destruct (ph (wst s 0)) as [| next pre fc uid | | |c] eqn:Eph.
  - assert (H1 : astep g s (set_phase s 0 Ready)) by (apply astep_same_parts; reflexivity).
    pose proof (run_loop_a FUEL g Hg _ (proj2 H1 HA) Hlen) as [[G2 _] _].
    apply (estep_pre g s (set_phase s 0 Ready)); [exact H1 | reflexivity | exact G2 | now apply run_loop_e; [| apply (proj2 H1)|]].
  - assert (Hnext : next < length (g_nodes g) /\ results (nst s next) <> [] /\ parents_settled g s next)
      by (unfold PhaseOk in HPh; rewrite Eph in HPh; exact HPh).
    destruct Hnext as [Hi [Hres Hpar]].
    set (s0 := mkS (ws s) (ns s) (r_ps s) (r_pc s) (r_ds s) (r_dc s) (pool s) _).
    assert (H0 : astep g s s0) by (apply astep_same_parts; reflexivity).
    assert (Hl0 : next < length (ns (end_pre s0 next))) by (unfold end_pre; rewrite length_ns_set_n; unfold LenOk in Hlen; cbn; now rewrite Hlen).
    set (seen := match find _ (job s0) with Some e => Some (snd e) | None => None end).
    destruct pre.
    + destruct (run_ok seen) eqn:Eok.
      * unfold start_run. cbn [fst]. apply estep_eq. reflexivity.
      * set (st := match seen with Some st => st | None => SUnknown end).
        assert (Hst : st <> SPass) by (unfold st; destruct seen as [[]|]; cbn in Eok; congruence).
        match goal with |- context [set_n (end_pre s0 next) next ?f] => set (s2 := set_n (end_pre s0 next) next f) end.
        assert (H02 : astep g s0 s2).
        { unfold s2. apply (astep_end_pre_append g s0 next (mkR next st false)); [exact Hst | intros x; split; reflexivity]. }
        assert (Hres2 : results (nst s2 next) <> [])
          by (unfold s2; apply (results_after_append (end_pre s0 next) next (mkR next st false)); [exact Hl0 | reflexivity]).
        set (s3 := set_phase (mark_done s2 next 0) 0 Ready).
        assert (H23 : astep g s2 s3).
        { apply (astep_trans g s2 (mark_done s2 next 0)); [|apply astep_same_parts; reflexivity]. apply astep_mark_done. intros _ _. now right. }
        assert (H3 : astep g s s3) by (eapply astep_trans; [exact H0|]; eapply astep_trans; eauto).
        assert (HA3 : AInv g s3) by now apply (proj2 H3).
        assert (Hlen3 : LenOk g s3) by (apply (LenOk_grow g s s3 (proj1 H3) Hlen)).
        set (r := if fc then after_from_child g s3 0 next (hd 0 (tl (path (wst s 0)))) else after_from_parent g s3 0 next).
        assert (Ha : ait g s3 r) by (unfold r; destruct fc; [now apply after_from_child_a | now apply after_from_parent_a]).
        assert (He : eit g s3 r) by (unfold r; destruct fc; [apply after_from_child_e | now apply after_from_parent_e]).
        pose proof (continue_a g s3 r Hg HA3 Hlen3 Ha) as [[G3 _] _].
        apply (estep_pre g s s3); [exact H3 | reflexivity | exact G3 | now apply continue_e].
    + set (s1 := finish_run g s0 next 0 seen).
      assert (H01 : astep g s0 s1) by apply astep_finish_run.
      assert (Hres1 : results (nst s1 next) <> []).
      { destruct (proj1 H01) as [_ [_ [Hne _]]]. apply Hne. exact Hres. }
      set (s3 := set_phase (mark_done s1 next 0) 0 Ready).
      assert (H13 : astep g s1 s3).
      { apply (astep_trans g s1 (mark_done s1 next 0)); [|apply astep_same_parts; reflexivity]. apply astep_mark_done. intros _ _. now right. }
      assert (H3 : astep g s s3) by (eapply astep_trans; [exact H0|]; eapply astep_trans; eauto).
      assert (HA3 : AInv g s3) by now apply (proj2 H3).
      assert (Hlen3 : LenOk g s3) by (apply (LenOk_grow g s s3 (proj1 H3) Hlen)).
      assert (Hdc3 : r_dc s3 = r_dc s) by (unfold s3, mark_done, s1, finish_run; destruct seen as [[]|]; reflexivity).
      set (r := if fc then after_from_child g s3 0 next (hd 0 (tl (path (wst s 0)))) else after_from_parent g s3 0 next).
      assert (Ha : ait g s3 r) by (unfold r; destruct fc; [now apply after_from_child_a | now apply after_from_parent_a]).
      assert (He : eit g s3 r) by (unfold r; destruct fc; [apply after_from_child_e | now apply after_from_parent_e]).
      pose proof (continue_a g s3 r Hg HA3 Hlen3 Ha) as [[G3 _] _].
      apply (estep_pre g s s3); [exact H3 | exact Hdc3 | exact G3 | now apply continue_e].
  - assert (H1 : astep g s (set_phase s 0 Ready)) by (apply astep_same_parts; reflexivity).
    pose proof (run_loop_a FUEL g Hg _ (proj2 H1 HA) Hlen) as [[G2 _] _].
    apply (estep_pre g s (set_phase s 0 Ready)); [exact H1 | reflexivity | exact G2 | now apply run_loop_e; [| apply (proj2 H1)|]].
  - cbn. apply estep_eq. reflexivity.
  - cbn. apply estep_eq. reflexivity.
Qed.

(* ---- Part 3: where the exit event can come from ---- *)
Definition nx (e : list event) : Prop := forall w, ~ In (EExit w) e.
Lemma nx_nil : nx []. Proof. intros w []. Qed.
Lemma nx_app a b : nx a -> nx b -> nx (a ++ b).
Proof. intros A B w H. apply in_app_or in H. destruct H; [now apply (A w) | now apply (B w)]. Qed.
Ltac nx1 := let w := fresh "w" in let H := fresh "H" in intros w H; cbn in H; repeat (destruct H as [H|H]; [discriminate|]); exact H.

Lemma nx_eval_run g s i w b s' e : eval_run g s i w = Some (b, s', e) -> nx e.
Proof.
  unfold eval_run. destruct (run_decision g s i w) as [[[b0 sc] s0]|]; [|discriminate]. intros H. injection H as _ _ <-.
  destruct (n_root (nd g i)); [apply nx_nil|]. apply nx_app; [destruct sc; nx1 | nx1].
Qed.
Lemma nx_reverse_node g s i w s' e : reverse_node g s i w = Some (s', e) -> nx e.
Proof.
  unfold reverse_node. destruct (is_occupied g s i w); [intros H; injection H as _ <-; apply nx_nil|].
  destruct (clean_decision g _ i w) as [[]|]; [| intros H; injection H as _ <-; nx1 | discriminate].
  destruct (stateful (nd g i)); [| intros H; injection H as _ <-; nx1].
  destruct (sync_walk _ _ _ _ _ _) as [[[[[] u] us] gs]|]; [| |discriminate]; intros H; injection H as _ <-; nx1.
Qed.
Lemma nx_traverse_node g s i w : match traverse_node g s i w with TnAwait _ e _ | TnDone _ e | TnFail _ e => nx e end.
Proof.
  unfold traverse_node. destruct (is_occupied g s i w); [apply nx_nil|].
  destruct (eval_run g _ i w) as [[[[] s3] evs]|] eqn:E; [| |cbn; nx1].
  - destruct (n_objroot (nd g i)); cbn; (apply nx_app; [now apply (nx_eval_run _ _ _ _ _ _ _ E) | nx1]).
  - now apply (nx_eval_run _ _ _ _ _ _ _ E).
Qed.
Definition nxit (r : it_res) : Prop := match r with Cont _ e | Halt _ e => nx e end.
Lemma nx_after_from_child g s w next previous : nxit (after_from_child g s w next previous).
Proof.
  unfold after_from_child. destruct (eval_run g s next w) as [[[b s1] evs]|] eqn:E; [|cbn; nx1].
  cbn. apply nx_app; [now apply (nx_eval_run _ _ _ _ _ _ _ E) | destruct b; nx1].
Qed.
Lemma nx_after_from_parent g s w next : nxit (after_from_parent g s w next).
Proof.
  unfold after_from_parent. destruct (eval_run g s next w) as [[[[] s1] evs]|] eqn:E; [| |cbn; nx1].
  - cbn. now apply (nx_eval_run _ _ _ _ _ _ _ E).
  - pose proof (nx_eval_run _ _ _ _ _ _ _ E) as Hn. destruct (cleanup_ready g s1 next w).
    + destruct (reverse_node g _ next w) as [[s3 e]|] eqn:Er; cbn.
      * apply nx_app; [exact Hn|]. apply (nx_app [_]); [nx1 | now apply (nx_reverse_node _ _ _ _ _ _ Er)].
      * apply nx_app; [exact Hn | nx1].
    + destruct (pick_child g s1 next w) as [[c s2]|]; cbn; (apply nx_app; [exact Hn | nx1]).
Qed.
Lemma nx_do_traverse g s w next fc previous : nxit (do_traverse g s w next fc previous).
Proof.
  unfold do_traverse. pose proof (nx_traverse_node g s next w) as Ht. destruct (traverse_node g s next w) as [s1 e pre|s1 e|s1 e]; [exact Ht| |exact Ht].
  assert (Ha : nxit (if fc then after_from_child g s1 w next previous else after_from_parent g s1 w next))
    by (destruct fc; [apply nx_after_from_child | apply nx_after_from_parent]).
  destruct (if fc then _ else _) as [s2 e2|s2 e2]; cbn in *; now apply nx_app.
Qed.

Definition xroot (g : graph) (s : state) : Prop := cleanup_ready g s (g_root g) 0 = true.
Lemma iter_x g s : match iter g s 0 with Cont _ e => nx e | Halt s2 e => nx e \/ xroot g s2 end.
Proof.
  unfold iter. destruct (cleanup_ready g s (g_root g) 0) eqn:Ecr.
  - destruct (path (wst s 0)) as [|r [|r2 t]]; [left; nx1 | | left; nx1].
    destruct (Nat.eqb r (g_root g)); [right; exact Ecr | left; nx1].
  - destruct (path (wst s 0)) as [|next [|previous t]]; [left; nx1 | |].
    + destruct (pick_child g s next 0) as [[c s1]|]; [nx1 | left; nx1].
    + destruct (is_occupied g s next 0); [left; nx1|].
      assert (HD : forall fc, match do_traverse g s 0 next fc previous with Cont _ e => nx e | Halt s2 e => nx e \/ xroot g s2 end).
      { intros fc. pose proof (nx_do_traverse g s 0 next fc previous) as H. destruct (do_traverse g s 0 next fc previous); [exact H | now left]. }
      destruct (memn previous (n_children (nd g next))).
      * destruct (setup_ready g s next 0); [apply HD|]. destruct (pick_parent g s next 0) as [[p s1]|]; [nx1 | left; nx1].
      * destruct (memn previous (n_parents (nd g next))); [|left; nx1].
        destruct (negb (setup_ready g s next 0)); [|apply HD]. destruct (pick_parent g s next 0) as [[p s1]|]; [nx1 | left; nx1].
Qed.
Lemma run_loop_x fuel g : forall s w0, In (EExit w0) (snd (run_loop fuel g s 0)) -> xroot g (fst (run_loop fuel g s 0)).
Proof.
  induction fuel as [|f IH]; intros s w0; cbn [run_loop]; [cbn; intros [H|[]]; discriminate|].
  pose proof (iter_x g s) as Hi. destruct (iter g s 0) as [s1 e|s1 e].
  - specialize (IH s1 w0). destruct (run_loop f g s1 0) as [s2 e2]. cbn in *. intros H. apply in_app_or in H.
    destruct H as [H|H]; [now destruct (Hi w0) | now apply IH].
  - cbn. intros H. destruct Hi as [Hi|Hi]; [now destruct (Hi w0) | exact Hi].
Qed.
Lemma continue_x g r w0 : nxit r ->
  In (EExit w0) (snd (match r with Halt s2 e => (s2, e) | Cont s2 e => let '(s3, e3) := run_loop FUEL g s2 0 in (s3, e ++ e3) end)) ->
  xroot g (fst (match r with Halt s2 e => (s2, e) | Cont s2 e => let '(s3, e3) := run_loop FUEL g s2 0 in (s3, e ++ e3) end)).
Proof.
  intros Hn. destruct r as [s2 e|s2 e]; cbn in Hn.
  - pose proof (run_loop_x FUEL g s2 w0) as HL. destruct (run_loop FUEL g s2 0) as [s3 e3]. cbn in *. intros H. apply in_app_or in H.
    destruct H as [H|H]; [now destruct (Hn w0) | now apply HL].
  - cbn. intros H. now destruct (Hn w0).
Qed.
Theorem resume_x g s out w0 : In (EExit w0) (snd (resume g s 0 out)) -> xroot g (fst (resume g s 0 out)).
Proof.
  unfold resume. destruct (ph (wst s 0)) as [| next pre fc uid | | |c]; [apply run_loop_x | | apply run_loop_x | intros [] | intros []].
  cbv zeta. destruct pre.
  - destruct (run_ok _); [unfold start_run; cbn; intros [H|[]]; discriminate|].
    apply continue_x. destruct fc; [apply nx_after_from_child | apply nx_after_from_parent].
  - apply continue_x. destruct fc; [apply nx_after_from_child | apply nx_after_from_parent].
Qed.

(* ---- Part 4: whole schedules ---- *)
Lemma xroot_growc g s s' : growc s s' -> xroot g s -> xroot g s'.
Proof. intros H X. now apply (cleanup_ready_growc g s s'). Qed.

Lemma schedule_e g sched : simple g -> Forall (fun x => fst x = 0) sched -> forall s, SInv g s -> EInv g s ->
  let r := run_schedule g s sched in
  EInv g (fst r) /\ growc s (fst r) /\ (forall w0, In (EExit w0) (concat (snd r)) -> xroot g (fst r)).
Proof.
  intros Hg. induction sched as [|[w out] r IH]; intros Hall s HI HE; cbn [run_schedule]; cbn zeta.
  - cbn. split; [exact HE|]. split; [apply growc_refl | intros w0 []].
  - inversion Hall as [|x l Hw Hrest]; subst. cbn in Hw. subst w. destruct HI as [HA Hlen HPh].
    destruct (resume_a g s out Hg HA Hlen HPh) as [[[Hgr HAI] _] HPh1].
    pose proof (resume_e g s out Hg HA Hlen HPh) as [Hc1 HE1].
    pose proof (resume_x g s out) as HX.
    destruct (resume g s 0 out) as [s1 e]. cbn [fst snd] in *.
    specialize (IH Hrest s1 (mkSInv g s1 (HAI HA) (LenOk_grow g s s1 Hgr Hlen) HPh1) (HE1 Hgr HE)). cbn zeta in IH.
    destruct (run_schedule g s1 r) as [s2 es]. cbn [fst snd] in *. destruct IH as [I1 [I2 I3]].
    split; [exact I1|]. split; [eapply growc_trans; eauto|].
    intros w0 H. cbn [concat] in H. apply in_app_or in H. destruct H as [H|H]; [apply (xroot_growc g s1 s2 I2); now apply (HX w0) | now apply (I3 w0)].
Qed.

Lemma EInv_init g p : EInv g (init_state g p).
Proof. intros rid f v H. cbn in H. destruct H. Qed.

(* an ordinary own test of the graph *)
Definition ordinary (g : graph) (c : nat) : Prop := c < length (g_nodes g) /\ plain g c /\ own g 0 c = true.
(* ... that the root reaches through child edges over such tests *)
Inductive reach (g : graph) : nat -> Prop :=
| reach_first c : In c (n_children (nd g (g_root g))) -> ordinary g c -> reach g c
| reach_next i c : reach g i -> In c (n_children (nd g i)) -> ordinary g c -> reach g c.

Lemma done_children g s i c : simple g -> EInv g s -> cleanup_ready g s i 0 = true ->
  In c (n_children (nd g i)) -> ordinary g c -> Done g s c.
Proof.
  intros Hg HE Hcr Hc [Hlt [Hpl Ho]]. unfold cleanup_ready in Hcr. rewrite forallb_forall in Hcr. specialize (Hcr c Hc).
  rewrite Ho in Hcr. rewrite andb_false_r in Hcr. cbn [orb] in Hcr. apply memn_In in Hcr.
  destruct (HE _ _ _ Hcr) as [c2 [Hf HD]].
  assert (Hlt2 : c2 < length (g_nodes g)).
  { destruct (Nat.lt_ge_cases c2 (length (g_nodes g))) as [H|H]; [exact H|]. exfalso. rewrite (nd_overflow g c2 H) in Hf. cbn in Hf.
    apply (sg_form0 g Hg c Hlt). now symmetry. }
  assert (c2 = c) by (apply (sg_forms g Hg); assumption). subst c2. now apply HD.
Qed.

(* C02 for the plain sequential configuration: whenever the worker leaves its loop, every ordinary own test that the root
   reaches through child edges has been dealt with: its states are visible or it has results, a stateless one has results,
   and the worker has dropped all of its children that are its own *)
Theorem exit_means_done g p sched w0 c :
  simple g -> Forall (fun x => fst x = 0) sched ->
  let r := run_schedule g (init_state g p) sched in
  In (EExit w0) (concat (snd r)) -> reach g c -> Done g (fst r) c.
Proof.
  intros Hg Hall. cbn zeta. intros Hx Hr.
  destruct (schedule_e g sched Hg Hall _ (mkSInv g _ (AInv_init g p) (gi_len g _ (GInv_init g p)) (PhaseOk_init g p)) (EInv_init g p)) as [HE [_ HX]].
  specialize (HX w0 Hx). induction Hr as [c Hc Ho|i c Hi IH Hc Ho].
  - now apply (done_children g _ (g_root g) c).
  - destruct IH as [Hcr _]. now apply (done_children g _ i c).
Qed.

Corollary exit_means_results g p sched w0 c :
  simple_b g = true -> Forall (fun x => fst x = 0) sched ->
  let r := run_schedule g (init_state g p) sched in
  In (EExit w0) (concat (snd r)) -> reach g c ->
  ((forall x, In x (setstates (nd g c)) -> vis (fst r) x = true) \/ results (nst (fst r) c) <> []) /\
  (stateful (nd g c) = false -> results (nst (fst r) c) <> []).
Proof.
  intros Hb Hall. cbn zeta. intros Hx Hr. destruct (exit_means_done g p sched w0 c (simple_b_sound g Hb) Hall Hx Hr) as [_ [A B]]. split; assumption.
Qed.
