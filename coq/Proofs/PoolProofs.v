From Coq Require Import List NArith Bool Lia Permutation Sorting.Sorted.
Import ListNotations.
From I2N Require Import Model.Pool.

(* ---- the proximity sort: a permutation, descending, stable ---- *)
Lemma insert_perm o x l : Permutation (x :: l) (insert_desc o x l).
Proof.
  induction l as [|y r IH]; cbn; [reflexivity|].
  destruct (N.ltb _ _); [|reflexivity].
  rewrite perm_swap. now constructor.
Qed.

Lemma sort_perm o l : Permutation l (sort_sources o l).
Proof.
  induction l as [|x l IH]; cbn; [constructor|].
  rewrite <- insert_perm. now constructor.
Qed.

Lemma sort_in o l x : In x (sort_sources o l) <-> In x l.
Proof. split; apply Permutation_in; [symmetry|]; apply sort_perm. Qed.

Definition desc (o : ownside) := StronglySorted (fun a b => (proximity o b <= proximity o a)%N).

Lemma insert_desc_sorted o x l : desc o l -> desc o (insert_desc o x l).
Proof.
  induction l as [|y r IH]; intros H; cbn.
  - constructor; constructor.
  - inversion H as [|? ? Hr Hy]; subst. destruct (N.ltb_spec (proximity o x) (proximity o y)).
    + constructor; [now apply IH|].
      apply Forall_forall. intros z Hz.
      apply (Permutation_in _ (Permutation_sym (insert_perm o x r))) in Hz.
      destruct Hz as [<-|Hz]; [lia|]. rewrite Forall_forall in Hy. now apply Hy.
    + constructor; [exact H|]. constructor; [lia|].
      rewrite Forall_forall in *. intros z Hz. specialize (Hy z Hz). lia.
Qed.

Lemma sort_sorted o l : desc o (sort_sources o l).
Proof.
  induction l as [|x l IH]; cbn; [constructor | now apply insert_desc_sorted].
Qed.

(* the first element satisfying p in a descending list is maximal among those satisfying p *)
Lemma find_desc_max o p l s :
  desc o l -> find p l = Some s ->
  p s = true /\ In s l /\ forall s', In s' l -> p s' = true -> (proximity o s' <= proximity o s)%N.
Proof.
  induction l as [|y r IH]; intros Hd Hf; cbn in Hf; [discriminate|].
  inversion Hd as [|? ? Hr Hy]; subst. destruct (p y) eqn:Ey.
  - injection Hf as <-. repeat split; auto; [now left|].
    intros s' [<-|Hs'] _; [lia|]. rewrite Forall_forall in Hy. now apply Hy.
  - destruct (IH Hr Hf) as [H1 [H2 H3]]. repeat split; auto; [now right|].
    intros s' [<-|Hs'] Hp; [congruence|]. now apply H3.
Qed.

Lemma find_none_all {A} (p : A -> bool) l : find p l = None -> forall x, In x l -> p x = false.
Proof.
  induction l as [|y r IH]; intros H x Hx; [contradiction|]. cbn in H.
  destruct (p y) eqn:E; [discriminate|]. destruct Hx as [<-|Hx]; auto.
Qed.

(* ---- C13_closest ---- *)
Theorem chosen_closest o scopes srcs s :
  chosen o scopes srcs = Some s ->
  In s srcs /\ permitted o scopes s = true /\
  forall s', In s' srcs -> permitted o scopes s' = true -> (proximity o s' <= proximity o s)%N.
Proof.
  unfold chosen. intros H.
  destruct (find_desc_max o _ _ _ (sort_sorted o srcs) H) as [H1 [H2 H3]].
  repeat split; auto; [now apply sort_in in H2|].
  intros s' Hs'. apply H3. now apply sort_in.
Qed.

Theorem chosen_none o scopes srcs :
  chosen o scopes srcs = None -> forall s, In s srcs -> permitted o scopes s = false.
Proof.
  unfold chosen. intros H s Hs. eapply find_none_all; [exact H|]. now apply sort_in.
Qed.

(* stability: among equally close sources the one listed first wins *)
Lemma insert_desc_head_tie o x l :
  forall y, In y l -> (proximity o y = proximity o x)%N ->
  exists l1 l2, insert_desc o x l = l1 ++ x :: l2 /\ In y l2.
Proof.
  induction l as [|z r IH]; intros y Hy He; [contradiction|]. cbn.
  destruct (N.ltb_spec (proximity o x) (proximity o z)).
  - destruct Hy as [->|Hy]; [lia|]. destruct (IH y Hy He) as [l1 [l2 [E Hin]]].
    exists (z :: l1), l2. rewrite E. auto.
  - exists [], (z :: r). auto.
Qed.

(* ---- which calls the four operations make ---- *)
Definition tsource (x : pcall) : option N :=
  match x with
  | TShow s | TCompare s | TGet s | TSet s | TUnset s => Some s
  | _ => None
  end.
Definition is_local_change (x : pcall) : bool :=
  match x with LGet | LSet | LUnset => true | _ => false end.

Lemma in_map_filter_sorted o scopes srcs (f : N -> pcall) x :
  In x (map (fun s => f (sid s)) (filter (permitted o scopes) (sort_sources o srcs))) ->
  exists s, In s srcs /\ permitted o scopes s = true /\ x = f (sid s).
Proof.
  intros H. apply in_map_iff in H. destruct H as [s [<- Hs]]. apply filter_In in Hs.
  destruct Hs as [Hs Hp]. exists s. repeat split; auto. now apply sort_in in Hs.
Qed.

Definition at_permitted o scopes srcs (x : pcall) : Prop :=
  forall i, tsource x = Some i -> exists s, In s srcs /\ sid s = i /\ permitted o scopes s = true.

(* C13_scope_filter: every transport call goes to a permitted source (scope enabled, not own),
   and the local get/set/unset happen only with own enabled *)
Theorem show_scope_filter o scopes srcs x :
  In x (show_log o scopes srcs) ->
  at_permitted o scopes srcs x /\ (x = LShow -> in_scopes Own scopes = true).
Proof.
  unfold show_log. intros H. apply in_app_or in H. destruct H as [H|H].
  - destruct (in_scopes Own scopes); [|contradiction]. destruct H as [<-|[]].
    split; [intros i Hi; discriminate | reflexivity].
  - destruct (in_map_filter_sorted _ _ _ TShow _ H) as [s [H1 [H2 ->]]].
    split; [|discriminate]. intros i Hi. injection Hi as <-. eauto.
Qed.

Theorem get_scope_filter o scopes c srcs st x :
  In x (get_log o scopes c srcs st) ->
  at_permitted o scopes srcs x /\ (is_local_change x = true -> in_scopes Own scopes = true).
Proof.
  unfold get_log. intros H. apply in_app_or in H. destruct H as [H|H].
  - destruct (chosen o scopes srcs) as [s|] eqn:E; [|contradiction].
    destruct (chosen_closest _ _ _ _ E) as [H1 [H2 _]].
    assert (Hs : forall y, tsource y = Some (sid s) -> at_permitted o scopes srcs y).
    { intros y Hy i Hi. rewrite Hy in Hi. injection Hi as <-. eauto. }
    cbn [app] in H. destruct H as [<-|[<-|H]].
    + split; [intros i Hi; discriminate | discriminate].
    + split; [now apply Hs | discriminate].
    + destruct (has (mirror c s) st); [|contradiction]. destruct (has (cache c) st).
      * destruct H as [<-|H]; [split; [now apply Hs | discriminate]|].
        destruct (valid c s); [contradiction|]. destruct H as [<-|[]]. split; [now apply Hs | discriminate].
      * destruct H as [<-|[]]. split; [now apply Hs | discriminate].
  - destruct (in_scopes Own scopes); [|contradiction]. destruct H as [<-|[]].
    split; [intros i Hi; discriminate | reflexivity].
Qed.

Theorem set_scope_filter o scopes c srcs st x :
  In x (fst (set_log o scopes c srcs st)) ->
  at_permitted o scopes srcs x /\ (is_local_change x = true -> in_scopes Own scopes = true).
Proof.
  unfold set_log. destruct (in_scopes Own scopes) eqn:Eo; cbn [fst].
  - intros [<-|H]; [split; [intros i Hi; discriminate | reflexivity]|].
    destruct (in_map_filter_sorted _ _ _ TSet _ H) as [s [H1 [H2 ->]]].
    split; [|reflexivity]. intros i Hi. injection Hi as <-. eauto.
  - destruct (has (cache c) st); cbn [fst].
    + intros [<-|H]; [split; [intros i Hi; discriminate | discriminate]|].
      destruct (in_map_filter_sorted _ _ _ TSet _ H) as [s [H1 [H2 ->]]].
      split; [|discriminate]. intros i Hi. injection Hi as <-. eauto.
    + intros [<-|[]]. split; [intros i Hi; discriminate | discriminate].
Qed.

Theorem unset_scope_filter o scopes srcs x :
  In x (unset_log o scopes srcs) ->
  at_permitted o scopes srcs x /\ (is_local_change x = true -> in_scopes Own scopes = true).
Proof.
  unfold unset_log. intros H. apply in_app_or in H. destruct H as [H|H].
  - destruct (in_scopes Own scopes); [|contradiction]. destruct H as [<-|[]].
    split; [intros i Hi; discriminate | reflexivity].
  - destruct (in_map_filter_sorted _ _ _ TUnset _ H) as [s [H1 [H2 ->]]].
    split; [|discriminate]. intros i Hi. injection Hi as <-. eauto.
Qed.

(* C13_all_mirrors: set / unset reach every permitted mirror, each as often as it is listed *)
Lemma filter_perm {A} (p : A -> bool) l l' : Permutation l l' -> Permutation (filter p l) (filter p l').
Proof.
  induction 1; cbn.
  - constructor.
  - destruct (p x); [now constructor | assumption].
  - destruct (p x), (p y); try apply perm_swap; apply Permutation_refl.
  - etransitivity; eassumption.
Qed.

Theorem set_all_mirrors o scopes c srcs st lg :
  set_log o scopes c srcs st = (lg, true) ->
  Permutation (filter (fun x => match x with TSet _ => true | _ => false end) lg)
              (map (fun s => TSet (sid s)) (filter (permitted o scopes) srcs)).
Proof.
  unfold set_log. set (T := map _ (filter _ (sort_sources o srcs))).
  assert (HT : filter (fun x => match x with TSet _ => true | _ => false end) T = T).
  { unfold T. induction (filter (permitted o scopes) (sort_sources o srcs)); cbn; congruence. }
  assert (HP : Permutation T (map (fun s => TSet (sid s)) (filter (permitted o scopes) srcs))).
  { unfold T. apply Permutation_map, filter_perm, Permutation_sym, sort_perm. }
  destruct (in_scopes Own scopes); [|destruct (has (cache c) st)]; intros H; try discriminate;
    injection H as <-; cbn [filter]; rewrite ?HT; auto.
Qed.

Theorem unset_all_mirrors o scopes srcs :
  Permutation (filter (fun x => match x with TUnset _ => true | _ => false end) (unset_log o scopes srcs))
              (map (fun s => TUnset (sid s)) (filter (permitted o scopes) srcs)).
Proof.
  unfold unset_log. set (T := map _ (filter _ (sort_sources o srcs))).
  assert (HT : filter (fun x => match x with TUnset _ => true | _ => false end) T = T).
  { unfold T. induction (filter (permitted o scopes) (sort_sources o srcs)); cbn; congruence. }
  rewrite filter_app, HT.
  replace (filter _ (if in_scopes Own scopes then [LUnset] else [])) with (@nil pcall)
    by (destruct (in_scopes Own scopes); reflexivity).
  cbn [app]. unfold T. apply Permutation_map, filter_perm, Permutation_sym, sort_perm.
Qed.

(* C13_redownload_iff: a state is downloaded exactly from the closest permitted source, and
   only when that source has it and the local copy is missing or differs *)
Theorem get_redownload_iff o scopes c srcs st i :
  In (TGet i) (get_log o scopes c srcs st) <->
  exists s, chosen o scopes srcs = Some s /\ sid s = i /\ has (mirror c s) st = true /\
            (has (cache c) st = false \/ valid c s = false).
Proof.
  unfold get_log. split.
  - intros H. apply in_app_or in H. destruct H as [H|H].
    + destruct (chosen o scopes srcs) as [s|]; [|contradiction]. exists s. split; [reflexivity|].
      cbn [app] in H. destruct H as [H|[H|H]]; try discriminate.
      destruct (has (mirror c s) st); [|contradiction]. destruct (has (cache c) st).
      * destruct H as [H|H]; [discriminate|]. destruct (valid c s); [contradiction|].
        destruct H as [H|[]]. injection H as <-. auto.
      * destruct H as [H|[]]. injection H as <-. auto.
    + destruct (in_scopes Own scopes); [|contradiction]. destruct H as [H|[]]. discriminate.
  - intros [s [-> [<- [Hm Hc]]]]. apply in_or_app. left. cbn [app]. right. right. rewrite Hm.
    destruct (has (cache c) st).
    + right. destruct Hc as [Hc|Hc]; [discriminate|]. rewrite Hc. now left.
    + now left.
Qed.

(* C13_present_only_if *)
Lemma inter_in a b x : In x (inter a b) -> In x a /\ In x b.
Proof.
  unfold inter. intros H. apply filter_In in H. destruct H as [H1 H2]. split; auto.
  unfold has in H2. apply existsb_exists in H2. destruct H2 as [y [Hy E]]. apply N.eqb_eq in E. now subst.
Qed.

Lemma show_pool_fold c l : forall acc x,
  In x (fold_left (fun acc s => match acc with [] => mirror c s | _ => inter acc (mirror c s) end) l acc) ->
  In x acc \/ exists s, In s l /\ In x (mirror c s).
Proof.
  induction l as [|s l IH]; intros acc x H; cbn in H; [now left|].
  apply IH in H. destruct H as [H|[s' [H1 H2]]].
  - destruct acc as [|a acc'].
    + right. exists s. split; [now left | exact H].
    + left. now apply inter_in in H.
  - right. exists s'. split; [now right | exact H2].
Qed.

Theorem show_present_only_if o scopes c srcs x :
  In x (show_states o scopes c srcs) ->
  (in_scopes Own scopes = true /\ In x (cache c)) \/
  exists s, In s srcs /\ permitted o scopes s = true /\ In x (mirror c s).
Proof.
  unfold show_states, show_pool. intros H. apply in_app_or in H. destruct H as [H|H].
  - destruct (in_scopes Own scopes); [now left | contradiction].
  - apply show_pool_fold in H. destruct H as [[]|[s [Hs Hx]]]. right.
    apply filter_In in Hs. destruct Hs as [Hs Hp]. exists s. repeat split; auto. now apply sort_in in Hs.
Qed.

(* C13_refuse *)
Theorem set_refused o scopes c srcs st :
  in_scopes Own scopes = false -> has (cache c) st = false ->
  set_log o scopes c srcs st = ([LShow], false).
Proof. unfold set_log. now intros -> ->. Qed.

Theorem set_root_refused e :
  is_own e = false -> is_shared e = true -> local_root e = false ->
  set_root e = ([LCheckRoot], false).
Proof. unfold set_root. now intros -> -> ->. Qed.

(* root operations: the pool is contacted only when the scope is not exactly "own" *)
Definition is_transport_root (x : rcall) : bool :=
  match x with TCheckRoot | TGetRoot | TSetRoot | TUnsetRoot | TCompareImg _ => true | _ => false end.

Lemma compare_images_transport l x : In x (fst (compare_images l)) -> is_transport_root x = true.
Proof.
  induction l as [|[i same] r IH]; cbn; [contradiction|]. destruct same.
  - destruct (compare_images r) as [lg v]. cbn [fst] in *. intros [<-|H]; auto.
  - intros [<-|[]]. reflexivity.
Qed.

Theorem root_own_only_local e x :
  is_own e = true -> has_own e = true ->
  In x (fst (check_root e) ++ get_root e ++ fst (set_root e) ++ fst (unset_root e)) ->
  is_transport_root x = false.
Proof.
  unfold check_root, get_root, set_root, unset_root. intros -> ->. cbn.
  intros [<-|[<-|[<-|[<-|[]]]]]; reflexivity.
Qed.

(* the root is downloaded again only if the pool has it and the local one is missing or some
   image differs *)
Lemma compare_images_valid l : snd (compare_images l) = forallb snd l.
Proof.
  induction l as [|[i same] r IH]; cbn; [reflexivity|]. destruct same; cbn; [|reflexivity].
  destruct (compare_images r). cbn in *. exact IH.
Qed.

Theorem get_root_redownload_iff e :
  has_own e = true -> is_own e = false ->
  (In TGetRoot (get_root e) <->
   pool_root e = true /\ (local_root e = false \/ forallb snd (images e) = false)).
Proof.
  unfold get_root. intros -> ->. cbn [negb].
  pose proof (compare_images_valid (images e)) as Hv.
  destruct (compare_images (images e)) as [lg v] eqn:Ec. cbn [snd] in Hv. subst v.
  assert (Hlg : ~ In TGetRoot lg).
  { intros H. assert (H' : In TGetRoot (fst (compare_images (images e)))) by now rewrite Ec.
    clear -H'. induction (images e) as [|[i same] r IH]; cbn in H'; [contradiction|].
    destruct same; [|destruct H' as [H'|[]]; discriminate].
    destruct (compare_images r). cbn in *. destruct H' as [H'|H']; [discriminate | auto]. }
  split.
  - intros H. cbn [app] in H. destruct H as [H|[H|H]]; try discriminate.
    apply in_app_or in H. destruct H as [H|[H|[]]]; [|discriminate].
    destruct (pool_root e); [|contradiction]. split; [reflexivity|].
    destruct (local_root e); [|now left]. right. apply in_app_or in H. destruct H as [H|H]; [contradiction|].
    destruct (forallb snd (images e)); [contradiction | reflexivity].
  - intros [-> H]. cbn [app]. right. right. apply in_or_app. left.
    destruct (local_root e); [|now left]. destruct H as [H|H]; [discriminate|]. rewrite H.
    apply in_or_app. right. now left.
Qed.
