From Coq Require Import List ZArith NArith Bool Arith Lia.
Import ListNotations.
From I2N Require Import Model.Retry Model.Traverse Model.TraverseRun.
Local Open Scope nat_scope.

(* ---- C08 / C03: who may execute what ---- *)
Definition startable (g : graph) (w i : nat) : Prop :=
  own g w i = true /\ n_flat (nd g i) = false /\ n_cloned (nd g i) = false /\
  n_dry (nd g i) = false /\ n_root (nd g i) = false.

Theorem run_decision_startable g s i w sc s' :
  run_decision g s i w = Some (true, sc, s') -> startable g w i.
Proof.
  unfold run_decision, startable. intros H.
  destruct (n_root (nd g i)); [discriminate|]. destruct (n_dry (nd g i)); [discriminate|].
  destruct (n_flat (nd g i)); [discriminate|]. destruct (n_cloned (nd g i)); [discriminate|].
  destruct (own g w i); [auto | discriminate].
Qed.

Theorem run_decision_not_own g s i w :
  n_root (nd g i) = false -> n_dry (nd g i) = false -> n_flat (nd g i) = false -> n_cloned (nd g i) = false ->
  own g w i = false -> run_decision g s i w = None.
Proof. unfold run_decision. now intros -> -> -> -> ->. Qed.

(* ---- C02: picks are never made from an exhausted node ---- *)
Lemma cleanup_not_ready_has_child g s i w :
  cleanup_ready g s i w = false -> avail_children g s i w <> [].
Proof.
  unfold cleanup_ready, avail_children. intros H Hnil.
  assert (Hall : forallb (fun c => (negb (n_flat (nd g c)) && negb (own g w c)) ||
                   memn w (reg_workers (r_dc s) (n_reg (nd g i), n_form (nd g c)))) (n_children (nd g i)) = true).
  { apply forallb_forall. intros c Hc.
    destruct ((own g w c || n_flat (nd g c)) && negb (memn w (reg_workers (r_dc s) (n_reg (nd g i), n_form (nd g c))))) eqn:E.
    - exfalso. assert (Hin : In c (filter (fun c => (own g w c || n_flat (nd g c)) &&
             negb (memn w (reg_workers (r_dc s) (n_reg (nd g i), n_form (nd g c))))) (n_children (nd g i)))).
      { apply filter_In. auto. } rewrite Hnil in Hin. contradiction.
    - destruct (own g w c), (n_flat (nd g c)), (memn w _); cbn in *; try reflexivity; discriminate. }
  congruence.
Qed.

Lemma setup_not_ready_has_parent g s i w :
  setup_ready g s i w = false -> avail_parents g s i w <> [].
Proof.
  unfold setup_ready, avail_parents. intros H Hnil.
  assert (Hall : forallb (fun p => (negb (n_flat (nd g p)) && negb (own g w p)) ||
                   memn w (reg_workers (r_ds s) (n_reg (nd g i), n_form (nd g p)))) (n_parents (nd g i)) = true).
  { apply forallb_forall. intros c Hc.
    destruct ((own g w c || n_flat (nd g c)) && negb (memn w (reg_workers (r_ds s) (n_reg (nd g i), n_form (nd g c))))) eqn:E.
    - exfalso. assert (Hin : In c (filter (fun c => (own g w c || n_flat (nd g c)) &&
             negb (memn w (reg_workers (r_ds s) (n_reg (nd g i), n_form (nd g c))))) (n_parents (nd g i)))).
      { apply filter_In. auto. } rewrite Hnil in Hin. contradiction.
    - destruct (own g w c), (n_flat (nd g c)), (memn w _); cbn in *; try reflexivity; discriminate. }
  congruence.
Qed.

Theorem pick_child_succeeds g s i w : cleanup_ready g s i w = false -> pick_child g s i w <> None.
Proof.
  intros H. pose proof (cleanup_not_ready_has_child g s i w H) as Hne. unfold pick_child, pick_from.
  destruct (avail_children g s i w); [contradiction | discriminate].
Qed.

Theorem pick_parent_succeeds g s i w : setup_ready g s i w = false -> pick_parent g s i w <> None.
Proof.
  intros H. pose proof (setup_not_ready_has_parent g s i w H) as Hne. unfold pick_parent, pick_from.
  destruct (avail_parents g s i w); [contradiction | discriminate].
Qed.

Lemma pick_min_in g cnt l : forall best, In (pick_min g cnt best l) (best :: l).
Proof.
  induction l as [|c r IH]; intros best; cbn [pick_min]; [now left|].
  remember (if key_lt (pick_key g cnt c) (pick_key g cnt best) then c else best) as b'.
  destruct (IH b') as [H|H].
  - rewrite <- H. subst b'. destruct (key_lt _ _); [right; now left | now left].
  - right. now right.
Qed.

(* a picked node is one of the still available own (or flat) neighbours *)
Theorem pick_child_available g s i w c s' :
  pick_child g s i w = Some (c, s') -> In c (avail_children g s i w) /\ In c (n_children (nd g i)) /\
  (own g w c = true \/ n_flat (nd g c) = true).
Proof.
  unfold pick_child, pick_from. destruct (avail_children g s i w) as [|a l] eqn:E; [discriminate|].
  intros H. injection H as <- _. pose proof (pick_min_in g (fun c => reg_total (r_ps s) (n_reg (nd g c))) l a) as Hin.
  pose proof Hin as Hin0. rewrite <- E in Hin. split; [exact Hin0|]. unfold avail_children in Hin. apply filter_In in Hin.
  destruct Hin as [H1 H2]. split; [exact H1|]. apply andb_true_iff in H2. destruct H2 as [H2 _].
  now apply orb_true_iff in H2.
Qed.

Theorem pick_parent_available g s i w p s' :
  pick_parent g s i w = Some (p, s') -> In p (avail_parents g s i w) /\ In p (n_parents (nd g i)) /\
  (own g w p = true \/ n_flat (nd g p) = true).
Proof.
  unfold pick_parent, pick_from. destruct (avail_parents g s i w) as [|a l] eqn:E; [discriminate|].
  intros H. injection H as <- _. pose proof (pick_min_in g (fun c => reg_total (r_pc s) (n_reg (nd g c))) l a) as Hin.
  pose proof Hin as Hin0. rewrite <- E in Hin. split; [exact Hin0|]. unfold avail_parents in Hin. apply filter_In in Hin.
  destruct Hin as [H1 H2]. split; [exact H1|]. apply andb_true_iff in H2. destruct H2 as [H2 _].
  now apply orb_true_iff in H2.
Qed.

(* ---- C04: an execution begins only on a node that is not occupied, and occupies it ---- *)
Lemma nth_upd_nth_same {A} (l : list A) i f d : i < length l -> nth i (upd_nth l i f) d = f (nth i l d).
Proof.
  revert i. induction l as [|x r IH]; intros i Hi; cbn in *; [lia|].
  destruct i; cbn; [reflexivity|]. apply IH. lia.
Qed.
Lemma nth_upd_nth_other {A} (l : list A) i j f d : i <> j -> nth j (upd_nth l i f) d = nth j l d.
Proof.
  revert i j. induction l as [|x r IH]; intros i j Hne; cbn; [reflexivity|].
  destruct i, j; cbn; try reflexivity; [contradiction|]. apply IH. lia.
Qed.
Lemma length_upd_nth {A} (l : list A) i f : length (upd_nth l i f) = length l.
Proof. revert i. induction l as [|x r IH]; intros i; cbn; [reflexivity|]. destruct i; cbn; auto. Qed.

Lemma nst_set_n_same s i f : i < length (ns s) -> nst (set_n s i f) i = f (nst s i).
Proof. intros H. unfold nst, set_n. cbn. now apply nth_upd_nth_same. Qed.
Lemma nst_set_n_other s i j f : i <> j -> nst (set_n s i f) j = nst s j.
Proof. intros H. unfold nst, set_n. cbn. now apply nth_upd_nth_other. Qed.

Theorem traverse_node_guard g s i w s' evs pre :
  traverse_node g s i w = TnAwait s' evs pre -> is_occupied g s i w = false.
Proof.
  unfold traverse_node. destruct (is_occupied g s i w); [discriminate | reflexivity].
Qed.

Theorem is_occupied_spec g s i w :
  is_occupied g s i w =
  is_started g s i w (Some (Z.to_nat (Z.max (match mct_now (nst s i) with Some m => m | None => n_tries (nd g i) end) 1))).
Proof. reflexivity. Qed.

(* in the global scope "occupied" is exactly: at least max(1, limit) workers hold the class *)
Theorem is_started_global g s i w t :
  n_flat (nd g i) = false -> n_scope (nd g i) = Global ->
  is_started g s i w (Some t) = (t <=? length (shared_started g s i)).
Proof. unfold is_started, scoped_count. now intros -> ->. Qed.

(* ---- C05: when and what may be removed ---- *)
Theorem clean_decision_reversible g s i w :
  clean_decision g s i w = Some true -> reversible (nd g i) = true ->
  own g w i = true /\
  is_finished g s i w None = true /\
  forall v, In v (involved g s i) -> (w_local (wk g w) = true \/ memn v (w_swarm_members (wk g w)) = true) ->
    exists j, (if own g v i then Some i else find (fun j => own g v j) (n_bridged (nd g i))) = Some j /\
              cleanup_ready g s j v = true /\
              existsb (fun r => status_eqb (r_status r) SUnknown) (results (nst s j)) = false.
Proof.
  unfold clean_decision. intros H Hrev.
  destruct (n_dry (nd g i)); [discriminate|]. destruct (n_flat (nd g i)); [discriminate|].
  destruct (n_cloned (nd g i)); [discriminate|]. destruct (own g w i) eqn:Eo; [|discriminate]. cbn [negb] in H.
  rewrite Hrev in H. cbn [negb] in H.
  set (inv := filter _ (involved g s i)) in H.
  destruct (forallb _ inv) eqn:Ecopy in H; [|discriminate]. cbn [negb] in H.
  injection H as H. apply andb_true_iff in H. destruct H as [Hall Hfin].
  split; [reflexivity|]. split; [exact Hfin|]. intros v Hv Hsw.
  assert (Hin : In v inv).
  { unfold inv. apply filter_In. split; [exact Hv|]. apply orb_true_iff. exact Hsw. }
  rewrite forallb_forall in Hall. specialize (Hall v Hin).
  destruct (if own g v i then Some i else find (fun j => own g v j) (n_bridged (nd g i))) as [j|]; [|discriminate].
  exists j. split; [reflexivity|]. apply andb_true_iff in Hall. destruct Hall as [H1 H2].
  split; [exact H1|]. now apply negb_true_iff in H2.
Qed.

(* with the default pool filter nothing is ever copied while backing out, and a request that is
   sent is a removal *)
Lemma sync_walk_default_filter objs : forall clean unset us gs c u us' gs',
  (clean = true -> unset = true) ->
  sync_walk objs 0%N clean unset us gs = Some (c, u, us', gs') -> gs' = gs /\ (c = true -> u = true).
Proof.
  induction objs as [|o r IH]; intros clean unset us gs c u us' gs' Hinv H; cbn in H.
  - injection H as <- <- <- <-. auto.
  - destruct (o_set o) as [st|]; [|eapply IH; eauto].
    destruct (2 <=? o_unset o)%N; [eapply IH; eauto|].
    destruct (o_net o); [eapply IH; eauto|].
    destruct (o_perm_install o); [injection H as <- <- <- <-; split; [reflexivity | discriminate]|].
    destruct (negb (o_selected o)); [eapply IH; eauto|].
    destruct (o_unset o =? 0)%N; [eapply IH; [|exact H]; auto|].
    injection H as <- <- <- <-. split; [reflexivity | discriminate].
Qed.

Theorem default_filter_never_copies objs c u us gs :
  sync_walk objs 0%N false false [] [] = Some (c, u, us, gs) -> gs = [] /\ (c = true -> u = true).
Proof. intros H. eapply sync_walk_default_filter; [|exact H]. discriminate. Qed.

(* every state in a removal request belongs to an object whose unset policy says force *)
Lemma sync_walk_only_marked objs : forall fc clean unset us gs c u us' gs',
  sync_walk objs fc clean unset us gs = Some (c, u, us', gs') ->
  forall x, In x us' -> In x us \/ exists o st, In o objs /\ o_set o = Some st /\ x = (o_id o, st) /\
                                     (o_unset o =? 0)%N = true /\ o_net o = false /\ o_selected o = true.
Proof.
  induction objs as [|o r IH]; intros fc clean unset us gs c u us' gs' H x Hx; cbn in H.
  - injection H as <- <- <- <-. now left.
  - assert (Hskip : forall cl un gs0, sync_walk r fc cl un us gs0 = Some (c, u, us', gs') ->
               In x us \/ exists o' st, In o' (o :: r) /\ o_set o' = Some st /\ x = (o_id o', st) /\
                                     (o_unset o' =? 0)%N = true /\ o_net o' = false /\ o_selected o' = true).
    { intros cl un gs0 Hr. destruct (IH _ _ _ _ _ _ _ _ _ Hr x Hx) as [?|[o' [st [Ho' Hrest]]]]; [now left|].
      right. exists o', st. split; [now right | exact Hrest]. }
    destruct (o_set o) as [st|] eqn:Eset; [|eapply Hskip; eauto].
    destruct (2 <=? o_unset o)%N; [eapply Hskip; eauto|].
    destruct (o_net o) eqn:Enet; [eapply Hskip; eauto|].
    destruct (o_perm_install o); [injection H as <- <- <- <-; now left|].
    destruct (negb (o_selected o)) eqn:Esel; [eapply Hskip; eauto|].
    destruct (o_unset o =? 0)%N eqn:E0.
    + destruct (IH _ _ _ _ _ _ _ _ _ H x Hx) as [Hin|[o' [st' [Ho' Hrest]]]].
      * apply in_app_or in Hin. destruct Hin as [?|[<-|[]]]; [now left|].
        right. exists o, st. apply negb_false_iff in Esel. repeat split; auto. now left.
      * right. exists o', st'. split; [now right | exact Hrest].
    + destruct fc as [|p]; [injection H as <- <- <- <-; now left|].
      destruct p; try discriminate. eapply Hskip; eauto.
Qed.

Theorem removal_only_marked objs fc c u us gs x :
  sync_walk objs fc false false [] [] = Some (c, u, us, gs) -> In x us ->
  exists o st, In o objs /\ o_set o = Some st /\ x = (o_id o, st) /\ (o_unset o =? 0)%N = true /\
               o_net o = false /\ o_selected o = true.
Proof.
  intros H Hx. destruct (sync_walk_only_marked _ _ _ _ _ _ _ _ _ _ H x Hx) as [[]|Hr]. exact Hr.
Qed.
