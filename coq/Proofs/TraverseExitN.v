(* C02, completeness at exit for ANY number of workers and every schedule: when a worker leaves its loop, every ordinary
   test of that worker that the root reaches through child edges over such tests has been dropped with all its own
   children, and a test among them that saves no state (a leaf test) has a result entry on some copy of its class - it was
   executed (or is being executed) by some worker.  Hypotheses (ewf, checked on the exported graphs): the retry flags agree
   with the node flags, and the form of an ordinary test of a worker is not shared by any other node that worker can
   decide on. *)
From Coq Require Import List ZArith NArith Bool Arith Lia PrimFloat.
Import ListNotations.
From I2N Require Import Model.Retry Model.Traverse Model.TraverseRun Proofs.TraverseProofs Proofs.TraverseInv
                        Proofs.TraverseExcl Proofs.TraverseLoc Proofs.TraverseUid Proofs.TraverseAvail Proofs.TraverseExit
                        Proofs.TraversePath.
Local Open Scope nat_scope.

(* nodes a worker's run decision is defined on *)
Definition decidable_by (g : graph) (v c : nat) : Prop :=
  own g v c = true \/ n_root (nd g c) = true \/ n_dry (nd g c) = true \/ n_flat (nd g c) = true \/ n_cloned (nd g c) = true.
Definition ordinaryN (g : graph) (v c : nat) : Prop := c < length (g_nodes g) /\ plain g c /\ own g v c = true.
Record ewf (g : graph) : Prop := mkEwf {
  ew_cfg : forall i, dry (n_cfg (nd g i)) = n_dry (nd g i) /\ flat (n_cfg (nd g i)) = n_flat (nd g i) /\
                     cloned (n_cfg (nd g i)) = n_cloned (nd g i);
  ew_forms : forall v c c', ordinaryN g v c' -> decidable_by g v c -> n_form (nd g c) = n_form (nd g c') -> c = c'
}.

Definition DoneN (g : graph) (v : nat) (s : state) (c : nat) : Prop :=
  cleanup_ready g s c v = true /\ (stateful (nd g c) = false -> nonobjc g c -> shared_results g s c <> []).
Definition EInvN (g : graph) (s : state) : Prop :=
  forall v rid f, In v (reg_workers (r_dc s) (rid, f)) ->
    exists c, n_form (nd g c) = f /\ decidable_by g v c /\ (ordinaryN g v c -> DoneN g v s c).

Lemma shared_results_rm g s s' c : rm g s s' -> nonobjc g c -> shared_results g s c <> [] -> shared_results g s' c <> [].
Proof.
  intros Hr Hn H E. pose proof (Lc_mono g s s' c Hr Hn) as HL. unfold Lc in HL. rewrite E in HL.
  destruct (shared_results g s c) as [|r0 l0]; [now apply H | cbn [length] in HL; lia].
Qed.
Lemma DoneN_mono g v s s' c : growc s s' -> rm g s s' -> DoneN g v s c -> DoneN g v s' c.
Proof.
  intros Hc Hr [D1 D2]. split; [now apply (cleanup_ready_growc g s s')|]. intros Hs Hn. apply (shared_results_rm g s s' c Hr Hn). now apply D2.
Qed.

Definition estepN (g : graph) (w : nat) (s s' : state) : Prop :=
  growc s s' /\ dc_only w s s' /\ (rm g s s' -> EInvN g s -> EInvN g s').
Lemma estepN_eq g w s s' : r_dc s' = r_dc s -> estepN g w s s'.
Proof.
  intros E. split; [now apply growc_eq|]. split; [now apply dc_only_eq|]. intros Hr HE v rid f Hv. rewrite E in Hv.
  destruct (HE v rid f Hv) as [c [A [B D]]]. exists c. split; [exact A|]. split; [exact B|]. intros Ho.
  apply (DoneN_mono g v s s' c); [now apply growc_eq | exact Hr | now apply D].
Qed.
Lemma estepN_trans g w a b c : rm g a b -> rm g b c -> estepN g w a b -> estepN g w b c -> estepN g w a c.
Proof.
  intros R1 R2 [A1 [A2 A3]] [B1 [B2 B3]]. split; [eapply growc_trans; eauto|]. split; [eapply dc_only_trans; eauto|].
  intros _ HE. apply B3; [exact R2|]. now apply A3.
Qed.

(* ---- decisions ---- *)
Lemma decision_decidable g s i w b sc s' : run_decision g s i w = Some (b, sc, s') -> decidable_by g w i.
Proof.
  unfold run_decision, decidable_by. intros H.
  destruct (n_root (nd g i)); [tauto|]. destruct (n_dry (nd g i)); [tauto|]. destruct (n_flat (nd g i)); [tauto|].
  destruct (n_cloned (nd g i)); [tauto|]. destruct (own g w i); [tauto | discriminate].
Qed.
Lemma decision_false_resultsN g s i w sc s' :
  ewf g -> run_decision g s i w = Some (false, sc, s') -> plain g i -> own g w i = true -> stateful (nd g i) = false ->
  shared_results g s i <> [].
Proof.
  intros Hg H [Hf [Hd [Hc Hr]]] Ho Hs. unfold run_decision in H. rewrite Hr, Hd, Hf, Hc, Ho, Hs in H. cbn [negb] in H.
  destruct (ew_cfg g Hg i) as [Cd [Cf Cc]].
  destruct (run_stateless (n_cfg (nd g i)) (result_statuses (shared_results g s i))) as [b|] eqn:E; [|discriminate].
  injection H as -> _ _. unfold run_stateless in E. rewrite Cd, Cf, Cc, Hd, Hf, Hc in E.
  destruct (length (result_statuses (shared_results g s i)) =? 0) eqn:E0; [discriminate|].
  unfold result_statuses in E0. rewrite map_length in E0. intros Hn. rewrite Hn in E0. discriminate.
Qed.

Definition eitN (g : graph) (w : nat) (s : state) (r : it_res) : Prop := match r with Cont s' _ | Halt s' _ => estepN g w s s' end.
Definition rit (g : graph) (s : state) (r : it_res) : Prop := match r with Cont s' _ | Halt s' _ => rm g s s' end.
Lemma uit_rm g w s r : uit g w s r -> rit g s r.
Proof. destruct r; cbn; intros [[H _] _]; exact H. Qed.

Lemma after_from_child_eN g s w next previous : eitN g w s (after_from_child g s w next previous).
Proof.
  unfold after_from_child. destruct (eval_run g s next w) as [[[b s1] evs]|] eqn:E.
  - pose proof (rdc_eval_run _ _ _ _ _ _ _ E) as Hdc. cbn. apply estepN_eq. destruct b; cbn; exact Hdc.
  - unfold fail. cbn. apply estepN_eq. reflexivity.
Qed.

Lemma after_from_parent_eN g s w next : ewf g -> eitN g w s (after_from_parent g s w next).
Proof.
  intros Hg. unfold after_from_parent. destruct (eval_run g s next w) as [[[b s1] evs]|] eqn:E.
  - pose proof (rdc_eval_run _ _ _ _ _ _ _ E) as Hdc1. pose proof (rm_eval_run _ _ _ _ _ _ _ E) as Hr1.
    destruct b; [cbn; apply estepN_eq; exact Hdc1|].
    destruct (cleanup_ready g s1 next w) eqn:Ecr.
    + set (s2 := fold_left _ (n_parents (nd g next)) s1).
      assert (Hc12 : growc s1 s2) by apply growc_dc_fold.
      assert (Hstep2 : forall s3, r_dc s3 = r_dc s2 -> estepN g w s s3).
      { intros s3 Hdc3. split; [eapply growc_trans; [apply growc_eq; exact Hdc1|]; eapply growc_trans; [exact Hc12 | now apply growc_eq]|]. split.
        - intros key v Hv. rewrite Hdc3 in Hv. destruct (reg_workers_dc_fold g next w _ s1 key v Hv) as [H|[p [_ [_ H]]]]; [left; now rewrite <- Hdc1 | now right].
        - intros Hr3 HE v rid f Hv. rewrite Hdc3 in Hv.
          assert (Hgc : growc s s3) by (eapply growc_trans; [apply growc_eq; exact Hdc1|]; eapply growc_trans; [exact Hc12 | now apply growc_eq]).
          destruct (reg_workers_dc_fold g next w _ s1 (rid, f) v Hv) as [Hold|[p [Hp [Hk Hv0]]]].
          + rewrite Hdc1 in Hold. destruct (HE v rid f Hold) as [c [A [B D]]]. exists c. split; [exact A|]. split; [exact B|]. intros Ho.
            apply (DoneN_mono g v s s3 c Hgc Hr3). now apply D.
          + injection Hk as _ ->. subst v. exists next. split; [reflexivity|].
            unfold eval_run in E. destruct (run_decision g s next w) as [[[b0 sc] s0]|] eqn:Ed; [|discriminate]. injection E as -> <- _.
            split; [eapply decision_decidable; eauto|]. intros [_ [Hpl Ho]]. split.
            * apply (cleanup_ready_growc g s0 s3); [eapply growc_trans; [exact Hc12 | now apply growc_eq] | exact Ecr].
            * intros Hs Hn. apply (shared_results_rm g s s3 next Hr3 Hn). now apply (decision_false_resultsN g s next w sc s0). }
      destruct (reverse_node g s2 next w) as [[s3 e]|] eqn:Er.
      * cbn. apply Hstep2. cbn. exact (rdc_reverse_node _ _ _ _ _ _ Er).
      * unfold fail. cbn. apply Hstep2. reflexivity.
    + destruct (pick_child g s1 next w) as [[c s2]|] eqn:Ep.
      * unfold pick_child in Ep. destruct (pick_from _ _ _); [|discriminate]. injection Ep as _ <-. cbn. apply estepN_eq. cbn. exact Hdc1.
      * unfold fail. cbn. apply estepN_eq. cbn. exact Hdc1.
  - unfold fail. cbn. apply estepN_eq. reflexivity.
Qed.

Lemma eitN_prepend g w s s1 e r : rm g s s1 -> rit g s1 r -> estepN g w s s1 -> eitN g w s1 r ->
  eitN g w s (match r with Cont s2 e2 => Cont s2 (e ++ e2) | Halt s2 e2 => Halt s2 (e ++ e2) end).
Proof. intros G1 G2 H1 H2. destruct r as [s2 e2|s2 e2]; cbn in *; now apply (estepN_trans g w s s1 s2). Qed.

Lemma do_traverse_eN g s w next (fc : bool) previous : ewf g -> LenOk g s -> eitN g w s (do_traverse g s w next fc previous).
Proof.
  intros Hg Hlen. unfold do_traverse. pose proof (traverse_node_u g s next w Hlen) as Hu. pose proof (rdc_traverse_node g s next w) as Hdc.
  destruct (traverse_node g s next w) as [s1 e pre|s1 e|s1 e].
  - cbn. apply estepN_eq. cbn. exact Hdc.
  - apply (eitN_prepend g w s s1); [exact (proj1 Hu) | | apply estepN_eq; exact Hdc|].
    + apply (uit_rm g w). destruct fc; [apply after_from_child_u | apply after_from_parent_u].
    + destruct fc; [apply after_from_child_eN | now apply after_from_parent_eN].
  - cbn. apply estepN_eq. exact Hdc.
Qed.

Lemma iter_eN g s w : ewf g -> LenOk g s -> eitN g w s (iter g s w).
Proof.
  intros Hg Hlen. unfold iter.
  assert (Hfail : forall c, eitN g w s (let '(s1, e) := fail s w c in Halt s1 e)) by (intros c; unfold fail; cbn; apply estepN_eq; reflexivity).
  destruct (cleanup_ready g s (g_root g) w).
  - destruct (path (wst s w)) as [|r [|r2 rest]]; try apply Hfail.
    destruct (Nat.eqb r (g_root g)); [cbn; apply estepN_eq; reflexivity | apply Hfail].
  - destruct (path (wst s w)) as [|next [|previous rest]]; try apply Hfail.
    + destruct (pick_child g s next w) as [[c s1]|] eqn:Ep; [|apply Hfail].
      unfold pick_child in Ep. destruct (pick_from _ _ _); [|discriminate]. injection Ep as _ <-. cbn. apply estepN_eq. reflexivity.
    + destruct (is_occupied g s next w).
      * unfold bounce. cbn. apply estepN_eq. cbn. destruct (_ && _); reflexivity.
      * assert (Hpp : eitN g w s (match pick_parent g s next w with
                                  | None => let '(s1, e) := fail s w 1 in Halt s1 e
                                  | Some (p, s1) => Cont (push s1 w p) [EPick w next p false]
                                  end)).
        { destruct (pick_parent g s next w) as [[p s1]|] eqn:Ep; [|apply Hfail].
          unfold pick_parent in Ep. destruct (pick_from _ _ _); [|discriminate]. injection Ep as _ <-. cbn. apply estepN_eq. reflexivity. }
        destruct (memn previous (n_children (nd g next))).
        -- destruct (setup_ready g s next w); [now apply do_traverse_eN | exact Hpp].
        -- destruct (memn previous (n_parents (nd g next))); [|apply Hfail].
           destruct (setup_ready g s next w); cbn [negb]; [now apply do_traverse_eN | exact Hpp].
Qed.

Lemma run_loop_eN fuel g w : ewf g -> forall s, LenOk g s -> estepN g w s (fst (run_loop fuel g s w)).
Proof.
  intros Hg. induction fuel as [|f IH]; intros s Hlen; cbn [run_loop].
  - unfold fail. cbn. apply estepN_eq. reflexivity.
  - pose proof (iter_u g s w Hlen) as Hu. pose proof (iter_eN g s w Hg Hlen) as He.
    destruct (iter g s w) as [s1 e|s1 e]; cbn in Hu, He; [|exact He].
    destruct Hu as [[Hr _] _]. pose proof (run_loop_u f g w s1 (LenOk_rm g s s1 Hr Hlen)) as [[Hr2 _] _].
    specialize (IH s1 (LenOk_rm g s s1 Hr Hlen)).
    destruct (run_loop f g s1 w) as [s2 e2]. cbn in *. now apply (estepN_trans g w s s1 s2).
Qed.

Lemma continue_eN g w s r : ewf g -> LenOk g s -> uit g w s r -> eitN g w s r ->
  estepN g w s (fst (match r with Halt s2 e => (s2, e) | Cont s2 e => let '(s3, e3) := run_loop FUEL g s2 w in (s3, e ++ e3) end)).
Proof.
  intros Hg Hlen Hu He. destruct r as [s2 e|s2 e]; cbn in Hu, He; [|exact He].
  destruct Hu as [[Hr _] _]. pose proof (run_loop_eN FUEL g w Hg s2 (LenOk_rm g s s2 Hr Hlen)) as HL.
  pose proof (run_loop_u FUEL g w s2 (LenOk_rm g s s2 Hr Hlen)) as [[Hr2 _] _].
  destruct (run_loop FUEL g s2 w) as [s3 e3]. cbn in *. now apply (estepN_trans g w s s2 s3).
Qed.

Lemma estepN_pre g w s s1 s2 : rm g s s1 -> r_dc s1 = r_dc s -> rm g s1 s2 -> estepN g w s1 s2 -> estepN g w s s2.
Proof. intros R1 E R2 H. apply (estepN_trans g w s s1 s2); [exact R1 | exact R2 | now apply estepN_eq | exact H]. Qed.

Theorem resume_eN g s w out : ewf g -> LenOk g s -> PreOk g w s -> estepN g w s (fst (resume g s w out)).
Proof.
  intros Hg Hlen HPre. unfold resume. unfold PreOk in HPre. destruct (ph (wst s w)) as [| next pre fc uid | | |c].
  - assert (R1 : rm g s (set_phase s w Ready)) by (apply rm_ns; reflexivity).
    pose proof (run_loop_u FUEL g w _ (LenOk_rm g s _ R1 Hlen)) as [[R2 _] _].
    apply (estepN_pre g w s (set_phase s w Ready)); [exact R1 | reflexivity | exact R2 | apply run_loop_eN; [exact Hg | now apply (LenOk_rm g s)]].
  - cbv zeta. set (s0 := mkS (ws s) (ns s) (r_ps s) (r_pc s) (r_ds s) (r_dc s) (pool s) _).
    set (seen := match find _ (job s0) with Some e => Some (snd e) | None => None end).
    assert (Hcont : forall s1, rm g s s1 -> r_dc s1 = r_dc s ->
       estepN g w s (fst (match (if fc then after_from_child g (set_phase s1 w Ready) w next (hd 0 (tl (path (wst s w)))) else after_from_parent g (set_phase s1 w Ready) w next) with
                          | Halt s2 e => (s2, e) | Cont s2 e => let '(s3, e3) := run_loop FUEL g s2 w in (s3, e ++ e3) end))).
    { intros s1 R1 Hdc. set (s3 := set_phase s1 w Ready).
      assert (R3 : rm g s s3) by (eapply rm_trans; [exact R1 | apply rm_ns; reflexivity]).
      assert (L3 : LenOk g s3) by now apply (LenOk_rm g s).
      set (r := if fc then after_from_child g s3 w next (hd 0 (tl (path (wst s w)))) else after_from_parent g s3 w next).
      assert (Hu : uit g w s3 r) by (unfold r; destruct fc; [apply after_from_child_u | apply after_from_parent_u]).
      assert (He : eitN g w s3 r) by (unfold r; destruct fc; [apply after_from_child_eN | now apply after_from_parent_eN]).
      pose proof (continue_u g w s3 r Hu L3) as [[R4 _] _].
      apply (estepN_pre g w s s3); [exact R3 | exact Hdc | exact R4 | now apply continue_eN]. }
    destruct pre.
    + destruct (run_ok seen).
      * unfold start_run. cbn [fst]. apply estepN_eq. reflexivity.
      * match goal with |- context [set_phase (mark_done ?a next w) w Ready] => apply (Hcont (mark_done a next w)); [|reflexivity] end.
        eapply rm_trans; [|apply rm_mark_done]. eapply rm_trans; [apply (rm_ns g s s0); reflexivity|].
        unfold end_pre. eapply rm_trans; [|apply rm_set_n; intros x; cbn; rewrite app_length; lia]. now apply rm_set_n_objroot.
    + apply (Hcont (mark_done (finish_run g s0 next w seen) next w)).
      * eapply rm_trans; [apply (rm_ns g s s0); reflexivity|]. eapply rm_trans; [apply rm_finish_run | apply rm_mark_done].
      * unfold mark_done, finish_run. destruct seen as [[]|]; reflexivity.
  - assert (R1 : rm g s (set_phase s w Ready)) by (apply rm_ns; reflexivity).
    pose proof (run_loop_u FUEL g w _ (LenOk_rm g s _ R1 Hlen)) as [[R2 _] _].
    apply (estepN_pre g w s (set_phase s w Ready)); [exact R1 | reflexivity | exact R2 | apply run_loop_eN; [exact Hg | now apply (LenOk_rm g s)]].
  - cbn. apply estepN_eq. reflexivity.
  - cbn. apply estepN_eq. reflexivity.
Qed.

(* ---- where the exit event of a worker can come from ---- *)
Definition xrootw (g : graph) (w : nat) (s : state) : Prop := cleanup_ready g s (g_root g) w = true.
Definition exits_of (w : nat) (e : list event) : Prop := forall v, In (EExit v) e -> v = w.
Lemma iter_xw g s w : match iter g s w with Cont _ e => nx e | Halt s2 e => nx e \/ (exits_of w e /\ xrootw g w s2) end.
Proof.
  unfold iter. destruct (cleanup_ready g s (g_root g) w) eqn:Ecr.
  - destruct (path (wst s w)) as [|r [|r2 t]]; [left; nx1 | | left; nx1].
    destruct (Nat.eqb r (g_root g)); [right; split; [intros v [H|[]]; now injection H | exact Ecr] | left; nx1].
  - destruct (path (wst s w)) as [|next [|previous t]]; [left; nx1 | |].
    + destruct (pick_child g s next w) as [[c s1]|]; [nx1 | left; nx1].
    + destruct (is_occupied g s next w); [left; nx1|].
      assert (HD : forall fc, match do_traverse g s w next fc previous with Cont _ e => nx e | Halt s2 e => nx e \/ (exits_of w e /\ xrootw g w s2) end).
      { intros fc. pose proof (nx_do_traverse g s w next fc previous) as H. destruct (do_traverse g s w next fc previous); [exact H | now left]. }
      destruct (memn previous (n_children (nd g next))).
      * destruct (setup_ready g s next w); [apply HD|]. destruct (pick_parent g s next w) as [[p s1]|]; [nx1 | left; nx1].
      * destruct (memn previous (n_parents (nd g next))); [|left; nx1].
        destruct (negb (setup_ready g s next w)); [|apply HD]. destruct (pick_parent g s next w) as [[p s1]|]; [nx1 | left; nx1].
Qed.
Lemma run_loop_xw fuel g w : forall s v, In (EExit v) (snd (run_loop fuel g s w)) -> v = w /\ xrootw g w (fst (run_loop fuel g s w)).
Proof.
  induction fuel as [|f IH]; intros s v; cbn [run_loop]; [cbn; intros [H|[]]; discriminate|].
  pose proof (iter_xw g s w) as Hi. destruct (iter g s w) as [s1 e|s1 e].
  - specialize (IH s1 v). destruct (run_loop f g s1 w) as [s2 e2]. cbn in *. intros H. apply in_app_or in H.
    destruct H as [H|H]; [now destruct (Hi v) | now apply IH].
  - cbn. intros H. destruct Hi as [Hi|[Hi1 Hi2]]; [now destruct (Hi v) | split; [now apply Hi1 | exact Hi2]].
Qed.
Lemma continue_xw g w r v : nxit r ->
  let x := match r with Halt s2 e => (s2, e) | Cont s2 e => let '(s3, e3) := run_loop FUEL g s2 w in (s3, e ++ e3) end in
  In (EExit v) (snd x) -> v = w /\ xrootw g w (fst x).
Proof.
  intros Hn. destruct r as [s2 e|s2 e]; cbn in Hn; cbv zeta.
  - pose proof (run_loop_xw FUEL g w s2 v) as HL. destruct (run_loop FUEL g s2 w) as [s3 e3]. cbn in *. intros H. apply in_app_or in H.
    destruct H as [H|H]; [now destruct (Hn v) | now apply HL].
  - cbn. intros H. now destruct (Hn v).
Qed.
Theorem resume_xw g s w out v : In (EExit v) (snd (resume g s w out)) -> v = w /\ xrootw g w (fst (resume g s w out)).
Proof.
  unfold resume. destruct (ph (wst s w)) as [| next pre fc uid | | |c]; [apply run_loop_xw | | apply run_loop_xw | intros [] | intros []].
  cbv zeta. destruct pre.
  - destruct (run_ok _); [unfold start_run; cbn; intros [H|[]]; discriminate|].
    apply continue_xw. destruct fc; [apply nx_after_from_child | apply nx_after_from_parent].
  - apply continue_xw. destruct fc; [apply nx_after_from_child | apply nx_after_from_parent].
Qed.

(* ---- whole schedules ---- *)
Lemma growc_resume g s w out : ewf g -> LenOk g s -> PreOk g w s -> growc s (fst (resume g s w out)).
Proof. intros Hg Hl Hp. exact (proj1 (resume_eN g s w out Hg Hl Hp)). Qed.

Lemma schedule_eN g sched : ewf g -> forall s, UInv g s -> EInvN g s ->
  let r := run_schedule g s sched in
  EInvN g (fst r) /\ growc s (fst r) /\ (forall v, In (EExit v) (concat (snd r)) -> xrootw g v (fst r)).
Proof.
  intros Hg. induction sched as [|[w out] r IH]; intros s HU HE; cbn [run_schedule]; cbn zeta.
  - cbn. split; [exact HE|]. split; [apply growc_refl | intros v []].
  - pose proof (resume_eN g s w out Hg (ui_len g s HU) (ui_pre g s HU w)) as [Hc1 [_ HE1]].
    destruct (resume_u g s w out (ui_len g s HU) (ui_pre g s HU w)) as [[Hr _] _].
    pose proof (UInv_resume g s w out HU) as HU1. pose proof (resume_xw g s w out) as HX.
    destruct (resume g s w out) as [s1 e]. cbn [fst snd] in *.
    specialize (IH s1 HU1 (HE1 Hr HE)). cbn zeta in IH.
    destruct (run_schedule g s1 r) as [s2 es]. cbn [fst snd] in *. destruct IH as [I1 [I2 I3]].
    split; [exact I1|]. split; [eapply growc_trans; eauto|].
    intros v H. cbn [concat] in H. apply in_app_or in H. destruct H as [H|H]; [|now apply (I3 v)].
    destruct (HX v H) as [-> Hx]. unfold xrootw in *. now apply (cleanup_ready_growc g s1 s2).
Qed.

Lemma EInvN_init g p : EInvN g (init_state g p).
Proof. intros v rid f H. cbn in H. destruct H. Qed.

Inductive reachN (g : graph) (v : nat) : nat -> Prop :=
| reachN_first c : In c (n_children (nd g (g_root g))) -> ordinaryN g v c -> reachN g v c
| reachN_next i c : reachN g v i -> In c (n_children (nd g i)) -> ordinaryN g v c -> reachN g v c.

Lemma done_childrenN g s v i c : ewf g -> EInvN g s -> cleanup_ready g s i v = true ->
  In c (n_children (nd g i)) -> ordinaryN g v c -> DoneN g v s c.
Proof.
  intros Hg HE Hcr Hc Ho. pose proof Ho as [Hlt [Hpl Hown]]. unfold cleanup_ready in Hcr. rewrite forallb_forall in Hcr. specialize (Hcr c Hc).
  rewrite Hown in Hcr. rewrite andb_false_r in Hcr. cbn [orb] in Hcr. apply memn_In in Hcr.
  destruct (HE _ _ _ Hcr) as [c2 [Hf [Hd HD]]].
  assert (c2 = c) by (apply (ew_forms g Hg v c2 c Ho Hd Hf)). subst c2. now apply HD.
Qed.

(* C02 for any number of workers: once worker v has left its loop, every ordinary test of v that the root reaches through
   child edges over such tests has all its own children dropped, and if it saves no state (and is not an object root) some
   copy of its class has a result entry *)
Theorem exit_means_doneN g p sched v c :
  ewf g -> let r := run_schedule g (init_state g p) sched in
  In (EExit v) (concat (snd r)) -> reachN g v c -> DoneN g v (fst r) c.
Proof.
  intros Hg. cbn zeta. intros Hx Hr.
  destruct (schedule_eN g sched Hg _ (UInv_init g p) (EInvN_init g p)) as [HE [_ HX]].
  specialize (HX v Hx). induction Hr as [c Hc Ho|i c Hi IH Hc Ho].
  - now apply (done_childrenN g _ v (g_root g) c).
  - destruct IH as [Hcr _]. now apply (done_childrenN g _ v i c).
Qed.

Theorem ewf_b_sound g : ewf_b g = true -> ewf g.
Proof.
  unfold ewf_b. intros H. rewrite forallb_forall in H.
  assert (Hin : forall i, i < length (g_nodes g) -> _) by (intros i Hi; apply (H i); apply in_seq; lia).
  assert (Hout : forall i, length (g_nodes g) <= i -> nd g i = dummy_node) by (intros i Hi; now apply nd_overflow).
  constructor.
  - intros i. destruct (Nat.lt_ge_cases i (length (g_nodes g))) as [Hi|Hi]; [|rewrite (Hout i Hi); repeat split; reflexivity].
    specialize (Hin i Hi). cbn beta zeta in Hin. apply andb_prop in Hin. destruct Hin as [Hin _].
    apply andb_prop in Hin. destruct Hin as [Hin C3]. apply andb_prop in Hin. destruct Hin as [C1 C2].
    repeat split; now apply eqb_prop.
  - intros v c c' [Hlt [[Pf [Pd [Pc Pr]]] Ho]] Hd Hf. specialize (Hin c' Hlt). cbn beta zeta in Hin.
    apply andb_prop in Hin. destruct Hin as [_ Hin]. rewrite Pf, Pd, Pc, Pr in Hin. cbn [negb andb] in Hin.
    apply andb_prop in Hin. destruct Hin as [Hz Hall]. apply negb_true_iff in Hz. apply N.eqb_neq in Hz.
    rewrite forallb_forall in Hall. specialize (Hall v (proj1 (memn_In v _) Ho)). rewrite forallb_forall in Hall.
    destruct (Nat.lt_ge_cases c (length (g_nodes g))) as [Hc|Hc].
    + specialize (Hall c (proj2 (in_seq _ _ _) (conj (Nat.le_0_l _) Hc))).
      apply orb_prop in Hall. destruct Hall as [Hall|Hall]; [|now apply Nat.eqb_eq in Hall].
      apply orb_prop in Hall. destruct Hall as [Hall|Hall].
      * apply negb_true_iff in Hall. apply N.eqb_neq in Hall. contradiction.
      * apply negb_true_iff in Hall. exfalso. unfold decidable_by in Hd.
        destruct Hd as [E|[E|[E|[E|E]]]]; rewrite E in Hall; cbn in Hall; rewrite ?orb_true_r in Hall; discriminate.
    + exfalso. rewrite (Hout c Hc) in Hf. cbn in Hf. apply Hz. now symmetry.
Qed.
