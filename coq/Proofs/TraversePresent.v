(* C03, second sentence, over every schedule and any number of workers (global reuse scope): if the first thing that ever
   happens to a class of setup-test copies is an examination that finds all its states present (EScan _ _ false), then no
   copy of that class is ever executed in the run.  The class then has a finished marker and no results, and in that
   situation every later run decision on a copy is negative without another scan. *)
From Coq Require Import List ZArith NArith Bool Arith Lia PrimFloat.
Import ListNotations.
From I2N Require Import Model.Retry Model.Traverse Model.TraverseRun Proofs.TraverseProofs Proofs.TraverseInv
                        Proofs.TraverseExcl.
Local Open Scope nat_scope.

Section Present.
Variable g : graph.
Variable C : list nat.
(* the class: closed under bridging, ordinary stateful tests of the graph with the global reuse scope *)
Record cls : Prop := mkCls {
  cl_class : forall j, In j C -> forall x, In x (class_of g j) <-> In x C;
  cl_in : forall j, In j C -> j < length (g_nodes g);
  cl_kind : forall j, In j C -> n_root (nd g j) = false /\ n_dry (nd g j) = false /\ n_flat (nd g j) = false /\
                                n_cloned (nd g j) = false /\ stateful (nd g j) = true /\ n_scope (nd g j) = Global
}.
Hypothesis HC : cls.

(* ---- the trace automaton ---- *)
Inductive tstate := TA | TB | TBad | TOut.
Definition cevb (x : event) : bool :=
  match x with EScan _ j _ => memn j C | EStart _ j _ _ _ => memn j C | _ => false end.
Definition scanfalse (x : event) : bool := match x with EScan _ _ false => true | _ => false end.
Definition startC (x : event) : bool := match x with EStart _ j _ _ _ => memn j C | _ => false end.
Definition isfail (x : event) : bool := match x with EFail _ _ => true | _ => false end.
Definition step (t : tstate) (x : event) : tstate :=
  match t with
  | TA => if isfail x then TOut else if cevb x then (if scanfalse x then TB else TOut) else TA
  | TB => if startC x then TBad else TB
  | TBad => TBad
  | TOut => TOut
  end.
Definition run (t : tstate) (e : list event) : tstate := fold_left step e t.
Lemma run_app t a b : run t (a ++ b) = run (run t a) b. Proof. apply fold_left_app. Qed.
Lemma run_out e : run TOut e = TOut. Proof. induction e; cbn; auto. Qed.
Lemma run_bad e : run TBad e = TBad. Proof. induction e; cbn; auto. Qed.
Definition quiet (e : list event) : Prop := forall x, In x e -> cevb x = false /\ isfail x = false.
Definition calm (e : list event) : Prop := forall x, In x e -> startC x = false.
Lemma run_quiet_A e : quiet e -> run TA e = TA.
Proof. induction e as [|x e IH]; intros H; [reflexivity|]. cbn. destruct (H x (or_introl eq_refl)) as [H1 H2]. rewrite H1, H2. apply IH. intros y Hy. apply H. now right. Qed.
Lemma run_calm_B e : calm e -> run TB e = TB.
Proof. induction e as [|x e IH]; intros H; [reflexivity|]. cbn. rewrite (H x (or_introl eq_refl)). apply IH. intros y Hy. apply H. now right. Qed.
Lemma quiet_calm e : quiet e -> calm e.
Proof. intros H x Hx. destruct (H x Hx) as [H1 _]. destruct x; try reflexivity. exact H1. Qed.
Lemma quiet_app a b : quiet a -> quiet b -> quiet (a ++ b).
Proof. intros A B x H. apply in_app_or in H. destruct H; auto. Qed.
Lemma calm_app a b : calm a -> calm b -> calm (a ++ b).
Proof. intros A B x H. apply in_app_or in H. destruct H; auto. Qed.
Lemma quiet_nil : quiet []. Proof. intros x []. Qed.
Lemma calm_nil : calm []. Proof. intros x []. Qed.

(* ---- the class in a state ---- *)
Definition Aq (s : state) : Prop :=
  forall j, In j C -> results (nst s j) = [] /\ finished (nst s j) = None /\ started (nst s j) = None.
Definition Bq (s : state) : Prop :=
  (exists j, In j C /\ finished (nst s j) <> None) /\ forall j, In j C -> results (nst s j) = [].
Definition norun (p : phase) : Prop := match p with Running n _ _ _ => ~ In n C | _ => True end.
Definition NoRun (s : state) : Prop := forall v, norun (ph (wst s v)).
Definition I (s : state) : Prop := LenOk g s /\ NoRun s.
Definition J (s : state) (t : tstate) : Prop :=
  match t with TA => I s /\ Aq s | TB => I s /\ Bq s | TBad => False | TOut => True end.
Definition jstep (s s' : state) (e : list event) : Prop := forall t, J s t -> J s' (run t e).

Lemma jstep_intro s s' e :
  (I s -> Aq s -> J s' (run TA e)) -> (I s -> Bq s -> J s' (run TB e)) -> jstep s s' e.
Proof. intros HA HB [] H; cbn in H; [now apply HA | now apply HB | destruct H | rewrite run_out; exact Logic.I]. Qed.
Lemma jstep_trans a b c e1 e2 : jstep a b e1 -> jstep b c e2 -> jstep a c (e1 ++ e2).
Proof. intros H1 H2 t H. rewrite run_app. apply H2. now apply H1. Qed.
Lemma jstep_refl s : jstep s s []. Proof. intros t H. exact H. Qed.

(* frames *)
Definition lenq (s s' : state) : Prop := length (ns s') = length (ns s).
Definition Astep (s s' : state) : Prop :=
  lenq s s' /\ forall j, In j C -> results (nst s' j) = results (nst s j) /\ finished (nst s' j) = finished (nst s j) /\
                                     started (nst s' j) = started (nst s j).
Definition Bstep (s s' : state) : Prop :=
  lenq s s' /\ forall j, In j C -> results (nst s' j) = results (nst s j) /\ (finished (nst s j) <> None -> finished (nst s' j) <> None).
Lemma Astep_Bstep s s' : Astep s s' -> Bstep s s'.
Proof. intros [L H]. split; [exact L|]. intros j Hj. destruct (H j Hj) as [A [B _]]. split; [exact A | now rewrite B]. Qed.
Lemma Astep_refl s : Astep s s. Proof. split; [reflexivity | intros; repeat split]. Qed.
Lemma Astep_trans a b c : Astep a b -> Astep b c -> Astep a c.
Proof. intros [L1 H1] [L2 H2]. split; [unfold lenq in *; congruence|]. intros j Hj. destruct (H1 j Hj) as [A1 [A2 A3]]. destruct (H2 j Hj) as [B1 [B2 B3]]. repeat split; congruence. Qed.
Lemma Bstep_trans a b c : Bstep a b -> Bstep b c -> Bstep a c.
Proof. intros [L1 H1] [L2 H2]. split; [unfold lenq in *; congruence|]. intros j Hj. destruct (H1 j Hj) as [A1 A2]. destruct (H2 j Hj) as [B1 B2]. split; [congruence | auto]. Qed.
Lemma Aq_step s s' : Astep s s' -> Aq s -> Aq s'.
Proof. intros [_ H] HA j Hj. destruct (H j Hj) as [A [B D]]. destruct (HA j Hj) as [A' [B' D']]. repeat split; congruence. Qed.
Lemma Bq_step s s' : Bstep s s' -> Bq s -> Bq s'.
Proof.
  intros [_ H] [[j [Hj Hf]] HR]. split.
  - exists j. split; [exact Hj|]. now apply (H j Hj).
  - intros k Hk. destruct (H k Hk) as [A _]. rewrite A. now apply HR.
Qed.
Lemma LenOk_lenq s s' : lenq s s' -> LenOk g s -> LenOk g s'.
Proof. unfold lenq, LenOk. congruence. Qed.
Lemma Astep_ns s s' : ns s' = ns s -> Astep s s'.
Proof. intros E. split; [unfold lenq; now rewrite E|]. intros j _. unfold nst. rewrite E. repeat split. Qed.
Lemma Astep_set_n_keep s i f :
  (forall x, results (f x) = results x /\ finished (f x) = finished x /\ started (f x) = started x) -> Astep s (set_n s i f).
Proof.
  intros Hf. split; [apply length_ns_set_n|]. intros j _. destruct (nst_set_n_cases s i f j) as [E|[-> [_ E]]]; rewrite E; [repeat split | apply Hf].
Qed.
Lemma Astep_set_n_other s i f : ~ In i C -> Astep s (set_n s i f).
Proof.
  intros Hi. split; [apply length_ns_set_n|]. intros j Hj. rewrite nst_set_n_other by (intros ->; contradiction). repeat split.
Qed.
Lemma Bstep_set_n_keep s i f :
  (forall x, results (f x) = results x /\ (finished x <> None -> finished (f x) <> None)) -> Bstep s (set_n s i f).
Proof.
  intros Hf. split; [apply length_ns_set_n|]. intros j _. destruct (nst_set_n_cases s i f j) as [E|[-> [_ E]]]; rewrite E; [split; auto | apply Hf].
Qed.

(* phases *)
Lemma NoRun_ws s s' : ws s' = ws s -> NoRun s -> NoRun s'.
Proof. intros E H v. unfold wst. rewrite E. apply H. Qed.
Lemma NoRun_set_w s w f : (forall x, norun (ph x) -> norun (ph (f x))) -> NoRun s -> NoRun (set_w s w f).
Proof.
  intros Hf H v. destruct (Nat.eq_dec v w) as [->|Hne].
  - destruct (wst_set_w_cases s w f) as [E|[E _]]; rewrite E; [apply Hf|]; apply H.
  - rewrite (os_set_w w s f v Hne). apply H.
Qed.
Lemma NoRun_set_phase s w p : norun p -> NoRun s -> NoRun (set_phase s w p).
Proof. intros Hp. unfold set_phase. apply NoRun_set_w. intros x _. exact Hp. Qed.
Lemma NoRun_set_path s w p : NoRun s -> NoRun (set_path s w p).
Proof. unfold set_path. apply NoRun_set_w. intros x Hx. exact Hx. Qed.

(* ---- the run decision on a copy of the class ---- *)
Lemma shared_finished_nil s i : In i C -> Aq s -> shared_finished g s i = [].
Proof.
  intros Hi HA. unfold shared_finished.
  assert (E : flat_map (fun j => opt_list (finished (nst s j))) (class_of g i) = []).
  { assert (Hsub : forall x, In x (class_of g i) -> In x C) by (intros x Hx; now apply (cl_class HC i Hi)).
    induction (class_of g i) as [|c l IH]; [reflexivity|]. cbn. destruct (HA c (Hsub c (or_introl eq_refl))) as [_ [-> _]]. cbn. apply IH. intros x Hx. apply Hsub. now right. }
  now rewrite E.
Qed.
Lemma shared_started_nil s i : In i C -> Aq s -> shared_started g s i = [].
Proof.
  intros Hi HA. unfold shared_started.
  assert (E : flat_map (fun j => opt_list (started (nst s j))) (class_of g i) = []).
  { assert (Hsub : forall x, In x (class_of g i) -> In x C) by (intros x Hx; now apply (cl_class HC i Hi)).
    induction (class_of g i) as [|c l IH]; [reflexivity|]. cbn. destruct (HA c (Hsub c (or_introl eq_refl))) as [_ [_ ->]]. cbn. apply IH. intros x Hx. apply Hsub. now right. }
  now rewrite E.
Qed.
Lemma shared_results_nil s i : In i C -> (forall j, In j C -> results (nst s j) = []) -> shared_results g s i = [].
Proof.
  intros Hi HR. unfold shared_results.
  assert (Hsub : forall x, In x (class_of g i) -> In x C) by (intros x Hx; now apply (cl_class HC i Hi)).
  induction (class_of g i) as [|c l IH]; [reflexivity|]. cbn. rewrite (HR c (Hsub c (or_introl eq_refl))). cbn. apply IH. intros x Hx. apply Hsub. now right.
Qed.
Lemma shared_finished_some s i : In i C -> Bq s -> shared_finished g s i <> [].
Proof.
  intros Hi [[j [Hj Hf]] _] E. unfold shared_finished in E.
  assert (Hin : In j (class_of g i)) by now apply (cl_class HC i Hi).
  destruct (finished (nst s j)) as [v|] eqn:Ef; [|now apply Hf].
  assert (In v (dedup (flat_map (fun k => opt_list (finished (nst s k))) (class_of g i)))).
  { apply dedup_In. apply in_flat_map. exists j. split; [exact Hin|]. rewrite Ef. now left. }
  rewrite E in H. destruct H.
Qed.

Lemma not_occupied_A s i w : In i C -> Aq s -> is_occupied g s i w = false.
Proof.
  intros Hi HA. destruct (cl_kind HC i Hi) as [_ [_ [Hf [_ [_ Hs]]]]].
  unfold is_occupied, is_started, scoped_count. rewrite Hf, Hs, (shared_started_nil s i Hi HA). cbn [length].
  apply Nat.leb_gt. lia.
Qed.

Lemma decision_A s i w b sc s' : In i C -> Aq s -> run_decision g s i w = Some (b, sc, s') ->
  sc = Some b /\ Astep s s'.
Proof.
  intros Hi HA. destruct (cl_kind HC i Hi) as [Hr [Hd [Hf [Hc [Hst Hs]]]]].
  unfold run_decision. rewrite Hr, Hd, Hf, Hc, Hst. cbn [negb]. destruct (negb (own g w i)); [discriminate|].
  assert (Hfin : is_finished g s i w (Some 1) = false).
  { unfold is_finished, scoped_count. rewrite Hf, Hs, (shared_finished_nil s i Hi HA). reflexivity. }
  rewrite Hfin. cbn zeta. destruct (scan_missing (nd g i) (pool s) w) eqn:Em.
  - intros H. injection H as <- <- <-. split; [reflexivity|]. apply Astep_set_n_keep. intros x. repeat split.
  - assert (E0 : length (filtered_results g s i) = 0).
    { unfold filtered_results, filtered_results_as. rewrite Hs. rewrite (shared_results_nil s i Hi) by (intros j Hj; apply HA; exact Hj). now destruct (started (nst s i)). }
    rewrite E0. cbn [Nat.eqb negb andb]. rewrite orb_true_r. intros H. injection H as <- <- <-. split; [reflexivity|].
    apply Astep_set_n_keep. intros x. repeat split.
Qed.

Lemma decision_B s i w b sc s' : In i C -> Bq s -> run_decision g s i w = Some (b, sc, s') ->
  b = false /\ sc = None /\ Astep s s'.
Proof.
  intros Hi HB. destruct (cl_kind HC i Hi) as [Hr [Hd [Hf [Hc [Hst Hs]]]]].
  unfold run_decision. rewrite Hr, Hd, Hf, Hc, Hst. cbn [negb]. destruct (negb (own g w i)); [discriminate|].
  assert (Hfin : is_finished g s i w (Some 1) = true).
  { unfold is_finished, scoped_count. rewrite Hf, Hs. pose proof (shared_finished_some s i Hi HB) as Hne.
    destruct (shared_finished g s i); [contradiction | reflexivity]. }
  rewrite Hfin. cbn zeta.
  assert (E0 : length (filtered_results g s i) = 0).
  { unfold filtered_results, filtered_results_as. rewrite Hs. rewrite (shared_results_nil s i Hi (proj2 HB)). now destruct (started (nst s i)). }
  rewrite E0. cbn [Nat.eqb negb andb]. rewrite orb_true_r. intros H. injection H as <- <- <-. split; [reflexivity|]. split; [reflexivity|].
  apply Astep_set_n_keep. intros x. repeat split.
Qed.

(* every decision leaves results, finished and started markers alone *)
Lemma decision_keep s i w b sc s' : run_decision g s i w = Some (b, sc, s') -> Astep s s'.
Proof.
  unfold run_decision. intros H.
  repeat match type of H with
         | (if ?c then _ else _) = _ => destruct c
         | match ?x with _ => _ end = _ => destruct x eqn:?
         end; try discriminate; injection H as _ _ <-; try apply Astep_refl; apply Astep_set_n_keep; intros x; repeat split.
Qed.

(* ---- events without a scan or a start on the class ---- *)
Definition semiquiet (e : list event) : Prop := forall x, In x e -> cevb x = false.
Lemma semiquiet_app a b : semiquiet a -> semiquiet b -> semiquiet (a ++ b).
Proof. intros A B x H. apply in_app_or in H. destruct H; auto. Qed.
Lemma semiquiet_nil : semiquiet []. Proof. intros x []. Qed.
Lemma semiquiet_calm e : semiquiet e -> calm e.
Proof. intros H x Hx. specialize (H x Hx). destruct x; try reflexivity. exact H. Qed.
Lemma run_semiquiet_A e : semiquiet e -> run TA e = TA \/ run TA e = TOut.
Proof.
  induction e as [|x e IH]; intros H; [now left|]. cbn. rewrite (H x (or_introl eq_refl)).
  destruct (isfail x); [right; apply run_out|]. apply IH. intros y Hy. apply H. now right.
Qed.
Ltac sq1 := let x := fresh "x" in let H := fresh "H" in
  intros x H; cbn in H; repeat (destruct H as [H|H]; [subst x; reflexivity|]); destruct H.

Lemma J_semiquiet s t e : semiquiet e -> J s t -> J s (run t e).
Proof.
  intros Hq H. destruct t; cbn in H.
  - destruct (run_semiquiet_A e Hq) as [E|E]; rewrite E; [exact H | exact Logic.I].
  - rewrite (run_calm_B e (semiquiet_calm e Hq)). exact H.
  - destruct H.
  - rewrite run_out. exact Logic.I.
Qed.
Lemma J_Astep s s' t : Astep s s' -> (NoRun s -> NoRun s') -> J s t -> J s' t.
Proof.
  intros HS HN H. destruct t; cbn in *; try exact H.
  - destruct H as [[HL HR] HA]. split; [split; [apply (LenOk_lenq s s' (proj1 HS) HL) | now apply HN] | now apply (Aq_step s s')].
  - destruct H as [[HL HR] HB]. split; [split; [apply (LenOk_lenq s s' (proj1 HS) HL) | now apply HN] | apply (Bq_step s s'); [now apply Astep_Bstep | exact HB]].
Qed.
Lemma JB_Bstep s s' : Bstep s s' -> (NoRun s -> NoRun s') -> J s TB -> J s' TB.
Proof.
  intros HS HN [[HL HR] HB]. split; [split; [apply (LenOk_lenq s s' (proj1 HS) HL) | now apply HN] | now apply (Bq_step s s')].
Qed.

(* ---- eval_run ---- *)
Lemma eval_run_out s i w b s' e : ~ In i C -> eval_run g s i w = Some (b, s', e) -> ws s' = ws s /\ Astep s s' /\ semiquiet e.
Proof.
  intros Hi. unfold eval_run. destruct (run_decision g s i w) as [[[b0 sc] s0]|] eqn:E; [|discriminate]. intros H. injection H as <- <- <-.
  split; [eapply ws_run_decision; eauto|]. split; [eapply decision_keep; eauto|].
  apply memn_false in Hi. destruct (n_root (nd g i)); [apply semiquiet_nil|]. apply semiquiet_app; [destruct sc; [|apply semiquiet_nil] | sq1].
  intros x [<-|[]]. cbn. exact Hi.
Qed.
Lemma eval_run_inB s i w b s' e : In i C -> Bq s -> eval_run g s i w = Some (b, s', e) ->
  b = false /\ ws s' = ws s /\ Astep s s' /\ semiquiet e.
Proof.
  intros Hi HB. unfold eval_run. destruct (run_decision g s i w) as [[[b0 sc] s0]|] eqn:E; [|discriminate]. intros H. injection H as <- <- <-.
  destruct (decision_B s i w _ _ _ Hi HB E) as [-> [-> HS]]. split; [reflexivity|]. split; [eapply ws_run_decision; eauto|]. split; [exact HS|].
  destruct (n_root (nd g i)); [apply semiquiet_nil | sq1].
Qed.
Lemma eval_run_inA s i w b s' e : In i C -> Aq s -> eval_run g s i w = Some (b, s', e) ->
  e = [EScan w i b; EDecide w i b] /\ ws s' = ws s /\ Astep s s'.
Proof.
  intros Hi HA. unfold eval_run. destruct (run_decision g s i w) as [[[b0 sc] s0]|] eqn:E; [|discriminate]. intros H. injection H as <- <- <-.
  destruct (decision_A s i w _ _ _ Hi HA E) as [-> HS]. destruct (cl_kind HC i Hi) as [-> _]. split; [reflexivity|]. split; [eapply ws_run_decision; eauto | exact HS].
Qed.

(* ---- reverse_node ---- *)
Lemma Astep_pool s p j : Astep s (mkS (ws s) (ns s) (r_ps s) (r_pc s) (r_ds s) (r_dc s) p j).
Proof. apply Astep_ns. reflexivity. Qed.
Lemma reverse_node_j s i w s' e : reverse_node g s i w = Some (s', e) ->
  ws s' = ws s /\ semiquiet e /\ Bstep s s' /\ (~ In i C -> Astep s s').
Proof.
  unfold reverse_node. destruct (is_occupied g s i w); [intros H; injection H as <- <-; split; [reflexivity|]; split; [apply semiquiet_nil|]; split; [apply Astep_Bstep, Astep_refl | intros _; apply Astep_refl]|].
  set (s1 := set_n s i _).
  assert (B1 : Bstep s s1) by (apply Bstep_set_n_keep; intros x; split; auto).
  assert (A1 : ~ In i C -> Astep s s1) by (intros Hi; now apply Astep_set_n_other).
  assert (Hgen : forall s2 e2, ws s2 = ws s1 -> Astep s1 s2 ->
           let s3 := set_n s2 i (fun x => mkN None (finished x) (results x) (rerun_off x) (mct_now x) (locs x)) in
           semiquiet e2 -> ws s3 = ws s /\ semiquiet e2 /\ Bstep s s3 /\ (~ In i C -> Astep s s3)).
  { intros s2 e2 Hws HA2 s3 Hq. split; [unfold s3; rewrite ws_set_n; exact Hws|]. split; [exact Hq|]. split.
    - eapply Bstep_trans; [exact B1|]. eapply Bstep_trans; [apply Astep_Bstep; exact HA2|]. apply Bstep_set_n_keep. intros x. split; auto.
    - intros Hi. eapply Astep_trans; [now apply A1|]. eapply Astep_trans; [exact HA2|]. now apply Astep_set_n_other. }
  destruct (clean_decision g s1 i w) as [[]|]; [| intros H; injection H as <- <-; apply (Hgen s1); [reflexivity | apply Astep_refl | sq1] | discriminate].
  destruct (stateful (nd g i)); [| intros H; injection H as <- <-; apply (Hgen s1); [reflexivity | apply Astep_refl | sq1]].
  destruct (sync_walk _ _ _ _ _ _) as [[[[[] u] us] gs]|]; [| |discriminate]; intros H; injection H as <- <-.
  - apply (Hgen (door_effect s1 w u (if u then us else gs))); [reflexivity | apply Astep_ns; reflexivity | sq1].
  - apply (Hgen s1); [reflexivity | apply Astep_refl | sq1].
Qed.

Lemma res_set_n_keep s i f j : (forall x, results (f x) = results x) -> results (nst (set_n s i f) j) = results (nst s j).
Proof. intros Hf. destruct (nst_set_n_cases s i f j) as [E|[-> [_ E]]]; rewrite E; [reflexivity | apply Hf]. Qed.

(* ---- traverse_node ---- *)
Lemma Astep_pull_locations s i : Astep s (pull_locations g s i).
Proof. unfold pull_locations. destruct (n_flat (nd g i)); [apply Astep_refl|]. apply Astep_set_n_keep. intros x. repeat split. Qed.

Lemma traverse_node_out s i w : ~ In i C ->
  match traverse_node g s i w with
  | TnAwait s' e _ | TnDone s' e => ws s' = ws s /\ Astep s s' /\ semiquiet e
  | TnFail s' e => exists s2, ws s2 = ws s /\ Astep s s2 /\ s' = set_phase s2 w (Failed 3%N) /\ e = [EFail w 3%N]
  end.
Proof.
  intros Hi. pose proof Hi as Hm. apply memn_false in Hm. unfold traverse_node. destruct (is_occupied g s i w); [split; [reflexivity|]; split; [apply Astep_refl | apply semiquiet_nil]|].
  set (s1 := set_n s i _). set (s2 := pull_locations g s1 i).
  assert (A2 : Astep s s2) by (eapply Astep_trans; [apply Astep_set_n_other; exact Hi | apply Astep_pull_locations]).
  assert (W2 : ws s2 = ws s) by (unfold s2; rewrite ws_pull_locations; reflexivity).
  destruct (eval_run g s2 i w) as [[[b s3] evs]|] eqn:E.
  - destruct (eval_run_out s2 i w _ _ _ Hi E) as [W3 [A3 Q3]].
    destruct b.
    + destruct (n_objroot (nd g i)); cbn; (split; [congruence|]; split;
        [eapply Astep_trans; [exact A2|]; eapply Astep_trans; [exact A3|]; now apply Astep_set_n_other
        | apply semiquiet_app; [exact Q3|]; intros x [<-|[]]; cbn; exact Hm]).
    + cbn. split; [congruence|]. split; [|exact Q3]. eapply Astep_trans; [exact A2|]. eapply Astep_trans; [exact A3|]. now apply Astep_set_n_other.
  - unfold fail. cbn. exists s2. split; [exact W2|]. split; [exact A2|]. split; reflexivity.
Qed.

Lemma traverse_node_inB s i w : In i C -> Bq s ->
  match traverse_node g s i w with
  | TnAwait _ _ _ => False
  | TnDone s' e => ws s' = ws s /\ Bstep s s' /\ semiquiet e
  | TnFail s' e => exists s2, ws s2 = ws s /\ Bstep s s2 /\ s' = set_phase s2 w (Failed 3%N) /\ e = [EFail w 3%N]
  end.
Proof.
  intros Hi HB. unfold traverse_node. destruct (is_occupied g s i w); [split; [reflexivity|]; split; [apply Astep_Bstep, Astep_refl | apply semiquiet_nil]|].
  set (s1 := set_n s i _). set (s2 := pull_locations g s1 i).
  assert (B2 : Bstep s s2).
  { apply (Bstep_trans s s1 s2); [unfold s1; apply Bstep_set_n_keep; intros x; split; auto | apply Astep_Bstep, Astep_pull_locations]. }
  assert (W2 : ws s2 = ws s) by (unfold s2; rewrite ws_pull_locations; reflexivity).
  assert (HB2 : Bq s2) by now apply (Bq_step s s2).
  destruct (eval_run g s2 i w) as [[[b s3] evs]|] eqn:E.
  - destruct (eval_run_inB s2 i w _ _ _ Hi HB2 E) as [-> [W3 [A3 Q3]]]. cbn. split; [congruence|]. split; [|exact Q3].
    eapply Bstep_trans; [exact B2|]. eapply Bstep_trans; [apply Astep_Bstep; exact A3|]. apply Bstep_set_n_keep. intros x. split; [reflexivity | discriminate].
  - unfold fail. cbn. exists s2. split; [exact W2|]. split; [exact B2|]. split; reflexivity.
Qed.

Lemma traverse_node_inA s i w : In i C -> LenOk g s -> Aq s ->
  match traverse_node g s i w with
  | TnAwait s' e _ => run TA e = TOut
  | TnDone s' e => ws s' = ws s /\ lenq s s' /\ Bq s' /\ run TA e = TB
  | TnFail s' e => run TA e = TOut
  end.
Proof.
  intros Hi HL HA. pose proof Hi as Hm. apply memn_In in Hm. unfold traverse_node. rewrite (not_occupied_A s i w Hi HA).
  set (s1 := set_n s i _). set (s2 := pull_locations g s1 i).
  assert (W2 : ws s2 = ws s) by (unfold s2; rewrite ws_pull_locations; reflexivity).
  (* s2 differs from s on the class only in the started marker of i *)
  assert (R2 : lenq s s2 /\ forall j, In j C -> results (nst s2 j) = [] /\ finished (nst s2 j) = None).
  { assert (R1 : lenq s s1 /\ forall j, In j C -> results (nst s1 j) = [] /\ finished (nst s1 j) = None).
    { split; [apply length_ns_set_n|]. intros j Hj. destruct (HA j Hj) as [A1 [A2 _]]. destruct (HA i Hi) as [I1 [I2 _]].
      unfold s1. destruct (nst_set_n_cases s i (fun x => mkN (Some w) (finished x) (results x) (rerun_off x) (mct_now x) (locs x)) j) as [E|[-> [_ E]]]; rewrite E; cbn; auto. }
    destruct (Astep_pull_locations s1 i) as [L P]. split; [destruct R1 as [R1a _]; unfold lenq in *; unfold s2; rewrite L; exact R1a|]. intros j Hj. destruct (P j Hj) as [P1 [P2 _]].
    destruct (proj2 R1 j Hj) as [Q1 Q2]. fold s2 in P1, P2. split; congruence. }
  (* the decision of a class member in s2: as in an untouched class (the started marker plays no role) *)
  unfold eval_run. destruct (cl_kind HC i Hi) as [Hr [Hd [Hf [Hc [Hst Hs]]]]].
  unfold run_decision. rewrite Hr, Hd, Hf, Hc, Hst. cbn [negb]. destruct (negb (own g w i)); [unfold fail; cbn; reflexivity|].
  assert (Hsub : forall x, In x (class_of g i) -> In x C) by (intros x Hx; now apply (cl_class HC i Hi)).
  assert (Hfin : is_finished g s2 i w (Some 1) = false).
  { unfold is_finished, scoped_count. rewrite Hf, Hs. unfold shared_finished.
    assert (E : flat_map (fun j => opt_list (finished (nst s2 j))) (class_of g i) = []).
    { induction (class_of g i) as [|c l IH]; [reflexivity|]. cbn. destruct (proj2 R2 c (Hsub c (or_introl eq_refl))) as [_ ->]. cbn. apply IH. intros x Hx. apply Hsub. now right. }
    rewrite E. reflexivity. }
  rewrite Hfin. cbn zeta. destruct (scan_missing (nd g i) (pool s2) w) eqn:Em.
  - destruct (n_objroot (nd g i)); cbn; rewrite Hm; reflexivity.
  - assert (E0 : length (filtered_results g s2 i) = 0).
    { unfold filtered_results, filtered_results_as. rewrite Hs. rewrite (shared_results_nil s2 i Hi) by (intros j Hj; apply (proj2 R2 j Hj)). now destruct (started (nst s2 i)). }
    rewrite E0. cbn [Nat.eqb negb andb]. rewrite orb_true_r. cbn. rewrite Hm.
    split; [exact W2|]. split; [unfold lenq, mark_done; rewrite !length_ns_set_n; exact (proj1 R2)|]. split; [|reflexivity].
    assert (Hlt : i < length (ns s2)) by (rewrite (proj1 R2); unfold LenOk in HL; rewrite HL; apply (cl_in HC i Hi)).
    split.
    + exists i. split; [exact Hi|]. unfold mark_done. rewrite nst_set_n_same by (now rewrite length_ns_set_n). cbn. discriminate.
    + intros j Hj. unfold mark_done. rewrite !res_set_n_keep by (intros x; reflexivity). apply (proj2 R2 j Hj).
Qed.

(* ---- pieces that neither scan nor start a member of the class ---- *)
Lemma J_neutral s s' t e : Astep s s' -> (NoRun s -> NoRun s') -> semiquiet e -> J s t -> J s' (run t e).
Proof. intros HS HN Hq H. apply J_semiquiet; [exact Hq|]. now apply (J_Astep s s'). Qed.
Lemma JB_neutral s s' e : Bstep s s' -> (NoRun s -> NoRun s') -> semiquiet e -> J s TB -> J s' (run TB e).
Proof. intros HS HN Hq H. apply J_semiquiet; [exact Hq|]. now apply (JB_Bstep s s'). Qed.
Lemma NoRun_pop s s1 w : ws s1 = ws s -> NoRun s -> NoRun (pop s1 w).
Proof. intros E H. unfold pop. apply NoRun_set_path. now apply (NoRun_ws s s1). Qed.
Lemma NoRun_push s s1 w c : ws s1 = ws s -> NoRun s -> NoRun (push s1 w c).
Proof. intros E H. unfold push. apply NoRun_set_path. now apply (NoRun_ws s s1). Qed.
Lemma NoRun_fail s s1 w c : ws s1 = ws s -> NoRun s -> NoRun (set_phase s1 w (Failed c)).
Proof. intros E H. apply NoRun_set_phase; [exact Logic.I | now apply (NoRun_ws s s1)]. Qed.
Lemma Astep_set_w s w f : Astep s (set_w s w f). Proof. apply Astep_ns. reflexivity. Qed.

Definition jit (s : state) (t : tstate) (r : it_res) : Prop := match r with Cont s' e | Halt s' e => J s' (run t e) end.
Lemma jit_trivial s t r : t = TOut \/ t = TBad -> J s t -> jit s t r.
Proof. intros [->| ->] H; [|destruct H]. destruct r; cbn; rewrite run_out; exact Logic.I. Qed.

Lemma eval_run_neutral s t i w b s' e : J s t -> (t = TA \/ t = TB) -> (t = TA -> ~ In i C) -> eval_run g s i w = Some (b, s', e) ->
  ws s' = ws s /\ Astep s s' /\ semiquiet e.
Proof.
  intros HJ Ht Hpre E. destruct (in_dec Nat.eq_dec i C) as [Hi|Hi]; [|now apply (eval_run_out s i w b s' e Hi)].
  destruct Ht as [->| ->]; [now destruct (Hpre eq_refl)|]. destruct (eval_run_inB s i w b s' e Hi (proj2 HJ) E) as [_ H]. exact H.
Qed.

Lemma after_from_child_j s w next previous t : J s t -> (t = TA -> ~ In next C) -> jit s t (after_from_child g s w next previous).
Proof.
  intros HJ Hpre. destruct t; [| |destruct HJ | apply jit_trivial; auto].
  all: unfold after_from_child; destruct (eval_run g s next w) as [[[b s1] evs]|] eqn:E;
    [ destruct (eval_run_neutral s _ next w b s1 evs HJ ltac:(auto) Hpre E) as [W1 [A1 Q1]]; unfold jit;
      apply (J_neutral s);
      [ eapply Astep_trans; [exact A1|]; apply Astep_ns; destruct b; reflexivity
      | intros HN; apply (NoRun_pop s); [destruct b; [exact W1 | cbn; exact W1] | exact HN]
      | apply semiquiet_app; [exact Q1 | destruct b; sq1]
      | exact HJ ]
    | unfold fail, jit; apply (J_neutral s); [apply Astep_set_w | now apply NoRun_fail | sq1 | exact HJ] ].
Qed.

Lemma after_from_parent_j s w next t : J s t -> (t = TA -> ~ In next C) -> jit s t (after_from_parent g s w next).
Proof.
  intros HJ Hpre. destruct t; [| |destruct HJ | apply jit_trivial; auto].
  all: unfold after_from_parent; destruct (eval_run g s next w) as [[[b s1] evs]|] eqn:E;
    [ destruct (eval_run_neutral s _ next w b s1 evs HJ ltac:(auto) Hpre E) as [W1 [A1 Q1]]
    | unfold fail, jit; apply (J_neutral s); [apply Astep_set_w | now apply NoRun_fail | sq1 | exact HJ] ].
  all: destruct b; [unfold jit; apply (J_neutral s); [eapply Astep_trans; [exact A1 | apply Astep_ns; reflexivity] | intros HN; now apply (NoRun_pop s) | exact Q1 | exact HJ]|].
  all: destruct (cleanup_ready g s1 next w);
    [ set (s2 := fold_left _ (n_parents (nd g next)) s1);
      assert (N2 : ns s2 = ns s1) by apply ns_fold_drop_child;
      assert (W2 : ws s2 = ws s) by (unfold s2; rewrite ws_fold_drop_child; exact W1);
      assert (A2 : Astep s s2) by (eapply Astep_trans; [exact A1 | now apply Astep_ns]);
      destruct (reverse_node g s2 next w) as [[s3 e]|] eqn:Er;
      [ destruct (reverse_node_j s2 next w s3 e Er) as [W3 [Q3 [B3 A3]]]
      | unfold fail, jit; apply (J_neutral s); [eapply Astep_trans; [exact A2 | apply Astep_set_w] | now apply NoRun_fail
          | apply semiquiet_app; [exact Q1 | sq1] | exact HJ] ]
    | destruct (pick_child g s1 next w) as [[c s2]|] eqn:Ep;
      [ pose proof (ns_pick_child _ _ _ _ _ _ Ep) as N2; pose proof (ws_pick_child _ _ _ _ _ _ Ep) as W2; unfold jit;
        apply (J_neutral s); [eapply Astep_trans; [exact A1 | apply Astep_ns; cbn; exact N2] | intros HN; apply (NoRun_push s); [congruence | exact HN]
          | apply semiquiet_app; [exact Q1 | sq1] | exact HJ]
      | unfold fail, jit; apply (J_neutral s); [eapply Astep_trans; [exact A1 | apply Astep_set_w] | now apply NoRun_fail
          | apply semiquiet_app; [exact Q1 | sq1] | exact HJ] ] ].
  - (* TA: next is outside the class *)
    unfold jit. apply (J_neutral s); [eapply Astep_trans; [exact A2|]; eapply Astep_trans; [apply A3; now apply Hpre | apply Astep_ns; reflexivity]
      | intros HN; apply (NoRun_pop s); [congruence | exact HN] | apply semiquiet_app; [exact Q1|]; apply (semiquiet_app [_]); [sq1 | exact Q3] | exact HJ].
  - (* TB *)
    unfold jit. apply (JB_neutral s); [eapply Bstep_trans; [apply Astep_Bstep; exact A2|]; eapply Bstep_trans; [exact B3 | apply Astep_Bstep, Astep_ns; reflexivity]
      | intros HN; apply (NoRun_pop s); [congruence | exact HN] | apply semiquiet_app; [exact Q1|]; apply (semiquiet_app [_]); [sq1 | exact Q3] | exact HJ].
Qed.

(* ---- traverse_node and what follows it ---- *)
Lemma traverse_node_j s i w t (fc : bool) : J s t ->
  match traverse_node g s i w with
  | TnAwait s' e pre => J (set_phase s' w (Running i pre fc (start_uid e))) (run t e)
  | TnDone s' e => J s' (run t e) /\ (run t e = TA -> ~ In i C)
  | TnFail s' e => J s' (run t e)
  end.
Proof.
  intros HJ.
  assert (Hout : ~ In i C ->
    match traverse_node g s i w with
    | TnAwait s' e pre => J (set_phase s' w (Running i pre fc (start_uid e))) (run t e)
    | TnDone s' e => J s' (run t e) /\ (run t e = TA -> ~ In i C)
    | TnFail s' e => J s' (run t e)
    end).
  { intros Hi. pose proof (traverse_node_out s i w Hi) as H. destruct (traverse_node g s i w) as [s' e pre|s' e|s' e].
    - destruct H as [W [A Q]]. apply (J_neutral s); [eapply Astep_trans; [exact A | apply Astep_set_w] | | exact Q | exact HJ].
      intros HN. apply NoRun_set_phase; [exact Hi | now apply (NoRun_ws s s')].
    - destruct H as [W [A Q]]. split; [|intros _; exact Hi]. apply (J_neutral s); auto. intros HN. now apply (NoRun_ws s s').
    - destruct H as [s2 [W [A [-> ->]]]]. apply (J_neutral s); [eapply Astep_trans; [exact A | apply Astep_set_w] | now apply NoRun_fail | sq1 | exact HJ]. }
  destruct t; [| |destruct HJ|].
  - destruct (in_dec Nat.eq_dec i C) as [Hi|Hi]; [|now apply Hout].
    (* untouched class: this is its first examination *)
    destruct HJ as [[HL HN] HA]. pose proof (traverse_node_inA s i w Hi HL HA) as H.
    destruct (traverse_node g s i w) as [s' e pre|s' e|s' e].
    + rewrite H. exact Logic.I.
    + destruct H as [W [L [HB R]]]. rewrite R. split; [|discriminate].
      split; [split; [now apply (LenOk_lenq s s') | now apply (NoRun_ws s s')] | exact HB].
    + rewrite H. exact Logic.I.
  - destruct (in_dec Nat.eq_dec i C) as [Hi|Hi]; [|now apply Hout].
    pose proof (traverse_node_inB s i w Hi (proj2 HJ)) as H.
    destruct (traverse_node g s i w) as [s' e pre|s' e|s' e]; [destruct H| |].
    + destruct H as [W [B Q]]. split; [apply (JB_neutral s); auto; intros HN; now apply (NoRun_ws s s')|].
      rewrite (run_calm_B e (semiquiet_calm e Q)). discriminate.
    + destruct H as [s2 [W [B [-> ->]]]]. apply (JB_neutral s); [eapply Bstep_trans; [exact B | apply Astep_Bstep, Astep_set_w] | now apply NoRun_fail | sq1 | exact HJ].
  - destruct (traverse_node g s i w); rewrite run_out; [exact Logic.I | split; [exact Logic.I | discriminate] | exact Logic.I].
Qed.

Lemma jit_prepend s1 t e r : jit s1 (run t e) r ->
  jit s1 t (match r with Cont s2 e2 => Cont s2 (e ++ e2) | Halt s2 e2 => Halt s2 (e ++ e2) end).
Proof. destruct r; unfold jit; now rewrite run_app. Qed.

Lemma do_traverse_j s w next (fc : bool) previous t : J s t -> jit s t (do_traverse g s w next fc previous).
Proof.
  intros HJ. unfold do_traverse. pose proof (traverse_node_j s next w t fc HJ) as H.
  destruct (traverse_node g s next w) as [s1 e pre|s1 e|s1 e]; [exact H | | exact H].
  destruct H as [HJ1 Hpre].
  assert (Hr : jit s1 (run t e) (if fc then after_from_child g s1 w next previous else after_from_parent g s1 w next))
    by (destruct fc; [now apply after_from_child_j | now apply after_from_parent_j]).
  destruct (if fc then _ else _) as [s2 e2|s2 e2]; unfold jit in *; now rewrite run_app.
Qed.

Lemma iter_j s w t : J s t -> jit s t (iter g s w).
Proof.
  intros HJ. unfold iter.
  assert (Hfail : forall c, jit s t (let '(s1, e) := fail s w c in Halt s1 e)).
  { intros c. unfold fail, jit. apply (J_neutral s); [apply Astep_set_w | now apply NoRun_fail | sq1 | exact HJ]. }
  assert (Hpc : forall n c s1, pick_child g s n w = Some (c, s1) -> jit s t (Cont (push s1 w c) [EPick w n c true])).
  { intros n c s1 Ep. pose proof (ns_pick_child _ _ _ _ _ _ Ep) as N. pose proof (ws_pick_child _ _ _ _ _ _ Ep) as W. unfold jit.
    apply (J_neutral s); [apply Astep_ns; cbn; exact N | intros HN; now apply (NoRun_push s) | sq1 | exact HJ]. }
  assert (Hpp : forall n c s1, pick_parent g s n w = Some (c, s1) -> jit s t (Cont (push s1 w c) [EPick w n c false])).
  { intros n c s1 Ep. pose proof (ns_pick_parent _ _ _ _ _ _ Ep) as N. pose proof (ws_pick_parent _ _ _ _ _ _ Ep) as W. unfold jit.
    apply (J_neutral s); [apply Astep_ns; cbn; exact N | intros HN; now apply (NoRun_push s) | sq1 | exact HJ]. }
  destruct (cleanup_ready g s (g_root g) w).
  - destruct (path (wst s w)) as [|r [|r2 rest]]; [apply Hfail | | apply Hfail].
    destruct (Nat.eqb r (g_root g)); [|apply Hfail]. unfold jit.
    apply (J_neutral s); [apply Astep_set_w | apply NoRun_set_w; intros x _; exact Logic.I | sq1 | exact HJ].
  - destruct (path (wst s w)) as [|next [|previous rest]]; [apply Hfail | |].
    + destruct (pick_child g s next w) as [[c s1]|] eqn:Ep; [now apply Hpc | apply Hfail].
    + destruct (is_occupied g s next w).
      * unfold bounce, jit. cbv zeta.
        match goal with |- J (set_w ?a w ?f) _ => assert (HA : Astep s a) by (destruct (_ && _); [apply Astep_set_n_keep; intros x; repeat split | apply Astep_refl]);
          assert (HW : ws a = ws s) by (destruct (_ && _); reflexivity) end.
        apply (J_neutral s); [eapply Astep_trans; [exact HA | apply Astep_set_w] | | sq1 | exact HJ].
        intros HN. apply NoRun_set_w; [intros x _; exact Logic.I|]. eapply NoRun_ws; [exact HW | exact HN].
      * destruct (memn previous (n_children (nd g next))).
        -- destruct (setup_ready g s next w); [now apply do_traverse_j|].
           destruct (pick_parent g s next w) as [[p s1]|] eqn:Ep; [now apply Hpp | apply Hfail].
        -- destruct (memn previous (n_parents (nd g next))); [|apply Hfail].
           destruct (negb (setup_ready g s next w)); [|now apply do_traverse_j].
           destruct (pick_parent g s next w) as [[p s1]|] eqn:Ep; [now apply Hpp | apply Hfail].
Qed.

Lemma run_loop_j fuel w : forall s t, J s t -> J (fst (run_loop fuel g s w)) (run t (snd (run_loop fuel g s w))).
Proof.
  induction fuel as [|f IH]; intros s t HJ; cbn [run_loop].
  - unfold fail. cbn [fst snd]. apply (J_neutral s); [apply Astep_set_w | now apply NoRun_fail | sq1 | exact HJ].
  - pose proof (iter_j s w t HJ) as H. destruct (iter g s w) as [s1 e|s1 e]; unfold jit in H.
    + specialize (IH s1 _ H). destruct (run_loop f g s1 w) as [s2 e2]. cbn [fst snd] in *. now rewrite run_app.
    + exact H.
Qed.

Lemma continue_j w s t r : jit s t r ->
  let x := match r with Halt s2 e => (s2, e) | Cont s2 e => let '(s3, e3) := run_loop FUEL g s2 w in (s3, e ++ e3) end in
  J (fst x) (run t (snd x)).
Proof.
  intros H. destruct r as [s2 e|s2 e]; unfold jit in H; cbv zeta.
  - pose proof (run_loop_j FUEL w s2 _ H) as HL. destruct (run_loop FUEL g s2 w) as [s3 e3]. cbn [fst snd] in *. now rewrite run_app.
  - exact H.
Qed.

Lemma J_norun s t v : J s t -> t = TA \/ t = TB -> norun (ph (wst s v)).
Proof. intros HJ [->| ->]; destruct HJ as [[_ HN] _]; apply HN. Qed.

Theorem resume_j s w out t : J s t -> J (fst (resume g s w out)) (run t (snd (resume g s w out))).
Proof.
  intros HJ. unfold resume. destruct (ph (wst s w)) as [| next pre fc uid | | |c] eqn:Eph.
  - apply run_loop_j. apply (J_Astep s); [apply Astep_set_w | now apply NoRun_set_phase | exact HJ].
  - assert (Ht : (t = TA \/ t = TB) \/ t = TOut) by (destruct t; auto; destruct HJ).
    destruct Ht as [Ht| ->]; [|rewrite run_out; exact Logic.I].
    assert (Hn : ~ In next C) by (pose proof (J_norun s t w HJ Ht) as H; rewrite Eph in H; exact H).
    cbv zeta. set (s0 := mkS (ws s) (ns s) (r_ps s) (r_pc s) (r_ds s) (r_dc s) (pool s) _).
    set (seen := match find _ (job s0) with Some e => Some (snd e) | None => None end).
    assert (HJ0 : J s0 t) by (apply (J_Astep s s0); [apply Astep_ns; reflexivity | intros HN; now apply (NoRun_ws s s0) | exact HJ]).
    assert (Hcont : forall s1, J s1 t ->
           let s3 := set_phase s1 w Ready in
           let x := match (if fc then after_from_child g s3 w next (hd 0 (tl (path (wst s w)))) else after_from_parent g s3 w next) with
                    | Halt s2 e => (s2, e) | Cont s2 e => let '(s4, e3) := run_loop FUEL g s2 w in (s4, e ++ e3) end in
           J (fst x) (run t (snd x))).
    { intros s1 H1 s3. apply (continue_j w s3 t).
      assert (H3 : J s3 t) by (apply (J_Astep s1); [apply Astep_set_w | now apply NoRun_set_phase | exact H1]).
      destruct fc; [apply after_from_child_j | apply after_from_parent_j]; auto. }
    destruct pre.
    + destruct (run_ok seen).
      * unfold start_run. cbn [fst snd].
        apply (J_neutral s0); [ | | | exact HJ0].
        -- unfold end_pre. eapply Astep_trans; [|apply Astep_set_w]. eapply Astep_trans; [|apply Astep_set_n_other; exact Hn]. apply Astep_set_n_other; exact Hn.
        -- intros HN. apply NoRun_set_phase; [exact Hn | exact HN].
        -- intros x [<-|[]]. cbn. now apply memn_false.
      * match goal with |- context [set_phase (mark_done ?a next w) w Ready] => apply (Hcont (mark_done a next w)) end.
        apply (J_Astep s0); [|intros HN; exact HN | exact HJ0].
        unfold mark_done, end_pre. eapply Astep_trans; [|apply Astep_set_n_other; exact Hn]. eapply Astep_trans; [|apply Astep_set_n_other; exact Hn]. apply Astep_set_n_other; exact Hn.
    + apply (Hcont (mark_done (finish_run g s0 next w seen) next w)).
      apply (J_Astep s0); [|intros HN; apply (NoRun_ws s0); [unfold mark_done, finish_run; destruct seen as [[]|]; reflexivity | exact HN] | exact HJ0].
      unfold mark_done. eapply Astep_trans; [|apply Astep_set_n_other; exact Hn].
      unfold finish_run. destruct seen as [st|]; [|apply Astep_refl].
      destruct st; try (apply Astep_set_n_other; exact Hn); unfold produce; (eapply Astep_trans; [|apply Astep_ns; reflexivity]); apply Astep_set_n_other; exact Hn.
  - apply run_loop_j. apply (J_Astep s); [apply Astep_set_w | now apply NoRun_set_phase | exact HJ].
  - cbn. exact HJ.
  - cbn. exact HJ.
Qed.

Lemma schedule_j sched : forall s t, J s t -> J (fst (run_schedule g s sched)) (run t (concat (snd (run_schedule g s sched)))).
Proof.
  induction sched as [|[w out] r IH]; intros s t HJ; cbn [run_schedule]; [exact HJ|].
  pose proof (resume_j s w out t HJ) as H. destruct (resume g s w out) as [s1 e]. cbn [fst snd] in H.
  specialize (IH s1 _ H). destruct (run_schedule g s1 r) as [s2 es]. cbn [fst snd concat] in *. now rewrite run_app.
Qed.

Lemma J_init p : J (init_state g p) TA.
Proof.
  split; [split|].
  - unfold LenOk, init_state. cbn. apply map_length.
  - intros v. destruct (wst_init g p v) as [E|E]; rewrite E; exact Logic.I.
  - intros j _. rewrite nst_init. repeat split.
Qed.

(* the automaton never reaches TBad *)
Theorem never_bad p sched : run TA (concat (snd (run_schedule g (init_state g p) sched))) <> TBad.
Proof. intros E. pose proof (schedule_j sched _ _ (J_init p)) as H. rewrite E in H. exact H. Qed.

(* ... spelled out: once an examination finds the states of the class present, with nothing having happened to the
   class before and no worker having failed before, no copy of the class is ever executed *)
Theorem present_means_never_executed p sched pre w j post v k u b l :
  concat (snd (run_schedule g (init_state g p) sched)) = pre ++ EScan w j false :: post ->
  In j C -> (forall x, In x pre -> cevb x = false /\ isfail x = false) ->
  In (EStart v k u b l) post -> ~ In k C.
Proof.
  intros E Hj Hpre Hin Hk. apply (never_bad p sched). rewrite E, run_app. rewrite (run_quiet_A pre Hpre). cbn [run fold_left step isfail cevb scanfalse].
  apply memn_In in Hj. rewrite Hj. change (run TB post = TBad).
  apply in_split in Hin. destruct Hin as [l1 [l2 ->]]. rewrite run_app.
  assert (Hx : forall t, t = TB \/ t = TBad -> run t (EStart v k u b l :: l2) = TBad).
  { intros t [->| ->]; cbn; [|apply run_bad]. apply memn_In in Hk. rewrite Hk. apply run_bad. }
  apply Hx. clear Hx E. induction l1 as [|x l1 IH] using rev_ind; [now left|]. rewrite run_app.
  destruct IH as [IH|IH]; rewrite IH; cbn; [destruct (startC x); auto | now right].
Qed.
End Present.

(* ---- the class of a node, with the hypotheses as an executable check ---- *)
Theorem cls_b_sound g i : cls_b g i = true -> cls g (class_of g i).
Proof.
  unfold cls_b. intros H. rewrite forallb_forall in H.
  assert (Hj : forall j, In j (class_of g i) ->
            j < length (g_nodes g) /\ n_root (nd g j) = false /\ n_dry (nd g j) = false /\ n_flat (nd g j) = false /\
            n_cloned (nd g j) = false /\ stateful (nd g j) = true /\ n_scope (nd g j) = Global /\
            set_eq (class_of g j) (class_of g i) = true).
  { intros j Hin. specialize (H j Hin). repeat (apply andb_prop in H; destruct H as [H ?]).
    repeat match goal with Hn : negb _ = true |- _ => apply negb_true_iff in Hn end.
    split; [now apply Nat.ltb_lt|]. repeat (split; [assumption|]). split; [now apply scope_eqb_eq | assumption]. }
  constructor.
  - intros j Hin x. destruct (Hj j Hin) as [_ [_ [_ [_ [_ [_ [_ Hs]]]]]]]. unfold set_eq in Hs. apply andb_prop in Hs. destruct Hs as [S1 S2].
    split; [apply (subset_In _ _ S1) | apply (subset_In _ _ S2)].
  - intros j Hin. apply (Hj j Hin).
  - intros j Hin. destruct (Hj j Hin) as [_ [A [B [D [E [F [G _]]]]]]]. repeat split; assumption.
Qed.

(* C03, second sentence, for the global reuse scope: for every graph, pool population, schedule and outcome assignment and
   any number of workers - if the first thing that happens to the class of i (before any failure of a worker) is an
   examination that finds its states present, then no copy of the class is ever executed *)
Theorem present_setup_never_executed g p sched i pre w j post v k u b l :
  cls_b g i = true ->
  concat (snd (run_schedule g (init_state g p) sched)) = pre ++ EScan w j false :: post ->
  In j (class_of g i) -> (forall x, In x pre -> cevb (class_of g i) x = false /\ isfail x = false) ->
  In (EStart v k u b l) post -> ~ In k (class_of g i).
Proof. intros Hb. apply (present_means_never_executed g (class_of g i) (cls_b_sound g i Hb)). Qed.
