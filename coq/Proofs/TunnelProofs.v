From Coq Require Import List NArith Bool.
Import ListNotations.
From I2N Require Import Model.NetAddr Model.Tunnel.
Local Open Scope N_scope.

Definition valid_types (L : ltype) (R : rtype) (P : ptype) (A : auth) : Prop :=
  L <> LBad /\ R <> RBad /\ P <> PBad /\ A <> AOther.

(* each side's local network is the other side's remote network *)
Theorem net_mirror L R P A v o :
  tunnel L R P A v = Some o ->
  lan_net (left o) = remote_net (right o) /\ lan_net (right o) = remote_net (left o).
Proof.
  unfold tunnel, tunnel_gen. destruct L, R, P, A; cbn; intros H; inversion H; subst; cbn; auto 10.
Qed.

(* peer addresses point at each other (a dynamic-ip left peer has none and is passive) *)
Theorem peer_mirror L R P A v o :
  tunnel L R P A v = Some o ->
  peer_ip (right o) = Some (ip1 v) /\ act (right o) = Always /\
  match P with
  | PIp => peer_ip (left o) = Some (ip2 v) /\ act (left o) = Always
  | _ => peer_ip (left o) = None /\ act (left o) = Passive
  end.
Proof.
  unfold tunnel, tunnel_gen. destruct L, R, P, A; cbn; intros H; inversion H; subst; cbn; auto 10.
Qed.

(* pre-shared-key identities are swapped *)
Theorem psk_swap L R P A v o :
  tunnel L R P A v = Some o ->
  own_id (left o) = foreign_id (right o) /\ foreign_id (left o) = own_id (right o) /\
  match A with
  | APsk p lid rid => key_type o = KPsk /\ psk_word o = Some p /\
                      own_id (left o) = Some (lid, idt lid) /\ own_id (right o) = Some (rid, idt rid)
  | APub => key_type o = KPublic /\ own_id (left o) = None /\ own_id (right o) = None
  | _ => key_type o = KNone /\ own_id (left o) = None /\ own_id (right o) = None
  end.
Proof.
  unfold tunnel, tunnel_gen. destruct L, R, P, A; cbn; intros H; inversion H; subst; cbn; auto 10.
Qed.

(* the derived right-hand configuration is the documented counterpart:
   site (nic/custom) <-> custom, point (internetip) <-> externalip; the right peer is a plain ip peer *)
Definition counterpart_remote (L : ltype) : rtype :=
  match L with LInternet => RExternal | _ => RCustom end.
Definition counterpart_local (L : ltype) (R : rtype) : ltype :=
  match R with
  | RCustom => match L with LCustom => LCustom | _ => LNic end
  | RExternal => LInternet
  | _ => LNic
  end.

Theorem variant_table L R P A v o :
  tunnel L R P A v = Some o ->
  lan_type (left o) = L /\ remote_type (left o) = R /\ peer_type (left o) = P /\
  lan_type (right o) = counterpart_local L R /\
  remote_type (right o) = counterpart_remote L /\ peer_type (right o) = PIp.
Proof.
  unfold tunnel, tunnel_gen. destruct L, R, P, A; cbn; intros H; inversion H; subst; cbn; auto 10.
Qed.

(* unsupported types are rejected, supported ones are accepted *)
Theorem reject_iff L R P A v :
  tunnel L R P A v = None <-> ~ valid_types L R P A.
Proof.
  unfold valid_types, tunnel, tunnel_gen.
  destruct L, R, P, A; cbn; split; intros H; try discriminate; try tauto;
    try (intros (H1 & H2 & H3 & H4); congruence);
    exfalso; apply H; repeat split; discriminate.
Qed.

(* whether a tunnel connects two nodes does not depend on their order, as long as
   no membership test raises (netmask mismatch against a custom end) *)
Theorem connects_sym t a b :
  connects t a b <> TRaise -> connects t b a <> TRaise ->
  connects t a b = connects t b a.
Proof.
  unfold connects, tand.
  destruct (on_side a (lnode t) (lnetc t) (lcustom t));
  destruct (on_side b (rnode t) (rnetc t) (rcustom t));
  destruct (on_side a (rnode t) (rnetc t) (rcustom t));
  destruct (on_side b (lnode t) (lnetc t) (lcustom t)); cbn; congruence.
Qed.

Theorem connects_sym_total t a b :
  (forall x, In x [a; b] -> on_side x (lnode t) (lnetc t) (lcustom t) <> TRaise /\
                            on_side x (rnode t) (rnetc t) (rcustom t) <> TRaise) ->
  connects t a b = connects t b a /\ connects t a b <> TRaise.
Proof.
  intros H. destruct (H a) as [Ha1 Ha2]; [cbn; auto|]. destruct (H b) as [Hb1 Hb2]; [cbn; auto|].
  unfold connects, tand.
  destruct (on_side a (lnode t) (lnetc t) (lcustom t));
  destruct (on_side b (rnode t) (rnetc t) (rcustom t));
  destruct (on_side a (rnode t) (rnetc t) (rcustom t));
  destruct (on_side b (lnode t) (lnetc t) (lcustom t)); cbn; split; congruence.
Qed.

(* ---- the pinned commit violated the mirror and rejected a documented type ---- *)
Definition v0 := mkVals 1 2 3 4 5 6 7 8 9 10 11.

Example net_mirror_refuted_at_pinned_commit :
  exists o, tunnel_pinned LCustom RCustom PIp ANone v0 = Some o /\
            lan_net (left o) = Some (5, 6) /\ remote_net (right o) = None.
Proof. eexists. repeat split. Qed.

Example auth_none_rejected_at_pinned_commit :
  tunnel_pinned LNic RCustom PIp ANoneStr v0 = None.
Proof. reflexivity. Qed.

Example tunnel_example :
  exists o, tunnel LNic RCustom PDyn (APsk 42 0 7) v0 = Some o /\
            lan_net (left o) = Some (1, 2) /\ remote_net (left o) = Some (3, 4) /\
            own_id (left o) = Some (0, IdIP) /\ own_id (right o) = Some (7, IdCustom).
Proof. eexists. repeat split. Qed.
