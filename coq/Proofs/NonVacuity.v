(* Non-vacuity: the hypotheses of the property theorems are met by concrete, harness-exported objects (a real parse of
   'leaves..tutorial_get..implicit_both' on net1 net2 - 25 nodes, two clone sources with two clones each per worker -
   and a synthetic two-worker traversal graph install -> customize (marked for removal) -> t1).  Everything here is
   computed; the same checks run on fresh objects in every check. *)
From Coq Require Import List ZArith NArith Bool Arith PrimFloat.
Import ListNotations.
From I2N Require Import Model.Retry Model.Graph Model.Traverse Model.TraverseRun Proofs.TraverseExcl Proofs.TraverseUid Proofs.TraverseAvail Proofs.TraverseExit Proofs.TraversePresent Proofs.TraverseKeep Proofs.TraverseExitN Proofs.TraverseDefinite Proofs.TraverseSrc Check.Graph.
Local Open Scope nat_scope.

Definition nv_pgraph : pgraph := [(mkGNode 1%N 2%N 3%N (Some 4%N) false false None [4%nat; 5%nat] [(mkGObj 5%N true None None false); (mkGObj 6%N false None None false); (mkGObj 7%N false (Some 8%N) None false); (mkGObj 9%N false None None false); (mkGObj 10%N false None (Some 11%N) false); (mkGObj 12%N false (Some 13%N) None true); (mkGObj 14%N false None None true)] [15%N; 16%N; 17%N] [15%N; 16%N; 17%N] [(1%nat, [7%N]); (2%nat, [10%N])] [] [12%nat] 18%N []); (mkGNode 19%N 20%N 21%N (Some 4%N) false false None [] [(mkGObj 5%N true None None false); (mkGObj 6%N false None None false); (mkGObj 7%N false (Some 22%N) (Some 8%N) false)] [15%N] [15%N] [(10%nat, [7%N])] [(0%nat, [7%N]); (4%nat, [7%N]); (5%nat, [7%N])] [13%nat] 23%N []); (mkGNode 24%N 25%N 26%N (Some 4%N) false false None [] [(mkGObj 5%N true None None false); (mkGObj 6%N false None None false); (mkGObj 7%N false (Some 27%N) None false); (mkGObj 9%N false None None false); (mkGObj 10%N false (Some 28%N) (Some 29%N) false)] [15%N; 16%N] [15%N; 16%N] [(6%nat, [7%N]); (7%nat, [10%N])] [(0%nat, [10%N]); (4%nat, [10%N])] [14%nat] 30%N []); (mkGNode 31%N 32%N 33%N (Some 4%N) false false None [] [(mkGObj 5%N true None None false); (mkGObj 6%N false None None false); (mkGObj 7%N false (Some 27%N) None false); (mkGObj 9%N false None None false); (mkGObj 10%N false (Some 28%N) (Some 34%N) false)] [15%N; 16%N] [15%N; 16%N] [(6%nat, [7%N]); (7%nat, [10%N])] [(5%nat, [10%N])] [15%nat] 35%N []); (mkGNode 36%N 37%N 38%N (Some 4%N) false false None [] [(mkGObj 5%N true None None false); (mkGObj 6%N false None None false); (mkGObj 7%N false (Some 8%N) None false); (mkGObj 9%N false None None false); (mkGObj 10%N false (Some 29%N) (Some 39%N) false); (mkGObj 12%N false (Some 13%N) None true); (mkGObj 14%N false None None true)] [15%N; 16%N; 17%N] [15%N; 16%N; 17%N] [(1%nat, [7%N]); (2%nat, [10%N])] [] [16%nat] 40%N []); (mkGNode 41%N 42%N 43%N (Some 4%N) false false None [] [(mkGObj 5%N true None None false); (mkGObj 6%N false None None false); (mkGObj 7%N false (Some 8%N) None false); (mkGObj 9%N false None None false); (mkGObj 10%N false (Some 34%N) (Some 44%N) false); (mkGObj 12%N false (Some 13%N) None true); (mkGObj 14%N false None None true)] [15%N; 16%N; 17%N] [15%N; 16%N; 17%N] [(1%nat, [7%N]); (3%nat, [10%N])] [] [17%nat] 45%N []); (mkGNode 46%N 47%N 48%N (Some 4%N) false false None [] [(mkGObj 5%N true None None false); (mkGObj 6%N false None None false); (mkGObj 7%N false (Some 22%N) (Some 27%N) false)] [15%N] [15%N] [(10%nat, [7%N])] [(3%nat, [7%N]); (2%nat, [7%N])] [18%nat] 49%N []); (mkGNode 50%N 51%N 52%N (Some 4%N) false false None [] [(mkGObj 5%N true None None false); (mkGObj 9%N false None None false); (mkGObj 10%N false (Some 22%N) (Some 28%N) false)] [16%N] [16%N] [(8%nat, [10%N])] [(3%nat, [10%N]); (2%nat, [10%N])] [19%nat] 53%N []); (mkGNode 54%N 55%N 56%N (Some 4%N) false false None [] [(mkGObj 5%N true None None false); (mkGObj 9%N false None None false); (mkGObj 10%N false (Some 57%N) (Some 22%N) false)] [16%N] [16%N] [(9%nat, [10%N])] [(7%nat, [10%N])] [20%nat] 58%N []); (mkGNode 59%N 60%N 61%N (Some 4%N) false false (Some 10%N) [] [(mkGObj 5%N true None None false); (mkGObj 9%N false None None false); (mkGObj 10%N false None (Some 57%N) false)] [16%N] [16%N] [(24%nat, [10%N])] [(8%nat, [10%N])] [21%nat] 62%N []); (mkGNode 63%N 64%N 65%N (Some 4%N) false false None [] [(mkGObj 5%N true None None false); (mkGObj 6%N false None None false); (mkGObj 7%N false (Some 57%N) (Some 22%N) false)] [15%N] [15%N] [(11%nat, [7%N])] [(6%nat, [7%N]); (1%nat, [7%N])] [22%nat] 66%N []); (mkGNode 67%N 68%N 69%N (Some 4%N) false false (Some 7%N) [] [(mkGObj 5%N true None None false); (mkGObj 6%N false None None false); (mkGObj 7%N false None (Some 57%N) false)] [15%N] [15%N] [(24%nat, [7%N])] [(10%nat, [7%N])] [23%nat] 70%N []); (mkGNode 71%N 72%N 3%N (Some 73%N) false false None [16%nat; 17%nat] [(mkGObj 74%N true None None false); (mkGObj 6%N false None None false); (mkGObj 7%N false (Some 8%N) None false); (mkGObj 9%N false None None false); (mkGObj 10%N false None (Some 11%N) false); (mkGObj 12%N false (Some 13%N) None true); (mkGObj 14%N false None None true)] [15%N; 16%N; 17%N] [15%N; 16%N; 17%N] [(13%nat, [7%N]); (14%nat, [10%N])] [] [0%nat] 18%N []); (mkGNode 75%N 76%N 21%N (Some 73%N) false false None [] [(mkGObj 74%N true None None false); (mkGObj 6%N false None None false); (mkGObj 7%N false (Some 22%N) (Some 8%N) false)] [15%N] [15%N] [(22%nat, [7%N])] [(12%nat, [7%N]); (16%nat, [7%N]); (17%nat, [7%N])] [1%nat] 23%N []); (mkGNode 77%N 78%N 26%N (Some 73%N) false false None [] [(mkGObj 74%N true None None false); (mkGObj 6%N false None None false); (mkGObj 7%N false (Some 27%N) None false); (mkGObj 9%N false None None false); (mkGObj 10%N false (Some 28%N) (Some 29%N) false)] [15%N; 16%N] [15%N; 16%N] [(18%nat, [7%N]); (19%nat, [10%N])] [(12%nat, [10%N]); (16%nat, [10%N])] [2%nat] 30%N []); (mkGNode 79%N 80%N 33%N (Some 73%N) false false None [] [(mkGObj 74%N true None None false); (mkGObj 6%N false None None false); (mkGObj 7%N false (Some 27%N) None false); (mkGObj 9%N false None None false); (mkGObj 10%N false (Some 28%N) (Some 34%N) false)] [15%N; 16%N] [15%N; 16%N] [(18%nat, [7%N]); (19%nat, [10%N])] [(17%nat, [10%N])] [3%nat] 35%N []); (mkGNode 81%N 82%N 38%N (Some 73%N) false false None [] [(mkGObj 74%N true None None false); (mkGObj 6%N false None None false); (mkGObj 7%N false (Some 8%N) None false); (mkGObj 9%N false None None false); (mkGObj 10%N false (Some 29%N) (Some 39%N) false); (mkGObj 12%N false (Some 13%N) None true); (mkGObj 14%N false None None true)] [15%N; 16%N; 17%N] [15%N; 16%N; 17%N] [(13%nat, [7%N]); (14%nat, [10%N])] [] [4%nat] 40%N []); (mkGNode 83%N 84%N 43%N (Some 73%N) false false None [] [(mkGObj 74%N true None None false); (mkGObj 6%N false None None false); (mkGObj 7%N false (Some 8%N) None false); (mkGObj 9%N false None None false); (mkGObj 10%N false (Some 34%N) (Some 44%N) false); (mkGObj 12%N false (Some 13%N) None true); (mkGObj 14%N false None None true)] [15%N; 16%N; 17%N] [15%N; 16%N; 17%N] [(13%nat, [7%N]); (15%nat, [10%N])] [] [5%nat] 45%N []); (mkGNode 85%N 86%N 48%N (Some 73%N) false false None [] [(mkGObj 74%N true None None false); (mkGObj 6%N false None None false); (mkGObj 7%N false (Some 22%N) (Some 27%N) false)] [15%N] [15%N] [(22%nat, [7%N])] [(15%nat, [7%N]); (14%nat, [7%N])] [6%nat] 49%N []); (mkGNode 87%N 88%N 52%N (Some 73%N) false false None [] [(mkGObj 74%N true None None false); (mkGObj 9%N false None None false); (mkGObj 10%N false (Some 22%N) (Some 28%N) false)] [16%N] [16%N] [(20%nat, [10%N])] [(15%nat, [10%N]); (14%nat, [10%N])] [7%nat] 53%N []); (mkGNode 89%N 90%N 56%N (Some 73%N) false false None [] [(mkGObj 74%N true None None false); (mkGObj 9%N false None None false); (mkGObj 10%N false (Some 57%N) (Some 22%N) false)] [16%N] [16%N] [(21%nat, [10%N])] [(19%nat, [10%N])] [8%nat] 58%N []); (mkGNode 91%N 92%N 61%N (Some 73%N) false false (Some 10%N) [] [(mkGObj 74%N true None None false); (mkGObj 9%N false None None false); (mkGObj 10%N false None (Some 57%N) false)] [16%N] [16%N] [(24%nat, [10%N])] [(20%nat, [10%N])] [9%nat] 62%N []); (mkGNode 93%N 94%N 65%N (Some 73%N) false false None [] [(mkGObj 74%N true None None false); (mkGObj 6%N false None None false); (mkGObj 7%N false (Some 57%N) (Some 22%N) false)] [15%N] [15%N] [(23%nat, [7%N])] [(18%nat, [7%N]); (13%nat, [7%N])] [10%nat] 66%N []); (mkGNode 95%N 96%N 69%N (Some 73%N) false false (Some 7%N) [] [(mkGObj 74%N true None None false); (mkGObj 6%N false None None false); (mkGObj 7%N false None (Some 57%N) false)] [15%N] [15%N] [(24%nat, [7%N])] [(22%nat, [7%N])] [11%nat] 70%N []); (mkGNode 97%N 98%N 99%N None true true None [] [] [] [] [] [(9%nat, [10%N]); (11%nat, [7%N]); (21%nat, [10%N]); (23%nat, [7%N])] [] 100%N [])].
Definition nv_ranks : list nat := [5%nat; 3%nat; 4%nat; 4%nat; 5%nat; 5%nat; 3%nat; 3%nat; 2%nat; 1%nat; 2%nat; 1%nat; 5%nat; 3%nat; 4%nat; 4%nat; 5%nat; 5%nat; 3%nat; 3%nat; 2%nat; 1%nat; 2%nat; 1%nat; 0%nat].
Definition nv_workers : list N := [4%N; 73%N].

(* C06 / C07 / C09: the verified checkers accept it, and the interesting cases occur in it *)
Example nv_wf : wf_graph nv_pgraph nv_ranks = true.
Proof. vm_compute. reflexivity. Qed.
Example nv_names : nodup_names nv_pgraph = true.
Proof. vm_compute. reflexivity. Qed.
Example nv_copies : c09_ok (nv_pgraph, nv_workers) = true.
Proof. vm_compute. reflexivity. Qed.
Example nv_has_clone_sources : length (filter (fun n => match gn_clones n with [] => false | _ => true end) nv_pgraph) = 2.
Proof. vm_compute. reflexivity. Qed.
Example nv_has_required_states :
  existsb (fun n => negb (gn_flat n) && existsb (fun o => match go_get o with Some _ => negb (go_net o) && negb (go_given o) | None => false end) (gn_objs n)) nv_pgraph = true.
Proof. vm_compute. reflexivity. Qed.
Example nv_has_bridges : existsb (fun n => match gn_bridged n with [] => false | _ => true end) nv_pgraph = true.
Proof. vm_compute. reflexivity. Qed.

(* traversal: a complete run of two workers in which every kind of event of the theorems occurs *)
Definition nv_graph : graph := (mkGraph [(mkNode false false true false false [0%nat] 1%N 1%N [6%nat] [1%nat] [3%nat] [(6%nat, [1%N])] Global [0%nat] [0%nat] (Some 0%nat) (mkCfg false false false false None None []) None (1)%Z (100)%Z (0x1.9000000000000p+6)%float (0x1.999999999999ap-4)%float (10)%Z 0%N true true [(mkObj 2%N true None None 1%N false true); (mkObj 3%N false None None 1%N false true); (mkObj 1%N false (Some 1%N) None 1%N false true)] 0%nat); (mkNode false false false false false [0%nat] 2%N 2%N [0%nat] [2%nat] [4%nat] [(0%nat, [1%N])] Global [0%nat] [0%nat] (Some 0%nat) (mkCfg false false false false None None []) None (1)%Z (100)%Z (0x1.9000000000000p+6)%float (0x1.999999999999ap-4)%float (10)%Z 0%N true true [(mkObj 2%N true None None 1%N false true); (mkObj 3%N false None None 1%N false true); (mkObj 1%N false (Some 2%N) (Some 1%N) 0%N false true)] 5%nat); (mkNode false false false false false [0%nat] 3%N 3%N [1%nat] [] [5%nat] [(1%nat, [1%N])] Global [0%nat] [0%nat] (Some 0%nat) (mkCfg false false false false None None []) None (1)%Z (100)%Z (0x1.9000000000000p+6)%float (0x1.999999999999ap-4)%float (10)%Z 0%N true true [(mkObj 2%N true None None 1%N false true); (mkObj 3%N false None None 1%N false true); (mkObj 1%N false None (Some 2%N) 1%N false true)] 2%nat); (mkNode false false true false false [1%nat] 1%N 1%N [6%nat] [4%nat] [0%nat] [(6%nat, [1%N])] Global [1%nat] [0%nat] (Some 1%nat) (mkCfg false false false false None None []) None (1)%Z (100)%Z (0x1.9000000000000p+6)%float (0x1.999999999999ap-4)%float (10)%Z 0%N true true [(mkObj 4%N true None None 1%N false true); (mkObj 3%N false None None 1%N false true); (mkObj 1%N false (Some 1%N) None 1%N false true)] 1%nat); (mkNode false false false false false [1%nat] 2%N 2%N [3%nat] [5%nat] [1%nat] [(3%nat, [1%N])] Global [1%nat] [0%nat] (Some 1%nat) (mkCfg false false false false None None []) None (1)%Z (100)%Z (0x1.9000000000000p+6)%float (0x1.999999999999ap-4)%float (10)%Z 0%N true true [(mkObj 4%N true None None 1%N false true); (mkObj 3%N false None None 1%N false true); (mkObj 1%N false (Some 2%N) (Some 1%N) 0%N false true)] 6%nat); (mkNode false false false false false [1%nat] 3%N 3%N [4%nat] [] [2%nat] [(4%nat, [1%N])] Global [1%nat] [0%nat] (Some 1%nat) (mkCfg false false false false None None []) None (1)%Z (100)%Z (0x1.9000000000000p+6)%float (0x1.999999999999ap-4)%float (10)%Z 0%N true true [(mkObj 4%N true None None 1%N false true); (mkObj 3%N false None None 1%N false true); (mkObj 1%N false None (Some 2%N) 1%N false true)] 3%nat); (mkNode true true false false false [] 4%N 4%N [] [0%nat; 3%nat] [] [] Global [] [] None (mkCfg false true false false None None []) None (1)%Z (100)%Z (0x1.9000000000000p+6)%float (0x1.999999999999ap-4)%float (10)%Z 0%N true true [] 4%nat)] [(mkWorker 0%nat true [] [0%nat]); (mkWorker 0%nat true [] [1%nat])] 6%nat).
Definition nv_sched : list (nat * option status) :=
  [(0, None); (1, None); (0, Some SPass); (0, Some SPass); (0, Some SPass); (0, Some SPass); (1, None); (1, Some SPass); (1, None); (1, None); (0, None); (1, None)].
Definition nv_events : list event := concat (snd (run_schedule nv_graph (init_state nv_graph []) nv_sched)).
Definition is_start e := match e with EStart _ _ _ _ _ => true | _ => false end.
Definition is_prestart e := match e with EStart _ _ _ true _ => true | _ => false end.
Definition is_unset e := match e with EDoor _ _ true (_ :: _) => true | _ => false end.
Definition is_bounce e := match e with EBounce _ _ _ _ => true | _ => false end.
Definition is_scan e := match e with EScan _ _ _ => true | _ => false end.
Definition is_exit e := match e with EExit _ => true | _ => false end.
Definition is_fail e := match e with EFail _ _ => true | _ => false end.

Example nv_gwf : gwf_b nv_graph = true.
Proof. vm_compute. reflexivity. Qed.
Example nv_run_has_all_kinds :
  (2 <=? length (filter is_start nv_events)) && existsb is_prestart nv_events && existsb is_unset nv_events &&
  existsb is_bounce nv_events && existsb is_scan nv_events && negb (existsb is_fail nv_events) = true.
Proof. vm_compute. reflexivity. Qed.

(* retries: one worker, install -> t1 with max_tries = 3 rerun on fail; t1 (a class without object root) fails twice
   and then passes: three executions with the identifiers 0, 1, 2 (premises of C10_identifiers_strictly_increase) *)
Definition nv_graph3 : graph := (mkGraph [(mkNode false false true false false [0%nat] 1%N 1%N [2%nat] [1%nat] [] [(2%nat, [1%N])] Global [0%nat] [0%nat] (Some 0%nat) (mkCfg false false false false None None []) None (1)%Z (100)%Z (0x1.9000000000000p+6)%float (0x1.999999999999ap-4)%float (10)%Z 0%N true true [(mkObj 2%N true None None 1%N false true); (mkObj 3%N false None None 1%N false true); (mkObj 1%N false (Some 1%N) None 1%N false true)] 0%nat); (mkNode false false false false false [0%nat] 2%N 2%N [0%nat] [] [] [(0%nat, [1%N])] Global [0%nat] [0%nat] (Some 0%nat) (mkCfg false false false false (Some (Some (3)%Z)) (Some [(Some SFail)]) []) None (3)%Z (100)%Z (0x1.2c00000000000p+8)%float (0x1.3333333333333p-2)%float (30)%Z 0%N true true [(mkObj 2%N true None None 1%N false true); (mkObj 3%N false None None 1%N false true); (mkObj 1%N false None (Some 1%N) 1%N false true)] 1%nat); (mkNode true true false false false [] 3%N 3%N [] [0%nat] [] [] Global [] [] None (mkCfg false true false false None None []) None (1)%Z (100)%Z (0x1.9000000000000p+6)%float (0x1.999999999999ap-4)%float (10)%Z 0%N true true [] 2%nat)] [(mkWorker 0%nat true [] [0%nat])] 2%nat).
Definition nv_sched3 : list (nat * option status) :=
  [(0, None); (0, Some SPass); (0, Some SPass); (0, Some SFail); (0, Some SFail); (0, Some SPass); (0, None)].
Example nv_retries :
  flat_map (fun evs => flat_map (fun e => match e with EStart _ 1 u false _ => [u] | _ => [] end) evs)
           (snd (run_schedule nv_graph3 (init_state nv_graph3 []) nv_sched3)) = [0; 1; 2] /\
  forallb (fun k => negb (n_objroot (nd nv_graph3 k))) (class_of nv_graph3 1) = true.
Proof. vm_compute. split; reflexivity. Qed.
(* the same run meets the premises of C03_stateless_executions_within_budget and reaches the bound: t1 saves no state,
   its budget is 3, it was executed 3 times *)
Example nv_budget_reached :
  stateful (nd nv_graph3 1) = false /\ I2N.Proofs.TraverseUid.budget nv_graph3 1 = 3 /\
  length (I2N.Proofs.TraverseUid.node_uids 1 (snd (run_schedule nv_graph3 (init_state nv_graph3 []) nv_sched3))) = 3.
Proof. vm_compute. repeat split. Qed.

(* ... and executions that are started with a worker's pool named as a source (premise of C08_named_sources_are_producers) *)
Example nv_named_source :
  existsb (fun e => match e with EStart _ _ _ _ l => existsb (fun x => match snd x with Some _ => true | None => false end) l | _ => false end)
          nv_events = true.
Proof. vm_compute. reflexivity. Qed.

(* the single-worker graph meets the hypotheses of C01_available_at_start_single_worker, and in its run the test t1
   (node 1) is started with its parent (install, node 0) ordinary, own and with its state in the own pool *)
Example nv_simple :
  simple_b nv_graph3 = true /\
  memn 0 (n_parents (nd nv_graph3 1)) = true /\ own nv_graph3 0 0 = true /\ n_flat (nd nv_graph3 0) = false /\
  (let r := run_schedule nv_graph3 (init_state nv_graph3 []) [(0, None); (0, Some SPass); (0, Some SPass)] in
   existsb (fun e => match e with EStart 0 1 _ false _ => true | _ => false end) (last (snd r) []) = true /\
   forallb (fun x => I2N.Proofs.TraverseAvail.vis (fst r) x) (I2N.Proofs.TraverseAvail.setstates (nd nv_graph3 0)) = true /\
   negb (match I2N.Proofs.TraverseAvail.setstates (nd nv_graph3 0) with [] => true | _ => false end) = true).
Proof. vm_compute. repeat split. Qed.

(* the hypotheses of C02_exit_means_every_reachable_test_was_dealt_with are met: the single-worker graph is simple, its run
   ends with the exit event, and both of its tests (install, node 0, and the leaf t1, node 1) are reached from the root *)
Example nv_exit :
  simple_b nv_graph3 = true /\
  In (EExit 0) (concat (snd (run_schedule nv_graph3 (init_state nv_graph3 []) [(0, None); (0, Some SPass); (0, Some SPass); (0, Some SPass)]))) /\
  reach nv_graph3 0 /\ reach nv_graph3 1 /\ stateful (nd nv_graph3 1) = false.
Proof.
  split; [vm_compute; reflexivity|]. split; [vm_compute; tauto|].
  assert (O0 : ordinary nv_graph3 0) by (vm_compute; repeat split; auto).
  assert (O1 : ordinary nv_graph3 1) by (vm_compute; repeat split; auto).
  assert (R0 : reach nv_graph3 0) by (apply reach_first; [vm_compute; tauto | exact O0]).
  split; [exact R0|]. split; [|reflexivity]. apply (reach_next nv_graph3 0 1 R0); [vm_compute; tauto | exact O1].
Qed.

(* the hypotheses of C02_no_path_errors are met by the exported two-worker graph and by the single-worker one *)
Example nv_pwf : pwf_b nv_graph = true /\ pwf_b nv_graph3 = true.
Proof. vm_compute. split; reflexivity. Qed.

(* the hypotheses of C03_present_setup_never_executed are met: with the install state already in the shared pool the first
   thing that happens to the class of node 0 is the examination EScan 0 0 false, preceded only by picks and a drop; the
   test t1 (node 1) is still executed afterwards, node 0 is not *)
Example nv_present :
  cls_b nv_graph3 0 = true /\
  exists pre post,
    concat (snd (run_schedule nv_graph3 (init_state nv_graph3 [(None, [(1%N, 1%N)])]) [(0, None); (0, Some SPass); (0, Some SPass)]))
      = pre ++ EScan 0 0 false :: post /\
    forallb (fun x => negb (cevb (class_of nv_graph3 0) x) && negb (isfail x)) pre = true /\
    existsb (fun x => match x with EStart 0 1 _ _ _ => true | _ => false end) post = true.
Proof.
  split; [vm_compute; reflexivity|].
  exists [EPick 0 2 0 true; EPick 0 0 2 false; EDropParent 0 0 2].
  eexists. split; [vm_compute; reflexivity|]. split; vm_compute; reflexivity.
Qed.

(* the hypotheses of C05_unmarked_states_persist are met: the install state (1, 1) of the single-worker graph is not marked
   for removal; it is absent before the run and in the worker's own pool after the second section *)
Example nv_keep :
  unmarked_b nv_graph3 (1%N, 1%N) = true /\
  has_state (pool (init_state nv_graph3 [])) (Some 0) (1%N, 1%N) = false /\
  has_state (pool (fst (run_schedule nv_graph3 (init_state nv_graph3 []) [(0, None); (0, Some SPass); (0, Some SPass)]))) (Some 0) (1%N, 1%N) = true.
Proof. vm_compute. repeat split. Qed.

(* the hypotheses of C02_exit_means_done_any_workers are met by the exported two-worker graph: it satisfies ewf_b, both
   workers exit in the run nv_sched, and worker 1's copy of the leaf test (node 5) is reached from the root through its
   install (3) and customize (4) copies - worker 1 never executed it itself, worker 0 did *)
Example nv_exitN :
  ewf_b nv_graph = true /\
  In (EExit 1) nv_events /\ reachN nv_graph 1 5 /\ stateful (nd nv_graph 5) = false /\
  existsb (fun e => match e with EStart 1 _ _ _ _ => true | _ => false end) nv_events = false.
Proof.
  split; [vm_compute; reflexivity|]. split; [vm_compute; tauto|].
  assert (O3 : ordinaryN nv_graph 1 3) by (vm_compute; repeat split; auto).
  assert (O4 : ordinaryN nv_graph 1 4) by (vm_compute; repeat split; auto).
  assert (O5 : ordinaryN nv_graph 1 5) by (vm_compute; repeat split; auto).
  assert (R3 : reachN nv_graph 1 3) by (apply reachN_first; [vm_compute; tauto | exact O3]).
  assert (R4 : reachN nv_graph 1 4) by (apply (reachN_next nv_graph 1 3 4 R3); [vm_compute; tauto | exact O4]).
  split; [apply (reachN_next nv_graph 1 4 5 R4); [vm_compute; tauto | exact O5]|]. split; vm_compute; reflexivity.
Qed.

(* the hypotheses of C02_exit_means_definite_result are met by the exported two-worker run: every awaited test reports, nobody
   is running at the end, worker 1 has exited, its copy of the leaf test (node 5) is reached, saves no state, no copy is an
   object root - and the class carries worker 0's PASS *)
Example nv_definite :
  all_definite_b nv_graph (init_state nv_graph []) nv_sched = true /\
  none_running_b (fst (run_schedule nv_graph (init_state nv_graph []) nv_sched)) = true /\
  forallb (fun k => negb (n_objroot (nd nv_graph k))) (class_of nv_graph 5) = true /\
  map r_status (shared_results nv_graph (fst (run_schedule nv_graph (init_state nv_graph []) nv_sched)) 5) = [SPass].
Proof. vm_compute. repeat split. Qed.

(* the hypotheses of C01_named_sources_hold_the_states are met: in the single-worker run the test t1 (node 1) is started
   with worker 0 named as a source of the install state, which is unmarked and in worker 0's own pool *)
Example nv_sources :
  fw_ok_b nv_graph3 = true /\ fw_ok_b nv_graph = true /\
  (let r := run_schedule nv_graph3 (init_state nv_graph3 []) [(0, None); (0, Some SPass); (0, Some SPass)] in
   existsb (fun e => match e with EStart 0 1 _ false l => existsb (fun x => match snd x with Some 0 => true | _ => false end) l | _ => false end) (last (snd r) []) = true /\
   has_state (pool (fst r)) (Some 0) (1%N, 1%N) = true) /\
  unmarked_b nv_graph3 (1%N, 1%N) = true.
Proof. vm_compute. repeat split. Qed.
