From Coq Require Import List Arith Bool Lia.
Import ListNotations.
From I2N Require Import Model.Bridge.

Lemma memn_In x l : memn x l = true <-> In x l.
Proof.
  unfold memn. rewrite existsb_exists. split.
  - intros [y [Hy E]]. apply Nat.eqb_eq in E. now subst.
  - intros H. exists x. split; [exact H | apply Nat.eqb_refl].
Qed.

(* one bridging step of an already bridged node n with b: n keeps its registers, b gets them, everybody
   holding r before still holds r, and the nodes linked to n all hold r *)
Lemma bridge_step s n b r :
  n <> b -> links s n <> [] -> refs s n = r -> (forall x, In x (links s n) -> refs s x = r) ->
  let s' := bridge s n b in
  refs s' n = r /\ refs s' b = r /\ links s' n <> [] /\
  (forall x, In x (links s' n) -> refs s' x = r) /\ (forall m, refs s m = r -> refs s' m = r).
Proof.
  intros Hnb Hl Hr Hlinks. cbn zeta. unfold bridge.
  assert (E : Nat.eqb n b = false) by now apply Nat.eqb_neq. rewrite E.
  destruct (memn b (links s n)) eqn:Em.
  - apply memn_In in Em. repeat split; auto.
  - destruct (links s n) as [|l0 lr] eqn:El; [contradiction|]. cbn [refs links].
    assert (Hkeep : forall m, refs s m = r -> (if Nat.eqb m b || memn m (links s b) then refs s n else refs s m) = r).
    { intros m Hm. destruct (Nat.eqb m b || memn m (links s b)); congruence. }
    assert (Hb : (if Nat.eqb b b || memn b (links s b) then refs s n else refs s b) = r).
    { rewrite Nat.eqb_refl. cbn. exact Hr. }
    split; [now apply Hkeep|]. split; [exact Hb|]. rewrite Nat.eqb_refl. split.
    + destruct lr; discriminate.
    + split; [|exact Hkeep]. intros x Hx. apply in_app_or in Hx. destruct Hx as [Hx|[<-|[]]].
      * apply Hkeep. apply Hlinks. exact Hx.
      * exact Hb.
Qed.

(* C09: a freshly parsed node bridged with every node of its form - whatever those nodes shared or
   did not share before - ends with the whole class on one set of registers *)
Theorem join_unifies s n a rest :
  links s n = [] -> ~ In n (a :: rest) ->
  let s' := join s n (a :: rest) in
  refs s' n = refs s a /\ forall m, In m (a :: rest) -> refs s' m = refs s a.
Proof.
  intros Hfresh Hn. cbn zeta. unfold join. cbn [fold_left].
  assert (Hna : n <> a) by (intros ->; apply Hn; now left).
  set (r := refs s a). set (s1 := bridge s n a).
  assert (H1 : refs s1 n = r /\ refs s1 a = r /\ links s1 n <> [] /\ (forall x, In x (links s1 n) -> refs s1 x = r)).
  { unfold s1, bridge. assert (E : Nat.eqb n a = false) by now apply Nat.eqb_neq. rewrite E, Hfresh. cbn [memn existsb refs links].
    rewrite Nat.eqb_refl. assert (E2 : Nat.eqb a n = false) by (apply Nat.eqb_neq; congruence). rewrite E2.
    repeat split; auto; [discriminate|]. intros x [<-|[]]. now rewrite E2. }
  destruct H1 as [Hrn [Hra [Hl Hlinks]]].
  assert (Hgen : forall l st, ~ In n l -> refs st n = r -> links st n <> [] -> (forall x, In x (links st n) -> refs st x = r) ->
            let st' := fold_left (fun st m => bridge st n m) l st in
            refs st' n = r /\ (forall m, In m l -> refs st' m = r) /\ (forall m, refs st m = r -> refs st' m = r)).
  { induction l as [|b l IH]; intros st Hnl Hr Hne Hls; cbn [fold_left].
    - repeat split; auto. intros m [].
    - assert (Hnb : n <> b) by (intros ->; apply Hnl; now left).
      destruct (bridge_step st n b r Hnb Hne Hr Hls) as [B1 [B2 [B3 [B4 B5]]]].
      destruct (IH (bridge st n b) (fun H => Hnl (or_intror H)) B1 B3 B4) as [I1 [I2 I3]].
      split; [exact I1|]. split.
      + intros m [<-|Hm]; [now apply I3 | now apply I2].
      + intros m Hm. now apply I3, B5. }
  destruct (Hgen rest s1 (fun H => Hn (or_intror H)) Hrn Hl Hlinks) as [G1 [G2 G3]].
  split; [exact G1|]. intros m [<-|Hm]; [now apply G3 | now apply G2].
Qed.

(* the all-pairs loop of the update tool unifies a class too (instance with four nodes) *)
Example all_pairs_4 : let s := all_pairs binit [1; 2; 3; 4] in
  refs s 1 = refs s 2 /\ refs s 2 = refs s 3 /\ refs s 3 = refs s 4.
Proof. vm_compute. auto. Qed.

(* the behaviour that was repaired: a second equivalent test of the same worker that is already in the
   graph but not bridged yet (6) pulls the joining node (3) away from the class {1, 2} *)
Example old_bridging_separates :
  let s0 := bridge_old binit 1 2 in                       (* worker 1: the two equivalent tests are bridged *)
  let s1 := fold_left (fun st m => bridge_old st 3 m) [1; 2; 6] s0 in
  let s2 := fold_left (fun st m => bridge_old st 6 m) [1; 2; 3] s1 in
  refs s2 3 <> refs s2 1 /\ In 1 (links s2 3).
Proof. vm_compute. split; [discriminate | auto]. Qed.

Example new_bridging_unifies :
  let s0 := bridge binit 1 2 in
  let s1 := join s0 3 [1; 2; 6] in
  let s2 := join s1 6 [1; 2; 3] in
  refs s2 3 = refs s2 1 /\ refs s2 6 = refs s2 1 /\ refs s2 2 = refs s2 1.
Proof. vm_compute. auto. Qed.

(* ---- the all-pairs loop of the update tool, for every class and every earlier bridging state in which the
        first node agrees with the nodes it is linked to ---- *)
Definition row (s : bstate) (a : nat) (l : list nat) : bstate := fold_left (fun st b => bridge st a b) l s.

Lemma bridge_uniform (S : list nat) r s a b :
  In a S -> In b S -> (forall n, In n S -> refs s n = r) -> forall n, In n S -> refs (bridge s a b) n = r.
Proof.
  intros Ha Hb Hu n Hn. unfold bridge.
  destruct (Nat.eqb a b); [now apply Hu|]. destruct (memn b (links s a)); [now apply Hu|].
  destruct (links s a); cbn [refs].
  - destruct (Nat.eqb n a); [now apply Hu | now apply Hu].
  - destruct (Nat.eqb n b || memn n (links s b)); now apply Hu.
Qed.

Lemma row_uniform (S : list nat) r a l : In a S -> (forall b, In b l -> In b S) ->
  forall s, (forall n, In n S -> refs s n = r) -> forall n, In n S -> refs (row s a l) n = r.
Proof.
  intros Ha. unfold row. induction l as [|b l IH]; intros Hl s Hu; cbn [fold_left]; [exact Hu|].
  apply IH; [intros x Hx; apply Hl; now right|]. apply bridge_uniform; auto. apply Hl. now left.
Qed.

Lemma rows_uniform (S : list nat) r l rows : (forall b, In b l -> In b S) -> (forall a, In a rows -> In a S) ->
  forall s, (forall n, In n S -> refs s n = r) ->
  forall n, In n S -> refs (fold_left (fun st a => fold_left (fun st' b => bridge st' a b) l st) rows s) n = r.
Proof.
  intros Hl. induction rows as [|a rows IH]; intros Hr s Hu; cbn [fold_left]; [exact Hu|].
  apply IH; [intros x Hx; apply Hr; now right|].
  apply (row_uniform S r a l); auto. apply Hr. now left.
Qed.

Definition rowinv (a : nat) (st : bstate) (P : list nat) : Prop :=
  (forall x, In x (links st a) -> refs st x = refs st a) /\
  (forall m, In m P -> refs st m = refs st a) /\
  (links st a = [] -> forall m, In m P -> m = a).

Lemma first_row a l : forall st P, rowinv a st P -> rowinv a (row st a l) (P ++ l).
Proof.
  unfold row. induction l as [|b l IH]; intros st P HJ; cbn [fold_left].
  - now rewrite app_nil_r.
  - replace (P ++ b :: l) with ((P ++ [b]) ++ l) by now rewrite <- app_assoc.
    apply IH. destruct HJ as [J1 [J2 J3]]. unfold rowinv.
    destruct (Nat.eq_dec a b) as [<-|Hab].
    + assert (E : bridge st a a = st) by (unfold bridge; now rewrite Nat.eqb_refl). rewrite E.
      split; [exact J1|]. split.
      * intros m Hm. apply in_app_or in Hm. destruct Hm as [Hm|[<-|[]]]; auto.
      * intros Hl m Hm. apply in_app_or in Hm. destruct Hm as [Hm|[<-|[]]]; auto.
    + destruct (memn b (links st a)) eqn:Em.
      * assert (E : bridge st a b = st).
        { unfold bridge. assert (E0 : Nat.eqb a b = false) by now apply Nat.eqb_neq. now rewrite E0, Em. }
        rewrite E. apply memn_In in Em. split; [exact J1|]. split.
        -- intros m Hm. apply in_app_or in Hm. destruct Hm as [Hm|[<-|[]]]; auto.
        -- intros Hl. rewrite Hl in Em. destruct Em.
      * destruct (links st a) as [|l0 lr] eqn:El.
        -- (* a is not bridged yet: it adopts b's registers *)
           unfold bridge. assert (E0 : Nat.eqb a b = false) by now apply Nat.eqb_neq. rewrite E0, El. cbn [memn existsb].
           cbn [refs links]. rewrite Nat.eqb_refl.
           assert (E1 : Nat.eqb b a = false) by (apply Nat.eqb_neq; congruence).
           split; [|split].
           ++ intros x [<-|[]]. now rewrite E1.
           ++ intros m Hm. apply in_app_or in Hm. destruct Hm as [Hm|[<-|[]]].
              ** rewrite (J3 eq_refl m Hm). now rewrite Nat.eqb_refl.
              ** now rewrite E1.
           ++ intros Hc. discriminate Hc.
        -- (* a is bridged: it keeps its registers and b's side adopts them *)
           assert (Hne : links st a <> []) by (rewrite El; discriminate).
           assert (Hls : forall x, In x (links st a) -> refs st x = refs st a) by (rewrite El; exact J1).
           destruct (bridge_step st a b (refs st a) Hab Hne eq_refl Hls) as [B1 [B2 [B3 [B4 B5]]]].
           split; [|split].
           ++ intros x Hx. rewrite B1. now apply B4.
           ++ intros m Hm. rewrite B1. apply in_app_or in Hm. destruct Hm as [Hm|[<-|[]]]; [|exact B2].
              apply B5. now apply J2.
           ++ intros Hc. contradiction.
Qed.

Theorem all_pairs_unifies s a rest :
  (forall y, In y (links s a) -> refs s y = refs s a) ->
  let s' := all_pairs s (a :: rest) in forall m, In m (a :: rest) -> refs s' m = refs s' a.
Proof.
  intros Hs. cbn zeta. set (l := a :: rest). set (s1 := fold_left (fun st' b => bridge st' a b) l s).
  change (all_pairs s l) with (fold_left (fun st a0 => fold_left (fun st' b => bridge st' a0 b) l st) rest s1).
  assert (H1 : rowinv a s1 ([] ++ l)).
  { apply (first_row a l s []). split; [exact Hs|]. split; [intros m []|intros _ m []]. }
  destruct H1 as [_ [H1 _]]. cbn [app] in H1.
  assert (Hu : forall n, In n l -> refs (fold_left (fun st a0 => fold_left (fun st' b => bridge st' a0 b) l st) rest s1) n = refs s1 a).
  { apply (rows_uniform l (refs s1 a) l rest); auto. intros x Hx. now right. }
  intros m Hm. rewrite (Hu m Hm). symmetry. apply Hu. now left.
Qed.
