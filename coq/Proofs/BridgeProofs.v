From Coq Require Import List Arith Bool Lia.
Import ListNotations.
From I2N Require Import Model.Bridge.

Lemma bridge_refs_other s a b n : n <> a -> refs (bridge s a b) n = refs s n.
Proof.
  intros H. unfold bridge. destruct (Nat.eqb a b); [reflexivity|]. destruct (memn b (links s a)); [reflexivity|].
  cbn. destruct (Nat.eqb n a) eqn:E; [apply Nat.eqb_eq in E; contradiction | reflexivity].
Qed.

Lemma join_refs_other s n cls m : m <> n -> refs (join s n cls) m = refs s m.
Proof.
  unfold join. revert s. induction cls as [|c r IH]; intros s H; cbn; [reflexivity|].
  rewrite IH by exact H. now apply bridge_refs_other.
Qed.

Lemma bridge_links_new s a b : a <> b -> memn b (links s a) = false ->
  refs (bridge s a b) a = refs s b /\ memn b (links (bridge s a b) a) = true.
Proof.
  intros Hne Hm. unfold bridge. assert (E : Nat.eqb a b = false) by now apply Nat.eqb_neq. rewrite E, Hm. cbn.
  rewrite Nat.eqb_refl. split; [reflexivity|]. unfold memn. rewrite existsb_app. cbn. now rewrite Nat.eqb_refl, orb_true_r.
Qed.

Lemma bridge_links_other s a b x : x <> b -> memn x (links (bridge s a b) a) = memn x (links s a).
Proof.
  intros Hx. unfold bridge. destruct (Nat.eqb a b); [reflexivity|]. destruct (memn b (links s a)); [reflexivity|].
  cbn. rewrite Nat.eqb_refl. unfold memn. rewrite existsb_app. cbn.
  assert (E : Nat.eqb x b = false) by now apply Nat.eqb_neq. rewrite E. now rewrite orb_false_r.
Qed.

(* C09: when a new node joins a class whose members all point to the same registers, it ends up
   pointing to them too, and the members are unaffected: the whole class shares its visit counters *)
Theorem join_shares s n cls r :
  ~ In n cls -> NoDup cls -> cls <> [] ->
  (forall m, In m cls -> refs s m = r) -> (forall m, In m cls -> memn m (links s n) = false) ->
  refs (join s n cls) n = r /\ forall m, In m cls -> refs (join s n cls) m = r.
Proof.
  intros Hn Hnd Hne Hr Hl. split.
  - unfold join. revert s Hr Hl. induction cls as [|c rest IH]; intros s Hr Hl; [contradiction|]. cbn.
    assert (Hcn : n <> c) by (intros ->; apply Hn; now left).
    destruct (bridge_links_new s n c Hcn (Hl c (or_introl eq_refl))) as [H1 H2].
    destruct rest as [|c2 rest2].
    + cbn. rewrite H1. apply Hr. now left.
    + apply IH.
      * intros H. apply Hn. now right.
      * now inversion Hnd.
      * discriminate.
      * intros m Hm. rewrite bridge_refs_other; [apply Hr; now right|]. intros ->. apply Hn. now right.
      * intros m Hm. rewrite bridge_links_other; [apply Hl; now right|]. inversion Hnd as [|? ? Hni _]; subst.
        intros ->. contradiction.
  - intros m Hm. rewrite join_refs_other; [now apply Hr|]. intros ->. contradiction.
Qed.

(* the all-pairs loop of the update tool unifies a class too (instance with four nodes) *)
Example all_pairs_4 : let s := all_pairs binit [1; 2; 3; 4] in
  (refs s 1, refs s 2, refs s 3, refs s 4) = (4, 4, 4, 4).
Proof. vm_compute. reflexivity. Qed.

(* ... but an arbitrary order of bridge calls does NOT: this is why only the two patterns the code
   uses are claimed *)
Example bridge_order_matters :
  let s := bridge (bridge (bridge binit 1 2) 3 4) 1 3 in refs s 1 <> refs s 2.
Proof. vm_compute. discriminate. Qed.
