(* C01 for the plain sequential configuration, over every schedule: with one worker, no bridged copies, no state
   marked for removal, no permanent-object installs and the own and shared pools in scope, every execution is started
   only when each of its (own, ordinary) parents is SETTLED - all the states the parent sets are in the worker's own
   or the shared pool, or the parent has results - and a PASS result of a parent always comes with its states in the
   own pool.  So a test starts with its required state available unless its producer was attempted and did not pass.
   (The multi-worker statement is false: see the known findings.)  The hypotheses are an executable check (simple_b)
   evaluated on the exported single-worker graphs. *)
From Coq Require Import List ZArith NArith Bool Arith Lia PrimFloat.
Import ListNotations.
From I2N Require Import Model.Retry Model.Traverse Model.TraverseRun Proofs.TraverseProofs Proofs.TraverseInv
                        Proofs.TraverseExcl Proofs.TraverseLoc Proofs.TraverseUid.
Local Open Scope nat_scope.

(* ---- what "available" means: worker 0's own pool or the shared pool ---- *)
Definition vis (s : state) (x : N * N) : bool := has_state (pool s) (Some 0) x || has_state (pool s) None x.
Definition setstates (n : node) : list (N * N) :=
  flat_map (fun o => match o_set o with Some st => if o_net o then [] else [(o_id o, st)] | None => [] end) (n_objs n).
Definition Settled (g : graph) (s : state) (p : nat) : Prop :=
  (forall x, In x (setstates (nd g p)) -> vis s x = true) \/ results (nst s p) <> [].
Definition plain (g : graph) (p : nat) : Prop :=
  n_flat (nd g p) = false /\ n_dry (nd g p) = false /\ n_cloned (nd g p) = false /\ n_root (nd g p) = false.

(* ---- hypotheses on the graph ---- *)
Record simple (g : graph) : Prop := mkSimple {
  sg_one : length (g_workers g) = 1;
  sg_nobridge : forall i, n_bridged (nd g i) = [];
  sg_nounset : forall i o, In o (n_objs (nd g i)) -> (o_unset o =? 0)%N = false;
  sg_noperm : forall i o, In o (n_objs (nd g i)) -> o_perm_install o = false;
  sg_scope : forall i, n_own_in_scope (nd g i) = true /\ n_shared_in_scope (nd g i) = true;
  sg_forms : forall p p', p < length (g_nodes g) -> p' < length (g_nodes g) -> n_form (nd g p) = n_form (nd g p') -> p = p';
  sg_form0 : forall p, p < length (g_nodes g) -> n_form (nd g p) <> 0%N;
  sg_parents : forall i par, i < length (g_nodes g) -> In par (n_parents (nd g i)) -> par < length (g_nodes g);
  sg_cfg : forall i, dry (n_cfg (nd g i)) = n_dry (nd g i) /\ flat (n_cfg (nd g i)) = n_flat (nd g i) /\
                     cloned (n_cfg (nd g i)) = n_cloned (nd g i)
}.

(* ---- growth: what never shrinks in such a run ---- *)
Definition grow (s s' : state) : Prop :=
  pm s s' /\
  (forall l x, has_state (pool s) l x = true -> has_state (pool s') l x = true) /\
  (forall k, results (nst s k) <> [] -> results (nst s' k) <> []) /\
  (forall k, finished (nst s k) <> None -> finished (nst s' k) <> None) /\
  (forall key v, In v (reg_workers (r_ds s) key) -> In v (reg_workers (r_ds s') key)).

Lemma grow_refl s : grow s s.
Proof. split; [apply pm_refl|]. repeat split; auto. Qed.
Lemma grow_trans a b c : grow a b -> grow b c -> grow a c.
Proof.
  intros [A1 [A2 [A3 [A4 A5]]]] [B1 [B2 [B3 [B4 B5]]]]. split; [eapply pm_trans; eauto|]. repeat split; auto.
Qed.

Lemma vis_grow s s' x : grow s s' -> vis s x = true -> vis s' x = true.
Proof.
  intros [_ [H _]] Hv. unfold vis in *. apply orb_true_iff in Hv. apply orb_true_iff. destruct Hv as [Hv|Hv]; [left | right]; now apply H.
Qed.
Lemma Settled_grow g s s' p : grow s s' -> Settled g s p -> Settled g s' p.
Proof.
  intros Hg [H|H]; [left; intros x Hx; apply (vis_grow s s' x Hg); now apply H | right].
  destruct Hg as [_ [_ [H3 _]]]. now apply H3.
Qed.

(* ---- the invariant ---- *)
Record AInv (g : graph) (s : state) : Prop := mkAInv {
  (* a PASS result of a node comes with its states in the own pool *)
  ai_pass : forall p r, In r (results (nst s p)) -> r_status r = SPass -> forall x, In x (setstates (nd g p)) -> vis s x = true;
  (* a node that was finished (run, or found not to need a run) is settled *)
  ai_fin : forall p, finished (nst s p) <> None -> plain g p -> own g 0 p = true -> Settled g s p;
  (* a parent that was dropped is settled *)
  ai_drop : forall rid f v, In v (reg_workers (r_ds s) (rid, f)) ->
              exists p, n_form (nd g p) = f /\ (plain g p -> own g 0 p = true -> Settled g s p)
}.

(* growth steps that do not touch results / finished / pool / drops keep the invariant *)
Lemma AInv_grow_same g s s' :
  grow s s' ->
  (forall k, results (nst s' k) = results (nst s k)) -> (forall k, finished (nst s' k) = finished (nst s k)) ->
  r_ds s' = r_ds s -> AInv g s -> AInv g s'.
Proof.
  intros Hg Hr Hf Hd [A C D]. constructor.
  - intros p r Hin Hs x Hx. rewrite Hr in Hin. apply (vis_grow s s' x Hg). now apply (A p r).
  - intros p Hp Hpl Ho. rewrite Hf in Hp. apply (Settled_grow g s s' p Hg). now apply C.
  - intros rid f v Hv. rewrite Hd in Hv. destruct (D rid f v Hv) as [p [E H]]. exists p. split; [exact E|].
    intros Hpl Ho. apply (Settled_grow g s s' p Hg). now apply H.
Qed.

(* state steps *)
Definition astep (g : graph) (s s' : state) : Prop := grow s s' /\ (AInv g s -> AInv g s').
Lemma astep_refl g s : astep g s s.
Proof. split; [apply grow_refl | auto]. Qed.
Lemma astep_trans g a b c : astep g a b -> astep g b c -> astep g a c.
Proof. intros [A1 A2] [B1 B2]. split; [eapply grow_trans; eauto | auto]. Qed.

Lemma grow_same_parts s s' : ns s' = ns s -> pool s' = pool s -> r_ds s' = r_ds s -> grow s s'.
Proof.
  intros Hn Hp Hd. split; [unfold pm, nst; rewrite Hn; split; [reflexivity | auto]|].
  unfold nst. rewrite Hn, Hp, Hd. repeat split; auto.
Qed.
Lemma astep_same_parts g s s' : ns s' = ns s -> pool s' = pool s -> r_ds s' = r_ds s -> astep g s s'.
Proof.
  intros Hn Hp Hd. split; [now apply grow_same_parts|]. apply AInv_grow_same; [now apply grow_same_parts | | | exact Hd];
    intros k; unfold nst; now rewrite Hn.
Qed.

(* updates of one node that keep its results and its finished flag *)
Definition keepsRF (f : nstate -> nstate) : Prop := forall x, results (f x) = results x /\ finished (f x) = finished x.
Lemma nst_set_n_keep s i f k : keepsRF f -> results (nst (set_n s i f) k) = results (nst s k) /\ finished (nst (set_n s i f) k) = finished (nst s k).
Proof.
  intros Hk. destruct (nst_set_n_cases s i f k) as [E|[-> [_ E]]]; rewrite E; [split; reflexivity | apply Hk].
Qed.
Lemma astep_set_n_keep g s i f : keepsRF f -> astep g s (set_n s i f).
Proof.
  intros Hk.
  assert (Hg : grow s (set_n s i f)).
  { split; [apply pm_set_n; intros x r Hr _; destruct (Hk x) as [E _]; now rewrite E|].
    split; [auto|]. split; [intros k Hne; destruct (nst_set_n_keep s i f k Hk) as [E _]; now rewrite E|].
    split; [intros k Hne; destruct (nst_set_n_keep s i f k Hk) as [_ E]; now rewrite E | auto]. }
  split; [exact Hg|]. apply AInv_grow_same; [exact Hg | | | reflexivity]; intros k; now destruct (nst_set_n_keep s i f k Hk).
Qed.
Ltac keepsRF_tac := let x := fresh "x" in intros x; split; reflexivity.

Lemma astep_run_decision g s i w b sc s' : run_decision g s i w = Some (b, sc, s') -> astep g s s'.
Proof.
  unfold run_decision. intros H.
  repeat match type of H with
         | (if ?c then _ else _) = _ => destruct c
         | match ?x with _ => _ end = _ => destruct x eqn:?
         end; try discriminate; injection H as _ _ <-; try apply astep_refl; apply astep_set_n_keep; keepsRF_tac.
Qed.
Lemma astep_eval_run g s i w b s' e : eval_run g s i w = Some (b, s', e) -> astep g s s'.
Proof.
  unfold eval_run. destruct (run_decision g s i w) as [[[b0 sc] s0]|] eqn:E; [|discriminate].
  intros H. injection H as _ <- _. eapply astep_run_decision; eauto.
Qed.
Lemma astep_pull_locations g s i : astep g s (pull_locations g s i).
Proof. unfold pull_locations. destruct (n_flat (nd g i)); [apply astep_refl|]. apply astep_set_n_keep. keepsRF_tac. Qed.

(* ---- pools ---- *)
Lemma loc_eqb_eq a b : loc_eqb a b = true <-> a = b.
Proof.
  destruct a as [x|], b as [y|]; cbn; split; try congruence; try discriminate.
  - intros H. apply Nat.eqb_eq in H. now subst.
  - intros H. injection H as ->. apply Nat.eqb_refl.
Qed.
Lemma pool_get_upd p l f l' :
  pool_get (pool_upd p l f) l' = if loc_eqb l l' then f (pool_get p l) else pool_get p l'.
Proof.
  induction p as [|[k v] r IH]; cbn.
  - destruct (loc_eqb l l'); reflexivity.
  - destruct (loc_eqb k l) eqn:E1.
    + apply loc_eqb_eq in E1. subst k. cbn. destruct (loc_eqb l l') eqn:E2; [reflexivity|]. reflexivity.
    + cbn. destruct (loc_eqb k l') eqn:E2.
      * apply loc_eqb_eq in E2. subst k. destruct (loc_eqb l l') eqn:E3; [|reflexivity].
        apply loc_eqb_eq in E3. subst l'. rewrite (proj2 (loc_eqb_eq l l) eq_refl) in E1. discriminate.
      * exact IH.
Qed.
Lemma has_state_In p l x : has_state p l x = true <-> exists y, In y (pool_get p l) /\ pair_eqb x y = true.
Proof. unfold has_state. apply existsb_exists. Qed.
Lemma pair_eqb_refl x : pair_eqb x x = true.
Proof. unfold pair_eqb. now rewrite !N.eqb_refl. Qed.
Lemma pair_eqb_eq x y : pair_eqb x y = true -> x = y.
Proof.
  unfold pair_eqb. intros H. apply andb_true_iff in H. destruct H as [A B]. apply N.eqb_eq in A. apply N.eqb_eq in B.
  destruct x, y; cbn in *; congruence.
Qed.

(* a pool update whose function only adds keeps every state *)
Lemma has_state_upd_mono p l f :
  (forall old y, In y old -> In y (f old)) -> forall l' x, has_state p l' x = true -> has_state (pool_upd p l f) l' x = true.
Proof.
  intros Hf l' x H. apply has_state_In in H. destruct H as [y [Hy E]]. apply has_state_In. exists y. split; [|exact E].
  rewrite pool_get_upd. destruct (loc_eqb l l') eqn:El; [|exact Hy]. apply loc_eqb_eq in El. subst l'. now apply Hf.
Qed.

Lemma fold_add_keeps (sts : list (N * N)) : forall acc y, In y acc ->
  In y (fold_left (fun acc x => if existsb (pair_eqb x) acc then acc else acc ++ [x]) sts acc).
Proof.
  induction sts as [|x r IH]; intros acc y H; cbn; [exact H|]. apply IH. destruct (existsb (pair_eqb x) acc); [exact H | apply in_or_app; now left].
Qed.
Lemma fold_add_has (sts : list (N * N)) : forall acc x, In x sts ->
  existsb (pair_eqb x) (fold_left (fun acc x => if existsb (pair_eqb x) acc then acc else acc ++ [x]) sts acc) = true.
Proof.
  induction sts as [|y r IH]; intros acc x H; [destruct H|]. cbn. destruct H as [->|H]; [|now apply IH].
  destruct (existsb (pair_eqb x) acc) eqn:E.
  - apply existsb_exists in E. destruct E as [z [Hz Ez]]. apply existsb_exists. exists z. split; [now apply fold_add_keeps | exact Ez].
  - apply existsb_exists. exists x. split; [apply fold_add_keeps; apply in_or_app; right; now left | apply pair_eqb_refl].
Qed.

Lemma produce_grow g s i w : forall l x, has_state (pool s) l x = true -> has_state (pool (produce g s i w)) l x = true.
Proof. intros l x. unfold produce. cbn. apply has_state_upd_mono. intros old y. apply fold_add_keeps. Qed.
Lemma produce_has g s i : forall x, In x (setstates (nd g i)) -> vis (produce g s i 0) x = true.
Proof.
  intros x Hx. unfold vis. apply orb_true_iff. left. unfold produce, has_state. cbn. rewrite pool_get_upd.
  rewrite (proj2 (loc_eqb_eq (Some 0) (Some 0)) eq_refl). now apply fold_add_has.
Qed.

(* ---- results ---- *)
Lemma In_remove_first_unknown_inv l i r : In r (remove_first_unknown l i) -> In r l.
Proof.
  induction l as [|x t IH]; cbn; [auto|].
  destruct (status_eqb (r_status x) SUnknown && Nat.eqb (r_node x) i && negb (r_prev x)); [intros H; now right|].
  intros [->|H]; [now left | right; now apply IH].
Qed.
Lemma In_replace_first_unknown_inv l i st r : In r (replace_first_unknown l i st) -> In r l \/ r = mkR i st false.
Proof.
  induction l as [|x t IH]; cbn; [intros [<-|[]]; now right|].
  destruct (status_eqb (r_status x) SUnknown && Nat.eqb (r_node x) i && negb (r_prev x)).
  - intros H. apply in_app_or in H. destruct H as [H|[<-|[]]]; [left; now right | now right].
  - intros [->|H]; [left; now left|]. destruct (IH H) as [A|A]; [left; now right | now right].
Qed.
Lemma replace_first_unknown_nonempty l i st : replace_first_unknown l i st <> [].
Proof.
  induction l as [|x t IH]; cbn; [discriminate|].
  destruct (status_eqb (r_status x) SUnknown && Nat.eqb (r_node x) i && negb (r_prev x)); [|discriminate].
  destruct t; discriminate.
Qed.

(* the general form of a result update of node i: the new list keeps the PASS entries, is not empty, and every new
   PASS entry comes with the node's states visible in the new state *)
Lemma astep_results g s s' i (newres : list result -> list result) :
  (forall k, k <> i -> nst s' k = nst s k) ->
  (i < length (ns s) -> results (nst s' i) = newres (results (nst s i)) /\ finished (nst s' i) = finished (nst s i)) ->
  (length (ns s) <= i -> nst s' i = nst s i) ->
  length (ns s') = length (ns s) -> r_ds s' = r_ds s ->
  (forall l x, has_state (pool s) l x = true -> has_state (pool s') l x = true) ->
  (forall l r, In r l -> r_status r = SPass -> In r (newres l)) ->
  (forall l, newres l <> []) ->
  (forall l r, In r (newres l) -> r_status r = SPass -> In r l \/ forall x, In x (setstates (nd g i)) -> vis s' x = true) ->
  astep g s s'.
Proof.
  intros Hoth Hi Hov Hlen Hds Hpool Hkeep Hne Hnew.
  assert (Hres : forall k r, In r (results (nst s k)) -> r_status r = SPass -> In r (results (nst s' k))).
  { intros k r Hr Hs. destruct (Nat.eq_dec k i) as [->|Hk]; [|now rewrite (Hoth k Hk)].
    destruct (Nat.lt_ge_cases i (length (ns s))) as [Hl|Hl]; [destruct (Hi Hl) as [E _]; rewrite E; now apply Hkeep | now rewrite (Hov Hl)]. }
  assert (Hg : grow s s').
  { split; [split; assumption|]. split; [exact Hpool|]. split; [|split].
    - intros k Hk. destruct (Nat.eq_dec k i) as [->|Hki]; [|now rewrite (Hoth k Hki)].
      destruct (Nat.lt_ge_cases i (length (ns s))) as [Hl|Hl]; [destruct (Hi Hl) as [E _]; rewrite E; apply Hne | now rewrite (Hov Hl)].
    - intros k Hk. destruct (Nat.eq_dec k i) as [->|Hki]; [|now rewrite (Hoth k Hki)].
      destruct (Nat.lt_ge_cases i (length (ns s))) as [Hl|Hl]; [destruct (Hi Hl) as [_ E]; now rewrite E | now rewrite (Hov Hl)].
    - now rewrite Hds. }
  split; [exact Hg|]. intros [A C D]. constructor.
  - intros p r Hin Hs x Hx. destruct (Nat.eq_dec p i) as [->|Hp].
    + destruct (Nat.lt_ge_cases i (length (ns s))) as [Hl|Hl].
      * destruct (Hi Hl) as [E _]. rewrite E in Hin. destruct (Hnew _ r Hin Hs) as [Hold|Hv]; [|now apply Hv].
        apply (vis_grow s s' x Hg). now apply (A i r).
      * rewrite (Hov Hl) in Hin. apply (vis_grow s s' x Hg). now apply (A i r).
    + rewrite (Hoth p Hp) in Hin. apply (vis_grow s s' x Hg). now apply (A p r).
  - intros p Hp Hpl Ho. apply (Settled_grow g s s' p Hg). apply C; [|exact Hpl | exact Ho].
    destruct (Nat.eq_dec p i) as [->|Hpi]; [|now rewrite <- (Hoth p Hpi)].
    destruct (Nat.lt_ge_cases i (length (ns s))) as [Hl|Hl]; [destruct (Hi Hl) as [_ E]; now rewrite <- E | now rewrite <- (Hov Hl)].
  - intros rid f v Hv. rewrite Hds in Hv. destruct (D rid f v Hv) as [p [E H]]. exists p. split; [exact E|].
    intros Hpl Ho. apply (Settled_grow g s s' p Hg). now apply H.
Qed.

(* appending a non-PASS entry *)
Lemma astep_append g s i r (f : nstate -> nstate) :
  r_status r <> SPass -> (forall x, results (f x) = results x ++ [r] /\ finished (f x) = finished x) -> astep g s (set_n s i f).
Proof.
  intros Hr Hf. apply (astep_results g s (set_n s i f) i (fun l => l ++ [r])).
  - intros k Hk. apply nst_set_n_other. congruence.
  - intros Hl. rewrite nst_set_n_same by exact Hl. apply Hf.
  - intros Hl. unfold nst, set_n. cbn. rewrite !nth_overflow; try reflexivity; rewrite ?length_upd_nth; exact Hl.
  - apply length_ns_set_n.
  - reflexivity.
  - auto.
  - intros l r' H _. apply in_or_app. now left.
  - intros l. destruct l; discriminate.
  - intros l r' H Hs. apply in_app_or in H. destruct H as [H|[<-|[]]]; [now left | contradiction].
Qed.

(* the awaited test reports: the placeholder is replaced; a PASS puts the node's states into worker 0's own pool *)
Lemma astep_finish_run g s i out : astep g s (finish_run g s i 0 out).
Proof.
  unfold finish_run. destruct out as [st|]; [|apply astep_refl].
  set (f := fun x => mkN (started x) (finished x) (replace_first_unknown (results x) i st) (rerun_off x) (mct_now x) (locs x)).
  set (s1 := set_n s i f).
  set (s2 := match st with SPass => produce g s1 i 0 | _ => s1 end).
  assert (Hns : ns s2 = ns s1) by (unfold s2; destruct st; reflexivity).
  assert (Hds : r_ds s2 = r_ds s) by (unfold s2; destruct st; reflexivity).
  assert (Hpool : forall l x, has_state (pool s) l x = true -> has_state (pool s2) l x = true).
  { intros l x H. unfold s2. destruct st; try exact H. now apply produce_grow. }
  change (astep g s s2). apply (astep_results g s s2 i (fun l => replace_first_unknown l i st)).
  - intros k Hk. unfold nst. rewrite Hns. apply nst_set_n_other. congruence.
  - intros Hl. unfold nst. rewrite Hns. fold (nst s1 i). unfold s1. rewrite nst_set_n_same by exact Hl. split; reflexivity.
  - intros Hl. unfold nst. rewrite Hns. unfold s1, set_n. cbn. rewrite !nth_overflow; try reflexivity; rewrite ?length_upd_nth; exact Hl.
  - rewrite Hns. apply length_ns_set_n.
  - exact Hds.
  - exact Hpool.
  - intros l r. apply In_replace_first_unknown.
  - intros l. apply replace_first_unknown_nonempty.
  - intros l r Hin Hs. destruct (In_replace_first_unknown_inv l i st r Hin) as [H| ->]; [now left|]. right. cbn in Hs. subst st.
    intros x Hx. unfold s2. now apply produce_has.
Qed.

(* the node is marked finished by worker 0: it has to be settled *)
Lemma astep_mark_done g s i : (plain g i -> own g 0 i = true -> Settled g s i) -> astep g s (mark_done s i 0).
Proof.
  intros HS. unfold mark_done. set (f := fun x => mkN None (Some 0) (results x) (rerun_off x) (mct_now x) (locs x)).
  assert (Hres : forall k, results (nst (set_n s i f) k) = results (nst s k)).
  { intros k. destruct (nst_set_n_cases s i f k) as [E|[-> [_ E]]]; rewrite E; reflexivity. }
  assert (Hg : grow s (set_n s i f)).
  { split; [apply pm_set_n; intros x r Hr _; exact Hr|]. split; [auto|]. split; [intros k; now rewrite Hres|]. split; [|auto].
    intros k Hk. destruct (nst_set_n_cases s i f k) as [E|[-> [_ E]]]; rewrite E; [exact Hk | discriminate]. }
  split; [exact Hg|]. intros [A C D]. constructor.
  - intros p r Hin Hs x Hx. rewrite Hres in Hin. apply (vis_grow _ _ x Hg). now apply (A p r).
  - intros p Hp Hpl Ho. apply (Settled_grow g s _ p Hg).
    destruct (nst_set_n_cases s i f p) as [E|[-> [_ E]]]; [rewrite E in Hp; now apply C | now apply HS].
  - intros rid fo v Hv. destruct (D rid fo v Hv) as [p [E H]]. exists p. split; [exact E|]. intros Hpl Ho.
    apply (Settled_grow g s _ p Hg). now apply H.
Qed.

(* the creation pre-step ends: its placeholder goes and, in the same section, another entry comes *)
Lemma astep_end_pre_append g s i r (f : nstate -> nstate) :
  r_status r <> SPass -> (forall x, results (f x) = results x ++ [r] /\ finished (f x) = finished x) ->
  astep g s (set_n (end_pre s i) i f).
Proof.
  intros Hr Hf. apply (astep_results g s _ i (fun l => remove_first_unknown l i ++ [r])).
  - intros k Hk. rewrite nst_set_n_other by congruence. unfold end_pre. apply nst_set_n_other. congruence.
  - intros Hl. assert (Hl' : i < length (ns (end_pre s i))) by (unfold end_pre; now rewrite length_ns_set_n).
    rewrite nst_set_n_same by exact Hl'. destruct (Hf (nst (end_pre s i) i)) as [E1 E2]. rewrite E1, E2.
    unfold end_pre. rewrite nst_set_n_same by exact Hl. split; reflexivity.
  - intros Hl. unfold nst, set_n, end_pre, set_n. cbn. rewrite !nth_overflow; try reflexivity; rewrite ?length_upd_nth; exact Hl.
  - rewrite length_ns_set_n. unfold end_pre. apply length_ns_set_n.
  - reflexivity.
  - auto.
  - intros l r' H Hs. apply in_or_app. left. now apply In_remove_first_unknown.
  - intros l. destruct (remove_first_unknown l i); discriminate.
  - intros l r' H Hs. apply in_app_or in H. destruct H as [H|[<-|[]]]; [left; now apply (In_remove_first_unknown_inv l i) | contradiction].
Qed.

(* ---- drops ---- *)
Lemma key_eqb_eq a b : key_eqb a b = true -> a = b.
Proof.
  unfold key_eqb. intros H. apply andb_true_iff in H. destruct H as [A B]. apply N.eqb_eq in A. apply N.eqb_eq in B.
  destruct a, b; cbn in *; congruence.
Qed.
Lemma cnt_add_fst l w v : In v (map fst (cnt_add l w)) <-> In v (map fst l) \/ v = w.
Proof.
  induction l as [|[w' c] t IH]; cbn; [intuition|].
  destruct (Nat.eqb w' w) eqn:E; cbn.
  - apply Nat.eqb_eq in E. subst w'. intuition.
  - rewrite IH. intuition.
Qed.
Lemma key_eqb_refl k : key_eqb k k = true.
Proof. unfold key_eqb. now rewrite !N.eqb_refl. Qed.
Lemma reg_workers_add r k w k' v :
  In v (reg_workers (reg_add r k w) k') <-> In v (reg_workers r k') \/ (k' = k /\ v = w).
Proof.
  unfold reg_workers. induction r as [|[k0 l] t IH]; cbn.
  - destruct (key_eqb k k') eqn:E; cbn.
    + apply key_eqb_eq in E. subst k'. split; [intros [<-|[]]; right; now split | intros [[]|[_ ->]]; now left].
    + split; [intros []|]. intros [[]|[-> _]]. rewrite key_eqb_refl in E. discriminate.
  - destruct (key_eqb k0 k) eqn:E0; cbn.
    + apply key_eqb_eq in E0. subst k0. destruct (key_eqb k k') eqn:E1.
      * apply key_eqb_eq in E1. subst k'. rewrite cnt_add_fst. split; [intros [H|H]; [now left | right; now split] | intros [H|[_ H]]; [now left | now right]].
      * split; [now left|]. intros [H|[-> _]]; [exact H|]. rewrite key_eqb_refl in E1. discriminate.
    + destruct (key_eqb k0 k') eqn:E1.
      * split; [now left|]. intros [H|[-> _]]; [exact H|]. apply key_eqb_eq in E1. subst k0. rewrite key_eqb_refl in E0. discriminate.
      * exact IH.
Qed.

Lemma astep_drop_parent g s child parent :
  (plain g parent -> own g 0 parent = true -> Settled g s parent) -> astep g s (drop_parent g s child parent 0).
Proof.
  intros HS. set (s' := drop_parent g s child parent 0).
  assert (Hg : grow s s').
  { split; [unfold pm; split; [reflexivity | auto]|]. split; [auto|]. split; [auto|]. split; [auto|].
    intros key v Hv. unfold s', drop_parent. cbn. apply reg_workers_add. now left. }
  split; [exact Hg|]. intros [A C D]. constructor.
  - exact A.
  - exact C.
  - intros rid f v Hv. unfold s', drop_parent in Hv. cbn in Hv. apply reg_workers_add in Hv. destruct Hv as [Hv|[Hk _]].
    + exact (D rid f v Hv).
    + injection Hk as _ ->. exists parent. split; [reflexivity | exact HS].
Qed.

(* ---- the door (no state is marked for removal: nothing is ever taken out of a pool) ---- *)
Lemma door_effect_grow s w u sts : (u = true -> sts = []) ->
  forall l x, has_state (pool s) l x = true -> has_state (pool (door_effect s w u sts)) l x = true.
Proof.
  intros Hu l x H. unfold door_effect. cbn. destruct u.
  - rewrite (Hu eq_refl). apply has_state_upd_mono; [|exact H]. intros old y Hy. apply filter_In. split; [exact Hy | reflexivity].
  - apply has_state_upd_mono; [|exact H]. intros old y Hy.
    clear -Hy. revert old Hy. induction sts as [|z r IH]; intros old Hy; cbn; [exact Hy|]. apply IH.
    destruct (has_state (pool s) None z && negb (existsb (pair_eqb z) old)); [apply in_or_app; now left | exact Hy].
Qed.
Lemma astep_door_effect g s w u sts : (u = true -> sts = []) -> astep g s (door_effect s w u sts).
Proof.
  intros Hu. assert (Hg : grow s (door_effect s w u sts)).
  { split; [unfold pm; split; [reflexivity | auto]|]. split; [now apply door_effect_grow|]. repeat split; auto. }
  split; [exact Hg|]. apply AInv_grow_same; [exact Hg | | | reflexivity]; intros k; reflexivity.
Qed.

Lemma sync_walk_no_unset objs fc c u us gs :
  (forall o, In o objs -> (o_unset o =? 0)%N = false) -> sync_walk objs fc false false [] [] = Some (c, u, us, gs) -> us = [].
Proof.
  intros Hn H. destruct us as [|x r]; [reflexivity|]. exfalso.
  destruct (removal_only_marked _ _ _ _ _ _ x H (or_introl eq_refl)) as [o [st [A [_ [_ [D _]]]]]]. rewrite (Hn o A) in D. discriminate.
Qed.

Lemma astep_reverse_node g s i w s' e : simple g -> reverse_node g s i w = Some (s', e) -> astep g s s'.
Proof.
  intros Hg. unfold reverse_node. intros H.
  assert (Hk : forall st (o : option nat), astep g st (set_n st i (fun x => mkN o (finished x) (results x) (rerun_off x) (mct_now x) (locs x))))
    by (intros; apply astep_set_n_keep; keepsRF_tac).
  destruct (is_occupied g s i w); [injection H as <- _; apply astep_refl|].
  set (s1 := set_n s i _) in H.
  assert (H1 : astep g s s1) by apply Hk.
  destruct (clean_decision g s1 i w) as [[|]|]; [| injection H as <- _; eapply astep_trans; [exact H1 | apply Hk] | discriminate].
  destruct (stateful (nd g i)); [|injection H as <- _; eapply astep_trans; [exact H1 | apply Hk]].
  destruct (sync_walk (n_objs (nd g i)) (n_filter_copy (nd g i)) false false [] []) as [[[[c u] us] gs]|] eqn:Es; [|discriminate].
  pose proof (sync_walk_no_unset _ _ _ _ _ _ (sg_nounset g Hg i) Es) as Hus.
  destruct c; injection H as <- _; (eapply astep_trans; [exact H1|]); [|apply Hk].
  eapply astep_trans; [|apply Hk]. apply astep_door_effect. intros ->. exact Hus.
Qed.

Lemma astep_bounce g s w next : astep g s (fst (bounce g s w next)).
Proof.
  unfold bounce. cbn [fst]. match goal with |- astep g s (set_w ?a _ _) => apply (astep_trans g s a); [|apply astep_same_parts; reflexivity] end.
  destruct (_ && _); [|apply astep_refl]. apply astep_set_n_keep. keepsRF_tac.
Qed.

(* ---- a negative run decision on an ordinary own node means it is settled ---- *)
Lemma setstates_in_scan objs : (forall o, In o objs -> o_perm_install o = false) ->
  forall x, In x (flat_map (fun o => match o_set o with Some st => if o_net o then [] else [(o_id o, st)] | None => [] end) objs) ->
            In x (scan_list objs).
Proof.
  induction objs as [|o r IH]; intros Hn x Hx; [destruct Hx|]. cbn in Hx. cbn.
  assert (Hr : forall o', In o' r -> o_perm_install o' = false) by (intros o' Ho; apply Hn; now right).
  destruct (o_set o) as [st|]; [|now apply IH]. rewrite (Hn o (or_introl eq_refl)).
  apply in_app_or in Hx. destruct Hx as [Hx|Hx]; [|right; now apply IH].
  destruct (o_net o); [destruct Hx | destruct Hx as [<-|[]]; now left].
Qed.

Lemma is_finished_has g s i w : simple g -> n_flat (nd g i) = false -> is_finished g s i w (Some 1) = true -> finished (nst s i) <> None.
Proof.
  intros Hg Hf H. unfold is_finished in H. rewrite Hf in H. unfold scoped_count in H. rewrite Hf in H.
  unfold shared_finished, class_of in H. rewrite (sg_nobridge g Hg i) in H. cbn in H. rewrite app_nil_r in H.
  intros Hn. rewrite Hn in H. cbn in H. destruct (n_scope (nd g i)); cbn in H; discriminate.
Qed.

Lemma decision_false_settled g s i sc s' :
  simple g -> AInv g s -> run_decision g s i 0 = Some (false, sc, s') -> plain g i -> own g 0 i = true -> Settled g s i.
Proof.
  intros Hg HA H [Hf [Hd [Hc Hr]]] Ho. unfold run_decision in H. rewrite Hr, Hd, Hf, Hc, Ho in H. cbn [negb] in H.
  destruct (sg_cfg g Hg i) as [Cd [Cf Cc]].
  destruct (stateful (nd g i)); cbn [negb] in H.
  - (* stateful *)
    destruct (is_finished g s i 0 (Some 1)) eqn:Efin.
    + apply (ai_fin g s HA i); [now apply (is_finished_has g s i 0) | repeat split; assumption | exact Ho].
    + cbn in H. destruct (scan_missing (nd g i) (pool s) 0) eqn:Escan; [discriminate|].
      left. intros x Hx. apply (setstates_in_scan _ (sg_noperm g Hg i)) in Hx.
      pose proof (proj1 (negb_false_iff _) Escan) as Hall. rewrite forallb_forall in Hall. specialize (Hall x Hx).
      unfold visible in Hall. destruct (sg_scope g Hg i) as [S1 S2]. rewrite S1, S2 in Hall. exact Hall.
  - (* stateless: it ran before *)
    destruct (run_stateless (n_cfg (nd g i)) (result_statuses (shared_results g s i))) as [b|] eqn:E; [|discriminate].
    injection H as -> _ _. unfold run_stateless in E. rewrite Cd, Cf, Cc, Hd, Hf, Hc in E.
    destruct (length (result_statuses (shared_results g s i)) =? 0) eqn:E0; [discriminate|].
    right. unfold shared_results, class_of in E0. rewrite (sg_nobridge g Hg i) in E0. cbn in E0. rewrite app_nil_r in E0.
    unfold result_statuses in E0. rewrite map_length in E0. intros Hn. rewrite Hn in E0. discriminate.
Qed.

(* ---- what an execution that is started can rely on: its ordinary own parents are settled ---- *)
Definition parents_settled (g : graph) (s : state) (i : nat) : Prop :=
  forall par, In par (n_parents (nd g i)) -> plain g par -> own g 0 par = true -> Settled g s par.

Lemma parents_settled_grow g s s' i : grow s s' -> parents_settled g s i -> parents_settled g s' i.
Proof. intros Hg H par A B C. apply (Settled_grow g s s' par Hg). now apply H. Qed.

Lemma nd_form_overflow g p : length (g_nodes g) <= p -> n_form (nd g p) = 0%N.
Proof. intros H. unfold nd. now rewrite nth_overflow. Qed.

Lemma setup_ready_settled g s i :
  simple g -> AInv g s -> i < length (g_nodes g) -> setup_ready g s i 0 = true -> parents_settled g s i.
Proof.
  intros Hg HA Hi H par Hpar Hpl Ho. unfold setup_ready in H. rewrite forallb_forall in H. specialize (H par Hpar).
  destruct Hpl as [Hf Hrest]. rewrite Hf, Ho in H. cbn in H. apply memn_In in H.
  destruct (ai_drop g s HA _ _ _ H) as [p' [Ef Hs]].
  assert (Hparr : par < length (g_nodes g)) by (eapply sg_parents; eauto).
  assert (Hp' : p' < length (g_nodes g)).
  { destruct (Nat.lt_ge_cases p' (length (g_nodes g))) as [A|A]; [exact A|]. exfalso.
    rewrite (nd_form_overflow g p' A) in Ef. apply (sg_form0 g Hg par Hparr). now rewrite <- Ef. }
  assert (E : p' = par) by (apply (sg_forms g Hg); assumption). subst p'. apply Hs; [split; assumption | exact Ho].
Qed.

Definition astart (g : graph) (s' : state) (e : list event) : Prop :=
  forall w i u p l, In (EStart w i u p l) e -> parents_settled g s' i.
Definition apiece (g : graph) (s s' : state) (e : list event) : Prop := astep g s s' /\ (AInv g s -> astart g s' e).

Lemma astart_no_start g s' e : no_start e -> astart g s' e.
Proof. intros H w i u p l Hin. exfalso. eapply H; eauto. Qed.
Lemma astart_grow g a b e : grow a b -> astart g a e -> astart g b e.
Proof. intros Hg H w i u p l Hin. apply (parents_settled_grow g a b i Hg). eapply H; eauto. Qed.
Lemma apiece_npiece g s s' e : astep g s s' -> no_start e -> apiece g s s' e.
Proof. intros H Hn. split; [exact H | intros _; now apply astart_no_start]. Qed.
Lemma apiece_trans g a b c e1 e2 : apiece g a b e1 -> apiece g b c e2 -> apiece g a c (e1 ++ e2).
Proof.
  intros [A1 A2] [B1 B2]. split; [eapply astep_trans; eauto|]. intros HI w i u p l Hin.
  apply in_app_or in Hin. destruct Hin as [Hin|Hin].
  - apply (astart_grow g b c e1 (proj1 B1) (A2 HI) w i u p l Hin).
  - apply (B2 (proj2 A1 HI) w i u p l Hin).
Qed.
Lemma apiece_nil g s : apiece g s s [].
Proof. apply apiece_npiece; [apply astep_refl | apply no_start_nil]. Qed.
Lemma apiece_same g s s1 s2 e : ns s2 = ns s1 -> pool s2 = pool s1 -> r_ds s2 = r_ds s1 -> apiece g s s1 e -> apiece g s s2 e.
Proof.
  intros A B C H. rewrite <- (app_nil_r e). apply (apiece_trans g s s1 s2); [exact H|].
  apply apiece_npiece; [now apply astep_same_parts | apply no_start_nil].
Qed.
Lemma apiece_fail g s0 s w c evs : apiece g s0 s evs -> apiece g s0 (set_phase s w (Failed c)) (evs ++ [EFail w c]).
Proof.
  intros H. apply (apiece_trans g s0 s); [exact H|]. apply apiece_npiece; [apply astep_same_parts; reflexivity | ns_simple].
Qed.

(* traverse_node by worker 0; `ready` = the node's setup was ready when it was entered *)
Lemma traverse_node_a g s i : simple g -> AInv g s -> LenOk g s -> setup_ready g s i 0 = true ->
  match traverse_node g s i 0 with
  | TnAwait s' e _ | TnDone s' e | TnFail s' e => apiece g s s' e
  end.
Proof.
  intros Hg HA Hlen Hready. unfold traverse_node. destruct (is_occupied g s i 0); [apply apiece_nil|].
  set (s1 := set_n s i _). set (s2 := pull_locations g s1 i).
  assert (H02 : astep g s s2).
  { eapply astep_trans; [|apply astep_pull_locations]. unfold s1. apply astep_set_n_keep. keepsRF_tac. }
  unfold eval_run. destruct (run_decision g s2 i 0) as [[[b sc] s3]|] eqn:E.
  - pose proof (astep_run_decision _ _ _ _ _ _ _ E) as H23.
    assert (H03 : astep g s s3) by (eapply astep_trans; eauto).
    assert (Hns : no_start (if n_root (nd g i) then [] else
                              (match sc with Some m => [EScan 0 i m] | None => [] end) ++ [EDecide 0 i b])).
    { destruct (n_root (nd g i)); [apply no_start_nil|]. destruct sc; ns_simple. }
    destruct b.
    + pose proof (run_decision_startable _ _ _ _ _ _ E) as Hst.
      assert (Hi : i < length (g_nodes g)) by (eapply startable_lt; eauto).
      assert (Hstart : forall (s4 : state) u pre, astep g s3 s4 -> apiece g s s4 ((if n_root (nd g i) then [] else
                    (match sc with Some m => [EScan 0 i m] | None => [] end) ++ [EDecide 0 i true]) ++ [EStart 0 i u pre (locs (nst s3 i))])).
      { intros s4 u pre H34. apply (apiece_trans g s s3); [now apply apiece_npiece|]. split; [exact H34|].
        intros HA3 w' i' u' p' l' [H|[]]. injection H as _ <- _ _ _.
        apply (parents_settled_grow g s s4 i); [eapply grow_trans; [exact (proj1 H03) | exact (proj1 H34)]|].
        now apply setup_ready_settled. }
      destruct (n_objroot (nd g i)); cbn.
      * apply Hstart. apply (astep_append g s3 i (mkR i SUnknown false)); [discriminate | intros x; split; reflexivity].
      * apply Hstart. apply (astep_append g s3 i (mkR i SUnknown false)); [discriminate | intros x; split; reflexivity].
    + cbn. apply apiece_npiece; [|exact Hns]. eapply astep_trans; [exact H03|]. split.
      * (* growth of mark_done does not depend on the settledness argument *)
        unfold mark_done. set (f := fun x => mkN None (Some 0) (results x) (rerun_off x) (mct_now x) (locs x)).
        split; [apply pm_set_n; intros x r Hr _; exact Hr|]. split; [auto|]. split; [|split; [|auto]].
        -- intros k Hk. destruct (nst_set_n_cases s3 i f k) as [E1|[-> [_ E1]]]; rewrite E1; exact Hk.
        -- intros k Hk. destruct (nst_set_n_cases s3 i f k) as [E1|[-> [_ E1]]]; rewrite E1; [exact Hk | discriminate].
      * intros HA3. apply (proj2 (astep_mark_done g s3 i (fun Hpl Ho =>
            Settled_grow g s2 s3 i (proj1 H23) (decision_false_settled g s2 i sc s3 Hg (proj2 H02 HA) E Hpl Ho)))). exact HA3.
  - unfold fail. cbn. apply (apiece_fail g s s2 0 3 []). apply apiece_npiece; [exact H02 | apply no_start_nil].
Qed.

Definition ait (g : graph) (s : state) (r : it_res) : Prop :=
  match r with Cont s' e | Halt s' e => apiece g s s' e end.
Lemma ait_prepend g s s1 e r : apiece g s s1 e -> ait g s1 r ->
  ait g s (match r with Cont s2 e2 => Cont s2 (e ++ e2) | Halt s2 e2 => Halt s2 (e ++ e2) end).
Proof. intros H1 H2. destruct r as [s2 e2|s2 e2]; cbn in *; now apply (apiece_trans g s s1 s2). Qed.

Lemma after_from_child_a g s next previous : simple g -> AInv g s -> ait g s (after_from_child g s 0 next previous).
Proof.
  intros Hg HA. unfold after_from_child. destruct (eval_run g s next 0) as [[[b s1] evs]|] eqn:E.
  - pose proof (astep_eval_run _ _ _ _ _ _ _ E) as Hr. pose proof (no_start_eval_run _ _ _ _ _ _ _ E) as Hns.
    cbn. apply apiece_npiece; [|apply no_start_app; [exact Hns|]; destruct b; ns_simple].
    eapply astep_trans; [exact Hr|]. destruct b; [apply astep_same_parts; reflexivity|].
    apply (astep_trans g s1 (drop_parent g s1 previous next 0)); [|apply astep_same_parts; reflexivity].
    apply astep_drop_parent. intros Hpl Ho. unfold eval_run in E.
    destruct (run_decision g s next 0) as [[[b0 sc] s0]|] eqn:Ed; [|discriminate]. injection E as -> <- _.
    apply (Settled_grow g s s0 next (proj1 (astep_run_decision _ _ _ _ _ _ _ Ed))).
    now apply (decision_false_settled g s next sc s0).
  - unfold fail. cbn. apply (apiece_fail g s s 0 3 []). apply apiece_nil.
Qed.

Lemma after_from_parent_a g s next : simple g -> ait g s (after_from_parent g s 0 next).
Proof.
  intros Hg. unfold after_from_parent. destruct (eval_run g s next 0) as [[[b s1] evs]|] eqn:E.
  - pose proof (astep_eval_run _ _ _ _ _ _ _ E) as Hr. pose proof (no_start_eval_run _ _ _ _ _ _ _ E) as Hns.
    assert (Hn1 : apiece g s s1 evs) by now apply apiece_npiece.
    destruct b.
    + cbn. apply apiece_npiece; [eapply astep_trans; [exact Hr | apply astep_same_parts; reflexivity] | exact Hns].
    + destruct (cleanup_ready g s1 next 0).
      * set (s2 := fold_left _ (n_parents (nd g next)) s1).
        assert (H12 : astep g s1 s2).
        { unfold s2. clear. generalize s1. induction (n_parents (nd g next)) as [|p l IH]; intros st; cbn; [apply astep_refl|].
          eapply astep_trans; [|apply IH]. apply astep_same_parts; reflexivity. }
        destruct (reverse_node g s2 next 0) as [[s3 e]|] eqn:Er.
        -- pose proof (astep_reverse_node _ _ _ _ _ _ Hg Er) as Hr3. pose proof (no_start_reverse_node _ _ _ _ _ _ Er) as Hns3.
           cbn. apply apiece_npiece.
           ++ eapply astep_trans; [exact Hr|]. eapply astep_trans; [exact H12|]. eapply astep_trans; [exact Hr3 | apply astep_same_parts; reflexivity].
           ++ apply no_start_app; [exact Hns|]. apply (no_start_app [EDropChildren 0 next] e); [ns_simple | exact Hns3].
        -- unfold fail. cbn. change (evs ++ [EDropChildren 0 next; EFail 0 5]) with (evs ++ [EDropChildren 0 next] ++ [EFail 0 5]).
           rewrite app_assoc. apply (apiece_fail g s s2 0 5). apply apiece_npiece.
           ++ eapply astep_trans; [exact Hr | exact H12].
           ++ apply no_start_app; [exact Hns | ns_simple].
      * destruct (pick_child g s1 next 0) as [[c s2]|] eqn:Ep.
        -- unfold pick_child in Ep. destruct (pick_from _ _ _); [|discriminate]. injection Ep as _ <-.
           cbn. apply apiece_npiece.
           ++ eapply astep_trans; [exact Hr|]. eapply astep_trans; [apply astep_same_parts; reflexivity | apply astep_same_parts; reflexivity].
           ++ apply no_start_app; [exact Hns | ns_simple].
        -- unfold fail. cbn. now apply (apiece_fail g s s1 0 1).
  - unfold fail. cbn. apply (apiece_fail g s s 0 3 []). apply apiece_nil.
Qed.

Lemma AInv_traverse_done g s i : simple g -> AInv g s -> LenOk g s -> setup_ready g s i 0 = true ->
  match traverse_node g s i 0 with TnDone s' _ => AInv g s' | _ => True end.
Proof.
  intros Hg HA Hlen Hr. pose proof (traverse_node_a g s i Hg HA Hlen Hr) as H.
  destruct (traverse_node g s i 0); try exact I. destruct H as [[_ H] _]. now apply H.
Qed.

Lemma do_traverse_a g s next (fc : bool) previous : simple g -> AInv g s -> LenOk g s -> setup_ready g s next 0 = true ->
  ait g s (do_traverse g s 0 next fc previous).
Proof.
  intros Hg HA Hlen Hr. unfold do_traverse. pose proof (traverse_node_a g s next Hg HA Hlen Hr) as H.
  pose proof (AInv_traverse_done g s next Hg HA Hlen Hr) as HA1.
  destruct (traverse_node g s next 0) as [s1 e pre|s1 e|s1 e].
  - cbn. apply (apiece_same g s s1); [reflexivity | reflexivity | reflexivity | exact H].
  - apply (ait_prepend g s s1); [exact H|]. destruct fc; [now apply after_from_child_a | now apply after_from_parent_a].
  - exact H.
Qed.

Lemma LenOk_grow g s s' : grow s s' -> LenOk g s -> LenOk g s'.
Proof. intros [[H _] _] E. unfold LenOk in *. congruence. Qed.

Lemma iter_a g s : simple g -> AInv g s -> LenOk g s -> ait g s (iter g s 0).
Proof.
  intros Hg HA Hlen. unfold iter.
  assert (Hfail : forall c, ait g s (let '(s1, e) := fail s 0 c in Halt s1 e)).
  { intros c. unfold fail. cbn. apply (apiece_fail g s s 0 c []). apply apiece_nil. }
  destruct (cleanup_ready g s (g_root g) 0).
  - destruct (path (wst s 0)) as [|r [|r2 rest]]; try apply Hfail.
    destruct (Nat.eqb r (g_root g)); [|apply Hfail].
    cbn. apply apiece_npiece; [apply astep_same_parts; reflexivity | ns_simple].
  - destruct (path (wst s 0)) as [|next [|previous rest]]; try apply Hfail.
    + destruct (pick_child g s next 0) as [[c s1]|] eqn:Ep; [|apply Hfail].
      unfold pick_child in Ep. destruct (pick_from _ _ _); [|discriminate]. injection Ep as _ <-.
      cbn. apply apiece_npiece; [eapply astep_trans; apply astep_same_parts; reflexivity | ns_simple].
    + destruct (is_occupied g s next 0).
      * pose proof (astep_bounce g s 0 next) as Hb. unfold bounce in *. cbn [fst] in Hb. cbn. apply apiece_npiece; [exact Hb | ns_simple].
      * assert (Hpp : ait g s (match pick_parent g s next 0 with
                                | None => let '(s1, e) := fail s 0 1 in Halt s1 e
                                | Some (p, s1) => Cont (push s1 0 p) [EPick 0 next p false]
                                end)).
        { destruct (pick_parent g s next 0) as [[p s1]|] eqn:Ep; [|apply Hfail].
          unfold pick_parent in Ep. destruct (pick_from _ _ _); [|discriminate]. injection Ep as _ <-.
          cbn. apply apiece_npiece; [eapply astep_trans; apply astep_same_parts; reflexivity | ns_simple]. }
        destruct (memn previous (n_children (nd g next))).
        -- destruct (setup_ready g s next 0) eqn:Er; [now apply do_traverse_a | exact Hpp].
        -- destruct (memn previous (n_parents (nd g next))); [|apply Hfail].
           destruct (setup_ready g s next 0) eqn:Er; cbn [negb]; [now apply do_traverse_a | exact Hpp].
Qed.

Lemma run_loop_a fuel g : simple g -> forall s, AInv g s -> LenOk g s -> apiece g s (fst (run_loop fuel g s 0)) (snd (run_loop fuel g s 0)).
Proof.
  intros Hg. induction fuel as [|f IH]; intros s HA Hlen; cbn [run_loop].
  - unfold fail. cbn. apply (apiece_fail g s s 0 6 []). apply apiece_nil.
  - pose proof (iter_a g s Hg HA Hlen) as H. destruct (iter g s 0) as [s1 e|s1 e]; cbn in H.
    + destruct H as [[Hgr HAI] Hst]. specialize (IH s1 (HAI HA) (LenOk_grow g s s1 Hgr Hlen)).
      destruct (run_loop f g s1 0) as [s2 e2]. cbn in *. apply (apiece_trans g s s1 s2); [split; [split|]; assumption | exact IH].
    + exact H.
Qed.

Lemma continue_a g s r : simple g -> AInv g s -> LenOk g s -> ait g s r ->
  apiece g s (fst (match r with Halt s2 e => (s2, e) | Cont s2 e => let '(s3, e3) := run_loop FUEL g s2 0 in (s3, e ++ e3) end))
             (snd (match r with Halt s2 e => (s2, e) | Cont s2 e => let '(s3, e3) := run_loop FUEL g s2 0 in (s3, e ++ e3) end)).
Proof.
  intros Hg HA Hlen H. destruct r as [s2 e|s2 e]; cbn in H; [|exact H].
  destruct H as [[Hgr HAI] Hst]. pose proof (run_loop_a FUEL g Hg s2 (HAI HA) (LenOk_grow g s s2 Hgr Hlen)) as HL.
  destruct (run_loop FUEL g s2 0) as [s3 e3]. cbn in *. apply (apiece_trans g s s2 s3); [split; [split|]; assumption | exact HL].
Qed.

Lemma apiece_pre g s s1 (r : state * list event) : astep g s s1 -> (AInv g s1 -> apiece g s1 (fst r) (snd r)) -> (AInv g s -> apiece g s (fst r) (snd r)).
Proof.
  intros H1 H2 HA. change (snd r) with ([] ++ snd r). apply (apiece_trans g s s1); [apply apiece_npiece; [exact H1 | apply no_start_nil]|].
  apply H2. now apply (proj2 H1).
Qed.

(* ---- the phase of worker 0: awaiting a test means the test has an entry on its node and its parents are settled ---- *)
Definition PhaseOk (g : graph) (s : state) : Prop :=
  match ph (wst s 0) with
  | Running n _ _ _ => n < length (g_nodes g) /\ results (nst s n) <> [] /\ parents_settled g s n
  | _ => True
  end.
Lemma PhaseOk_not_running g s : not_running s 0 -> PhaseOk g s.
Proof. unfold not_running, PhaseOk. destruct (ph (wst s 0)); tauto. Qed.

Definition pit (g : graph) (s : state) (r : it_res) : Prop :=
  match r with Cont s' _ => not_running s' 0 | Halt s' _ => PhaseOk g s' end.

Lemma results_after_append s i r (f : nstate -> nstate) :
  i < length (ns s) -> (forall x, results (f x) = results x ++ [r]) -> results (nst (set_n s i f) i) <> [].
Proof. intros Hl Hf. rewrite nst_set_n_same by exact Hl. rewrite Hf. destruct (results (nst s i)); discriminate. Qed.

Lemma PhaseOk_set_running g s n pre fc u :
  n < length (g_nodes g) -> results (nst s n) <> [] -> parents_settled g s n -> PhaseOk g (set_phase s 0 (Running n pre fc u)).
Proof.
  intros H1 H2 H3. unfold PhaseOk, set_phase.
  destruct (wst_set_w_cases s 0 (fun x => mkW (path x) (occ_at x) (occ_wait x) (Running n pre fc u))) as [E|[E Hl]]; rewrite E.
  - cbn. split; [exact H1|]. split; [exact H2|]. intros par A B C. destruct (H3 par A B C) as [S|S]; [left; exact S | right; exact S].
  - rewrite (wst_overflow s 0 Hl). exact I.
Qed.

Lemma after_from_child_p g s next previous : not_running s 0 -> pit g s (after_from_child g s 0 next previous).
Proof.
  intros Hn. unfold after_from_child. destruct (eval_run g s next 0) as [[[b s1] evs]|] eqn:E.
  - pose proof (ws_eval_run _ _ _ _ _ _ _ E) as Hws. cbn. apply not_running_pop.
    apply (not_running_ws s); [destruct b; [exact Hws | cbn; exact Hws] | exact Hn].
  - unfold fail. cbn. apply PhaseOk_not_running. now apply not_running_set_phase.
Qed.
Lemma after_from_parent_p g s next : not_running s 0 -> pit g s (after_from_parent g s 0 next).
Proof.
  intros Hn. unfold after_from_parent. destruct (eval_run g s next 0) as [[[b s1] evs]|] eqn:E.
  - pose proof (ws_eval_run _ _ _ _ _ _ _ E) as Hws. assert (Hn1 : not_running s1 0) by now apply (not_running_ws s).
    destruct b; [cbn; now apply not_running_pop|]. destruct (cleanup_ready g s1 next 0).
    + set (s2 := fold_left _ (n_parents (nd g next)) s1). assert (Hws2 : ws s2 = ws s1) by apply ws_fold_drop_child.
      destruct (reverse_node g s2 next 0) as [[s3 e]|] eqn:Er.
      * pose proof (ws_reverse_node _ _ _ _ _ _ Er) as Hws3. cbn. apply not_running_pop. apply (not_running_ws s1); [congruence | exact Hn1].
      * unfold fail. cbn. apply PhaseOk_not_running. apply not_running_set_phase; [exact I | now apply (not_running_ws s1)].
    + destruct (pick_child g s1 next 0) as [[c s2]|] eqn:Ep.
      * pose proof (ws_pick_child _ _ _ _ _ _ Ep) as Hws2. cbn. apply not_running_push. now apply (not_running_ws s1).
      * unfold fail. cbn. apply PhaseOk_not_running. now apply not_running_set_phase.
  - unfold fail. cbn. apply PhaseOk_not_running. now apply not_running_set_phase.
Qed.

Lemma pit_prepend g s s1 e r : pit g s1 r ->
  pit g s (match r with Cont s2 e2 => Cont s2 (e ++ e2) | Halt s2 e2 => Halt s2 (e ++ e2) end).
Proof. destruct r; auto. Qed.

Lemma traverse_node_p g s i :
  simple g -> AInv g s -> LenOk g s -> setup_ready g s i 0 = true -> not_running s 0 ->
  match traverse_node g s i 0 with
  | TnAwait s' _ _ => i < length (g_nodes g) /\ results (nst s' i) <> [] /\ parents_settled g s' i
  | TnDone s' _ => not_running s' 0
  | TnFail s' _ => not_running s' 0
  end.
Proof.
  intros Hg HA Hlen Hr Hn. pose proof (traverse_node_a g s i Hg HA Hlen Hr) as Ha. pose proof (ws_traverse_node g s i 0) as Hws.
  unfold traverse_node in *. destruct (is_occupied g s i 0); [exact Hn|].
  set (s2 := pull_locations g _ i) in *. unfold eval_run in *.
  destruct (run_decision g s2 i 0) as [[[b sc] s3]|] eqn:E.
  - destruct b.
    + pose proof (run_decision_startable _ _ _ _ _ _ E) as Hst.
      assert (Hi : i < length (g_nodes g)) by (eapply startable_lt; eauto).
      assert (Hl3 : i < length (ns s3)).
      { pose proof (astep_run_decision _ _ _ _ _ _ _ E) as [[[L _] _] _]. rewrite L. unfold s2.
        pose proof (astep_pull_locations g (set_n s i (fun x => mkN (Some 0) (finished x) (results x) (rerun_off x) (mct_now x) (locs x))) i) as [[[L2 _] _] _].
        rewrite L2, length_ns_set_n. unfold LenOk in Hlen. now rewrite Hlen. }
      destruct (n_objroot (nd g i)); cbn in *;
        (split; [exact Hi|]; split; [apply (results_after_append s3 i (mkR i SUnknown false)); [exact Hl3 | reflexivity]|];
         destruct Ha as [_ Hst']; eapply (Hst' HA 0 i); apply in_or_app; right; left; reflexivity).
    + cbn in *. apply (not_running_ws s); [exact Hws | exact Hn].
  - unfold fail. cbn. apply not_running_set_phase; [exact I|]. apply (not_running_ws s); [|exact Hn]. unfold s2. now rewrite ws_pull_locations.
Qed.

Lemma do_traverse_p g s next (fc : bool) previous :
  simple g -> AInv g s -> LenOk g s -> setup_ready g s next 0 = true -> not_running s 0 ->
  pit g s (do_traverse g s 0 next fc previous).
Proof.
  intros Hg HA Hlen Hr Hn. unfold do_traverse. pose proof (traverse_node_p g s next Hg HA Hlen Hr Hn) as H.
  destruct (traverse_node g s next 0) as [s1 e pre|s1 e|s1 e].
  - destruct H as [H1 [H2 H3]]. cbn. now apply PhaseOk_set_running.
  - apply (pit_prepend g s s1). destruct fc; [now apply after_from_child_p | now apply after_from_parent_p].
  - cbn. now apply PhaseOk_not_running.
Qed.

Lemma iter_p g s : simple g -> AInv g s -> LenOk g s -> not_running s 0 -> pit g s (iter g s 0).
Proof.
  intros Hg HA Hlen Hn. unfold iter.
  assert (Hfail : forall c, pit g s (let '(s1, e) := fail s 0 c in Halt s1 e))
    by (intros c; unfold fail; cbn; apply PhaseOk_not_running; now apply not_running_set_phase).
  destruct (cleanup_ready g s (g_root g) 0).
  - destruct (path (wst s 0)) as [|r [|r2 rest]]; try apply Hfail.
    destruct (Nat.eqb r (g_root g)); [|apply Hfail]. cbn. apply PhaseOk_not_running. unfold not_running.
    match goal with |- context [set_w s 0 ?f] => destruct (wst_set_w_cases s 0 f) as [E|[E _]]; rewrite E; [exact I | exact Hn] end.
  - destruct (path (wst s 0)) as [|next [|previous rest]]; try apply Hfail.
    + destruct (pick_child g s next 0) as [[c s1]|] eqn:Ep; [|apply Hfail].
      pose proof (ws_pick_child _ _ _ _ _ _ Ep) as Hws. cbn. apply not_running_push. now apply (not_running_ws s).
    + destruct (is_occupied g s next 0).
      * unfold bounce. cbn. apply PhaseOk_not_running. unfold not_running.
        match goal with |- context [set_w ?a 0 ?f] => destruct (wst_set_w_cases a 0 f) as [E|[E _]]; rewrite E; [exact I|] end.
        destruct (_ && _); exact Hn.
      * assert (Hpp : pit g s (match pick_parent g s next 0 with
                                | None => let '(s1, e) := fail s 0 1 in Halt s1 e
                                | Some (p, s1) => Cont (push s1 0 p) [EPick 0 next p false]
                                end)).
        { destruct (pick_parent g s next 0) as [[p s1]|] eqn:Ep; [|apply Hfail].
          pose proof (ws_pick_parent _ _ _ _ _ _ Ep) as Hws. cbn. apply not_running_push. now apply (not_running_ws s). }
        destruct (memn previous (n_children (nd g next))).
        -- destruct (setup_ready g s next 0) eqn:Er; [now apply do_traverse_p | exact Hpp].
        -- destruct (memn previous (n_parents (nd g next))); [|apply Hfail].
           destruct (setup_ready g s next 0) eqn:Er; cbn [negb]; [now apply do_traverse_p | exact Hpp].
Qed.

Lemma run_loop_p fuel g : simple g -> forall s, AInv g s -> LenOk g s -> not_running s 0 -> PhaseOk g (fst (run_loop fuel g s 0)).
Proof.
  intros Hg. induction fuel as [|f IH]; intros s HA Hlen Hn; cbn [run_loop].
  - unfold fail. cbn. apply PhaseOk_not_running. now apply not_running_set_phase.
  - pose proof (iter_a g s Hg HA Hlen) as Ha. pose proof (iter_p g s Hg HA Hlen Hn) as Hp.
    destruct (iter g s 0) as [s1 e|s1 e]; cbn in Ha, Hp; [|exact Hp].
    destruct Ha as [[Hgr HAI] _]. specialize (IH s1 (HAI HA) (LenOk_grow g s s1 Hgr Hlen) Hp).
    destruct (run_loop f g s1 0) as [s2 e2]. exact IH.
Qed.

Lemma continue_p g s r : simple g -> AInv g s -> LenOk g s -> ait g s r -> pit g s r ->
  PhaseOk g (fst (match r with Halt s2 e => (s2, e) | Cont s2 e => let '(s3, e3) := run_loop FUEL g s2 0 in (s3, e ++ e3) end)).
Proof.
  intros Hg HA Hlen Ha Hp. destruct r as [s2 e|s2 e]; cbn in Ha, Hp; [|exact Hp].
  destruct Ha as [[Hgr HAI] _]. pose proof (run_loop_p FUEL g Hg s2 (HAI HA) (LenOk_grow g s s2 Hgr Hlen) Hp) as HL.
  destruct (run_loop FUEL g s2 0) as [s3 e3]. exact HL.
Qed.

Definition asect (g : graph) (s s' : state) (e : list event) : Prop := apiece g s s' e /\ PhaseOk g s'.

Theorem resume_a g s out : simple g -> AInv g s -> LenOk g s -> PhaseOk g s ->
  asect g s (fst (resume g s 0 out)) (snd (resume g s 0 out)).
Proof.
  intros Hg HA Hlen HPh. unfold resume. destruct (ph (wst s 0)) as [| next pre fc uid | | |c] eqn:Eph.
  - assert (H1 : astep g s (set_phase s 0 Ready)) by (apply astep_same_parts; reflexivity).
    split; [apply (apiece_pre g s _ _ H1); [intros HA1; now apply run_loop_a | exact HA]|].
    apply run_loop_p; [exact Hg | now apply (proj2 H1) | exact Hlen | apply not_running_Ready].
  - assert (Hnext : next < length (g_nodes g) /\ results (nst s next) <> [] /\ parents_settled g s next)
      by (unfold PhaseOk in HPh; rewrite Eph in HPh; exact HPh).
    destruct Hnext as [Hi [Hres Hpar]].
    set (s0 := mkS (ws s) (ns s) (r_ps s) (r_pc s) (r_ds s) (r_dc s) (pool s) _).
    assert (H0 : astep g s s0) by (apply astep_same_parts; reflexivity).
    assert (HA0 : AInv g s0) by now apply (proj2 H0).
    assert (Hl0 : next < length (ns (end_pre s0 next))) by (unfold end_pre; rewrite length_ns_set_n; unfold LenOk in Hlen; cbn; now rewrite Hlen).
    set (seen := match find _ (job s0) with Some e => Some (snd e) | None => None end).
    destruct pre.
    + destruct (run_ok seen) eqn:Eok.
      * unfold start_run. cbn [fst snd].
        match goal with |- asect g s (set_phase ?a 0 ?p) _ => set (s2 := a) end.
        assert (H02 : astep g s0 s2).
        { unfold s2. apply (astep_end_pre_append g s0 next (mkR next SUnknown false)); [discriminate | intros x; split; reflexivity]. }
        assert (Hgr : grow s s2) by (eapply grow_trans; [exact (proj1 H0) | exact (proj1 H02)]).
        split.
        -- apply (apiece_same g s s2); [reflexivity | reflexivity | reflexivity|].
           split; [eapply astep_trans; eauto|]. intros _ w' i' u' p' l' [H|[]]. injection H as _ <- _ _ _.
           now apply (parents_settled_grow g s s2 next).
        -- apply PhaseOk_set_running; [exact Hi | | now apply (parents_settled_grow g s s2 next)].
           unfold s2. apply (results_after_append (end_pre s0 next) next (mkR next SUnknown false)); [exact Hl0 | reflexivity].
      * set (st := match seen with Some st => st | None => SUnknown end).
        assert (Hst : st <> SPass) by (unfold st; destruct seen as [[]|]; cbn in Eok; congruence).
        match goal with |- context [set_n (end_pre s0 next) next ?f] => set (s2 := set_n (end_pre s0 next) next f) end.
        assert (H02 : astep g s0 s2).
        { unfold s2. apply (astep_end_pre_append g s0 next (mkR next st false)); [exact Hst | intros x; split; reflexivity]. }
        assert (Hres2 : results (nst s2 next) <> [])
          by (unfold s2; apply (results_after_append (end_pre s0 next) next (mkR next st false)); [exact Hl0 | reflexivity]).
        set (s3 := set_phase (mark_done s2 next 0) 0 Ready).
        assert (H23 : astep g s2 s3).
        { apply (astep_trans g s2 (mark_done s2 next 0)); [|apply astep_same_parts; reflexivity]. apply astep_mark_done. intros _ _. now right. }
        assert (H3 : astep g s s3) by (eapply astep_trans; [exact H0|]; eapply astep_trans; eauto).
        assert (HA3 : AInv g s3) by now apply (proj2 H3).
        assert (Hlen3 : LenOk g s3) by (apply (LenOk_grow g s s3 (proj1 H3) Hlen)).
        assert (Hn3 : not_running s3 0) by apply not_running_Ready.
        set (r := if fc then after_from_child g s3 0 next (hd 0 (tl (path (wst s 0)))) else after_from_parent g s3 0 next).
        assert (Ha : ait g s3 r) by (unfold r; destruct fc; [now apply after_from_child_a | now apply after_from_parent_a]).
        assert (Hp : pit g s3 r) by (unfold r; destruct fc; [now apply after_from_child_p | now apply after_from_parent_p]).
        split; [apply (apiece_pre g s s3 _ H3); [intros _; now apply continue_a | exact HA] | now apply (continue_p g s3 r)].
    + set (s1 := finish_run g s0 next 0 seen).
      assert (H01 : astep g s0 s1) by apply astep_finish_run.
      assert (Hres1 : results (nst s1 next) <> []).
      { destruct (proj1 H01) as [_ [_ [Hne _]]]. apply Hne. exact Hres. }
      set (s3 := set_phase (mark_done s1 next 0) 0 Ready).
      assert (H13 : astep g s1 s3).
      { apply (astep_trans g s1 (mark_done s1 next 0)); [|apply astep_same_parts; reflexivity]. apply astep_mark_done. intros _ _. now right. }
      assert (H3 : astep g s s3) by (eapply astep_trans; [exact H0|]; eapply astep_trans; eauto).
      assert (HA3 : AInv g s3) by now apply (proj2 H3).
      assert (Hlen3 : LenOk g s3) by (apply (LenOk_grow g s s3 (proj1 H3) Hlen)).
      assert (Hn3 : not_running s3 0) by apply not_running_Ready.
      set (r := if fc then after_from_child g s3 0 next (hd 0 (tl (path (wst s 0)))) else after_from_parent g s3 0 next).
      assert (Ha : ait g s3 r) by (unfold r; destruct fc; [now apply after_from_child_a | now apply after_from_parent_a]).
      assert (Hp : pit g s3 r) by (unfold r; destruct fc; [now apply after_from_child_p | now apply after_from_parent_p]).
      split; [apply (apiece_pre g s s3 _ H3); [intros _; now apply continue_a | exact HA] | now apply (continue_p g s3 r)].
  - assert (H1 : astep g s (set_phase s 0 Ready)) by (apply astep_same_parts; reflexivity).
    split; [apply (apiece_pre g s _ _ H1); [intros HA1; now apply run_loop_a | exact HA]|].
    apply run_loop_p; [exact Hg | now apply (proj2 H1) | exact Hlen | apply not_running_Ready].
  - cbn. split; [apply apiece_nil | exact HPh].
  - cbn. split; [apply apiece_nil | exact HPh].
Qed.

(* ---- whole schedules of the one worker ---- *)
Lemma AInv_init g p : AInv g (init_state g p).
Proof.
  constructor.
  - intros q r Hin. rewrite nst_init in Hin. destruct Hin.
  - intros q Hq. rewrite nst_init in Hq. now contradiction Hq.
  - intros rid f v Hv. destruct Hv.
Qed.
Lemma PhaseOk_init g p : PhaseOk g (init_state g p).
Proof. unfold PhaseOk. destruct (wst_init g p 0) as [E|E]; rewrite E; exact I. Qed.

Record SInv (g : graph) (s : state) : Prop := mkSInv { si_a : AInv g s; si_len : LenOk g s; si_ph : PhaseOk g s }.

Lemma schedule_a g sched : simple g -> Forall (fun x => fst x = 0) sched -> forall s, SInv g s ->
  let r := run_schedule g s sched in
  SInv g (fst r) /\ grow s (fst r) /\ forall evs, In evs (snd r) -> astart g (fst r) evs.
Proof.
  intros Hg. induction sched as [|[w out] r IH]; intros Hall s HI; cbn [run_schedule]; cbn zeta.
  - cbn. split; [exact HI|]. split; [apply grow_refl | intros evs []].
  - inversion Hall as [|x l Hw Hrest]; subst. cbn in Hw. subst w. destruct HI as [HA Hlen HPh].
    destruct (resume_a g s out Hg HA Hlen HPh) as [[[Hgr HAI] Hst] HPh1].
    destruct (resume g s 0 out) as [s1 e]. cbn [fst snd] in *.
    specialize (IH Hrest s1 (mkSInv g s1 (HAI HA) (LenOk_grow g s s1 Hgr Hlen) HPh1)). cbn zeta in IH.
    destruct (run_schedule g s1 r) as [s2 es]. cbn [fst snd] in *. destruct IH as [I1 [I2 I3]].
    split; [exact I1|]. split; [eapply grow_trans; eauto|].
    intros evs [<-|Hin]; [apply (astart_grow g s1 s2 _ I2); now apply Hst | now apply I3].
Qed.

Lemma run_schedule_app g a b : forall s,
  run_schedule g s (a ++ b) =
  (fst (run_schedule g (fst (run_schedule g s a)) b), snd (run_schedule g s a) ++ snd (run_schedule g (fst (run_schedule g s a)) b)).
Proof.
  induction a as [|[w out] a IH]; intros s; cbn [app run_schedule].
  - cbn. now destruct (run_schedule g s b).
  - destruct (resume g s w out) as [s1 e]. rewrite IH. destruct (run_schedule g s1 a) as [s2 es]. cbn.
    now destruct (run_schedule g s2 b).
Qed.

Lemma exists_pass_dec (l : list result) : (exists r, In r l /\ r_status r = SPass) \/ (forall r, In r l -> r_status r <> SPass).
Proof.
  induction l as [|x t IH]; [right; intros r []|].
  destruct (status_eqb (r_status x) SPass) eqn:E.
  - left. exists x. split; [now left|]. destruct (r_status x); try discriminate; reflexivity.
  - destruct IH as [[r [Hr Hs]]|IH]; [left; exists r; split; [now right | exact Hs]|].
    right. intros r [<-|Hr]; [intros Hs; rewrite Hs in E; discriminate | now apply IH].
Qed.

(* C01 for the plain sequential configuration: in the state right after the atomic section that starts an execution
   of test i, every state that an ordinary own parent of i sets is in the worker's own pool or the shared pool -
   unless that parent has results and none of them is a PASS (it was attempted and did not pass) *)
Theorem available_at_start g p sched out i u pre l par :
  simple g -> Forall (fun x => fst x = 0) sched ->
  let r := run_schedule g (init_state g p) (sched ++ [(0, out)]) in
  In (EStart 0 i u pre l) (last (snd r) []) ->
  In par (n_parents (nd g i)) -> plain g par -> own g 0 par = true ->
  (forall x, In x (setstates (nd g par)) -> vis (fst r) x = true) \/
  (results (nst (fst r) par) <> [] /\ forall res, In res (results (nst (fst r) par)) -> r_status res <> SPass).
Proof.
  intros Hg Hall. cbn zeta. intros Hin Hpar Hpl Ho.
  assert (Hall' : Forall (fun x : nat * option status => fst x = 0) (sched ++ [(0, out)])) by (apply Forall_app; split; [exact Hall | repeat constructor]).
  destruct (schedule_a g _ Hg Hall' _ (mkSInv g _ (AInv_init g p) (gi_len g _ (GInv_init g p)) (PhaseOk_init g p))) as [[HA _ _] [_ Hst]].
  assert (Hevs : In (last (snd (run_schedule g (init_state g p) (sched ++ [(0, out)]))) []) (snd (run_schedule g (init_state g p) (sched ++ [(0, out)])))).
  { rewrite run_schedule_app. cbn [snd]. cbn [run_schedule]. destruct (resume g _ 0 out) as [s1 e]. cbn. rewrite last_last. apply in_or_app. right. now left. }
  destruct (Hst _ Hevs 0 i u pre l Hin par Hpar Hpl Ho) as [S|S]; [now left|].
  destruct (exists_pass_dec (results (nst (fst (run_schedule g (init_state g p) (sched ++ [(0, out)]))) par))) as [[res [Hr Hs]]|Hnone].
  - left. intros x Hx. now apply (ai_pass g _ HA par res).
  - right. split; assumption.
Qed.

(* ---- the hypotheses as an executable check ---- *)
Theorem simple_b_sound g : simple_b g = true -> simple g.
Proof.
  unfold simple_b. intros H. apply andb_prop in H. destruct H as [H1 H]. rewrite forallb_forall in H.
  assert (Hin : forall i, i < length (g_nodes g) -> _) by (intros i Hi; apply (H i); apply in_seq; lia).
  assert (Hout : forall i, length (g_nodes g) <= i -> nd g i = dummy_node) by (intros i Hi; now apply nd_overflow).
  assert (Hparts : forall i, i < length (g_nodes g) ->
            n_bridged (nd g i) = [] /\
            (forall o, In o (n_objs (nd g i)) -> (o_unset o =? 0)%N = false /\ o_perm_install o = false) /\
            n_own_in_scope (nd g i) = true /\ n_shared_in_scope (nd g i) = true /\ n_form (nd g i) <> 0%N /\
            (forall j, j < length (g_nodes g) -> n_form (nd g i) = n_form (nd g j) -> i = j) /\
            (forall p, In p (n_parents (nd g i)) -> p < length (g_nodes g)) /\
            dry (n_cfg (nd g i)) = n_dry (nd g i) /\ flat (n_cfg (nd g i)) = n_flat (nd g i) /\ cloned (n_cfg (nd g i)) = n_cloned (nd g i)).
  { intros i Hi. specialize (Hin i Hi). cbn beta zeta in Hin.
    repeat (apply andb_prop in Hin; destruct Hin as [Hin ?]).
    split; [destruct (n_bridged (nd g i)); [reflexivity | discriminate]|].
    split; [intros o Ho; match goal with Hf : forallb _ (n_objs _) = true |- _ => rewrite forallb_forall in Hf; specialize (Hf o Ho);
                           apply andb_prop in Hf; destruct Hf as [A B]; split; [now apply negb_true_iff in A | now apply negb_true_iff in B] end|].
    split; [assumption|]. split; [assumption|].
    split; [match goal with Hf : negb (n_form _ =? 0)%N = true |- _ => apply negb_true_iff in Hf; now apply N.eqb_neq in Hf end|].
    split; [intros j Hj Ef; match goal with Hf : forallb _ (seq 0 _) = true |- _ => rewrite forallb_forall in Hf;
                  specialize (Hf j (proj2 (in_seq _ _ _) (conj (Nat.le_0_l _) Hj))); apply orb_prop in Hf; destruct Hf as [Hf|Hf];
                  [now apply Nat.eqb_eq in Hf | apply negb_true_iff in Hf; apply N.eqb_neq in Hf; contradiction] end|].
    split; [intros p Hp; match goal with Hf : forallb _ (n_parents _) = true |- _ => rewrite forallb_forall in Hf; specialize (Hf p Hp); now apply Nat.ltb_lt in Hf end|].
    repeat split; now apply eqb_prop. }
  constructor.
  - now apply Nat.eqb_eq.
  - intros i. destruct (Nat.lt_ge_cases i (length (g_nodes g))) as [Hi|Hi]; [apply (Hparts i Hi) | now rewrite (Hout i Hi)].
  - intros i o Ho. destruct (Nat.lt_ge_cases i (length (g_nodes g))) as [Hi|Hi]; [now apply (Hparts i Hi) | rewrite (Hout i Hi) in Ho; destruct Ho].
  - intros i o Ho. destruct (Nat.lt_ge_cases i (length (g_nodes g))) as [Hi|Hi]; [now apply (Hparts i Hi) | rewrite (Hout i Hi) in Ho; destruct Ho].
  - intros i. destruct (Nat.lt_ge_cases i (length (g_nodes g))) as [Hi|Hi]; [split; apply (Hparts i Hi) | rewrite (Hout i Hi); split; reflexivity].
  - intros p p' Hp Hp' E. destruct (Hparts p Hp) as [_ [_ [_ [_ [_ [F _]]]]]]. now apply F.
  - intros p Hp. apply (Hparts p Hp).
  - intros i par Hi Hpar. destruct (Hparts i Hi) as [_ [_ [_ [_ [_ [_ [F _]]]]]]]. now apply F.
  - intros i. destruct (Nat.lt_ge_cases i (length (g_nodes g))) as [Hi|Hi]; [apply (Hparts i Hi) | rewrite (Hout i Hi); repeat split; reflexivity].
Qed.

Theorem available_at_start_b g p sched out i u pre l par :
  simple_b g = true -> Forall (fun x => fst x = 0) sched ->
  let r := run_schedule g (init_state g p) (sched ++ [(0, out)]) in
  In (EStart 0 i u pre l) (last (snd r) []) ->
  In par (n_parents (nd g i)) -> plain g par -> own g 0 par = true ->
  (forall x, In x (setstates (nd g par)) -> vis (fst r) x = true) \/
  (results (nst (fst r) par) <> [] /\ forall res, In res (results (nst (fst r) par)) -> r_status res <> SPass).
Proof. intros H. apply available_at_start. now apply simple_b_sound. Qed.
