(* C10 / C03, for every schedule: the executions of one test carry strictly increasing - hence pairwise distinct -
   identifiers.  The uid suffix of an execution is the number of results (pending placeholders included) the class of
   bridged copies holds when it starts, and every execution leaves one more entry behind.  Results only ever shrink
   when the creation pre-step of an object-root node ends (its private placeholder is removed), so the theorem is about
   the classes without object-root nodes (every test except the object creation nodes, whose two-step start is
   labelled partial). *)
From Coq Require Import List ZArith NArith Bool Arith Lia PrimFloat.
Import ListNotations.
From I2N Require Import Model.Retry Model.Traverse Model.TraverseRun Proofs.TraverseProofs Proofs.TraverseInv Proofs.TraverseExcl.
Local Open Scope nat_scope.

Definition rlen (s : state) (k : nat) : nat := length (results (nst s k)).
(* results of nodes that are not object roots never shrink; the number of node states stays *)
Definition rm (g : graph) (s s' : state) : Prop :=
  length (ns s') = length (ns s) /\ forall k, n_objroot (nd g k) = false -> rlen s k <= rlen s' k.
Definition Lc (g : graph) (s : state) (i : nat) : nat := length (shared_results g s i).
Definition nonobjc (g : graph) (i : nat) : Prop := forall k, In k (class_of g i) -> n_objroot (nd g k) = false.

Lemma rm_refl g s : rm g s s.
Proof. split; [reflexivity | intros; lia]. Qed.
Lemma rm_trans g a b c : rm g a b -> rm g b c -> rm g a c.
Proof. intros [A1 A2] [B1 B2]. split; [congruence|]. intros k Hk. specialize (A2 k Hk). specialize (B2 k Hk). lia. Qed.
Lemma rm_ns g s s' : ns s' = ns s -> rm g s s'.
Proof. intros H. unfold rm, rlen, nst. rewrite H. split; [reflexivity | intros; lia]. Qed.

Lemma rlen_set_n s i f k :
  rlen (set_n s i f) k = rlen s k \/ (k = i /\ i < length (ns s) /\ rlen (set_n s i f) k = length (results (f (nst s i)))).
Proof.
  unfold rlen. destruct (nst_set_n_cases s i f k) as [E|[-> [Hl E]]]; [left; now rewrite E|].
  right. split; [reflexivity|]. split; [exact Hl|]. now rewrite E.
Qed.
Lemma rm_set_n g s i f : (forall x, length (results x) <= length (results (f x))) -> rm g s (set_n s i f).
Proof.
  intros Hf. split; [apply length_ns_set_n|]. intros k _.
  destruct (rlen_set_n s i f k) as [E|[-> [_ E]]]; rewrite E; [lia|]. apply Hf.
Qed.
(* ... except on an object root *)
Lemma rm_set_n_objroot g s i f : n_objroot (nd g i) = true -> rm g s (set_n s i f).
Proof.
  intros Ho. split; [apply length_ns_set_n|]. intros k Hk.
  destruct (rlen_set_n s i f k) as [E|[-> _]]; [rewrite E; lia | congruence].
Qed.

Lemma Lc_mono g s s' i : rm g s s' -> nonobjc g i -> Lc g s i <= Lc g s' i.
Proof.
  intros [_ H] Hc. unfold Lc, shared_results. unfold nonobjc in Hc.
  induction (class_of g i) as [|c C IH]; cbn; [lia|]. rewrite !app_length.
  assert (Hc' : forall k, In k C -> n_objroot (nd g k) = false) by (intros k Hk; apply Hc; now right).
  specialize (IH Hc'). specialize (H c (Hc c (or_introl eq_refl))). unfold rlen in H. lia.
Qed.

Lemma Lc_strict g s s' i : (forall k, rlen s k <= rlen s' k) -> rlen s i < rlen s' i -> Lc g s i < Lc g s' i.
Proof.
  intros H Hi. unfold Lc, shared_results, class_of. cbn. rewrite !app_length. unfold rlen in Hi.
  assert (Hl : forall C, length (flat_map (fun j => results (nst s j)) C) <= length (flat_map (fun j => results (nst s' j)) C)).
  { induction C as [|c C IH]; cbn; [lia|]. rewrite !app_length. specialize (H c). unfold rlen in H. lia. }
  specialize (Hl (n_bridged (nd g i))). lia.
Qed.

(* ---- the functions of the model ---- *)
Ltac res_tac := let x := fresh "x" in intros x; cbn; try rewrite app_length; lia.

Lemma rm_run_decision g s i w b sc s' : run_decision g s i w = Some (b, sc, s') -> rm g s s'.
Proof.
  unfold run_decision. intros H.
  repeat match type of H with
         | (if ?c then _ else _) = _ => destruct c
         | match ?x with _ => _ end = _ => destruct x eqn:?
         end; try discriminate; injection H as _ _ <-; try apply rm_refl; apply rm_set_n; res_tac.
Qed.
Lemma rm_eval_run g s i w b s' e : eval_run g s i w = Some (b, s', e) -> rm g s s'.
Proof.
  unfold eval_run. destruct (run_decision g s i w) as [[[b0 sc] s0]|] eqn:E; [|discriminate].
  intros H. injection H as _ <- _. eapply rm_run_decision; eauto.
Qed.
Lemma rm_pull_locations g s i : rm g s (pull_locations g s i).
Proof. unfold pull_locations. destruct (n_flat (nd g i)); [apply rm_refl|]. apply rm_set_n. res_tac. Qed.

Lemma length_replace_first_unknown l i st : length l <= length (replace_first_unknown l i st).
Proof.
  induction l as [|r t IH]; cbn; [lia|].
  destruct (status_eqb (r_status r) SUnknown && Nat.eqb (r_node r) i && negb (r_prev r)); cbn; [rewrite app_length; cbn; lia | lia].
Qed.
Lemma rm_finish_run g s i w out : rm g s (finish_run g s i w out).
Proof.
  unfold finish_run. destruct out as [st|]; [|apply rm_refl].
  assert (H : rm g s (set_n s i (fun x => mkN (started x) (finished x) (replace_first_unknown (results x) i st)
                                              (rerun_off x) (mct_now x) (locs x)))).
  { apply rm_set_n. intros x. cbn. apply length_replace_first_unknown. }
  destruct st; exact H.
Qed.
Lemma rm_mark_done g s i w : rm g s (mark_done s i w).
Proof. unfold mark_done. apply rm_set_n. res_tac. Qed.

Lemma rm_reverse_node g s i w s' e : reverse_node g s i w = Some (s', e) -> rm g s s'.
Proof.
  unfold reverse_node. intros H.
  assert (Hk : forall st (o : option nat), rm g st (set_n st i (fun x => mkN o (finished x) (results x) (rerun_off x) (mct_now x) (locs x))))
    by (intros; apply rm_set_n; res_tac).
  destruct (is_occupied g s i w); [injection H as <- _; apply rm_refl|].
  set (s1 := set_n s i _) in H.
  assert (H1 : rm g s s1) by apply Hk.
  assert (Hd : forall u sts, rm g s1 (door_effect s1 w u sts)) by (intros; apply rm_ns; reflexivity).
  repeat match type of H with
         | (if ?c then _ else _) = _ => destruct c
         | match ?x with _ => _ end = _ => destruct x eqn:?
         | (let '(_, _) := ?x in _) = _ => destruct x eqn:?
         end; try discriminate; injection H as <- _;
    (eapply rm_trans; [exact H1|]);
    first [ apply Hk | eapply rm_trans; [apply Hd | apply Hk] ].
Qed.

Lemma rm_bounce g s w next : rm g s (fst (bounce g s w next)).
Proof.
  unfold bounce. cbn [fst]. match goal with |- rm g s (set_w ?a _ _) => apply (rm_trans g s a); [|apply rm_ns; reflexivity] end.
  destruct (_ && _); [|apply rm_refl]. apply rm_set_n. res_tac.
Qed.

(* ---- starts: the uid is the class's result count, one more entry afterwards ---- *)
Definition is_start (e : event) : bool := match e with EStart _ _ _ _ _ => true | _ => false end.
(* the uid bound of the non-pre starts among the events of a piece from s to s' *)
(* the retry budget of a node: max_tries (2 under replay when unset), at least 1 *)
Definition budget (g : graph) (i : nat) : nat :=
  Z.to_nat (Z.max (match tries (n_cfg (nd g i)) with Some m => m | None => 0 end) 1).
Definition ustart (g : graph) (s s' : state) (e : list event) : Prop :=
  forall w i u l, In (EStart w i u false l) e -> nonobjc g i ->
    Lc g s i <= u /\ u < Lc g s' i /\ (stateful (nd g i) = false -> u < budget g i).

Lemma run_stateless_budget c sts : run_stateless c sts = Some true ->
  length sts < Z.to_nat (Z.max (match tries c with Some m => m | None => 0 end) 1).
Proof.
  unfold run_stateless. destruct (dry c); [discriminate|]. destruct (flat c); [discriminate|]. destruct (cloned c); [discriminate|].
  destruct (length sts =? 0) eqn:E0; [apply Nat.eqb_eq in E0; intros _; rewrite E0; destruct (tries c); lia|].
  unfold should_rerun. destruct (dry c); [discriminate|]. destruct (flat c); [discriminate|]. destruct (cloned c); [discriminate|].
  destruct (valid_tokens (rerun_tokens c)); [|discriminate]. destruct (valid_tokens (stop c)); [|discriminate].
  destruct (tries c) as [mt|]; [|discriminate].
  destruct (mt <? 0)%Z; [discriminate|]. destruct (negb _); [discriminate|]. destruct (existsb _ _); [discriminate|].
  destruct (mt =? 1)%Z; [discriminate|]. destruct (0 <? mt - Z.of_nat (length sts))%Z eqn:E; [|discriminate].
  intros _. apply Z.ltb_lt in E. lia.
Qed.

Lemma run_decision_stateless g s i w sc s' : run_decision g s i w = Some (true, sc, s') -> stateful (nd g i) = false ->
  s' = s /\ length (shared_results g s i) < budget g i.
Proof.
  unfold run_decision. intros H Hs.
  destruct (n_root (nd g i)); [discriminate|]. destruct (n_dry (nd g i)); [discriminate|]. destruct (n_flat (nd g i)); [discriminate|].
  destruct (n_cloned (nd g i)); [discriminate|]. destruct (negb (own g w i)); [discriminate|]. rewrite Hs in H. cbn [negb] in H.
  destruct (run_stateless (n_cfg (nd g i)) (result_statuses (shared_results g s i))) as [b|] eqn:E; [|discriminate].
  injection H as -> _ <-. split; [reflexivity|]. apply run_stateless_budget in E. unfold result_statuses in E. rewrite map_length in E. exact E.
Qed.
(* a section emits at most one start, as its last event *)
Definition last_start (e : list event) : Prop :=
  no_start e \/ exists e1 w i u p l, e = e1 ++ [EStart w i u p l] /\ no_start e1.

Definition upiece (g : graph) (s s' : state) (e : list event) : Prop := rm g s s' /\ ustart g s s' e /\ last_start e.
Definition npiece (g : graph) (s s' : state) (e : list event) : Prop := rm g s s' /\ no_start e.

Lemma ustart_no_start g s s' e : no_start e -> ustart g s s' e.
Proof. intros H w i u l Hin. exfalso. eapply H; eauto. Qed.
Lemma upiece_of_npiece g s s' e : npiece g s s' e -> upiece g s s' e.
Proof. intros [H1 H2]. split; [exact H1|]. split; [now apply ustart_no_start | now left]. Qed.
Lemma npiece_trans g a b c e1 e2 : npiece g a b e1 -> npiece g b c e2 -> npiece g a c (e1 ++ e2).
Proof. intros [A1 A2] [B1 B2]. split; [eapply rm_trans; eauto | now apply no_start_app]. Qed.
Lemma upiece_prepend g a b c e1 e2 : npiece g a b e1 -> upiece g b c e2 -> upiece g a c (e1 ++ e2).
Proof.
  intros [A1 A2] [B1 [B2 B3]]. split; [eapply rm_trans; eauto|]. split.
  - intros w i u l Hin Hc. apply in_app_or in Hin. destruct Hin as [Hin|Hin]; [exfalso; eapply A2; eauto|].
    destruct (B2 w i u l Hin Hc) as [H1 H2]. split; [|exact H2]. pose proof (Lc_mono g a b i A1 Hc). lia.
  - destruct B3 as [B3|[e3 [w [i [u [p [l [-> B3]]]]]]]].
    + left. now apply no_start_app.
    + right. exists (e1 ++ e3), w, i, u, p, l. split; [now rewrite app_assoc | now apply no_start_app].
Qed.
Lemma npiece_fail g s w c : npiece g s (set_phase s w (Failed c)) [EFail w c].
Proof. split; [apply rm_ns; reflexivity | ns_simple]. Qed.

Lemma rlen_ns s s' k : ns s' = ns s -> rlen s' k = rlen s k.
Proof. unfold rlen, nst. now intros ->. Qed.

(* ---- a worker is in the creation pre-step only on an object root ---- *)
Definition PreOk (g : graph) (w : nat) (s : state) : Prop :=
  match ph (wst s w) with Running n true _ _ => n_objroot (nd g n) = true | _ => True end.
Lemma PreOk_ws g w s s' : ws s' = ws s -> PreOk g w s -> PreOk g w s'.
Proof. unfold PreOk, wst. now intros ->. Qed.
Lemma PreOk_set_path g w s p : PreOk g w s -> PreOk g w (set_path s w p).
Proof.
  unfold PreOk, set_path. intros H.
  destruct (wst_set_w_cases s w (fun x => mkW p (occ_at x) (occ_wait x) (ph x))) as [E|[E _]]; rewrite E; exact H.
Qed.
Lemma PreOk_set_phase g w s p :
  PreOk g w s -> match p with Running n true _ _ => n_objroot (nd g n) = true | _ => True end -> PreOk g w (set_phase s w p).
Proof.
  unfold PreOk, set_phase. intros H Hp.
  destruct (wst_set_w_cases s w (fun x => mkW (path x) (occ_at x) (occ_wait x) p)) as [E|[E _]]; rewrite E; [exact Hp | exact H].
Qed.

(* traverse_node *)
Lemma traverse_node_u g s i w : LenOk g s ->
  match traverse_node g s i w with
  | TnAwait s' e pre => upiece g s s' e /\ (pre = true -> n_objroot (nd g i) = true)
  | TnDone s' e => npiece g s s' e
  | TnFail s' e => npiece g s s' e /\ (PreOk g w s -> PreOk g w s')
  end.
Proof.
  intros Hlen. unfold traverse_node. destruct (is_occupied g s i w); [split; [apply rm_refl | apply no_start_nil]|].
  set (s1 := set_n s i _). set (s2 := pull_locations g s1 i).
  assert (H02 : rm g s s2).
  { eapply rm_trans; [|apply rm_pull_locations]. unfold s1. apply rm_set_n. res_tac. }
  unfold eval_run. destruct (run_decision g s2 i w) as [[[b sc] s3]|] eqn:E.
  - pose proof (rm_run_decision _ _ _ _ _ _ _ E) as H23.
    assert (H03 : rm g s s3) by (eapply rm_trans; eauto).
    assert (Hns : no_start (if n_root (nd g i) then [] else
                              (match sc with Some m => [EScan w i m] | None => [] end) ++ [EDecide w i b])).
    { destruct (n_root (nd g i)); [apply no_start_nil|]. destruct sc; ns_simple. }
    destruct b.
    + pose proof (run_decision_startable _ _ _ _ _ _ E) as Hst.
      assert (Hi : i < length (ns s3)).
      { destruct H03 as [L _]. rewrite L. unfold LenOk in Hlen. rewrite Hlen. eapply startable_lt; eauto. }
      destruct (n_objroot (nd g i)) eqn:Eo; cbn.
      * split; [|reflexivity]. apply upiece_prepend with (b := s3); [split; assumption|].
        split; [apply rm_set_n; res_tac|]. split.
        -- intros w' i' u l [H|[]]. discriminate H.
        -- right. exists [], w, i, (length (results (nst s3 i))), true, (locs (nst s3 i)). split; [reflexivity | apply no_start_nil].
      * split; [|discriminate]. apply upiece_prepend with (b := s3); [split; assumption|].
        set (f := fun x => mkN (started x) (finished x) (results x ++ [mkR i SUnknown false]) (rerun_off x) (mct_now x) (locs x)).
        split; [apply rm_set_n; res_tac|]. split.
        -- intros w' i' u l [H|[]] _. injection H as _ <- <- _. split; [apply Nat.eq_le_incl; reflexivity|].
           change (length (shared_results g s3 i)) with (Lc g s3 i).
           split; [|intros Hsl; destruct (run_decision_stateless g s2 i w sc s3 E Hsl) as [-> Hb]; exact Hb].
           apply Lc_strict.
           ++ intros k. destruct (rlen_set_n s3 i f k) as [E1|[-> [_ E1]]]; rewrite E1; [lia|]. unfold f. cbn. rewrite app_length. unfold rlen. lia.
           ++ unfold rlen at 2. rewrite nst_set_n_same by exact Hi. unfold f. cbn. rewrite app_length. unfold rlen. cbn. lia.
        -- right. exists [], w, i, (length (shared_results g s3 i)), false, (locs (nst s3 i)). split; [reflexivity | apply no_start_nil].
    + split; [|cbn; exact Hns]. eapply rm_trans; [exact H03 | apply rm_mark_done].
  - unfold fail. cbn. split; [split; [eapply rm_trans; [exact H02 | apply rm_ns; reflexivity] | ns_simple]|].
    intros HP. apply PreOk_set_phase; [|exact I]. apply (PreOk_ws g w s); [|exact HP]. unfold s2. rewrite ws_pull_locations. reflexivity.
Qed.

Lemma LenOk_rm g s s' : rm g s s' -> LenOk g s -> LenOk g s'.
Proof. unfold LenOk. intros [H _] E. congruence. Qed.

Lemma Lc_ns g s s' i : ns s' = ns s -> Lc g s' i = Lc g s i.
Proof. unfold Lc, shared_results, nst. now intros ->. Qed.
Lemma upiece_ns g s s1 s2 e : ns s2 = ns s1 -> upiece g s s1 e -> upiece g s s2 e.
Proof.
  intros Hns [H1 [H2 H3]]. split; [eapply rm_trans; [exact H1 | now apply rm_ns]|]. split; [|exact H3].
  intros w i u l Hin Hc. rewrite (Lc_ns g s1 s2 i Hns). exact (H2 w i u l Hin Hc).
Qed.

(* the result of one loop iteration: no start before the section ends *)
Definition uit (g : graph) (w : nat) (s : state) (r : it_res) : Prop :=
  match r with
  | Cont s' e => npiece g s s' e /\ (PreOk g w s -> PreOk g w s')
  | Halt s' e => upiece g s s' e /\ (PreOk g w s -> PreOk g w s')
  end.

Lemma uit_prepend g w s s1 e r : npiece g s s1 e -> ws s1 = ws s -> uit g w s1 r ->
  uit g w s (match r with Cont s2 e2 => Cont s2 (e ++ e2) | Halt s2 e2 => Halt s2 (e ++ e2) end).
Proof.
  intros Hn Hws H. destruct r as [s2 e2|s2 e2]; cbn in *; destruct H as [H1 H2]; (split;
    [|intros HP; apply H2; now apply (PreOk_ws g w s)]).
  - now apply (npiece_trans g s s1 s2).
  - now apply (upiece_prepend g s s1 s2).
Qed.

Lemma uit_fail g w s c evs s0 : npiece g s0 s evs -> ws s = ws s0 ->
  upiece g s0 (set_phase s w (Failed c)) (evs ++ [EFail w c]) /\ (PreOk g w s0 -> PreOk g w (set_phase s w (Failed c))).
Proof.
  intros Hn Hws. split.
  - apply upiece_of_npiece. eapply npiece_trans; [exact Hn | apply npiece_fail].
  - intros HP. apply PreOk_set_phase; [now apply (PreOk_ws g w s0) | exact I].
Qed.

Lemma after_from_child_u g s w next previous : uit g w s (after_from_child g s w next previous).
Proof.
  unfold after_from_child. destruct (eval_run g s next w) as [[[b s1] evs]|] eqn:E.
  - pose proof (rm_eval_run _ _ _ _ _ _ _ E) as Hr. pose proof (ws_eval_run _ _ _ _ _ _ _ E) as Hws.
    pose proof (no_start_eval_run _ _ _ _ _ _ _ E) as Hns.
    set (s2 := if b then s1 else drop_parent g s1 previous next w).
    assert (Hns2 : ns s2 = ns s1) by (unfold s2; destruct b; reflexivity).
    assert (Hws2 : ws s2 = ws s) by (unfold s2; destruct b; [exact Hws | cbn; exact Hws]).
    cbn. split.
    + split; [eapply rm_trans; [exact Hr|]; eapply rm_trans; [apply rm_ns; exact Hns2 | apply rm_ns; reflexivity]|].
      apply no_start_app; [exact Hns|]. destruct b; ns_simple.
    + intros HP. unfold pop. apply PreOk_set_path. now apply (PreOk_ws g w s).
  - unfold fail. cbn. apply (uit_fail g w s 3 [] s); [split; [apply rm_refl | apply no_start_nil] | reflexivity].
Qed.

Lemma after_from_parent_u g s w next : uit g w s (after_from_parent g s w next).
Proof.
  unfold after_from_parent. destruct (eval_run g s next w) as [[[b s1] evs]|] eqn:E.
  - pose proof (rm_eval_run _ _ _ _ _ _ _ E) as Hr. pose proof (ws_eval_run _ _ _ _ _ _ _ E) as Hws.
    pose proof (no_start_eval_run _ _ _ _ _ _ _ E) as Hns.
    assert (Hn1 : npiece g s s1 evs) by (split; assumption).
    destruct b.
    + cbn. split; [split; [eapply rm_trans; [exact Hr | apply rm_ns; reflexivity] | exact Hns]|].
      intros HP. unfold pop. apply PreOk_set_path. now apply (PreOk_ws g w s).
    + destruct (cleanup_ready g s1 next w).
      * set (s2 := fold_left _ (n_parents (nd g next)) s1).
        assert (Hws2 : ws s2 = ws s1) by apply ws_fold_drop_child.
        assert (Hns2 : ns s2 = ns s1) by apply ns_fold_drop_child.
        destruct (reverse_node g s2 next w) as [[s3 e]|] eqn:Er.
        -- pose proof (ws_reverse_node _ _ _ _ _ _ Er) as Hws3. pose proof (rm_reverse_node _ _ _ _ _ _ Er) as Hr3.
           pose proof (no_start_reverse_node _ _ _ _ _ _ Er) as Hns3.
           cbn. split.
           ++ split; [eapply rm_trans; [exact Hr|]; eapply rm_trans; [apply rm_ns; exact Hns2|]; eapply rm_trans; [exact Hr3 | apply rm_ns; reflexivity]|].
              apply no_start_app; [exact Hns|]. apply (no_start_app [EDropChildren w next] e); [ns_simple | exact Hns3].
           ++ intros HP. unfold pop. apply PreOk_set_path. apply (PreOk_ws g w s); [congruence | exact HP].
        -- unfold fail. cbn.
           change (evs ++ [EDropChildren w next; EFail w 5]) with (evs ++ [EDropChildren w next] ++ [EFail w 5]).
           rewrite app_assoc.
           apply (uit_fail g w s2 5 (evs ++ [EDropChildren w next]) s); [|congruence].
           split; [eapply rm_trans; [exact Hr | apply rm_ns; exact Hns2] | apply no_start_app; [exact Hns | ns_simple]].
      * destruct (pick_child g s1 next w) as [[c s2]|] eqn:Ep.
        -- pose proof (ws_pick_child _ _ _ _ _ _ Ep) as Hws2. pose proof (ns_pick_child _ _ _ _ _ _ Ep) as Hns2.
           cbn. split.
           ++ split; [eapply rm_trans; [exact Hr|]; eapply rm_trans; [apply rm_ns; exact Hns2 | apply rm_ns; reflexivity]|].
              apply no_start_app; [exact Hns | ns_simple].
           ++ intros HP. unfold push. apply PreOk_set_path. apply (PreOk_ws g w s); [congruence | exact HP].
        -- unfold fail. cbn. apply (uit_fail g w s1 1 evs s); [exact Hn1 | exact Hws].
  - unfold fail. cbn. apply (uit_fail g w s 3 [] s); [split; [apply rm_refl | apply no_start_nil] | reflexivity].
Qed.

Lemma ws_traverse_node g s i w :
  match traverse_node g s i w with TnAwait s' _ _ | TnDone s' _ => ws s' = ws s | TnFail _ _ => True end.
Proof.
  unfold traverse_node. destruct (is_occupied g s i w); [reflexivity|].
  set (s2 := pull_locations g _ i). assert (Hws2 : ws s2 = ws s) by (unfold s2; rewrite ws_pull_locations; reflexivity).
  unfold eval_run. destruct (run_decision g s2 i w) as [[[b sc] s3]|] eqn:E; [|unfold fail; cbn; exact I].
  pose proof (ws_run_decision _ _ _ _ _ _ _ E) as Hws3. destruct b; [destruct (n_objroot (nd g i)); cbn; congruence | cbn; congruence].
Qed.

Lemma do_traverse_u g s w next (fc : bool) previous : LenOk g s -> uit g w s (do_traverse g s w next fc previous).
Proof.
  intros Hlen. unfold do_traverse. pose proof (traverse_node_u g s next w Hlen) as H. pose proof (ws_traverse_node g s next w) as Hws.
  destruct (traverse_node g s next w) as [s1 e pre|s1 e|s1 e].
  - destruct H as [H Hpre]. cbn. split; [apply (upiece_ns g s s1); [reflexivity | exact H]|].
    intros HP. apply PreOk_set_phase; [now apply (PreOk_ws g w s)|]. destruct pre; [now apply Hpre | exact I].
  - apply (uit_prepend g w s s1); [exact H | exact Hws|].
    destruct fc; [apply after_from_child_u | apply after_from_parent_u].
  - destruct H as [H HP]. cbn. split; [now apply upiece_of_npiece | exact HP].
Qed.

Lemma PreOk_set_w g w s f :
  (forall x, match ph (f x) with Running _ true _ _ => False | _ => True end) -> PreOk g w s -> PreOk g w (set_w s w f).
Proof.
  intros Hf H. unfold PreOk. destruct (wst_set_w_cases s w f) as [E|[E _]]; rewrite E; [|exact H].
  specialize (Hf (wst s w)). destruct (ph (f (wst s w))) as [| n [|] fc u | | |c]; tauto.
Qed.

Lemma iter_u g s w : LenOk g s -> uit g w s (iter g s w).
Proof.
  intros Hlen. unfold iter.
  assert (Hfail : forall c, uit g w s (let '(s1, e) := fail s w c in Halt s1 e)).
  { intros c. unfold fail. cbn. apply (uit_fail g w s c [] s); [split; [apply rm_refl | apply no_start_nil] | reflexivity]. }
  destruct (cleanup_ready g s (g_root g) w).
  - destruct (path (wst s w)) as [|r [|r2 rest]]; try apply Hfail.
    destruct (Nat.eqb r (g_root g)); [|apply Hfail].
    cbn. split; [apply upiece_of_npiece; split; [apply rm_ns; reflexivity | ns_simple]|].
    intros HP. apply PreOk_set_w; [intros x; exact I | exact HP].
  - destruct (path (wst s w)) as [|next [|previous rest]]; try apply Hfail.
    + destruct (pick_child g s next w) as [[c s1]|] eqn:Ep; [|apply Hfail].
      pose proof (ws_pick_child _ _ _ _ _ _ Ep) as Hws. pose proof (ns_pick_child _ _ _ _ _ _ Ep) as Hns.
      cbn. split; [split; [eapply rm_trans; [apply rm_ns; exact Hns | apply rm_ns; reflexivity] | ns_simple]|].
      intros HP. unfold push. apply PreOk_set_path. now apply (PreOk_ws g w s).
    + destruct (is_occupied g s next w).
      * pose proof (rm_bounce g s w next) as Hb. unfold bounce in *. cbn [fst] in Hb. cbn.
        split; [apply upiece_of_npiece; split; [exact Hb | ns_simple]|].
        intros HP. apply PreOk_set_w; [intros x; exact I|]. destruct (_ && _); [|exact HP]. apply (PreOk_ws g w s); [reflexivity | exact HP].
      * assert (Hpp : uit g w s (match pick_parent g s next w with
                                  | None => let '(s1, e) := fail s w 1 in Halt s1 e
                                  | Some (p, s1) => Cont (push s1 w p) [EPick w next p false]
                                  end)).
        { destruct (pick_parent g s next w) as [[p s1]|] eqn:Ep; [|apply Hfail].
          pose proof (ws_pick_parent _ _ _ _ _ _ Ep) as Hws. pose proof (ns_pick_parent _ _ _ _ _ _ Ep) as Hns.
          cbn. split; [split; [eapply rm_trans; [apply rm_ns; exact Hns | apply rm_ns; reflexivity] | ns_simple]|].
          intros HP. unfold push. apply PreOk_set_path. now apply (PreOk_ws g w s). }
        destruct (memn previous (n_children (nd g next))).
        -- destruct (setup_ready g s next w); [now apply do_traverse_u | exact Hpp].
        -- destruct (memn previous (n_parents (nd g next))); [|apply Hfail].
           destruct (negb (setup_ready g s next w)); [exact Hpp | now apply do_traverse_u].
Qed.

Definition usect (g : graph) (w : nat) (s s' : state) (e : list event) : Prop :=
  upiece g s s' e /\ (PreOk g w s -> PreOk g w s').

Lemma run_loop_u fuel g w : forall s, LenOk g s -> usect g w s (fst (run_loop fuel g s w)) (snd (run_loop fuel g s w)).
Proof.
  induction fuel as [|f IH]; intros s Hlen; cbn [run_loop].
  - unfold fail. cbn. apply (uit_fail g w s 6 [] s); [split; [apply rm_refl | apply no_start_nil] | reflexivity].
  - pose proof (iter_u g s w Hlen) as H. destruct (iter g s w) as [s1 e|s1 e]; cbn in H.
    + destruct H as [[Hr Hn] HP]. specialize (IH s1 (LenOk_rm g s s1 Hr Hlen)).
      destruct (run_loop f g s1 w) as [s2 e2]. cbn in *. destruct IH as [I1 I2].
      split; [apply (upiece_prepend g s s1 s2); [split; assumption | exact I1] | auto].
    + exact H.
Qed.

Lemma continue_u g w s r : uit g w s r -> LenOk g s ->
  usect g w s (fst (match r with Halt s2 e => (s2, e) | Cont s2 e => let '(s3, e3) := run_loop FUEL g s2 w in (s3, e ++ e3) end))
              (snd (match r with Halt s2 e => (s2, e) | Cont s2 e => let '(s3, e3) := run_loop FUEL g s2 w in (s3, e ++ e3) end)).
Proof.
  intros H Hlen. destruct r as [s2 e|s2 e]; cbn in H.
  - destruct H as [[Hr Hn] HP]. pose proof (run_loop_u FUEL g w s2 (LenOk_rm g s s2 Hr Hlen)) as HL.
    destruct (run_loop FUEL g s2 w) as [s3 e3]. cbn in *. destruct HL as [L1 L2].
    split; [apply (upiece_prepend g s s2 s3); [split; assumption | exact L1] | auto].
  - exact H.
Qed.

Lemma usect_pre g w s s1 e : rm g s s1 -> (PreOk g w s -> PreOk g w s1) -> usect g w s1 (fst e) (snd e) -> usect g w s (fst e) (snd e).
Proof.
  intros Hr HP [[U1 [U2 U3]] U4]. split; [|auto]. split; [eapply rm_trans; eauto|]. split; [|exact U3].
  intros w' i u l Hin Hc. destruct (U2 w' i u l Hin Hc) as [A B]. split; [|exact B]. pose proof (Lc_mono g s s1 i Hr Hc). lia.
Qed.

Theorem resume_u g s w out : LenOk g s -> PreOk g w s -> usect g w s (fst (resume g s w out)) (snd (resume g s w out)).
Proof.
  intros Hlen HPre. unfold resume. destruct (ph (wst s w)) as [| next pre fc uid | | |c] eqn:Eph.
  - apply (usect_pre g w s (set_phase s w Ready)); [apply rm_ns; reflexivity | intros _; apply PreOk_set_phase; [exact HPre | exact I]|].
    apply run_loop_u. exact Hlen.
  - set (s0 := mkS (ws s) (ns s) (r_ps s) (r_pc s) (r_ds s) (r_dc s) (pool s) _).
    assert (H0 : rm g s s0) by (apply rm_ns; reflexivity).
    set (seen := match find _ (job s0) with Some e => Some (snd e) | None => None end).
    destruct pre.
    + assert (Hobj : n_objroot (nd g next) = true) by (unfold PreOk in HPre; rewrite Eph in HPre; exact HPre).
      set (s1 := end_pre s0 next).
      assert (H1 : rm g s s1) by (eapply rm_trans; [exact H0 | unfold s1, end_pre; now apply rm_set_n_objroot]).
      destruct (run_ok seen).
      * unfold start_run. cbn [fst snd].
        match goal with |- usect g w s (set_phase ?a w ?p) _ => set (s2 := a) end.
        assert (H2 : rm g s s2) by (eapply rm_trans; [exact H1 | unfold s2; apply rm_set_n; res_tac]).
        split; [|intros _; apply PreOk_set_phase; [apply (PreOk_ws g w s); [reflexivity | exact HPre] | exact I]].
        split; [eapply rm_trans; [exact H2 | apply rm_ns; reflexivity]|]. split.
        -- intros w' i u l [H|[]] Hc. injection H as _ <- _ _. exfalso.
           specialize (Hc next (or_introl eq_refl)). congruence.
        -- right. exists [], w, next, (length (shared_results g s1 next)), false, (locs (nst s1 next)). split; [reflexivity | apply no_start_nil].
      * set (s2 := set_n s1 next _). set (s3 := set_phase (mark_done s2 next w) w Ready).
        assert (H3 : rm g s s3).
        { eapply rm_trans; [exact H1|]. apply (rm_trans g s1 s2); [unfold s2; apply rm_set_n; intros x; cbn [results]; rewrite app_length; apply Nat.le_add_r|].
          eapply rm_trans; [apply rm_mark_done | apply rm_ns; reflexivity]. }
        apply (usect_pre g w s s3); [exact H3 | intros _; apply PreOk_set_phase; [apply (PreOk_ws g w s); [reflexivity | exact HPre] | exact I]|].
        apply continue_u; [destruct fc; [apply after_from_child_u | apply after_from_parent_u] | now apply (LenOk_rm g s s3)].
    + set (s3 := set_phase (mark_done (finish_run g s0 next w seen) next w) w Ready).
      assert (Hws : ws (mark_done (finish_run g s0 next w seen) next w) = ws s).
      { unfold mark_done, finish_run. destruct seen as [st|]; [|reflexivity]. destruct st; reflexivity. }
      assert (H3 : rm g s s3).
      { eapply rm_trans; [exact H0|]. eapply rm_trans; [apply rm_finish_run|]. eapply rm_trans; [apply rm_mark_done | apply rm_ns; reflexivity]. }
      apply (usect_pre g w s s3); [exact H3 | intros _; apply PreOk_set_phase; [apply (PreOk_ws g w s); [exact Hws | exact HPre] | exact I]|].
      apply continue_u; [destruct fc; [apply after_from_child_u | apply after_from_parent_u] | now apply (LenOk_rm g s s3)].
  - apply (usect_pre g w s (set_phase s w Ready)); [apply rm_ns; reflexivity | intros _; apply PreOk_set_phase; [exact HPre | exact I]|].
    apply run_loop_u. exact Hlen.
  - cbn. split; [apply upiece_of_npiece; split; [apply rm_refl | apply no_start_nil] | auto].
  - cbn. split; [apply upiece_of_npiece; split; [apply rm_refl | apply no_start_nil] | auto].
Qed.

(* ---- whole schedules ---- *)
Definition AllPre (g : graph) (s : state) : Prop := forall v, PreOk g v s.

Record UInv (g : graph) (s : state) : Prop := mkUInv { ui_len : LenOk g s; ui_pre : AllPre g s; ui_all : AllP g s }.

Lemma UInv_resume g s w out : UInv g s -> UInv g (fst (resume g s w out)).
Proof.
  intros [Hlen Hpre Hall]. destruct (resume_u g s w out Hlen (Hpre w)) as [[Hr _] HP].
  pose proof (resume_os g s w out Hall) as Hos. destruct (resume_ok g s w out Hall) as [_ Hall'].
  constructor; [now apply (LenOk_rm g s) | | exact Hall'].
  intros v. destruct (Nat.eq_dec v w) as [->|Hne]; [apply HP, Hpre|].
  unfold PreOk. rewrite (Hos v Hne). apply Hpre.
Qed.

Lemma UInv_init g p : UInv g (init_state g p).
Proof.
  constructor; [apply (gi_len g _ (GInv_init g p)) | | apply AllP_init].
  intros v. unfold PreOk. destruct (wst_init g p v) as [E|E]; rewrite E; exact I.
Qed.

Definition sched_ok (g : graph) (s s' : state) (ess : list (list event)) : Prop :=
  rm g s s' /\
  (forall evs, In evs ess -> last_start evs) /\
  (forall evs w i u l, In evs ess -> In (EStart w i u false l) evs -> nonobjc g i ->
     Lc g s i <= u /\ u < Lc g s' i /\ (stateful (nd g i) = false -> u < budget g i)) /\
  (forall a b e1 e2 w1 w2 i u1 u2 l1 l2, a < b -> nth_error ess a = Some e1 -> nth_error ess b = Some e2 ->
     In (EStart w1 i u1 false l1) e1 -> In (EStart w2 i u2 false l2) e2 -> nonobjc g i -> u1 < u2).

Lemma schedule_u g sched : forall s, UInv g s ->
  sched_ok g s (fst (run_schedule g s sched)) (snd (run_schedule g s sched)).
Proof.
  induction sched as [|[w out] r IH]; intros s HI; cbn [run_schedule].
  - cbn. split; [apply rm_refl|]. split; [intros evs []|]. split; [intros evs w i u l []|].
    intros a b e1 e2 w1 w2 i u1 u2 l1 l2 _ H. destruct a; discriminate H.
  - pose proof (UInv_resume g s w out HI) as HI1. destruct HI as [Hlen Hpre Hall].
    destruct (resume_u g s w out Hlen (Hpre w)) as [[Hr [Hu Hl]] _].
    destruct (resume g s w out) as [s1 e]. cbn [fst snd] in *.
    specialize (IH s1 HI1). destruct (run_schedule g s1 r) as [s2 es]. cbn [fst snd] in *.
    destruct IH as [Ir [Il [Iu Io]]].
    split; [eapply rm_trans; eauto|]. split; [intros evs [<-|Hin]; [exact Hl | now apply Il]|]. split.
    + intros evs w' i u l [<-|Hin] Hs Hc.
      * destruct (Hu w' i u l Hs Hc) as [A [B C]]. split; [exact A|]. split; [|exact C]. pose proof (Lc_mono g s1 s2 i Ir Hc). lia.
      * destruct (Iu evs w' i u l Hin Hs Hc) as [A B]. split; [|exact B]. pose proof (Lc_mono g s s1 i Hr Hc). lia.
    + intros a b e1 e2 w1 w2 i u1 u2 l1 l2 Hab Ha Hb H1 H2 Hc.
      destruct b as [|b]; [lia|]. cbn in Hb. destruct a as [|a].
      * cbn in Ha. injection Ha as <-. destruct (Hu w1 i u1 l1 H1 Hc) as [_ [B _]].
        apply nth_error_In in Hb. destruct (Iu e2 w2 i u2 l2 Hb H2 Hc) as [A _]. lia.
      * cbn in Ha. apply (Io a b e1 e2 w1 w2 i u1 u2 l1 l2); auto. lia.
Qed.

(* For every graph, initial pool population and schedule: two executions of the same node (copy) whose class has no
   object root, started in different atomic sections, carry strictly increasing identifiers ... *)
Theorem uids_increase g p sched a b e1 e2 w1 w2 i u1 u2 l1 l2 :
  let ess := snd (run_schedule g (init_state g p) sched) in
  a < b -> nth_error ess a = Some e1 -> nth_error ess b = Some e2 ->
  In (EStart w1 i u1 false l1) e1 -> In (EStart w2 i u2 false l2) e2 -> nonobjc g i -> u1 < u2.
Proof.
  cbn zeta. destruct (schedule_u g sched _ (UInv_init g p)) as [_ [_ [_ H]]]. apply H.
Qed.

(* ... and one atomic section starts at most one execution (as its last event), so any two executions are in
   different sections *)
Theorem one_start_per_section g p sched evs :
  In evs (snd (run_schedule g (init_state g p) sched)) -> last_start evs.
Proof. destruct (schedule_u g sched _ (UInv_init g p)) as [_ [H _]]. apply H. Qed.

(* the identifier of an execution is below the number of results the class holds afterwards: every execution,
   reported or not, leaves one entry (its result or the pending placeholder) *)
Theorem every_execution_leaves_an_entry g p sched evs w i u l :
  let r := run_schedule g (init_state g p) sched in
  In evs (snd r) -> In (EStart w i u false l) evs -> nonobjc g i -> u < Lc g (fst r) i.
Proof.
  cbn zeta. destruct (schedule_u g sched _ (UInv_init g p)) as [_ [_ [H _]]]. intros H1 H2 H3. now destruct (H evs w i u l H1 H2 H3) as [_ [B _]].
Qed.

(* C03: a stateless test (one that saves no state) is started only while fewer results than its retry budget exist on
   its class, for every graph, pool population and schedule: its identifier - the number of results so far - is below
   max_tries (at least 1) *)
Theorem stateless_start_below_budget g p sched evs w i u l :
  In evs (snd (run_schedule g (init_state g p) sched)) -> In (EStart w i u false l) evs ->
  nonobjc g i -> stateful (nd g i) = false -> u < budget g i.
Proof.
  destruct (schedule_u g sched _ (UInv_init g p)) as [_ [_ [H _]]]. intros H1 H2 H3 H4.
  destruct (H evs w i u l H1 H2 H3) as [_ [_ C]]. now apply C.
Qed.

(* ---- counting the executions of one node ---- *)
Definition sec_uids (i : nat) (evs : list event) : list nat :=
  flat_map (fun e => match e with EStart _ j u false _ => if Nat.eqb j i then [u] else [] | _ => [] end) evs.
Definition node_uids (i : nat) (ess : list (list event)) : list nat := flat_map (sec_uids i) ess.

Lemma sec_uids_no_start i e : no_start e -> sec_uids i e = [].
Proof.
  intros H. unfold sec_uids. induction e as [|x e IH]; [reflexivity|]. cbn.
  assert (He : no_start e) by (intros w j u p l Hin; apply (H w j u p l); now right).
  rewrite (IH He). destruct x; try reflexivity. exfalso. eapply H. now left.
Qed.
Lemma sec_uids_app i a b : sec_uids i (a ++ b) = sec_uids i a ++ sec_uids i b.
Proof. unfold sec_uids. apply flat_map_app. Qed.
Lemma sec_uids_In i e u : In u (sec_uids i e) -> exists w l, In (EStart w i u false l) e.
Proof.
  unfold sec_uids. rewrite in_flat_map. intros [x [Hx Hu]]. destruct x as [| | |w j u' p l| | | | | | |]; try contradiction.
  destruct p; [contradiction|]. destruct (Nat.eqb j i) eqn:E; [|contradiction]. apply Nat.eqb_eq in E. subst j.
  destruct Hu as [<-|[]]. now exists w, l.
Qed.
Lemma sec_uids_last i e : last_start e -> sec_uids i e = [] \/ exists u, sec_uids i e = [u].
Proof.
  intros [H|[e1 [w [j [u [p [l [-> H]]]]]]]]; [left; now apply sec_uids_no_start|].
  rewrite sec_uids_app, (sec_uids_no_start i e1 H). cbn. destruct p; [now left|]. destruct (Nat.eqb j i); [right; now exists u | now left].
Qed.

Fixpoint increasing_from (lo : nat) (l : list nat) : Prop :=
  match l with [] => True | x :: r => lo <= x /\ increasing_from (S x) r end.
Lemma increasing_from_weaken lo lo' l : lo' <= lo -> increasing_from lo l -> increasing_from lo' l.
Proof. destruct l as [|x r]; [auto|]. cbn. intros H [A B]. split; [lia | exact B]. Qed.
Lemma increasing_bounded lo hi l : increasing_from lo l -> (forall x, In x l -> x < hi) -> lo + length l <= hi \/ l = [].
Proof.
  revert lo. induction l as [|x r IH]; intros lo H Hb; [now right|]. left. cbn in H. destruct H as [A B].
  destruct (IH (S x) B (fun y Hy => Hb y (or_intror Hy))) as [C| ->]; cbn; [lia|].
  pose proof (Hb x (or_introl eq_refl)). lia.
Qed.

Lemma schedule_uids g sched i : forall s, UInv g s -> nonobjc g i ->
  increasing_from (Lc g s i) (node_uids i (snd (run_schedule g s sched))) /\
  (forall u, In u (node_uids i (snd (run_schedule g s sched))) -> u < Lc g (fst (run_schedule g s sched)) i).
Proof.
  induction sched as [|[w out] r IH]; intros s HI Hc; cbn [run_schedule]; [cbn; split; [exact I | intros u []]|].
  pose proof (UInv_resume g s w out HI) as HI1. destruct HI as [Hlen Hpre Hall].
  destruct (resume_u g s w out Hlen (Hpre w)) as [[Hr [Hu Hl]] _].
  destruct (resume g s w out) as [s1 e]. cbn [fst snd] in *.
  specialize (IH s1 HI1 Hc). destruct (run_schedule g s1 r) as [s2 es] eqn:Er. cbn [fst snd] in *.
  destruct IH as [I1 I2].
  assert (Hr12 : Lc g s1 i <= Lc g s2 i).
  { pose proof (schedule_u g r s1 HI1) as [Hrm _]. rewrite Er in Hrm. cbn in Hrm. now apply Lc_mono. }
  unfold node_uids. cbn [flat_map]. fold (node_uids i es).
  destruct (sec_uids_last i e Hl) as [E|[u E]]; rewrite E; cbn [app].
  - split; [apply (increasing_from_weaken (Lc g s1 i)); [now apply Lc_mono | exact I1] | exact I2].
  - assert (Hin : In u (sec_uids i e)) by (rewrite E; now left).
    destruct (sec_uids_In i e u Hin) as [w' [l Hs]]. destruct (Hu w' i u l Hs Hc) as [A [B _]].
    split.
    + cbn. split; [exact A|]. apply (increasing_from_weaken (Lc g s1 i)); [lia | exact I1].
    + intros x [<-|Hx]; [lia | now apply I2].
Qed.

(* C03: for every graph, pool population and schedule, a test that saves no state is executed on a node copy at most
   max_tries (at least 1) times *)
Theorem stateless_executions_within_budget g p sched i :
  nonobjc g i -> stateful (nd g i) = false ->
  length (node_uids i (snd (run_schedule g (init_state g p) sched))) <= budget g i.
Proof.
  intros Hc Hs. destruct (schedule_uids g sched i _ (UInv_init g p) Hc) as [H1 _].
  assert (Hb : forall u, In u (node_uids i (snd (run_schedule g (init_state g p) sched))) -> u < budget g i).
  { intros u Hu. unfold node_uids in Hu. apply in_flat_map in Hu. destruct Hu as [evs [He Hu]].
    destruct (sec_uids_In i evs u Hu) as [w [l Hst]]. eapply stateless_start_below_budget; eauto. }
  destruct (increasing_bounded _ _ _ H1 Hb) as [H| ->]; [lia | cbn; lia].
Qed.
