From Coq Require Import List NArith Bool Arith Lia.
Import ListNotations.
From I2N Require Import Model.Transfer.

Lemma fget_fset_same f p n : fget (fset f p n) p = n.
Proof.
  induction f as [|[q m] f IH]; cbn; [now rewrite N.eqb_refl|].
  destruct (N.eqb q p) eqn:E; cbn; rewrite E; auto.
Qed.

Lemma fget_fset_other f p n q : q <> p -> fget (fset f p n) q = fget f q.
Proof.
  intros Hne. induction f as [|[r m] f IH]; cbn.
  - destruct (N.eqb p q) eqn:E; [apply N.eqb_eq in E; congruence | reflexivity].
  - destruct (N.eqb r p) eqn:E; cbn.
    + apply N.eqb_eq in E. subst. destruct (N.eqb p q) eqn:E2; [apply N.eqb_eq in E2; congruence | reflexivity].
    + destruct (N.eqb r q); auto.
Qed.

Lemma opt_eqb_eq a b : opt_eqb a b = true <-> a = b.
Proof.
  destruct a, b; cbn; split; intros H; try discriminate; try reflexivity.
  - apply N.eqb_eq in H. now subst.
  - injection H as ->. apply N.eqb_refl.
Qed.

(* links point at things that are not links themselves (one level, as the pools are used) *)
Definition flat_links (f : fs) : Prop := forall p t, fget f p = Link t -> forall u, fget f t <> Link u.

(* ---- every failing operation leaves the file system as it was ---- *)
Theorem failed_unchanged f c p :
  (forall f', download_local f c p = Failed f' -> f' = f) /\
  (forall f', upload_local f c p = Failed f' -> f' = f) /\
  (forall f', delete_local f p = Failed f' -> f' = f) /\
  (forall f', download_link f c p = Failed f' -> f' = f) /\
  (forall f', upload_link f c p = Failed f' -> f' = f).
Proof.
  unfold download_local, delete_local, download_link, upload_link, compare_link.
  repeat split; intros f' H; unfold upload_local in H;
    repeat match type of H with
           | context [if ?b then _ else _] => destruct b
           | context [match ?x with _ => _ end] => destruct x
           end; cbv iota in H; try discriminate; congruence.
Qed.

(* ---- copying: source unchanged, destination identical, no copy when both already match ---- *)
Definition wloc (f : fs) (dst : N) : N := match fget f dst with Link t => t | _ => dst end.

Lemma copy_wloc f src dst f' :
  copy f src dst = Some f' -> exists b, content f src = Some b /\ f' = fset f (wloc f dst) (File b).
Proof.
  unfold copy, wloc. destruct (content f src) as [b|]; [|discriminate]. intros H. injection H as <-.
  exists b. split; [reflexivity|]. destruct (fget f dst); reflexivity.
Qed.

Lemma content_file f p b : fget f p = File b -> content f p = Some b.
Proof. unfold content. now intros ->. Qed.

Lemma copy_spec f src dst f' :
  flat_links f -> copy f src dst = Some f' -> compare_local f dst src = false ->
  fget f' src = fget f src /\ content f' dst = content f src /\ content f' src = content f src.
Proof.
  intros Hfl Hc Hne. destruct (copy_wloc _ _ _ _ Hc) as [b [Hb ->]].
  assert (Hdiff : content f dst <> Some b).
  { intros E. unfold compare_local in Hne. rewrite E, Hb in Hne. cbn in Hne. now rewrite N.eqb_refl in Hne. }
  assert (Hw : wloc f dst <> src).
  { unfold wloc. destruct (fget f dst) as [|b'|t] eqn:Ed.
    - intros ->. congruence.
    - intros ->. congruence.
    - intros ->. apply Hdiff. unfold content. rewrite Ed. unfold content in Hb.
      destruct (fget f src) as [|bs|ts] eqn:Es; try discriminate; [exact Hb|].
      exfalso. exact (Hfl _ _ Ed _ Es). }
  assert (H1 : fget (fset f (wloc f dst) (File b)) src = fget f src) by (apply fget_fset_other; congruence).
  split; [exact H1|]. split.
  - rewrite Hb. unfold wloc. destruct (fget f dst) as [|b'|t] eqn:Ed.
    + apply content_file, fget_fset_same.
    + apply content_file, fget_fset_same.
    + assert (Hdt : dst <> t) by (intros ->; exact (Hfl _ _ Ed _ Ed)).
      unfold content. rewrite fget_fset_other by exact Hdt. rewrite Ed. now rewrite fget_fset_same.
  - unfold content at 1. rewrite H1. unfold content in Hb |- *.
    destruct (fget f src) as [|bs|ts] eqn:Es; try reflexivity.
    destruct (N.eq_dec ts (wloc f dst)) as [->|Hn].
    + rewrite fget_fset_same. destruct (fget f (wloc f dst)); try discriminate. now symmetry.
    + now rewrite fget_fset_other.
Qed.

Theorem download_local_exact f c p f' :
  flat_links f -> download_local f c p = Done f' ->
  fget f' p = fget f p /\ content f' c = content f p /\ (compare_local f c p = true -> f' = f).
Proof.
  unfold download_local. intros Hfl H. destruct (compare_local f c p) eqn:E.
  - injection H as <-. repeat split; auto. now apply opt_eqb_eq.
  - destruct (copy f p c) as [f1|] eqn:Ec; [|discriminate]. injection H as <-.
    destruct (copy_spec _ _ _ _ Hfl Ec E) as [H1 [H2 _]]. repeat split; auto. discriminate.
Qed.

Theorem upload_local_exact f c p f' :
  flat_links f -> upload_local f c p = Done f' ->
  fget f' c = fget f c /\ content f' p = content f c /\ (compare_local f c p = true -> f' = f).
Proof.
  unfold upload_local. intros Hfl H. destruct (compare_local f c p) eqn:E.
  - injection H as <-. repeat split; auto. symmetry. now apply opt_eqb_eq.
  - destruct (copy f c p) as [f1|] eqn:Ec; [|discriminate]. injection H as <-.
    assert (E' : compare_local f p c = false).
    { unfold compare_local in *. destruct (opt_eqb (content f p) (content f c)) eqn:E2; auto.
      apply opt_eqb_eq in E2. rewrite E2 in E. assert (opt_eqb (content f c) (content f c) = true) by now apply opt_eqb_eq.
      congruence. }
    destruct (copy_spec _ _ _ _ Hfl Ec E') as [H1 [H2 _]]. repeat split; auto. discriminate.
Qed.

Theorem delete_local_spec f p f' :
  delete_local f p = Done f' -> fget f' p = Absent /\ forall q, q <> p -> fget f' q = fget f q.
Proof.
  unfold delete_local. intros H. destruct (fget f p); try discriminate; injection H as <-;
    (split; [apply fget_fset_same | intros q Hq; now apply fget_fset_other]).
Qed.

(* ---- link mode never replaces real data with a link, never touches the pool file, and
        never uploads a link ---- *)
Theorem download_link_keeps_data f c p b :
  fget f c = File b -> fget (res_fs (download_link f c p)) c = File b.
Proof.
  unfold download_link, compare_link. intros H. rewrite H. destruct (compare_local f c p); cbn; exact H.
Qed.

Theorem download_link_pool_untouched f c p : c <> p -> fget (res_fs (download_link f c p)) p = fget f p.
Proof.
  unfold download_link. intros Hne. destruct (compare_link f c p); [reflexivity|].
  destruct (fget f c); cbn; try reflexivity; apply fget_fset_other; congruence.
Qed.

Theorem download_link_result f c p f' :
  download_link f c p = Done f' ->
  f' = f \/ (fget f' c = Link p /\ forall q, q <> c -> fget f' q = fget f q).
Proof.
  unfold download_link. destruct (compare_link f c p); [intros H; injection H as <-; now left|].
  destruct (fget f c); intros H; try discriminate; injection H as <-; right;
    (split; [apply fget_fset_same | intros q Hq; now apply fget_fset_other]).
Qed.

Theorem upload_link_refuses_link f c p : islink f c = true -> upload_link f c p = Failed f.
Proof. unfold upload_link. now intros ->. Qed.

(* ---- the lock protocol: mutual exclusion, release on failure and death, no entry after a timeout ---- *)
Definition Inv (s : sys) : Prop := forall p, st s p = Inside <-> holder s = Some p.

Lemma upd_same f p x : upd f p x p = x.
Proof. unfold upd. now rewrite Nat.eqb_refl. Qed.
Lemma upd_other f p x q : q <> p -> upd f p x q = f q.
Proof. unfold upd. intros H. destruct (Nat.eqb q p) eqn:E; [apply Nat.eqb_eq in E; congruence | reflexivity]. Qed.

Lemma Inv_init t : Inv (init_sys t).
Proof. intros p. cbn. split; discriminate. Qed.

Lemma is_holder_true s p : is_holder s p = true <-> holder s = Some p.
Proof.
  unfold is_holder. destruct (holder s) as [h|]; [|split; discriminate].
  rewrite Nat.eqb_eq. split; [now intros -> | now intros [= ->]].
Qed.

Lemma Inv_step s e s' : Inv s -> lstep s e = Some s' -> Inv s'.
Proof.
  intros HI H. destruct e as [p|p|p|p]; cbn in H.
  - (* Begin *)
    destruct (st s p) eqn:Ep; try discriminate. injection H as <-. intros q. cbn.
    destruct (Nat.eq_dec q p) as [->|Hn]; [rewrite upd_same | rewrite upd_other by exact Hn; apply HI].
    split; [destruct (Nat.eqb (timeout s) 0); discriminate|].
    intros Hh. apply HI in Hh. congruence.
  - (* TryLock *)
    destruct (st s p) eqn:Ep; try discriminate. destruct (holder s) as [h|] eqn:Eh; injection H as <-; intros q; cbn.
    + destruct (Nat.eq_dec q p) as [->|Hn]; [rewrite upd_same | rewrite upd_other by exact Hn; rewrite <- Eh; apply HI].
      split; [destruct (Nat.leb (timeout s) (S failed)); discriminate|].
      intros Hh. rewrite <- Eh in Hh. apply HI in Hh. congruence.
    + destruct (Nat.eq_dec q p) as [->|Hn]; [rewrite upd_same; tauto | rewrite upd_other by exact Hn].
      split; [intros Hq; apply HI in Hq; congruence | intros [= ->]; contradiction].
  - (* Leave *)
    destruct (st s p) eqn:Ep; try discriminate. injection H as <-. intros q. cbn.
    destruct (Nat.eq_dec q p) as [->|Hn]; [rewrite upd_same; split; discriminate | rewrite upd_other by exact Hn].
    split; [|discriminate]. intros Hq. apply HI in Hq. apply HI in Ep. congruence.
  - (* Crash *)
    assert (Hs' : s' = mkSys (if is_holder s p then None else holder s) (upd (st s) p Dead) (timeout s) /\ st s p <> Dead).
    { destruct (st s p); try discriminate; injection H as <-; split; try reflexivity; discriminate. }
    destruct Hs' as [-> Hnd]. intros q. cbn.
    destruct (Nat.eq_dec q p) as [->|Hn]; [rewrite upd_same | rewrite upd_other by exact Hn].
    + split; [discriminate|]. destruct (is_holder s p) eqn:E; [discriminate|].
      intros Hh. apply is_holder_true in Hh. congruence.
    + destruct (is_holder s p) eqn:E; [|apply HI].
      apply is_holder_true in E. split; [|discriminate].
      intros Hq. apply HI in Hq. congruence.
Qed.

Theorem Inv_run evs : forall s s', Inv s -> lrun s evs = Some s' -> Inv s'.
Proof.
  induction evs as [|e r IH]; intros s s' HI H; cbn in H; [now injection H as <-|].
  destruct (lstep s e) as [s1|] eqn:E; [|discriminate]. eapply IH; [|exact H]. eapply Inv_step; eauto.
Qed.

(* C14_mutex *)
Theorem mutex t evs s p q :
  lrun (init_sys t) evs = Some s -> st s p = Inside -> st s q = Inside -> p = q.
Proof.
  intros H Hp Hq. pose proof (Inv_run evs _ _ (Inv_init t) H) as HI.
  apply HI in Hp. apply HI in Hq. congruence.
Qed.

(* C14_release: when the body ends (normally or raising) or the holder dies, the lock is free *)
Theorem release s p s' : Inv s -> st s p = Inside -> (lstep s (Leave p) = Some s' \/ lstep s (Crash p) = Some s') -> holder s' = None.
Proof.
  intros HI Hp [H|H]; cbn in H; rewrite Hp in H; injection H as <-; cbn; [reflexivity|].
  apply HI in Hp. unfold is_holder. rewrite Hp. now rewrite Nat.eqb_refl.
Qed.

(* C14_timeout: a process that gave up never enters, and nobody enters except through a
   successful attempt while the lock is free *)
Definition out (x : pstate) : Prop := x = TimedOut \/ x = Dead \/ x = Finished.

Definition ev_proc (e : event) : nat := match e with Begin p | TryLock p | Leave p | Crash p => p end.

Lemma lstep_other s e s' q : lstep s e = Some s' -> q <> ev_proc e -> st s' q = st s q.
Proof.
  intros H Hq. destruct e as [p|p|p|p]; cbn in H, Hq; destruct (st s p); try discriminate;
    try destruct (holder s); injection H as <-; cbn; now rewrite upd_other.
Qed.

(* what an event does to its own process *)
Lemma lstep_self s e s' : lstep s e = Some s' ->
  let p := ev_proc e in
  match e with
  | Begin _ => st s p = Idle /\ (st s' p = TimedOut \/ (st s' p = Trying 0 /\ 0 < timeout s))
  | TryLock _ => exists k, st s p = Trying k /\
                 ((holder s = None /\ st s' p = Inside) \/
                  (holder s <> None /\ (st s' p = TimedOut \/ (st s' p = Trying (S k) /\ S k < timeout s))))
  | Leave _ => st s p = Inside /\ st s' p = Finished
  | Crash _ => st s' p = Dead
  end /\ timeout s' = timeout s.
Proof.
  intros H. destruct e as [p|p|p|p]; cbn in *.
  - destruct (st s p) eqn:Ep; try discriminate. injection H as <-. cbn. rewrite upd_same. split; [|reflexivity].
    split; [reflexivity|]. destruct (Nat.eqb (timeout s) 0) eqn:E; [now left|]. right. apply Nat.eqb_neq in E. split; [reflexivity | lia].
  - destruct (st s p) as [|k| | | |] eqn:Ep; try discriminate. destruct (holder s) as [h|] eqn:Eh; injection H as <-; cbn;
      rewrite upd_same; (split; [|reflexivity]); exists k; (split; [reflexivity|]).
    + right. split; [discriminate|]. destruct (Nat.leb (timeout s) (S k)) eqn:E; [now left|]. right.
      apply Nat.leb_gt in E. split; [reflexivity | lia].
    + now left.
  - destruct (st s p) eqn:Ep; try discriminate. injection H as <-. cbn. rewrite upd_same. auto.
  - destruct (st s p) eqn:Ep; try discriminate; injection H as <-; cbn; rewrite upd_same; auto.
Qed.

Lemma out_step s e s' p : lstep s e = Some s' -> out (st s p) -> out (st s' p).
Proof.
  intros H Ho. destruct (Nat.eq_dec p (ev_proc e)) as [->|Hn]; [|now rewrite (lstep_other _ _ _ _ H Hn)].
  pose proof (lstep_self _ _ _ H) as [Hs _]. unfold out in *.
  destruct e as [q|q|q|q]; cbn in *.
  - destruct Hs as [Hi _]. rewrite Hi in Ho. destruct Ho as [Ho|[Ho|Ho]]; discriminate.
  - destruct Hs as [k [Hi _]]. rewrite Hi in Ho. destruct Ho as [Ho|[Ho|Ho]]; discriminate.
  - destruct Hs as [Hi _]. rewrite Hi in Ho. destruct Ho as [Ho|[Ho|Ho]]; discriminate.
  - rewrite Hs. tauto.
Qed.

Theorem timed_out_never_enters evs : forall s s' p,
  lrun s evs = Some s' -> out (st s p) -> st s' p <> Inside.
Proof.
  induction evs as [|e r IH]; intros s s' p H Ho; cbn in H.
  - injection H as <-. destruct Ho as [Ho|[Ho|Ho]]; rewrite Ho; discriminate.
  - destruct (lstep s e) as [s1|] eqn:E; [|discriminate]. eapply IH; [exact H|]. eapply out_step; eauto.
Qed.

Theorem enters_only_when_free s e s' p :
  lstep s e = Some s' -> st s p <> Inside -> st s' p = Inside -> e = TryLock p /\ holder s = None.
Proof.
  intros H Hn Hi. destruct (Nat.eq_dec p (ev_proc e)) as [->|Hne];
    [|rewrite (lstep_other _ _ _ _ H Hne) in Hi; contradiction].
  pose proof (lstep_self _ _ _ H) as [Hs _]. destruct e as [q|q|q|q]; cbn in *.
  - destruct Hs as [_ [Hs|[Hs _]]]; congruence.
  - destruct Hs as [k [_ [[Hh _]|[_ [Hs|[Hs _]]]]]]; [auto | congruence | congruence].
  - destruct Hs as [_ Hs]. congruence.
  - congruence.
Qed.

(* a process keeps trying at most `timeout` times *)
Theorem attempts_bounded s e s' p k :
  lstep s e = Some s' -> (forall j, st s p = Trying j -> j < timeout s) -> st s' p = Trying k -> k < timeout s'.
Proof.
  intros H Hb Hk. pose proof (lstep_self _ _ _ H) as [Hs Ht]. rewrite Ht.
  destruct (Nat.eq_dec p (ev_proc e)) as [->|Hne];
    [|rewrite (lstep_other _ _ _ _ H Hne) in Hk; now apply Hb].
  destruct e as [q|q|q|q]; cbn in *.
  - destruct Hs as [_ [Hs|[Hs Hlt]]]; [congruence|]. rewrite Hs in Hk. now injection Hk as <-.
  - destruct Hs as [j [_ [[_ Hs]|[_ [Hs|[Hs Hlt]]]]]]; congruence.
  - destruct Hs as [_ Hs]. congruence.
  - congruence.
Qed.
