(* C02, "a definite, non-pending status": over every schedule in which every awaited test reports a status (other than the
   placeholder UNKNOWN) and for any number of workers, the pending placeholders of a node are exactly as many as the workers
   currently awaiting a test on it; so once no worker is awaiting anything (e.g. all have exited) no result of any node is
   pending. *)
From Coq Require Import List ZArith NArith Bool Arith Lia PrimFloat.
Import ListNotations.
From I2N Require Import Model.Retry Model.Traverse Model.TraverseRun Proofs.TraverseProofs Proofs.TraverseInv
                        Proofs.TraverseExcl Proofs.TraverseLoc Proofs.TraverseUid Proofs.TraverseAvail Proofs.TraversePath.
Local Open Scope nat_scope.

Definition isph (i : nat) (r : result) : bool := status_eqb (r_status r) SUnknown && Nat.eqb (r_node r) i && negb (r_prev r).
Definition cnt {A} (P : A -> bool) (l : list A) : nat := length (filter P l).
Definition phc (s : state) (i : nat) : nat := cnt (isph i) (results (nst s i)).
Definition runs_on (i : nat) (p : phase) : bool := match p with Running n _ _ _ => Nat.eqb n i | _ => false end.
Definition rnc (s : state) (i : nat) : nat := cnt (fun W => runs_on i (ph W)) (ws s).
Definition b2n (b : bool) : nat := if b then 1 else 0.

Lemma cnt_app {A} (P : A -> bool) a b : cnt P (a ++ b) = cnt P a + cnt P b.
Proof. unfold cnt. now rewrite filter_app, app_length. Qed.
Lemma cnt_upd_nth {A} (P : A -> bool) (l : list A) w f d : w < length l ->
  cnt P (upd_nth l w f) + b2n (P (nth w l d)) = cnt P l + b2n (P (f (nth w l d))).
Proof.
  revert w. induction l as [|x r IH]; intros w Hw; cbn in Hw; [lia|]. destruct w as [|w]; cbn.
  - unfold cnt. cbn. destruct (P (f x)), (P x); cbn; lia.
  - specialize (IH w ltac:(lia)). unfold cnt in *. cbn. destruct (P x); cbn; lia.
Qed.
Lemma upd_nth_overflow {A} (l : list A) w f : length l <= w -> upd_nth l w f = l.
Proof. revert w. induction l as [|x r IH]; intros w Hw; [reflexivity|]. destruct w; cbn in *; [lia|]. rewrite IH; [reflexivity | lia]. Qed.

(* workers *)
Lemma rnc_set_w s w f i : w < length (ws s) ->
  rnc (set_w s w f) i + b2n (runs_on i (ph (wst s w))) = rnc s i + b2n (runs_on i (ph (f (wst s w)))).
Proof. intros Hw. unfold rnc, set_w, wst. cbn [ws]. apply (cnt_upd_nth (fun W => runs_on i (ph W))). exact Hw. Qed.
Lemma rnc_ws s s' i : ws s' = ws s -> rnc s' i = rnc s i.
Proof. unfold rnc. now intros ->. Qed.
Lemma rnc_set_w_keep s w f i : (forall x, ph (f x) = ph x) -> rnc (set_w s w f) i = rnc s i.
Proof.
  intros Hf. destruct (Nat.lt_ge_cases w (length (ws s))) as [Hw|Hw].
  - pose proof (rnc_set_w s w f i Hw) as H. rewrite Hf in H. lia.
  - unfold rnc, set_w. cbn [ws]. now rewrite upd_nth_overflow.
Qed.

(* nodes *)
Lemma phc_set_n_other s j f i : i <> j -> phc (set_n s j f) i = phc s i.
Proof. intros H. unfold phc. rewrite nst_set_n_other by congruence. reflexivity. Qed.
Lemma phc_set_n_keep s j f i : (forall x, results (f x) = results x) -> phc (set_n s j f) i = phc s i.
Proof. intros Hf. unfold phc. destruct (nst_set_n_cases s j f i) as [E|[-> [_ E]]]; rewrite E; [reflexivity | now rewrite Hf]. Qed.
Lemma phc_ns s s' i : ns s' = ns s -> phc s' i = phc s i.
Proof. unfold phc, nst. now intros ->. Qed.

Lemma cnt_remove_first_unknown l i : cnt (isph i) (remove_first_unknown l i) + b2n (existsb (isph i) l) = cnt (isph i) l.
Proof.
  induction l as [|r t IH]; [reflexivity|]. cbn [remove_first_unknown existsb]. fold (isph i r).
  destruct (isph i r) eqn:E; unfold cnt in *; cbn; rewrite E; cbn; lia.
Qed.
Lemma cnt_replace_first_unknown l i st : st <> SUnknown ->
  cnt (isph i) (replace_first_unknown l i st) + b2n (existsb (isph i) l) = cnt (isph i) l.
Proof.
  intros Hst. assert (Hn : isph i (mkR i st false) = false) by (unfold isph; cbn; destruct st; try reflexivity; congruence).
  induction l as [|r t IH]; [cbn; unfold cnt; cbn; now rewrite Hn|]. cbn [replace_first_unknown existsb]. fold (isph i r).
  destruct (isph i r) eqn:E.
  - rewrite cnt_app. unfold cnt. cbn. rewrite Hn, E. cbn. lia.
  - unfold cnt in *. cbn. rewrite E. cbn. lia.
Qed.
Lemma cnt_pos_exists {A} (P : A -> bool) l : 0 < cnt P l -> existsb P l = true.
Proof. unfold cnt. induction l as [|x t IH]; cbn; [lia|]. destruct (P x); cbn; [reflexivity | exact IH]. Qed.

(* well-formed result lists: every entry of node j names j and is not a replayed one; all reported statuses are definite *)
Definition WfR (s : state) : Prop := forall j r, In r (results (nst s j)) -> r_node r = j /\ r_prev r = false.
Definition JobOk (s : state) : Prop := forall e, In e (job s) -> snd e <> SUnknown.
Definition bal (s : state) (i : nat) : Z := Z.of_nat (phc s i) - Z.of_nat (rnc s i).
Definition DInv (s : state) : Prop := forall i, bal s i = 0%Z.
Definition balq (s s' : state) : Prop := (forall i, bal s' i = bal s i) /\ (WfR s -> WfR s') /\ job s' = job s /\ length (ns s') = length (ns s).
Lemma balq_refl s : balq s s. Proof. split; [reflexivity|]. split; [auto|]. split; reflexivity. Qed.
Lemma balq_trans a b c : balq a b -> balq b c -> balq a c.
Proof. intros [A1 [A2 [A3 A4]]] [B1 [B2 [B3 B4]]]. split; [intros i; now rewrite B1|]. split; [auto|]. split; congruence. Qed.
Lemma balq_same s s' : ns s' = ns s -> ws s' = ws s -> job s' = job s -> balq s s'.
Proof.
  intros Hn Hw Hj. split; [intros i; unfold bal; now rewrite (phc_ns s s' i Hn), (rnc_ws s s' i Hw)|]. split; [|split; [exact Hj | now rewrite Hn]].
  intros H j r. unfold nst. rewrite Hn. apply H.
Qed.
Lemma WfR_set_n s j f : (forall x r, In r (results (f x)) -> In r (results x) \/ (r_node r = j /\ r_prev r = false)) -> WfR s -> WfR (set_n s j f).
Proof.
  intros Hf H k r Hin. destruct (nst_set_n_cases s j f k) as [E|[-> [_ E]]]; rewrite E in Hin; [now apply H|].
  destruct (Hf _ r Hin) as [Ho|Hn]; [now apply H | exact Hn].
Qed.
Lemma balq_set_n_keep s j f : (forall x, results (f x) = results x) -> balq s (set_n s j f).
Proof.
  intros Hf. split; [intros i; unfold bal; now rewrite (phc_set_n_keep s j f i Hf), (rnc_ws s (set_n s j f) i eq_refl)|]. split; [|split; [reflexivity | apply length_ns_set_n]].
  apply WfR_set_n. intros x r Hin. left. now rewrite <- Hf.
Qed.
Lemma balq_set_w_keep s w f : (forall x, ph (f x) = ph x) -> balq s (set_w s w f).
Proof.
  intros Hf. split; [intros i; unfold bal; now rewrite (rnc_set_w_keep s w f i Hf), (phc_ns s (set_w s w f) i eq_refl)|]. split; [|split; reflexivity].
  intros H j r. apply H.
Qed.

Lemma balq_set_w_norun s w f : not_running s w -> (forall x, match ph (f x) with Running _ _ _ _ => False | _ => True end) -> balq s (set_w s w f).
Proof.
  intros Hn Hf. split; [|split; [intros H j r; apply H | split; reflexivity]].
  intros i. unfold bal. rewrite (phc_ns s (set_w s w f) i eq_refl). f_equal. f_equal.
  destruct (Nat.lt_ge_cases w (length (ws s))) as [Hw|Hw]; [|unfold rnc, set_w; cbn [ws]; now rewrite upd_nth_overflow].
  pose proof (rnc_set_w s w f i Hw) as H. unfold not_running in Hn. specialize (Hf (wst s w)).
  destruct (ph (wst s w)); try contradiction; destruct (ph (f (wst s w))); try contradiction; cbn [runs_on b2n] in H; lia.
Qed.
Lemma balq_fail s s1 w c : balq s s1 -> ws s1 = ws s -> not_running s w -> balq s (set_phase s1 w (Failed c)).
Proof.
  intros H Hws Hn. eapply balq_trans; [exact H|]. unfold set_phase. apply balq_set_w_norun; [now apply (not_running_ws s s1)|]. intros x. exact I.
Qed.

(* ---- the pieces of the loop ---- *)
Definition RD (s : state) (w : nat) : Prop := ph (wst s w) = Ready.
Lemma RD_not_running s w : RD s w -> not_running s w.
Proof. unfold RD, not_running. now intros ->. Qed.
Lemma RD_ws s s' w : ws s' = ws s -> RD s w -> RD s' w.
Proof. unfold RD, wst. now intros ->. Qed.
Lemma RD_set_path s w p : RD s w -> RD (set_path s w p) w.
Proof. intros H. pose proof (ready_lt s w H) as L. unfold RD. now rewrite wst_set_path. Qed.

Lemma balq_run_decision g s i w b sc s' : run_decision g s i w = Some (b, sc, s') -> balq s s'.
Proof.
  unfold run_decision. intros H.
  repeat match type of H with
         | (if ?c then _ else _) = _ => destruct c
         | match ?x with _ => _ end = _ => destruct x eqn:?
         end; try discriminate; injection H as _ _ <-; try apply balq_refl; apply balq_set_n_keep; reflexivity.
Qed.
Lemma balq_eval_run g s i w b s' e : eval_run g s i w = Some (b, s', e) -> balq s s'.
Proof.
  unfold eval_run. destruct (run_decision g s i w) as [[[b0 sc] s0]|] eqn:E; [|discriminate].
  intros H. injection H as _ <- _. eapply balq_run_decision; eauto.
Qed.
Lemma balq_pull_locations g s i : balq s (pull_locations g s i).
Proof. unfold pull_locations. destruct (n_flat (nd g i)); [apply balq_refl | apply balq_set_n_keep; reflexivity]. Qed.
Lemma balq_reverse_node g s i w s' e : reverse_node g s i w = Some (s', e) -> balq s s'.
Proof.
  unfold reverse_node. destruct (is_occupied g s i w); [intros H; injection H as <- _; apply balq_refl|].
  set (s1 := set_n s i _). assert (B1 : balq s s1) by (apply balq_set_n_keep; reflexivity).
  assert (Hgen : forall s2, balq s1 s2 -> balq s (set_n s2 i (fun x => mkN None (finished x) (results x) (rerun_off x) (mct_now x) (locs x))))
    by (intros s2 H2; eapply balq_trans; [exact B1|]; eapply balq_trans; [exact H2 | apply balq_set_n_keep; reflexivity]).
  destruct (clean_decision g s1 i w) as [[]|]; [| intros H; injection H as <- _; apply Hgen, balq_refl | discriminate].
  destruct (stateful (nd g i)); [| intros H; injection H as <- _; apply Hgen, balq_refl].
  destruct (sync_walk _ _ _ _ _ _) as [[[[[] u] us] gs]|]; [| |discriminate]; intros H; injection H as <- _; apply Hgen; [apply balq_same; reflexivity | apply balq_refl].
Qed.

Definition it_d (w : nat) (s : state) (r : it_res) : Prop :=
  match r with Cont s' _ => balq s s' /\ RD s' w | Halt s' _ => balq s s' end.

Lemma after_from_child_d g s w next previous : RD s w -> it_d w s (after_from_child g s w next previous).
Proof.
  intros HR. unfold after_from_child. destruct (eval_run g s next w) as [[[b s1] evs]|] eqn:E.
  - pose proof (balq_eval_run _ _ _ _ _ _ _ E) as B1. pose proof (ws_eval_run _ _ _ _ _ _ _ E) as W1. cbn.
    assert (B2 : balq s (if b then s1 else drop_parent g s1 previous next w))
      by (destruct b; [exact B1 | eapply balq_trans; [exact B1 | apply balq_same; reflexivity]]).
    assert (W2 : ws (if b then s1 else drop_parent g s1 previous next w) = ws s) by (destruct b; [exact W1 | cbn; exact W1]).
    split; [eapply balq_trans; [exact B2 | unfold pop, set_path; apply balq_set_w_keep; reflexivity]|].
    unfold pop. apply RD_set_path. now apply (RD_ws s).
  - unfold fail. cbn. apply (balq_fail s s w 3); [apply balq_refl | reflexivity | now apply RD_not_running].
Qed.

Lemma after_from_parent_d g s w next : RD s w -> it_d w s (after_from_parent g s w next).
Proof.
  intros HR. pose proof (RD_not_running s w HR) as Hn. unfold after_from_parent. destruct (eval_run g s next w) as [[[b s1] evs]|] eqn:E.
  - pose proof (balq_eval_run _ _ _ _ _ _ _ E) as B1. pose proof (ws_eval_run _ _ _ _ _ _ _ E) as W1.
    destruct b.
    + cbn. split; [eapply balq_trans; [exact B1 | unfold pop, set_path; apply balq_set_w_keep; reflexivity]|]. unfold pop. apply RD_set_path. now apply (RD_ws s).
    + destruct (cleanup_ready g s1 next w).
      * set (s2 := fold_left _ (n_parents (nd g next)) s1).
        assert (W2 : ws s2 = ws s) by (unfold s2; rewrite ws_fold_drop_child; exact W1).
        assert (B2 : balq s s2).
        { eapply balq_trans; [exact B1|]. apply balq_same; [apply ns_fold_drop_child | apply ws_fold_drop_child|].
          unfold s2. clear. generalize s1. induction (n_parents (nd g next)) as [|p l IH]; intros st; cbn; [reflexivity | now rewrite IH]. }
        destruct (reverse_node g s2 next w) as [[s3 e]|] eqn:Er.
        -- pose proof (balq_reverse_node _ _ _ _ _ _ Er) as B3. pose proof (ws_reverse_node _ _ _ _ _ _ Er) as W3. cbn.
           split; [eapply balq_trans; [exact B2|]; eapply balq_trans; [exact B3 | unfold pop, set_path; apply balq_set_w_keep; reflexivity]|].
           unfold pop. apply RD_set_path. apply (RD_ws s); [congruence | exact HR].
        -- unfold fail. cbn. now apply (balq_fail s s2 w 5).
      * destruct (pick_child g s1 next w) as [[c s2]|] eqn:Ep.
        -- pose proof (ns_pick_child _ _ _ _ _ _ Ep) as N2. pose proof (ws_pick_child _ _ _ _ _ _ Ep) as W2.
           assert (J2 : job s2 = job s1) by (unfold pick_child in Ep; destruct (pick_from _ _ _); [|discriminate]; now injection Ep as _ <-).
           cbn. split; [eapply balq_trans; [exact B1|]; eapply balq_trans; [apply balq_same; eassumption | unfold push, set_path; apply balq_set_w_keep; reflexivity]|].
           unfold push. apply RD_set_path. apply (RD_ws s); [congruence | exact HR].
        -- unfold fail. cbn. now apply (balq_fail s s1 w 1).
  - unfold fail. cbn. apply (balq_fail s s w 3); [apply balq_refl | reflexivity | exact Hn].
Qed.

(* ---- traverse_node: a start adds one placeholder on the started node ---- *)
Lemma isph_placeholder i : isph i (mkR i SUnknown false) = true.
Proof. unfold isph. cbn. now rewrite Nat.eqb_refl. Qed.
Lemma phc_append s i r k : i < length (ns s) ->
  phc (set_n s i (fun x => mkN (started x) (finished x) (results x ++ [r]) (rerun_off x) (mct_now x) (locs x))) k =
  phc s k + (if Nat.eqb k i then b2n (isph i r) else 0).
Proof.
  intros Hi. destruct (Nat.eqb_spec k i) as [->|Hne]; [|rewrite phc_set_n_other by exact Hne; lia].
  unfold phc. rewrite nst_set_n_same by exact Hi. cbn [results]. rewrite cnt_app. unfold cnt at 2. cbn. destruct (isph i r); reflexivity.
Qed.
Lemma WfR_append s i r : r_node r = i -> r_prev r = false -> WfR s ->
  WfR (set_n s i (fun x => mkN (started x) (finished x) (results x ++ [r]) (rerun_off x) (mct_now x) (locs x))).
Proof.
  intros H1 H2. apply WfR_set_n. intros x r0 Hin. cbn in Hin. apply in_app_or in Hin. destruct Hin as [H|[<-|[]]]; [now left | right; now split].
Qed.

Definition started_at (s s' : state) (i : nat) : Prop :=
  ws s' = ws s /\ job s' = job s /\ length (ns s') = length (ns s) /\ (WfR s -> WfR s') /\
  forall k, phc s' k = phc s k + (if Nat.eqb k i then 1 else 0).

Lemma traverse_node_d g s i w : LenOk g s ->
  match traverse_node g s i w with
  | TnAwait s' e pre => started_at s s' i
  | TnDone s' e => balq s s' /\ ws s' = ws s
  | TnFail s' e => exists s2, balq s s2 /\ ws s2 = ws s /\ s' = set_phase s2 w (Failed 3%N)
  end.
Proof.
  intros Hlen. unfold traverse_node. destruct (is_occupied g s i w); [split; [apply balq_refl | reflexivity]|].
  set (s1 := set_n s i _). set (s2 := pull_locations g s1 i).
  assert (B2 : balq s s2) by (apply (balq_trans s s1 s2); [unfold s1; apply balq_set_n_keep; reflexivity | apply balq_pull_locations]).
  assert (W2 : ws s2 = ws s) by (unfold s2; rewrite ws_pull_locations; reflexivity).
  unfold eval_run. destruct (run_decision g s2 i w) as [[[b sc] s3]|] eqn:E; [|unfold fail; cbn; exists s2; split; [exact B2|]; split; [exact W2 | reflexivity]].
  pose proof (balq_run_decision _ _ _ _ _ _ _ E) as B3. pose proof (ws_run_decision _ _ _ _ _ _ _ E) as W3.
  assert (B : balq s s3) by (eapply balq_trans; eauto). destruct B as [Bb [Bw [Bj Bl]]].
  destruct b.
  - pose proof (startable_lt g w i (run_decision_startable _ _ _ _ _ _ E)) as Hi.
    assert (Hi3 : i < length (ns s3)) by (rewrite Bl; unfold LenOk in Hlen; now rewrite Hlen).
    assert (Hst : started_at s (set_n s3 i (fun x => mkN (started x) (finished x) (results x ++ [mkR i SUnknown false]) (rerun_off x) (mct_now x) (locs x))) i).
    { split; [cbn; congruence|]. split; [cbn; exact Bj|]. split; [rewrite length_ns_set_n; exact Bl|]. split.
      - intros H. apply WfR_append; [reflexivity | reflexivity | now apply Bw].
      - intros k. rewrite (phc_append s3 i _ k Hi3), isph_placeholder. cbn [b2n].
        specialize (Bb k). unfold bal in Bb. rewrite (rnc_ws s s3 k) in Bb by congruence. lia. }
    destruct (n_objroot (nd g i)); cbn; exact Hst.
  - cbn. split; [|congruence]. eapply balq_trans; [split; [exact Bb | split; [exact Bw | split; [exact Bj | exact Bl]]]|]. unfold mark_done. apply balq_set_n_keep. reflexivity.
Qed.

Lemma rnc_start s w i pre fc u k : RD s w ->
  rnc (set_phase s w (Running i pre fc u)) k = rnc s k + (if Nat.eqb k i then 1 else 0).
Proof.
  intros HR. pose proof (ready_lt s w HR) as L. pose proof (rnc_set_w s w (fun x => mkW (path x) (occ_at x) (occ_wait x) (Running i pre fc u)) k L) as H.
  unfold RD in HR. rewrite HR in H. cbn [ph runs_on b2n] in H. unfold set_phase. rewrite Nat.eqb_sym. destruct (Nat.eqb i k); cbn [b2n] in H; lia.
Qed.

Lemma do_traverse_d g s w next (fc : bool) previous : LenOk g s -> RD s w -> it_d w s (do_traverse g s w next fc previous).
Proof.
  intros Hlen HR. unfold do_traverse. pose proof (traverse_node_d g s next w Hlen) as H.
  destruct (traverse_node g s next w) as [s1 e pre|s1 e|s1 e].
  - destruct H as [W [J [L [Wf P]]]]. cbn. split; [|split; [intros Hw j r; now apply Wf | split; [exact J | exact L]]].
    intros k. unfold bal. rewrite (phc_ns s1 (set_phase s1 w _) k eq_refl), P.
    rewrite (rnc_start s1 w next pre fc (start_uid e) k) by (now apply (RD_ws s)). rewrite (rnc_ws s s1 k W). destruct (Nat.eqb k next); lia.
  - destruct H as [B1 W1].
    assert (Hr : it_d w s1 (if fc then after_from_child g s1 w next previous else after_from_parent g s1 w next))
      by (destruct fc; [apply after_from_child_d | apply after_from_parent_d]; now apply (RD_ws s)).
    destruct (if fc then _ else _) as [s2 e2|s2 e2]; cbn in *; [destruct Hr as [Hr1 Hr2]; split; [eapply balq_trans; eauto | exact Hr2] | eapply balq_trans; eauto].
  - destruct H as [s2 [B [W ->]]]. cbn. apply (balq_fail s s2 w 3); [exact B | exact W | now apply RD_not_running].
Qed.

Lemma iter_d g s w : LenOk g s -> RD s w -> it_d w s (iter g s w).
Proof.
  intros Hlen HR. pose proof (RD_not_running s w HR) as Hn. unfold iter.
  assert (Hfail : forall c, it_d w s (let '(s1, e) := fail s w c in Halt s1 e))
    by (intros c; unfold fail; cbn; apply (balq_fail s s w c); [apply balq_refl | reflexivity | exact Hn]).
  assert (Hpush : forall s1 c, ns s1 = ns s -> ws s1 = ws s -> job s1 = job s -> forall e, it_d w s (Cont (push s1 w c) e)).
  { intros s1 c N W J e. cbn. split; [eapply balq_trans; [apply balq_same; eassumption | unfold push, set_path; apply balq_set_w_keep; reflexivity]|].
    unfold push. apply RD_set_path. now apply (RD_ws s). }
  destruct (cleanup_ready g s (g_root g) w).
  - destruct (path (wst s w)) as [|r [|r2 rest]]; try apply Hfail.
    destruct (Nat.eqb r (g_root g)); [|apply Hfail]. cbn. apply balq_set_w_norun; [exact Hn | intros x; exact I].
  - destruct (path (wst s w)) as [|next [|previous rest]]; try apply Hfail.
    + destruct (pick_child g s next w) as [[c s1]|] eqn:Ep; [|apply Hfail].
      apply Hpush; [eapply ns_pick_child; eauto | eapply ws_pick_child; eauto|]. unfold pick_child in Ep. destruct (pick_from _ _ _); [|discriminate]. now injection Ep as _ <-.
    + destruct (is_occupied g s next w).
      * unfold bounce. cbn.
        match goal with |- balq s (set_w ?a w ?f) => assert (Ha : balq s a) by (destruct (_ && _); [apply balq_set_n_keep; reflexivity | apply balq_refl]);
          assert (Wa : ws a = ws s) by (destruct (_ && _); reflexivity) end.
        eapply balq_trans; [exact Ha|]. apply balq_set_w_norun; [now apply (not_running_ws s) | intros x; exact I].
      * assert (Hpp : it_d w s (match pick_parent g s next w with
                                | None => let '(s1, e) := fail s w 1 in Halt s1 e
                                | Some (p, s1) => Cont (push s1 w p) [EPick w next p false]
                                end)).
        { destruct (pick_parent g s next w) as [[p s1]|] eqn:Ep; [|apply Hfail].
          apply Hpush; [eapply ns_pick_parent; eauto | eapply ws_pick_parent; eauto|]. unfold pick_parent in Ep. destruct (pick_from _ _ _); [|discriminate]. now injection Ep as _ <-. }
        destruct (memn previous (n_children (nd g next))).
        -- destruct (setup_ready g s next w); [now apply do_traverse_d | exact Hpp].
        -- destruct (memn previous (n_parents (nd g next))); [|apply Hfail].
           destruct (setup_ready g s next w); cbn [negb]; [now apply do_traverse_d | exact Hpp].
Qed.

Lemma LenOk_balq g s s' : balq s s' -> LenOk g s -> LenOk g s'.
Proof. intros [_ [_ [_ L]]] H. unfold LenOk in *. congruence. Qed.

Lemma run_loop_d fuel g w : forall s, LenOk g s -> RD s w -> balq s (fst (run_loop fuel g s w)).
Proof.
  induction fuel as [|f IH]; intros s Hlen HR; cbn [run_loop].
  - unfold fail. cbn. apply (balq_fail s s w 6); [apply balq_refl | reflexivity | now apply RD_not_running].
  - pose proof (iter_d g s w Hlen HR) as H. destruct (iter g s w) as [s1 e|s1 e]; cbn in H; [|exact H].
    destruct H as [B R]. specialize (IH s1 (LenOk_balq g s s1 B Hlen) R). destruct (run_loop f g s1 w) as [s2 e2]. cbn in *. eapply balq_trans; eauto.
Qed.
Lemma continue_d g w s r : LenOk g s -> it_d w s r ->
  balq s (fst (match r with Halt s2 e => (s2, e) | Cont s2 e => let '(s3, e3) := run_loop FUEL g s2 w in (s3, e ++ e3) end)).
Proof.
  intros Hlen H. destruct r as [s2 e|s2 e]; cbn in H; [|exact H]. destruct H as [B R].
  pose proof (run_loop_d FUEL g w s2 (LenOk_balq g s s2 B Hlen) R) as HL. destruct (run_loop FUEL g s2 w) as [s3 e3]. cbn in *. eapply balq_trans; eauto.
Qed.

(* ---- a whole section ---- *)
Definition definite (w : nat) (s : state) (out : option status) : Prop :=
  match ph (wst s w) with Running _ _ _ _ => exists st, out = Some st /\ st <> SUnknown | _ => True end.
Record DI (g : graph) (s : state) : Prop := mkDI { di_len : LenOk g s; di_bal : DInv s; di_wf : WfR s; di_job : JobOk s }.

Lemma DI_balq g s s' : balq s s' -> DI g s -> DI g s'.
Proof.
  intros B [L D W J]. pose proof B as [Bb [Bw [Bj Bl]]]. constructor; [now apply (LenOk_balq g s) | intros i; rewrite Bb; apply D | now apply Bw |].
  intros e He. rewrite Bj in He. now apply J.
Qed.
Lemma jobkey_eqb_refl k : jobkey_eqb k k = true.
Proof. destruct k as [[n p] u]. unfold jobkey_eqb. now rewrite !Nat.eqb_refl, eqb_reflx. Qed.

Lemma finish_bal s s1 w next pre fc uid :
  ph (wst s w) = Running next pre fc uid -> ws s1 = ws s ->
  (forall k, phc s1 k + (if Nat.eqb k next then 1 else 0) = phc s k) ->
  forall k, bal (set_phase s1 w Ready) k = bal s k.
Proof.
  intros Eph Hws Hp k. assert (L : w < length (ws s)) by (apply alive_lt; rewrite Eph; discriminate).
  pose proof (rnc_set_w s1 w (fun x => mkW (path x) (occ_at x) (occ_wait x) Ready) k ltac:(now rewrite Hws)) as H.
  rewrite (wst_ws_eq s1 s w Hws), Eph in H. cbn [ph runs_on b2n] in H. rewrite (rnc_ws s s1 k Hws) in H.
  unfold bal. rewrite (phc_ns s1 (set_phase s1 w Ready) k eq_refl). fold (set_phase s1 w Ready) in H. specialize (Hp k).
  rewrite Nat.eqb_sym in H. destruct (Nat.eqb k next); cbn [b2n] in H; lia.
Qed.

Theorem resume_d g s w out : DI g s -> definite w s out -> DI g (fst (resume g s w out)).
Proof.
  intros HD Hdef. pose proof HD as [Hlen HB HW HJ]. unfold resume. unfold definite in Hdef.
  destruct (ph (wst s w)) as [| next pre fc uid | | |c] eqn:Eph.
  - assert (L : w < length (ws s)) by (apply alive_lt; rewrite Eph; discriminate).
    assert (B1 : balq s (set_phase s w Ready)) by (unfold set_phase; apply balq_set_w_norun; [unfold not_running; now rewrite Eph | intros x; exact I]).
    assert (R1 : RD (set_phase s w Ready) w) by (unfold RD; now rewrite wst_set_phase).
    apply (DI_balq g s); [|exact HD]. eapply balq_trans; [exact B1 | apply run_loop_d; [now apply (LenOk_balq g s) | exact R1]].
  - destruct Hdef as [st [-> Hst]]. assert (L : w < length (ws s)) by (apply alive_lt; rewrite Eph; discriminate).
    cbv zeta. set (s0 := mkS (ws s) (ns s) (r_ps s) (r_pc s) (r_ds s) (r_dc s) (pool s) _).
    set (seen := match find _ (job s0) with Some e => Some (snd e) | None => None end).
    assert (HJ0 : JobOk s0).
    { intros e He. cbn in He. apply in_app_or in He. destruct He as [He|[<-|[]]]; [now apply HJ | exact Hst]. }
    assert (Hseen : exists st', seen = Some st' /\ st' <> SUnknown).
    { unfold seen. destruct (find _ (job s0)) as [e|] eqn:Ef.
      - exists (snd e). split; [reflexivity|]. apply HJ0. now apply (find_some _ _ Ef).
      - exfalso. assert (Hin : In (next, pre, uid, st) (job s0)) by (cbn; apply in_or_app; right; now left).
        pose proof (find_none _ _ Ef _ Hin) as Hn. cbn [fst] in Hn. rewrite jobkey_eqb_refl in Hn. discriminate Hn. }
    destruct Hseen as [st' [Es Hst']].
    (* the worker awaiting next has a placeholder there *)
    assert (Hex : existsb (isph next) (results (nst s next)) = true).
    { apply cnt_pos_exists. fold (phc s next). specialize (HB next). unfold bal in HB.
      assert (0 < rnc s next); [|lia]. unfold rnc, cnt.
      assert (Hin : In (wst s w) (ws s)) by (unfold wst; now apply nth_In).
      assert (Hf : In (wst s w) (filter (fun W => runs_on next (ph W)) (ws s))) by (apply filter_In; split; [exact Hin | rewrite Eph; cbn; apply Nat.eqb_refl]).
      destruct (filter _ (ws s)); [destruct Hf | cbn; lia]. }
    assert (Hlt : next < length (ns s)).
    { destruct (Nat.lt_ge_cases next (length (ns s))) as [H|H]; [exact H|]. unfold nst in Hex. rewrite nth_overflow in Hex by exact H. discriminate. }
    assert (Hcont : forall s1, ws s1 = ws s -> job s1 = job s0 -> length (ns s1) = length (ns s) -> WfR s1 ->
              (forall k, phc s1 k + (if Nat.eqb k next then 1 else 0) = phc s k) ->
              DI g (fst (match (if fc then after_from_child g (set_phase s1 w Ready) w next (hd 0 (tl (path (wst s w)))) else after_from_parent g (set_phase s1 w Ready) w next) with
                         | Halt s2 e => (s2, e) | Cont s2 e => let '(s3, e3) := run_loop FUEL g s2 w in (s3, e ++ e3) end))).
    { intros s1 W1 J1 L1 Wf1 P1. set (s3 := set_phase s1 w Ready).
      assert (D3 : DI g s3).
      { constructor; [unfold LenOk in *; cbn; congruence | intros k; unfold s3; rewrite (finish_bal s s1 w next pre fc uid Eph W1 P1 k); apply HB | intros j r; apply Wf1 |].
        intros e He. cbn in He. rewrite J1 in He. now apply HJ0. }
      assert (R3 : RD s3 w) by (unfold RD, s3; rewrite wst_set_phase by (now rewrite W1); reflexivity).
      apply (DI_balq g s3); [|exact D3]. apply continue_d; [apply (di_len g s3 D3)|].
      destruct fc; [now apply after_from_child_d | now apply after_from_parent_d]. }
    (* removing the first placeholder of next *)
    assert (Hrem : forall k, phc (end_pre s0 next) k + (if Nat.eqb k next then 1 else 0) = phc s k).
    { intros k. unfold end_pre. destruct (Nat.eqb_spec k next) as [->|Hne]; [|rewrite phc_set_n_other by exact Hne; unfold phc, nst; cbn; lia].
      unfold phc. rewrite nst_set_n_same by exact Hlt. cbn [results]. change (nst s0 next) with (nst s next).
      pose proof (cnt_remove_first_unknown (results (nst s next)) next) as H. rewrite Hex in H. cbn [b2n] in H. exact H. }
    assert (Wrem : WfR (end_pre s0 next)).
    { unfold end_pre. apply WfR_set_n; [|intros j r; apply HW]. intros x r Hin. left. cbn in Hin. now apply (In_remove_first_unknown_inv _ next). }
    rewrite Es. destruct pre.
    + destruct (run_ok (Some st')).
      * (* the installation starts: one placeholder removed, one added, still awaiting next *)
        unfold start_run. cbn [fst].
        match goal with |- DI g (set_phase ?a w ?p) => set (s2 := a) end.
        assert (Hl1 : next < length (ns (end_pre s0 next))) by (unfold end_pre; now rewrite length_ns_set_n).
        constructor.
        -- unfold LenOk in *. cbn. rewrite !length_upd_nth. exact Hlen.
        -- intros k. unfold bal. rewrite (phc_ns s2 (set_phase s2 w _) k eq_refl).
           unfold s2. rewrite (phc_append (end_pre s0 next) next _ k Hl1), isph_placeholder. cbn [b2n].
           pose proof (rnc_set_w (set_n (end_pre s0 next) next (fun x => mkN (started x) (finished x) (results x ++ [mkR next SUnknown false]) (rerun_off x) (mct_now x) (locs x))) w
                         (fun x => mkW (path x) (occ_at x) (occ_wait x) (Running next false fc (start_uid [EStart w next (length (shared_results g (end_pre s0 next) next)) false (locs (nst (end_pre s0 next) next))]))) k L) as H.
           change (wst (set_n (end_pre s0 next) next _) w) with (wst s w) in H. rewrite Eph in H. cbn [ph runs_on] in H.
           specialize (Hrem k). specialize (HB k). unfold bal in HB. unfold set_phase.
           match type of H with ?a + _ = ?b + _ => assert (a = b) by lia end.
           match goal with H0 : rnc _ k = rnc _ k |- _ => rewrite H0 end.
           rewrite (rnc_ws s _ k) by reflexivity. destruct (Nat.eqb k next); lia.
        -- intros j r. unfold s2. apply WfR_append; [reflexivity | reflexivity | exact Wrem].
        -- intros e He. cbn in He. now apply HJ0.
      * (* the creation failed: its result is recorded *)
        match goal with |- context [set_phase (mark_done ?a next w) w Ready] => apply (Hcont (mark_done a next w)) end; try reflexivity.
        -- unfold mark_done, end_pre. now rewrite !length_ns_set_n.
        -- unfold mark_done. apply WfR_set_n; [intros x r Hin; now left|]. apply WfR_append; [reflexivity | reflexivity | exact Wrem].
        -- intros k. unfold mark_done. rewrite phc_set_n_keep by reflexivity.
           assert (Hl1 : next < length (ns (end_pre s0 next))) by (unfold end_pre; now rewrite length_ns_set_n).
           rewrite (phc_append (end_pre s0 next) next _ k Hl1).
           assert (Hn : isph next (mkR next st' false) = false) by (unfold isph; cbn; destruct st'; try reflexivity; congruence).
           rewrite Hn. cbn [b2n]. specialize (Hrem k). destruct (Nat.eqb k next); lia.
    + apply (Hcont (mark_done (finish_run g s0 next w (Some st')) next w)).
      * unfold mark_done, finish_run. destruct st'; reflexivity.
      * unfold mark_done, finish_run. destruct st'; reflexivity.
      * unfold mark_done, finish_run. destruct st'; cbn; rewrite ?length_upd_nth; reflexivity.
      * assert (Wf : WfR (set_n s0 next (fun x => mkN (started x) (finished x) (replace_first_unknown (results x) next st') (rerun_off x) (mct_now x) (locs x)))).
        { apply WfR_set_n; [|intros j r; apply HW]. intros x r Hin. cbn in Hin. destruct (In_replace_first_unknown_inv _ _ _ _ Hin) as [H| ->]; [now left | right; now split]. }
        unfold mark_done. apply WfR_set_n; [intros x r Hin; now left|]. unfold finish_run. destruct st'; exact Wf.
      * intros k. unfold mark_done. rewrite phc_set_n_keep by reflexivity.
        assert (E : phc (finish_run g s0 next w (Some st')) k =
                    phc (set_n s0 next (fun x => mkN (started x) (finished x) (replace_first_unknown (results x) next st') (rerun_off x) (mct_now x) (locs x))) k)
          by (unfold finish_run; destruct st'; reflexivity).
        rewrite E. destruct (Nat.eqb_spec k next) as [->|Hne]; [|rewrite phc_set_n_other by exact Hne; unfold phc, nst; cbn; lia].
        unfold phc. rewrite nst_set_n_same by exact Hlt. cbn [results]. change (nst s0 next) with (nst s next).
        pose proof (cnt_replace_first_unknown (results (nst s next)) next st' Hst') as H. rewrite Hex in H. cbn [b2n] in H. exact H.
  - assert (L : w < length (ws s)) by (apply alive_lt; rewrite Eph; discriminate).
    assert (B1 : balq s (set_phase s w Ready)) by (unfold set_phase; apply balq_set_w_norun; [unfold not_running; now rewrite Eph | intros x; exact I]).
    assert (R1 : RD (set_phase s w Ready) w) by (unfold RD; now rewrite wst_set_phase).
    apply (DI_balq g s); [|exact HD]. eapply balq_trans; [exact B1 | apply run_loop_d; [now apply (LenOk_balq g s) | exact R1]].
  - cbn. exact HD.
  - cbn. exact HD.
Qed.

(* ---- whole schedules ---- *)
Fixpoint all_definite (g : graph) (s : state) (sched : list (nat * option status)) : Prop :=
  match sched with
  | [] => True
  | (w, out) :: r => definite w s out /\ all_definite g (fst (resume g s w out)) r
  end.

Lemma DI_init g p : DI g (init_state g p).
Proof.
  constructor.
  - unfold LenOk, init_state. cbn. apply map_length.
  - intros i. unfold bal, phc, rnc. rewrite nst_init. cbn [results cnt filter length].
    assert (E : cnt (fun W => runs_on i (ph W)) (ws (init_state g p)) = 0).
    { unfold init_state. cbn [ws]. unfold cnt. induction (g_workers g) as [|x l IH]; [reflexivity | cbn; exact IH]. }
    rewrite E. reflexivity.
  - intros j r H. rewrite nst_init in H. destruct H.
  - intros e [].
Qed.

Lemma schedule_d g sched : forall s, DI g s -> all_definite g s sched -> DI g (fst (run_schedule g s sched)).
Proof.
  induction sched as [|[w out] r IH]; intros s HD Ha; cbn [run_schedule]; [exact HD|].
  destruct Ha as [Hd Ha]. pose proof (resume_d g s w out HD Hd) as H1.
  destruct (resume g s w out) as [s1 e]. cbn [fst] in *. specialize (IH s1 H1 Ha). destruct (run_schedule g s1 r) as [s2 es]. exact IH.
Qed.

Lemma no_pending g s : DI g s -> (forall v, not_running s v) -> forall j r, In r (results (nst s j)) -> r_status r <> SUnknown.
Proof.
  intros [_ HB HW _] Hn j r Hin Hs. destruct (HW j r Hin) as [Hnode Hprev].
  assert (Hr : rnc s j = 0).
  { unfold rnc, cnt. assert (E : filter (fun W => runs_on j (ph W)) (ws s) = []); [|now rewrite E].
    assert (Hall : forall W, In W (ws s) -> runs_on j (ph W) = false).
    { intros W HIn. apply (In_nth _ _ (mkW [] [] PrimFloat.zero Exited)) in HIn. destruct HIn as [v [Hv <-]].
      specialize (Hn v). unfold not_running, wst in Hn. destruct (ph (nth v (ws s) _)); try reflexivity. destruct Hn. }
    induction (ws s) as [|W l IH]; [reflexivity|]. cbn. rewrite (Hall W (or_introl eq_refl)). apply IH. intros W' H'. apply Hall. now right. }
  specialize (HB j). unfold bal in HB. rewrite Hr in HB. assert (Hp : phc s j = 0) by lia.
  unfold phc, cnt in Hp. assert (Hf : In r (filter (isph j) (results (nst s j)))).
  { apply filter_In. split; [exact Hin|]. unfold isph. rewrite Hs, Hnode, Hprev, Nat.eqb_refl. reflexivity. }
  destruct (filter (isph j) (results (nst s j))); [destruct Hf | discriminate].
Qed.

(* for every graph, pool population and schedule in which every awaited test reports a status, any number of workers: once no
   worker is awaiting a test, no node carries a pending result *)
Theorem no_pending_results g p sched j r :
  all_definite g (init_state g p) sched ->
  let s := fst (run_schedule g (init_state g p) sched) in
  (forall v, not_running s v) -> In r (results (nst s j)) -> r_status r <> SUnknown.
Proof. intros Ha s Hn. apply (no_pending g s); [apply schedule_d; [apply DI_init | exact Ha] | exact Hn]. Qed.

(* the hypothesis on the schedule as an executable check *)
Definition definite_b (w : nat) (s : state) (out : option status) : bool :=
  match ph (wst s w) with
  | Running _ _ _ _ => match out with Some st => negb (status_eqb st SUnknown) | None => false end
  | _ => true
  end.
Fixpoint all_definite_b (g : graph) (s : state) (sched : list (nat * option status)) : bool :=
  match sched with
  | [] => true
  | (w, out) :: r => definite_b w s out && all_definite_b g (fst (resume g s w out)) r
  end.
Lemma all_definite_b_sound g sched : forall s, all_definite_b g s sched = true -> all_definite g s sched.
Proof.
  induction sched as [|[w out] r IH]; intros s H; cbn in *; [exact I|]. apply andb_prop in H. destruct H as [H1 H2]. split; [|now apply IH].
  unfold definite_b in H1. unfold definite. destruct (ph (wst s w)); try exact I. destruct out as [st|]; [|discriminate].
  exists st. split; [reflexivity|]. intros ->. discriminate.
Qed.
Definition none_running_b (s : state) : bool :=
  forallb (fun W => match ph W with Running _ _ _ _ => false | _ => true end) (ws s).
Lemma none_running_b_sound s : none_running_b s = true -> forall v, not_running s v.
Proof.
  unfold none_running_b. intros H v. rewrite forallb_forall in H. unfold not_running, wst.
  destruct (Nat.lt_ge_cases v (length (ws s))) as [Hv|Hv]; [|now rewrite nth_overflow].
  specialize (H _ (nth_In (ws s) (mkW [] [] PrimFloat.zero Exited) Hv)). destruct (ph (nth v (ws s) _)); try exact I. discriminate.
Qed.
