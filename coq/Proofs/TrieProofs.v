(* Proofs about Model/Trie.v *)
From Coq Require Import List NArith Bool Lia Arith Permutation.
Import ListNotations.
From I2N Require Import Model.Trie.

(* ---------- reflection lemmas ---------- *)
Lemma path_eqb_eq p q : path_eqb p q = true <-> p = q.
Proof.
  revert q; induction p as [|x p IH]; intros [|y q]; cbn; try (split; congruence).
  rewrite andb_true_iff, N.eqb_eq, IH. split; [intros [-> ->]; auto | intros H; inversion H; auto].
Qed.

Lemma path_eqb_refl p : path_eqb p p = true.
Proof. now apply path_eqb_eq. Qed.

Lemma path_eqb_neq p q : path_eqb p q = false <-> p <> q.
Proof.
  destruct (path_eqb p q) eqn:E.
  - apply path_eqb_eq in E. split; congruence.
  - split; auto. intros _ H. apply path_eqb_eq in H. congruence.
Qed.

Lemma is_prefix_spec p q : is_prefix p q = true <-> exists s, q = p ++ s.
Proof.
  revert q; induction p as [|x p IH]; intros q; cbn.
  - split; eauto.
  - destruct q as [|y q].
    + split; [congruence | intros (s & Hs); discriminate].
    + rewrite andb_true_iff, N.eqb_eq, IH. split.
      * intros (-> & s & ->). now exists s.
      * intros (s & Hs). inversion Hs; subst. eauto.
Qed.

Lemma last_is_spec v p : last_is v p = true <-> exists p', p = p' ++ [v].
Proof.
  induction p as [|x p IH]; cbn.
  - split; [congruence | intros ([|? ?] & H); discriminate].
  - destruct p as [|y p].
    + rewrite N.eqb_eq. split.
      * intros ->. now exists [].
      * intros (p' & H). destruct p' as [|a p']; cbn in H; inversion H; auto.
        destruct p'; discriminate.
    + rewrite IH. split.
      * intros (p' & ->). now exists (x :: p').
      * intros ([|a p'] & H); inversion H; subst; eauto.
Qed.

Lemma has_path_spec t p : has_path t p = true <-> In p (map tpath t).
Proof.
  unfold has_path. rewrite existsb_exists, in_map_iff. split.
  - intros (n & Hin & He). apply path_eqb_eq in He. eauto.
  - intros (n & He & Hin). exists n. split; auto. now apply path_eqb_eq.
Qed.

Lemma existsb_Neqb x l : existsb (N.eqb x) l = true <-> In x l.
Proof.
  rewrite existsb_exists. split.
  - intros (y & Hin & He). apply N.eqb_eq in He. now subst.
  - intros H. exists x. split; auto. apply N.eqb_refl.
Qed.

Lemma nodupb_spec p : nodupb p = true <-> NoDup p.
Proof.
  induction p as [|x p IH]; cbn.
  - split; auto using NoDup_nil.
  - rewrite andb_true_iff, negb_true_iff, IH. split.
    + intros [H1 H2]. constructor; auto. intros Hin. apply existsb_Neqb in Hin. congruence.
    + intros H. inversion H; subst. split; auto.
      destruct (existsb (N.eqb x) p) eqn:E; auto. apply existsb_Neqb in E. tauto.
Qed.

Lemma occurs_spec q n : occurs q n = true <-> exists a b, n = a ++ q ++ b.
Proof.
  induction n as [|x n IH]; cbn.
  - destruct q; split; try congruence.
    + intros _. now exists [], [].
    + intros (a & b & H). destruct a; discriminate.
  - rewrite orb_true_iff, IH. split.
    + intros [H|(a & b & ->)].
      * change (match q with [] => true | x0 :: p' => match x :: n with [] => false | y :: q' => (x0 =? y)%N && is_prefix p' q' end end) with (is_prefix q (x :: n)) in H.
        apply is_prefix_spec in H as (s & Hs). exists [], s. auto.
      * exists (x :: a), b. auto.
    + intros ([|y a] & b & H).
      * left. change (is_prefix q (x :: n) = true). apply is_prefix_spec. eauto.
      * right. inversion H; subst. eauto.
Qed.

(* ---------- structure of insert ---------- *)
Definition paths (t : trie) : list path := map tpath t.
Definition add_path (t : trie) (p : path) : trie :=
  if has_path t p then t else t ++ [mkT p None].

Lemma walk_ins_cons t p v rest :
  walk_ins t p (v :: rest) = walk_ins (add_path t (p ++ [v])) (p ++ [v]) rest.
Proof. reflexivity. Qed.

Lemma paths_add_path t p x : In x (paths (add_path t p)) <-> x = p \/ In x (paths t).
Proof.
  unfold add_path. destruct (has_path t p) eqn:E.
  - apply has_path_spec in E. split; auto. intros [->|H]; auto.
  - unfold paths. rewrite map_app, in_app_iff. cbn. intuition.
Qed.

Lemma NoDup_add_path t p : NoDup (paths t) -> NoDup (paths (add_path t p)).
Proof.
  intros H. unfold add_path. destruct (has_path t p) eqn:E; auto.
  unfold paths. rewrite map_app. cbn.
  apply Permutation_NoDup with (l := p :: map tpath t).
  - apply Permutation_cons_append.
  - constructor; auto. intros Hin. apply has_path_spec in Hin. congruence.
Qed.

Lemma In_add_path t p nd :
  In nd (add_path t p) -> In nd t \/ (nd = mkT p None /\ ~ In p (paths t)).
Proof.
  unfold add_path. destruct (has_path t p) eqn:E; auto.
  rewrite in_app_iff. cbn. intros [H|[H|[]]]; auto. right. split; auto.
  intros Hin. apply has_path_spec in Hin. congruence.
Qed.

Lemma add_path_keeps t p nd : In nd t -> In nd (add_path t p).
Proof. unfold add_path. destruct (has_path t p); auto. intros; apply in_or_app; auto. Qed.

Lemma walk_ins_snd t p rest : snd (walk_ins t p rest) = p ++ rest.
Proof.
  revert t p; induction rest as [|v rest IH]; intros t p.
  - cbn. now rewrite app_nil_r.
  - rewrite walk_ins_cons, IH, <- app_assoc. reflexivity.
Qed.

Lemma walk_ins_paths t p rest x :
  In x (paths (fst (walk_ins t p rest))) <->
  In x (paths t) \/ exists r1 r2, rest = r1 ++ r2 /\ r1 <> [] /\ x = p ++ r1.
Proof.
  revert t p; induction rest as [|v rest IH]; intros t p.
  - cbn. split; auto. intros [H|(r1 & r2 & H & Hne & _)]; auto.
    destruct r1; [congruence | discriminate].
  - rewrite walk_ins_cons, IH, paths_add_path. split.
    + intros [[->|H]|(r1 & r2 & -> & Hne & ->)]; auto.
      * right. exists [v], rest. repeat split; auto. discriminate.
      * right. exists (v :: r1), r2. repeat split; auto; try discriminate.
        now rewrite <- app_assoc.
    + intros [H|(r1 & r2 & H & Hne & ->)]; auto.
      destruct r1 as [|a r1]; [congruence|]. inversion H; subst.
      destruct r1 as [|b r1].
      * left. left. reflexivity.
      * right. exists (b :: r1), r2. repeat split; auto; try discriminate.
        now rewrite <- app_assoc.
Qed.

Lemma walk_ins_NoDup t p rest : NoDup (paths t) -> NoDup (paths (fst (walk_ins t p rest))).
Proof.
  revert t p; induction rest as [|v rest IH]; intros t p H; auto.
  rewrite walk_ins_cons. apply IH. now apply NoDup_add_path.
Qed.

Lemma walk_ins_nodes t p rest nd :
  In nd (fst (walk_ins t p rest)) ->
  In nd t \/ (tend nd = None /\ ~ In (tpath nd) (paths t)).
Proof.
  revert t p; induction rest as [|v rest IH]; intros t p H; auto.
  rewrite walk_ins_cons in H. apply IH in H as [H|[H1 H2]].
  - apply In_add_path in H as [H|[-> H]]; auto.
  - right. split; auto. intros Hin. apply H2. apply paths_add_path. auto.
Qed.

Lemma walk_ins_keeps t p rest nd : In nd t -> In nd (fst (walk_ins t p rest)).
Proof.
  revert t p; induction rest as [|v rest IH]; intros t p H; auto.
  rewrite walk_ins_cons. apply IH. now apply add_path_keeps.
Qed.

Lemma paths_set_end t p i : paths (set_end t p i) = paths t.
Proof.
  unfold paths, set_end. rewrite map_map. apply map_ext.
  intros n. destruct (path_eqb (tpath n) p); reflexivity.
Qed.

Lemma In_set_end t p i nd :
  In nd (set_end t p i) ->
  exists nd0, In nd0 t /\ tpath nd = tpath nd0 /\
              tend nd = if path_eqb (tpath nd0) p then Some i else tend nd0.
Proof.
  unfold set_end. rewrite in_map_iff. intros (nd0 & <- & Hin). exists nd0. split; auto.
  destruct (path_eqb (tpath nd0) p); auto.
Qed.

Lemma filter_unique {A} (f : A -> bool) (l : list A) (a : A) :
  NoDup l -> In a l -> f a = true -> (forall x, In x l -> f x = true -> x = a) ->
  filter f l = [a].
Proof.
  induction l as [|y l IH]; intros Hnd Hin Hfa Huniq; [destruct Hin|].
  inversion Hnd as [|? ? Hny Hnd']; subst. cbn.
  destruct Hin as [->|Hin].
  - rewrite Hfa. f_equal.
    assert (Hnone : forall x, In x l -> f x = false).
    { intros x Hx. destruct (f x) eqn:E; auto.
      assert (x = a) by (apply Huniq; [right|]; auto). subst. tauto. }
    clear -Hnone. induction l as [|z l IH]; auto. cbn. rewrite Hnone by (left; auto).
    apply IH. intros; apply Hnone; right; auto.
  - destruct (f y) eqn:E.
    + assert (y = a) by (apply Huniq; [left|]; auto). subst. tauto.
    + apply IH; auto. intros; apply Huniq; auto. right; auto.
Qed.

Lemma filter_map_tpath f t :
  map tpath (filter (fun n => f (tpath n)) t) = filter f (map tpath t).
Proof.
  induction t as [|n t IH]; cbn; auto. destruct (f (tpath n)); cbn; congruence.
Qed.

Lemma index_paths t v : index t v = filter (last_is v) (paths t).
Proof. unfold index. apply filter_map_tpath. Qed.

(* when every node labelled v0 is the root [v0], insert is an ordinary trie insert *)
Lemma insert_simple t v0 rest i :
  NoDup (paths t) ->
  (forall x, In x (paths t) -> last_is v0 x = true -> x = [v0]) ->
  insert t (v0 :: rest) i =
  set_end (fst (walk_ins (add_path t [v0]) [v0] rest)) (v0 :: rest) i.
Proof.
  intros Hnd Hroot. unfold insert.
  assert (E : existsb (fun n => last_is v0 (tpath n)) t = has_path t [v0]).
  { destruct (has_path t [v0]) eqn:Hp.
    - apply has_path_spec in Hp. apply in_map_iff in Hp as (n & Hn & Hin).
      apply existsb_exists. exists n. split; auto. rewrite Hn. cbn. apply N.eqb_refl.
    - destruct (existsb _ t) eqn:Ex; auto. apply existsb_exists in Ex as (n & Hin & Hl).
      assert (tpath n = [v0]) by (apply Hroot; auto; apply in_map; auto).
      assert (has_path t [v0] = true) by (apply has_path_spec; rewrite <- H; apply in_map; auto).
      congruence. }
  rewrite E. fold (add_path t [v0]).
  assert (Hidx : index (add_path t [v0]) v0 = [[v0]]).
  { rewrite index_paths. apply filter_unique.
    - now apply NoDup_add_path.
    - apply paths_add_path. auto.
    - cbn. apply N.eqb_refl.
    - intros x Hx Hl. apply paths_add_path in Hx as [->|Hx]; auto. }
  rewrite Hidx. cbn [fold_left].
  destruct (walk_ins (add_path t [v0]) [v0] rest) as [t' p'] eqn:Ew.
  assert (p' = v0 :: rest).
  { change p' with (snd (t', p')). rewrite <- Ew, walk_ins_snd. reflexivity. }
  subst. reflexivity.
Qed.

(* ---------- the invariant ---------- *)
Definition Shape (names : list (path * tid)) : Prop :=
  forall n, In n (map fst names) ->
    n <> [] /\ NoDup n /\ forall m, In m (map fst names) -> ~ In (hd 0%N n) (tl m).

Lemma shape_ok_Shape names : shape_ok names = true -> Shape names.
Proof.
  unfold shape_ok, Shape. rewrite forallb_forall. intros H n Hn.
  apply in_map_iff in Hn as ([n' i] & <- & Hin). cbn.
  specialize (H _ Hin). cbn in H. apply andb_true_iff in H as [H1 H2].
  apply nodupb_spec in H1. unfold first_ok in H2.
  destruct n' as [|v0 r]; [discriminate|]. repeat split; auto; try discriminate.
  intros m Hm Hbad. apply in_map_iff in Hm as ([m' j] & <- & Hm).
  rewrite forallb_forall in H2. specialize (H2 _ Hm). cbn [fst hd] in H2, Hbad.
  apply negb_true_iff in H2. apply existsb_Neqb in Hbad.
  change (existsb (N.eqb v0) (tl m') = true) in Hbad.
  change (existsb (N.eqb v0) (tl m') = false) in H2. rewrite H2 in Hbad. discriminate.
Qed.

Lemma Shape_snoc names x : Shape (names ++ [x]) -> Shape names.
Proof.
  intros H n Hn. destruct (H n) as (H1 & H2 & H3).
  - rewrite map_app. apply in_or_app; auto.
  - repeat split; auto. intros m Hm. apply H3. rewrite map_app. apply in_or_app; auto.
Qed.

Lemma lookup_last_snoc names n i x :
  lookup_last (names ++ [(n, i)]) x =
  if path_eqb n x then Some i else lookup_last names x.
Proof.
  induction names as [|[m j] names IH]; cbn.
  - reflexivity.
  - rewrite IH. destruct (path_eqb n x); auto.
Qed.

Lemma lookup_last_In names x i : lookup_last names x = Some i -> In (x, i) names.
Proof.
  induction names as [|[m j] names IH]; cbn; [discriminate|].
  destruct (lookup_last names x) eqn:E.
  - intros H; inversion H; subst. auto.
  - destruct (path_eqb m x) eqn:E2; [|discriminate].
    apply path_eqb_eq in E2. intros H; inversion H; subst. auto.
Qed.

Lemma lookup_last_None names x : lookup_last names x = None -> ~ In x (map fst names).
Proof.
  induction names as [|[m j] names IH]; cbn; auto.
  destruct (lookup_last names x) eqn:E; [discriminate|].
  destruct (path_eqb m x) eqn:E2; [discriminate|]. apply path_eqb_neq in E2.
  intros _ [H|H]; auto. now apply IH.
Qed.

Lemma lookup_last_Some_iff names x :
  In x (map fst names) <-> exists i, lookup_last names x = Some i.
Proof.
  split.
  - intros H. destruct (lookup_last names x) eqn:E; eauto.
    apply lookup_last_None in E. tauto.
  - intros (i & H). apply lookup_last_In in H. apply in_map_iff. exists (x, i). auto.
Qed.

Record Inv (names : list (path * tid)) (t : trie) : Prop := {
  inv_nodup : NoDup (paths t);
  inv_paths : forall p, In p (paths t) <->
                p <> [] /\ exists n, In n (map fst names) /\ is_prefix p n = true;
  inv_ends : forall nd, In nd t -> tend nd = lookup_last names (tpath nd) }.

Lemma is_prefix_refl p : is_prefix p p = true.
Proof. apply is_prefix_spec. exists []. now rewrite app_nil_r. Qed.

Lemma Inv_nil : Inv [] [].
Proof.
  split; cbn.
  - constructor.
  - intros p. split; [tauto | intros (_ & n & [] & _)].
  - tauto.
Qed.

Lemma prefix_cases v0 rest x :
  (x = [v0] \/ exists r1 r2, rest = r1 ++ r2 /\ r1 <> [] /\ x = [v0] ++ r1) <->
  (x <> [] /\ is_prefix x (v0 :: rest) = true).
Proof.
  split.
  - intros [->|(r1 & r2 & -> & Hne & ->)].
    + split; [discriminate|]. apply is_prefix_spec. now exists rest.
    + split; [discriminate|]. apply is_prefix_spec. exists r2. now rewrite <- app_assoc.
  - intros (Hne & Hp). apply is_prefix_spec in Hp as (s & Hs).
    destruct x as [|a x]; [congruence|]. inversion Hs; subst.
    destruct x as [|b x]; auto. right. exists (b :: x), s. repeat split; auto. discriminate.
Qed.

Lemma Inv_insert names t n i :
  Shape (names ++ [(n, i)]) -> Inv names t -> Inv (names ++ [(n, i)]) (insert t n i).
Proof.
  intros Hs [Hnd Hpaths Hends].
  assert (Hn : In n (map fst (names ++ [(n, i)]))).
  { rewrite map_app. apply in_or_app. right. left. reflexivity. }
  destruct (Hs n Hn) as (Hne & Hndn & Hhd).
  destruct n as [|v0 rest]; [congruence|]. cbn in Hhd.
  assert (Hroot : forall x, In x (paths t) -> last_is v0 x = true -> x = [v0]).
  { intros x Hx Hl. apply last_is_spec in Hl as (x' & ->).
    destruct x' as [|a x']; auto. exfalso.
    apply Hpaths in Hx as (_ & m & Hm & Hp). apply is_prefix_spec in Hp as (s & ->).
    apply (Hhd (((a :: x') ++ [v0]) ++ s)).
    - rewrite map_app. apply in_or_app. left. exact Hm.
    - cbn. apply in_or_app. left. apply in_or_app. right. left. reflexivity. }
  rewrite insert_simple by auto.
  set (t2 := fst (walk_ins (add_path t [v0]) [v0] rest)).
  assert (Hp2 : forall x, In x (paths t2) <->
                  In x (paths t) \/ (x <> [] /\ is_prefix x (v0 :: rest) = true)).
  { intros x. unfold t2. rewrite walk_ins_paths, paths_add_path, <- prefix_cases. tauto. }
  split.
  - rewrite paths_set_end. apply walk_ins_NoDup. now apply NoDup_add_path.
  - intros p. rewrite paths_set_end, Hp2, Hpaths. rewrite map_app. cbn [map fst]. split.
    + intros [(H1 & m & Hm & Hp)|(H1 & Hp)]; split; auto.
      * exists m. split; auto. apply in_or_app; auto.
      * exists (v0 :: rest). split; auto. apply in_or_app; right; left; auto.
    + intros (H1 & m & Hm & Hp). apply in_app_or in Hm as [Hm|[<-|[]]].
      * left. split; auto. eauto.
      * right. auto.
  - intros nd Hin. apply In_set_end in Hin as (nd0 & Hin0 & Hpath & Hend).
    rewrite Hend, Hpath, lookup_last_snoc.
    destruct (path_eqb (tpath nd0) (v0 :: rest)) eqn:E.
    + apply path_eqb_eq in E. rewrite E, path_eqb_refl. reflexivity.
    + assert (E' : path_eqb (v0 :: rest) (tpath nd0) = false).
      { apply path_eqb_neq. apply path_eqb_neq in E. congruence. }
      rewrite E'. unfold t2 in Hin0. apply walk_ins_nodes in Hin0 as [Hin0|[Hnone Hnew]].
      * apply In_add_path in Hin0 as [Hin0|[-> Hnew]]; auto. cbn.
        destruct (lookup_last names [v0]) eqn:El; auto. exfalso. apply Hnew.
        apply Hpaths. split; [discriminate|]. exists [v0]. split; [|apply is_prefix_refl].
        apply lookup_last_Some_iff. eauto.
      * rewrite Hnone. destruct (lookup_last names (tpath nd0)) eqn:El; auto. exfalso.
        apply Hnew. apply paths_add_path. right. apply Hpaths.
        assert (Hm : In (tpath nd0) (map fst names)) by (apply lookup_last_Some_iff; eauto).
        split.
        -- apply (Shape_snoc _ _ Hs) in Hm. tauto.
        -- exists (tpath nd0). split; auto. apply is_prefix_refl.
Qed.

Lemma insert_all_snoc names n i :
  insert_all (names ++ [(n, i)]) = insert (insert_all names) n i.
Proof. unfold insert_all. now rewrite fold_left_app. Qed.

Lemma Inv_insert_all names : Shape names -> Inv names (insert_all names).
Proof.
  induction names as [|[n i] names IH] using rev_ind; intros Hs.
  - apply Inv_nil.
  - rewrite insert_all_snoc. apply Inv_insert; auto. apply IH. eapply Shape_snoc; eauto.
Qed.

(* ---------- generic list lemmas ---------- *)
Lemma flat_map_ext_in {A B} (f g : A -> list B) l :
  (forall x, In x l -> f x = g x) -> flat_map f l = flat_map g l.
Proof.
  induction l as [|x l IH]; intros H; cbn; auto.
  rewrite H by (left; auto). f_equal. apply IH. intros; apply H; right; auto.
Qed.

Lemma flat_map_app_fun {A B} (f g : A -> list B) l :
  Permutation (flat_map (fun x => f x ++ g x) l) (flat_map f l ++ flat_map g l).
Proof.
  induction l as [|x l IH]; cbn; auto.
  rewrite IH. rewrite <- !app_assoc. apply Permutation_app_head.
  rewrite !app_assoc. apply Permutation_app_tail. apply Permutation_app_comm.
Qed.

Lemma flat_map_nil_fun {A B} (l : list A) : flat_map (fun _ => @nil B) l = [].
Proof. induction l; cbn; auto. Qed.

Lemma flat_map_swap {A B C} (f : A -> B -> list C) la lb :
  Permutation (flat_map (fun a => flat_map (f a) lb) la)
              (flat_map (fun b => flat_map (fun a => f a b) la) lb).
Proof.
  induction la as [|a la IH]; cbn.
  - now rewrite flat_map_nil_fun.
  - rewrite IH. symmetry. apply flat_map_app_fun.
Qed.

Lemma flat_map_unique {A B} (f : A -> bool) (i : B) l :
  NoDup l ->
  (forall x y, In x l -> In y l -> f x = true -> f y = true -> x = y) ->
  flat_map (fun p => if f p then [i] else []) l = if existsb f l then [i] else [].
Proof.
  induction l as [|x l IH]; intros Hnd Hu; cbn; auto.
  inversion Hnd as [|? ? Hnx Hnd']; subst.
  destruct (f x) eqn:E; cbn.
  - f_equal. assert (Hnone : forall y, In y l -> f y = false).
    { intros y Hy. destruct (f y) eqn:Ey; auto.
      assert (x = y) by (apply Hu; cbn; auto). subst. tauto. }
    clear -Hnone. induction l as [|z l IH]; auto. cbn.
    rewrite Hnone by (left; auto). apply IH. intros; apply Hnone; right; auto.
  - apply IH; auto. intros; apply Hu; cbn; auto.
Qed.

Lemma flat_map_filter_nonnil {A B} (f : A -> list B) l :
  flat_map f l = flat_map f (filter (fun x => match f x with [] => false | _ => true end) l).
Proof.
  induction l as [|x l IH]; cbn; auto.
  destruct (f x) eqn:E; cbn; rewrite ?E; cbn; congruence.
Qed.

Lemma perm_flat_map_nodup {A B} (f : A -> list B) l1 l2 :
  NoDup l1 -> NoDup l2 ->
  (forall x, f x <> [] -> (In x l1 <-> In x l2)) ->
  Permutation (flat_map f l1) (flat_map f l2).
Proof.
  intros H1 H2 H. rewrite (flat_map_filter_nonnil f l1), (flat_map_filter_nonnil f l2).
  apply Permutation_flat_map. apply NoDup_Permutation; try now apply NoDup_filter.
  intros x. rewrite !filter_In. split; intros [Hin Hf]; split; auto; apply H; auto;
    destruct (f x); congruence.
Qed.

Lemma NoDup_split_unique {A} (n a1 b1 a2 b2 : list A) x :
  NoDup n -> n = a1 ++ x :: b1 -> n = a2 ++ x :: b2 -> a1 = a2.
Proof.
  revert n a2; induction a1 as [|y a1 IH]; intros n a2 Hnd H1 H2; subst.
  - destruct a2 as [|z a2]; auto. cbn in H2. inversion H2; subst.
    apply NoDup_cons_iff in Hnd as [Hni _]. exfalso. apply Hni.
    apply in_or_app. right. left. auto.
  - destruct a2 as [|z a2]; cbn in H2; inversion H2; subst.
    + apply NoDup_cons_iff in Hnd as [Hni _]. exfalso. apply Hni.
      apply in_or_app. right. left. auto.
    + f_equal. apply NoDup_cons_iff in Hnd as [_ Hnd]. eapply IH; eauto.
Qed.

(* ---------- get ---------- *)
Lemma prefix_closed names t p s :
  Inv names t -> p <> [] -> In (p ++ s) (paths t) -> In p (paths t).
Proof.
  intros HI Hne Hin. apply (inv_paths _ _ HI) in Hin as (_ & n & Hn & Hp).
  apply (inv_paths _ _ HI). split; auto. exists n. split; auto.
  apply is_prefix_spec in Hp as (s' & ->). apply is_prefix_spec. exists (s ++ s').
  now rewrite app_assoc.
Qed.

Lemma walk_spec names t p rest :
  Inv names t -> p <> [] ->
  walk t p rest = if has_path t (p ++ rest) then Some (p ++ rest) else
                  match rest with [] => Some p | _ => None end.
Proof.
  intros HI. revert p; induction rest as [|v rest IH]; intros p Hne.
  - cbn. rewrite app_nil_r. destruct (has_path t p); auto.
  - cbn [walk]. destruct (has_path t (p ++ [v])) eqn:E.
    + rewrite IH by (destruct p; discriminate). rewrite <- app_assoc. cbn.
      destruct (has_path t (p ++ v :: rest)) eqn:E2; auto.
      destruct rest; auto. cbn in E2. rewrite E in E2. discriminate.
    + destruct (has_path t (p ++ v :: rest)) eqn:E2; auto.
      apply has_path_spec in E2. change (v :: rest) with ([v] ++ rest) in E2.
      rewrite app_assoc in E2. apply (prefix_closed _ _ _ _ HI) in E2.
      * apply has_path_spec in E2. congruence.
      * destruct p; discriminate.
Qed.

Definition olist {A} (o : option A) : list A := match o with Some i => [i] | None => [] end.

Definition node_hits (q : path) (nd : tnode) : list tid :=
  match tend nd with Some i => if occurs q (tpath nd) then [i] else [] | None => [] end.

Lemma collect_unfold t p :
  collect t p = flat_map (fun nd => if is_prefix p (tpath nd) then olist (tend nd) else []) t.
Proof. reflexivity. Qed.

Lemma get_as_double names t q0 qrest :
  Inv names t ->
  get t (q0 :: qrest) =
  flat_map (fun p => flat_map (fun nd => if is_prefix (p ++ qrest) (tpath nd)
                                         then olist (tend nd) else []) t)
           (index t q0).
Proof.
  intros HI. cbn [get]. apply flat_map_ext_in. intros p Hp.
  rewrite index_paths in Hp. apply filter_In in Hp as [Hp Hl].
  assert (Hne : p <> []) by (destruct p; [discriminate | discriminate]).
  rewrite (walk_spec _ _ _ _ HI Hne).
  destruct (has_path t (p ++ qrest)) eqn:E.
  - apply collect_unfold.
  - destruct qrest as [|v qrest].
    + rewrite app_nil_r in E. apply has_path_spec in Hp. congruence.
    + symmetry. rewrite <- (flat_map_nil_fun t) at 1. apply flat_map_ext_in.
      intros nd Hnd. destruct (is_prefix (p ++ v :: qrest) (tpath nd)) eqn:Ep; auto.
      exfalso. apply is_prefix_spec in Ep as (s & Hs).
      assert (In (tpath nd) (paths t)) by (apply in_map; auto). rewrite Hs in H.
      apply (prefix_closed _ _ _ _ HI) in H.
      * apply has_path_spec in H. congruence.
      * destruct p; discriminate.
Qed.

Lemma node_inner names t q0 qrest nd :
  Inv names t -> Shape names -> In nd t ->
  flat_map (fun p => if is_prefix (p ++ qrest) (tpath nd) then olist (tend nd) else [])
           (index t q0) = node_hits (q0 :: qrest) nd.
Proof.
  intros HI Hs Hnd. unfold node_hits. destruct (tend nd) as [i|] eqn:Et; cbn [olist].
  2:{ rewrite <- (flat_map_nil_fun (index t q0)) at 1. apply flat_map_ext.
      intros p. destruct (is_prefix _ _); auto. }
  assert (Hname : In (tpath nd) (map fst names)).
  { apply lookup_last_Some_iff. exists i. rewrite <- Et. symmetry. apply (inv_ends _ _ HI); auto. }
  destruct (Hs _ Hname) as (_ & Hndn & _).
  rewrite (flat_map_unique (fun p => is_prefix (p ++ qrest) (tpath nd)) i).
  - destruct (existsb (fun p => is_prefix (p ++ qrest) (tpath nd)) (index t q0)) eqn:Ex; destruct (occurs (q0 :: qrest) (tpath nd)) eqn:Eo; auto.
    + exfalso. apply existsb_exists in Ex as (p & Hp & Hpre).
      rewrite index_paths in Hp. apply filter_In in Hp as [_ Hl].
      apply last_is_spec in Hl as (a & ->). apply is_prefix_spec in Hpre as (s & Hs').
      assert (occurs (q0 :: qrest) (tpath nd) = true).
      { apply occurs_spec. exists a, s. rewrite Hs'. rewrite <- !app_assoc. reflexivity. }
      congruence.
    + exfalso. apply occurs_spec in Eo as (a & b & Hab).
      assert (existsb (fun p => is_prefix (p ++ qrest) (tpath nd)) (index t q0) = true).
      { apply existsb_exists. exists (a ++ [q0]). split.
        - rewrite index_paths. apply filter_In. split.
          + apply (inv_paths _ _ HI). split; [destruct a; discriminate|].
            exists (tpath nd). split; auto. apply is_prefix_spec. exists (qrest ++ b).
            rewrite Hab, <- app_assoc. reflexivity.
          + apply last_is_spec. eauto.
        - apply is_prefix_spec. exists b. rewrite Hab, <- !app_assoc. reflexivity. }
      congruence.
  - rewrite index_paths. apply NoDup_filter. apply (inv_nodup _ _ HI).
  - intros x y Hx Hy Hfx Hfy. rewrite index_paths in Hx, Hy.
    apply filter_In in Hx as [_ Hlx]. apply filter_In in Hy as [_ Hly].
    apply last_is_spec in Hlx as (a1 & ->). apply last_is_spec in Hly as (a2 & ->).
    apply is_prefix_spec in Hfx as (s1 & H1). apply is_prefix_spec in Hfy as (s2 & H2).
    f_equal. eapply NoDup_split_unique with (x := q0); [exact Hndn| |].
    + rewrite H1, <- !app_assoc. reflexivity.
    + rewrite H2, <- !app_assoc. reflexivity.
Qed.

Lemma get_by_nodes names t q0 qrest :
  Inv names t -> Shape names ->
  Permutation (get t (q0 :: qrest)) (flat_map (node_hits (q0 :: qrest)) t).
Proof.
  intros HI Hs. rewrite (get_as_double _ _ _ _ HI). rewrite flat_map_swap.
  apply Permutation_refl'. apply flat_map_ext_in. intros nd Hnd.
  now apply (node_inner names).
Qed.

(* ---------- spec_get ---------- *)
Lemma distinct_names_In names seen n :
  In n (distinct_names names seen) <-> In n (map fst names) /\ ~ In n seen.
Proof.
  revert seen; induction names as [|[m i] names IH]; intros seen; cbn.
  - tauto.
  - destruct (existsb (path_eqb m) seen) eqn:E.
    + rewrite IH. apply existsb_exists in E as (y & Hy & He). apply path_eqb_eq in He. subst y.
      split; [tauto|]. intros [[->|H] Hn]; tauto.
    + assert (Hm : ~ In m seen).
      { intros Hin. assert (existsb (path_eqb m) seen = true); [|congruence].
        apply existsb_exists. exists m. split; auto. apply path_eqb_refl. }
      cbn. rewrite IH. cbn. split.
      * intros [->|(H1 & H2)]; [split; auto | split; [right; auto | tauto]].
      * intros [[->|H] Hn]; [left; auto|].
        destruct (list_eq_dec N.eq_dec m n) as [->|Hne]; [left; auto|].
        right. split; auto. intros [He|Hin]; auto.
Qed.

Lemma distinct_names_NoDup names seen : NoDup (distinct_names names seen).
Proof.
  revert seen; induction names as [|[m i] names IH]; intros seen; cbn.
  - constructor.
  - destruct (existsb (path_eqb m) seen); auto. constructor; auto.
    rewrite distinct_names_In. cbn. tauto.
Qed.

Definition name_hits names (q n : path) : list tid :=
  if occurs q n then olist (lookup_last names n) else [].

Lemma spec_get_unfold names q :
  spec_get names q = flat_map (name_hits names q) (distinct_names names []).
Proof. reflexivity. Qed.

Lemma nodes_as_names names t q :
  Inv names t -> flat_map (node_hits q) t = flat_map (name_hits names q) (paths t).
Proof.
  intros HI. unfold paths. rewrite flat_map_concat_map, flat_map_concat_map, map_map.
  f_equal. apply map_ext_in. intros nd Hnd. unfold node_hits, name_hits.
  rewrite (inv_ends _ _ HI nd Hnd). destruct (lookup_last names (tpath nd)); cbn;
    destruct (occurs q (tpath nd)); auto.
Qed.

(* C16, lookups: for every parser-shaped set of names, in whatever order they
   were inserted, a non-empty query returns exactly (as a multiset: each once)
   the identities of the distinct names containing the query contiguously. *)
Theorem get_exact names q :
  shape_ok names = true -> q <> [] ->
  Permutation (get (insert_all names) q) (spec_get names q).
Proof.
  intros Hok Hq. apply shape_ok_Shape in Hok.
  pose proof (Inv_insert_all names Hok) as HI.
  destruct q as [|q0 qrest]; [congruence|].
  rewrite (get_by_nodes _ _ _ _ HI Hok), (nodes_as_names _ _ _ HI), spec_get_unfold.
  apply perm_flat_map_nodup.
  - apply (inv_nodup _ _ HI).
  - apply distinct_names_NoDup.
  - intros n Hn. unfold name_hits in Hn.
    destruct (occurs (q0 :: qrest) n); [|congruence].
    destruct (lookup_last names n) as [i|] eqn:El; [|cbn in Hn; congruence].
    assert (Hin : In n (map fst names)) by (apply lookup_last_Some_iff; eauto).
    rewrite distinct_names_In. split; intros _.
    + split; auto.
    + apply (inv_paths _ _ HI). destruct (Hok _ Hin) as (Hne & _). split; auto.
      exists n. split; auto. apply is_prefix_refl.
Qed.

Theorem get_exact_Shape names q :
  Shape names -> q <> [] ->
  Permutation (get (insert_all names) q) (spec_get names q).
Proof.
  intros Hok Hq.
  pose proof (Inv_insert_all names Hok) as HI.
  destruct q as [|q0 qrest]; [congruence|].
  rewrite (get_by_nodes _ _ _ _ HI Hok), (nodes_as_names _ _ _ HI), spec_get_unfold.
  apply perm_flat_map_nodup.
  - apply (inv_nodup _ _ HI).
  - apply distinct_names_NoDup.
  - intros n Hn. unfold name_hits in Hn.
    destruct (occurs (q0 :: qrest) n); [|congruence].
    destruct (lookup_last names n) as [i|] eqn:El; [|cbn in Hn; congruence].
    assert (Hin : In n (map fst names)) by (apply lookup_last_Some_iff; eauto).
    rewrite distinct_names_In. split; intros _.
    + split; auto.
    + apply (inv_paths _ _ HI). destruct (Hok _ Hin) as (Hne & _). split; auto.
      exists n. split; auto. apply is_prefix_refl.
Qed.

(* ---------- membership agrees with lookup ---------- *)
Theorem contains_iff_get names q :
  shape_ok names = true ->
  (contains (insert_all names) q = true <-> get (insert_all names) q <> []).
Proof.
  intros Hok. apply shape_ok_Shape in Hok.
  pose proof (Inv_insert_all names Hok) as HI. set (t := insert_all names) in *.
  destruct q as [|q0 qrest]; [cbn; split; congruence|].
  cbn [contains get]. split.
  - intros Hc. apply existsb_exists in Hc as (p & Hp & Hw).
    destruct (walk t p qrest) as [p'|] eqn:Ew; [|discriminate].
    assert (Hne : p <> []).
    { rewrite index_paths in Hp. apply filter_In in Hp as [_ Hl]. destruct p; discriminate. }
    assert (Hp' : In p' (paths t)).
    { rewrite (walk_spec _ _ _ _ HI Hne) in Ew.
      destruct (has_path t (p ++ qrest)) eqn:E.
      - inversion Ew; subst. now apply has_path_spec.
      - destruct qrest; [|discriminate]. inversion Ew; subst.
        rewrite index_paths in Hp. apply filter_In in Hp. tauto. }
    apply (inv_paths _ _ HI) in Hp' as (_ & n & Hn & Hpre).
    assert (Hnin : In n (paths t)).
    { apply (inv_paths _ _ HI). destruct (Hok _ Hn) as (Hnn & _). split; auto.
      exists n. split; auto. apply is_prefix_refl. }
    apply in_map_iff in Hnin as (nd & Hnd & Hndin).
    apply lookup_last_Some_iff in Hn as (i & Hi).
    intros Hnil.
    assert (Hin : In i (flat_map (fun p0 => match walk t p0 qrest with
                                            | Some p'0 => collect t p'0 | None => [] end)
                                 (index t q0))).
    { apply in_flat_map. exists p. split; auto. rewrite Ew. unfold collect.
      apply in_flat_map. exists nd. split; auto. rewrite Hnd, Hpre.
      rewrite (inv_ends _ _ HI nd Hndin), Hnd, Hi. left; auto. }
    rewrite Hnil in Hin. destruct Hin.
  - intros Hne. destruct (flat_map _ (index t q0)) as [|i l] eqn:E; [congruence|].
    assert (Hin : In i (i :: l)) by (left; auto). rewrite <- E in Hin.
    apply in_flat_map in Hin as (p & Hp & Hi).
    apply existsb_exists. exists p. split; auto.
    destruct (walk t p qrest); auto.
Qed.

(* ---------- insertion order does not matter ---------- *)
Lemma lookup_last_nodup names n i :
  NoDup (map fst names) -> In (n, i) names -> lookup_last names n = Some i.
Proof.
  induction names as [|[m j] names IH]; cbn; intros Hnd Hin; [destruct Hin|].
  apply NoDup_cons_iff in Hnd as [Hni Hnd].
  destruct Hin as [Heq|Hin].
  - inversion Heq; subst. destruct (lookup_last names n) eqn:E.
    + exfalso. apply Hni. apply lookup_last_Some_iff. eauto.
    + now rewrite path_eqb_refl.
  - now rewrite IH.
Qed.

Lemma distinct_names_nodup names seen :
  NoDup (map fst names) -> (forall n, In n (map fst names) -> ~ In n seen) ->
  distinct_names names seen = map fst names.
Proof.
  revert seen; induction names as [|[m j] names IH]; cbn; intros seen Hnd Hs; auto.
  apply NoDup_cons_iff in Hnd as [Hni Hnd].
  destruct (existsb (path_eqb m) seen) eqn:E.
  - exfalso. apply existsb_exists in E as (y & Hy & He). apply path_eqb_eq in He. subst.
    apply (Hs y); auto.
  - f_equal. apply IH; auto. intros n Hn [<-|Hin]; auto. apply (Hs n); auto.
Qed.

Lemma spec_get_nodup names q :
  NoDup (map fst names) ->
  spec_get names q = flat_map (fun ni => if occurs q (fst ni) then [snd ni] else []) names.
Proof.
  intros Hnd. rewrite spec_get_unfold, distinct_names_nodup; auto.
  rewrite flat_map_concat_map, flat_map_concat_map, map_map. f_equal.
  apply map_ext_in. intros [n i] Hin. unfold name_hits. cbn.
  now rewrite (lookup_last_nodup _ _ _ Hnd Hin).
Qed.

Theorem get_order_independent names names' q :
  shape_ok names = true -> NoDup (map fst names) -> Permutation names names' -> q <> [] ->
  Permutation (get (insert_all names) q) (get (insert_all names') q).
Proof.
  intros Hok Hnd Hperm Hq. apply shape_ok_Shape in Hok.
  assert (Hok' : Shape names').
  { intros n Hn. assert (Hn' : In n (map fst names)).
    { eapply Permutation_in; [|exact Hn]. apply Permutation_map. now symmetry. }
    destruct (Hok n Hn') as (H1 & H2 & H3). repeat split; auto.
    intros m Hm. apply H3. eapply Permutation_in; [|exact Hm].
    apply Permutation_map. now symmetry. }
  assert (Hnd' : NoDup (map fst names')).
  { eapply Permutation_NoDup; [|exact Hnd]. now apply Permutation_map. }
  rewrite (get_exact_Shape _ _ Hok Hq), (get_exact_Shape _ _ Hok' Hq).
  rewrite !spec_get_nodup by auto. now apply Permutation_flat_map.
Qed.

(* the hypothesis is not vacuous, and it is needed *)
Example shape_ok_example :
  shape_ok [([1;2;3], 10); ([1;2;4], 11); ([5;2;3], 12)]%N = true.
Proof. reflexivity. Qed.

Example get_example :
  get (insert_all [([1;2;3], 10); ([1;2;4], 11); ([5;2;3], 12)]%N) [2;3]%N = [10; 12]%N.
Proof. reflexivity. Qed.

(* without shape_ok: "b.d" inserted after "a.b.c" lands under a.b, so the query
   "a.b.d" finds a test whose name does not contain it *)
Example false_positive_without_shape :
  let names := [([1;2;3], 10); ([2;4], 11)]%N in
  shape_ok names = false /\
  get (insert_all names) [1;2;4]%N = [11]%N /\ spec_get names [1;2;4]%N = [].
Proof. repeat split. Qed.
