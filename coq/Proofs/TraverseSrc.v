(* C01 for ANY number of workers, the part that survives the known findings: the worker a get location names as a source
   really holds the states.  Over every schedule: whenever a test is started, every worker named as a source in its get
   locations has a passing result on a copy of one of the test's parents, and every state that copy sets and that no node
   marks for removal is in that worker's own pool (and stays there).  Hypothesis fw_ok: the worker a node's results are
   attributed to (the first worker id in its name) is its only owner. *)
From Coq Require Import List ZArith NArith Bool Arith Lia PrimFloat.
Import ListNotations.
From I2N Require Import Model.Retry Model.Traverse Model.TraverseRun Proofs.TraverseProofs Proofs.TraverseInv
                        Proofs.TraverseExcl Proofs.TraverseLoc Proofs.TraverseUid Proofs.TraverseAvail Proofs.TraverseDoor
                        Proofs.TraverseKeep Proofs.TraversePath Proofs.TraverseDefinite.
Local Open Scope nat_scope.

Definition fw_ok (g : graph) : Prop :=
  forall j v w, n_first_worker (nd g j) = Some v -> own g w j = true -> n_flat (nd g j) = false -> n_root (nd g j) = false -> w = v.

(* no piece but the recording of a reported PASS adds a PASS result *)
Definition np (s s' : state) : Prop := forall j r, In r (results (nst s' j)) -> r_status r = SPass -> In r (results (nst s j)).
Lemma np_refl s : np s s. Proof. intros j r H _. exact H. Qed.
Lemma np_trans a b c : np a b -> np b c -> np a c. Proof. intros A B j r H Hs. apply (A j r); [now apply (B j r) | exact Hs]. Qed.
Lemma np_ns s s' : ns s' = ns s -> np s s'. Proof. intros E j r H _. unfold nst in *. now rewrite E in H. Qed.
Lemma np_set_n s i f : (forall x r, In r (results (f x)) -> r_status r = SPass -> In r (results x)) -> np s (set_n s i f).
Proof. intros Hf j r H Hs. destruct (nst_set_n_cases s i f j) as [E|[-> [_ E]]]; rewrite E in H; [exact H | now apply Hf]. Qed.
Ltac np_keep := apply np_set_n; intros ? ? ? ?; assumption.

Definition APass (g : graph) (s : state) : Prop :=
  forall j r, In r (results (nst s j)) -> r_status r = SPass -> forall v, n_first_worker (nd g (r_node r)) = Some v ->
    forall x, In x (setstates (nd g (r_node r))) -> unmarked g x -> has_state (pool s) (Some v) x = true.
Definition kn (g : graph) (s s' : state) : Prop := keeps g s s' /\ np s s'.
Lemma kn_refl g s : kn g s s. Proof. split; [apply keeps_refl | apply np_refl]. Qed.
Lemma kn_trans g a b c : kn g a b -> kn g b c -> kn g a c.
Proof. intros [A1 A2] [B1 B2]. split; [eapply keeps_trans; eauto | eapply np_trans; eauto]. Qed.
Lemma kn_same g s s' : ns s' = ns s -> pool s' = pool s -> kn g s s'.
Proof. intros N P. split; [now apply keeps_eq | now apply np_ns]. Qed.
Lemma APass_kn g s s' : kn g s s' -> APass g s -> APass g s'.
Proof. intros [K N] H j r Hin Hs v Hv x Hx Hu. apply (K (Some v) x Hu). apply (H j r (N j r Hin Hs) Hs v Hv x Hx Hu). Qed.

Lemma kn_set_n_keep g s i f : (forall x, results (f x) = results x) -> kn g s (set_n s i f).
Proof. intros Hf. split; [apply keeps_eq; reflexivity|]. apply np_set_n. intros x r H _. now rewrite <- Hf. Qed.
Lemma kn_run_decision g s i w b sc s' : run_decision g s i w = Some (b, sc, s') -> kn g s s'.
Proof.
  unfold run_decision. intros H.
  repeat match type of H with
         | (if ?c then _ else _) = _ => destruct c
         | match ?x with _ => _ end = _ => destruct x eqn:?
         end; try discriminate; injection H as _ _ <-; try apply kn_refl; apply kn_set_n_keep; reflexivity.
Qed.
Lemma kn_eval_run g s i w b s' e : eval_run g s i w = Some (b, s', e) -> kn g s s'.
Proof.
  unfold eval_run. destruct (run_decision g s i w) as [[[b0 sc] s0]|] eqn:E; [|discriminate].
  intros H. injection H as _ <- _. eapply kn_run_decision; eauto.
Qed.
Lemma kn_pull_locations g s i : kn g s (pull_locations g s i).
Proof. unfold pull_locations. destruct (n_flat (nd g i)); [apply kn_refl | apply kn_set_n_keep; reflexivity]. Qed.
Lemma np_reverse_node g s i w s' e : reverse_node g s i w = Some (s', e) -> np s s'.
Proof.
  unfold reverse_node. destruct (is_occupied g s i w); [intros H; injection H as <- _; apply np_refl|].
  set (s1 := set_n s i _). assert (B1 : np s s1) by (unfold s1; apply np_set_n; intros x r H _; exact H).
  assert (Hgen : forall s2, np s1 s2 -> np s (set_n s2 i (fun x => mkN None (finished x) (results x) (rerun_off x) (mct_now x) (locs x))))
    by (intros s2 H2; eapply np_trans; [exact B1|]; eapply np_trans; [exact H2 | apply np_set_n; intros x r H _; exact H]).
  destruct (clean_decision g s1 i w) as [[]|]; [| intros H; injection H as <- _; apply Hgen, np_refl | discriminate].
  destruct (stateful (nd g i)); [| intros H; injection H as <- _; apply Hgen, np_refl].
  destruct (sync_walk _ _ _ _ _ _) as [[[[[] u] us] gs]|]; [| |discriminate]; intros H; injection H as <- _; apply Hgen; [apply np_ns; reflexivity | apply np_refl].
Qed.
Lemma kn_reverse_node g s i w s' e : reverse_node g s i w = Some (s', e) -> kn g s s'.
Proof. intros H. split; [eapply keeps_reverse_node; eauto | eapply np_reverse_node; eauto]. Qed.

Definition knit (g : graph) (s : state) (r : it_res) : Prop := match r with Cont s' _ | Halt s' _ => kn g s s' end.
Lemma kn_fail g s s1 w c : kn g s s1 -> kn g s (set_phase s1 w (Failed c)).
Proof. intros H. eapply kn_trans; [exact H | apply kn_same; reflexivity]. Qed.

Lemma after_from_child_kn g s w next previous : knit g s (after_from_child g s w next previous).
Proof.
  unfold after_from_child. destruct (eval_run g s next w) as [[[b s1] evs]|] eqn:E; [|unfold fail; cbn; apply kn_fail, kn_refl].
  pose proof (kn_eval_run _ _ _ _ _ _ _ E) as H1. cbn. eapply kn_trans; [exact H1|]. destruct b; apply kn_same; reflexivity.
Qed.
Lemma after_from_parent_kn g s w next : knit g s (after_from_parent g s w next).
Proof.
  unfold after_from_parent. destruct (eval_run g s next w) as [[[b s1] evs]|] eqn:E; [|unfold fail; cbn; apply kn_fail, kn_refl].
  pose proof (kn_eval_run _ _ _ _ _ _ _ E) as H1. destruct b; [cbn; eapply kn_trans; [exact H1 | apply kn_same; reflexivity]|].
  destruct (cleanup_ready g s1 next w).
  - set (s2 := fold_left _ (n_parents (nd g next)) s1).
    assert (H2 : kn g s s2) by (eapply kn_trans; [exact H1 | apply kn_same; [apply ns_fold_drop_child | apply pool_fold_drop_child]]).
    destruct (reverse_node g s2 next w) as [[s3 e]|] eqn:Er.
    + cbn. eapply kn_trans; [exact H2|]. eapply kn_trans; [eapply kn_reverse_node; eauto | apply kn_same; reflexivity].
    + unfold fail. cbn. now apply kn_fail.
  - destruct (pick_child g s1 next w) as [[c s2]|] eqn:Ep.
    + cbn. eapply kn_trans; [exact H1|]. unfold pick_child in Ep. destruct (pick_from _ _ _); [|discriminate]. injection Ep as _ <-. apply kn_same; reflexivity.
    + unfold fail. cbn. now apply kn_fail.
Qed.

Lemma kn_traverse_node g s i w :
  match traverse_node g s i w with
  | TnAwait s' _ _ | TnDone s' _ => kn g s s'
  | TnFail s' _ => kn g s s'
  end.
Proof.
  unfold traverse_node. destruct (is_occupied g s i w); [apply kn_refl|].
  set (s1 := set_n s i _). set (s2 := pull_locations g s1 i).
  assert (H2 : kn g s s2) by (apply (kn_trans g s s1 s2); [unfold s1; apply kn_set_n_keep; reflexivity | apply kn_pull_locations]).
  destruct (eval_run g s2 i w) as [[[b s3] evs]|] eqn:E; [|unfold fail; cbn; now apply kn_fail].
  pose proof (kn_eval_run _ _ _ _ _ _ _ E) as H3.
  assert (Happ : forall st, st <> SPass -> kn g s3 (set_n s3 i (fun x => mkN (started x) (finished x) (results x ++ [mkR i st false]) (rerun_off x) (mct_now x) (locs x)))).
  { intros st Hst. split; [apply keeps_eq; reflexivity|]. apply np_set_n. intros x r Hin Hs. cbn in Hin. apply in_app_or in Hin.
    destruct Hin as [Hin|[<-|[]]]; [exact Hin | cbn in Hs; congruence]. }
  destruct b.
  - destruct (n_objroot (nd g i)); cbn; (eapply kn_trans; [exact H2|]; eapply kn_trans; [exact H3 | apply Happ; discriminate]).
  - cbn. eapply kn_trans; [exact H2|]. eapply kn_trans; [exact H3 | unfold mark_done; apply kn_set_n_keep; reflexivity].
Qed.

Lemma do_traverse_kn g s w next (fc : bool) previous : knit g s (do_traverse g s w next fc previous).
Proof.
  unfold do_traverse. pose proof (kn_traverse_node g s next w) as H. destruct (traverse_node g s next w) as [s1 e pre|s1 e|s1 e].
  - cbn. eapply kn_trans; [exact H | apply kn_same; reflexivity].
  - assert (Hr : knit g s1 (if fc then after_from_child g s1 w next previous else after_from_parent g s1 w next))
      by (destruct fc; [apply after_from_child_kn | apply after_from_parent_kn]).
    destruct (if fc then _ else _) as [s2 e2|s2 e2]; cbn in *; eapply kn_trans; eauto.
  - exact H.
Qed.
Lemma iter_kn g s w : knit g s (iter g s w).
Proof.
  unfold iter.
  assert (Hfail : forall c, knit g s (let '(s1, e) := fail s w c in Halt s1 e)) by (intros c; unfold fail; cbn; apply kn_fail, kn_refl).
  destruct (cleanup_ready g s (g_root g) w).
  - destruct (path (wst s w)) as [|r [|r2 t]]; try apply Hfail.
    destruct (Nat.eqb r (g_root g)); [cbn; apply kn_same; reflexivity | apply Hfail].
  - destruct (path (wst s w)) as [|next [|previous t]]; try apply Hfail.
    + destruct (pick_child g s next w) as [[c s1]|] eqn:Ep; [|apply Hfail].
      unfold pick_child in Ep. destruct (pick_from _ _ _); [|discriminate]. injection Ep as _ <-. cbn. apply kn_same; reflexivity.
    + destruct (is_occupied g s next w).
      * unfold bounce. cbn.
        match goal with |- kn g s (set_w ?a w ?f) => apply (kn_trans g s a); [|apply kn_same; reflexivity] end.
        destruct (_ && _); [apply kn_set_n_keep; reflexivity | apply kn_refl].
      * assert (Hpp : knit g s (match pick_parent g s next w with
                                 | None => let '(s1, e) := fail s w 1 in Halt s1 e
                                 | Some (p, s1) => Cont (push s1 w p) [EPick w next p false]
                                 end)).
        { destruct (pick_parent g s next w) as [[p s1]|] eqn:Ep; [|apply Hfail].
          unfold pick_parent in Ep. destruct (pick_from _ _ _); [|discriminate]. injection Ep as _ <-. cbn. apply kn_same; reflexivity. }
        destruct (memn previous (n_children (nd g next))).
        -- destruct (setup_ready g s next w); [apply do_traverse_kn | exact Hpp].
        -- destruct (memn previous (n_parents (nd g next))); [|apply Hfail].
           destruct (setup_ready g s next w); cbn [negb]; [apply do_traverse_kn | exact Hpp].
Qed.
Lemma run_loop_kn fuel g w : forall s, kn g s (fst (run_loop fuel g s w)).
Proof.
  induction fuel as [|f IH]; intros s; cbn [run_loop]; [unfold fail; cbn; apply kn_fail, kn_refl|].
  pose proof (iter_kn g s w) as H. destruct (iter g s w) as [s1 e|s1 e]; cbn in H; [|exact H].
  specialize (IH s1). destruct (run_loop f g s1 w) as [s2 e2]. cbn in *. eapply kn_trans; eauto.
Qed.
Lemma continue_kn g w s r : knit g s r ->
  kn g s (fst (match r with Halt s2 e => (s2, e) | Cont s2 e => let '(s3, e3) := run_loop FUEL g s2 w in (s3, e ++ e3) end)).
Proof.
  intros H. destruct r as [s2 e|s2 e]; cbn in H; [|exact H].
  pose proof (run_loop_kn FUEL g w s2) as HL. destruct (run_loop FUEL g s2 w) as [s3 e3]. cbn in *. eapply kn_trans; eauto.
Qed.

(* ---- a whole section ---- *)
Lemma produce_has_w g s i w x : In x (setstates (nd g i)) -> has_state (pool (produce g s i w)) (Some w) x = true.
Proof.
  intros Hx. unfold produce, has_state. cbn [pool]. rewrite pool_get_upd.
  rewrite (proj2 (loc_eqb_eq (Some w) (Some w)) eq_refl). now apply fold_add_has.
Qed.

Theorem resume_ap g s w out : fw_ok g -> AllP g s -> APass g s -> APass g (fst (resume g s w out)).
Proof.
  intros Hfw HA HP. unfold resume. pose proof (HA w) as HPw. unfold P in HPw. destruct (ph (wst s w)) as [| next pre fc uid | | |c] eqn:Eph.
  - apply (APass_kn g s); [|exact HP]. eapply kn_trans; [apply (kn_same g s (set_phase s w Ready)); reflexivity | apply run_loop_kn].
  - cbn in HPw. destruct HPw as [Hown [Hfl [_ [_ Hroot]]]].
    cbv zeta. set (s0 := mkS (ws s) (ns s) (r_ps s) (r_pc s) (r_ds s) (r_dc s) (pool s) _).
    set (seen := match find _ (job s0) with Some e => Some (snd e) | None => None end).
    assert (Hcont : forall s1, APass g s1 ->
       APass g (fst (match (if fc then after_from_child g (set_phase s1 w Ready) w next (hd 0 (tl (path (wst s w)))) else after_from_parent g (set_phase s1 w Ready) w next) with
                     | Halt s2 e => (s2, e) | Cont s2 e => let '(s3, e3) := run_loop FUEL g s2 w in (s3, e ++ e3) end))).
    { intros s1 H1. apply (APass_kn g (set_phase s1 w Ready)); [|apply (APass_kn g s1); [apply kn_same; reflexivity | exact H1]].
      apply continue_kn. destruct fc; [apply after_from_child_kn | apply after_from_parent_kn]. }
    assert (Hrem : kn g s (end_pre s0 next)).
    { apply (kn_trans g s s0); [apply kn_same; reflexivity|]. unfold end_pre. split; [apply keeps_eq; reflexivity|]. apply np_set_n. intros x r Hin _. cbn in Hin. now apply (In_remove_first_unknown_inv _ next). }
    assert (Happ : forall a st, st <> SPass -> kn g a (set_n a next (fun x => mkN (started x) (finished x) (results x ++ [mkR next st false]) (rerun_off x) (mct_now x) (locs x)))).
    { intros a st Hst. split; [apply keeps_eq; reflexivity|]. apply np_set_n. intros x r Hin Hs. cbn in Hin. apply in_app_or in Hin.
      destruct Hin as [Hin|[<-|[]]]; [exact Hin | cbn in Hs; congruence]. }
    destruct pre.
    + destruct (run_ok seen) eqn:Eok.
      * unfold start_run. cbn [fst]. apply (APass_kn g s); [|exact HP].
        eapply kn_trans; [exact Hrem|]. eapply kn_trans; [apply (Happ _ SUnknown); discriminate | apply kn_same; reflexivity].
      * match goal with |- context [set_phase (mark_done ?a next w) w Ready] => apply (Hcont (mark_done a next w)) end.
        apply (APass_kn g s); [|exact HP]. eapply kn_trans; [exact Hrem|].
        eapply kn_trans; [apply (Happ _ (match seen with Some st => st | None => SUnknown end)); destruct seen as [[]|]; cbn in Eok; congruence | unfold mark_done; apply kn_set_n_keep; reflexivity].
    + apply (Hcont (mark_done (finish_run g s0 next w seen) next w)).
      apply (APass_kn g (finish_run g s0 next w seen)); [unfold mark_done; apply kn_set_n_keep; reflexivity|].
      unfold finish_run. destruct seen as [st|]; [|apply (APass_kn g s); [apply kn_same; reflexivity | exact HP]].
      set (s1 := set_n s0 next (fun x => mkN (started x) (finished x) (replace_first_unknown (results x) next st) (rerun_off x) (mct_now x) (locs x))).
      assert (Hold : forall j r, In r (results (nst s1 j)) -> In r (results (nst s j)) \/ r = mkR next st false).
      { intros j r Hin. unfold s1 in Hin.
        destruct (nst_set_n_cases s0 next (fun x => mkN (started x) (finished x) (replace_first_unknown (results x) next st) (rerun_off x) (mct_now x) (locs x)) j) as [E|[-> [_ E]]];
          rewrite E in Hin; [now left|]. cbn in Hin. now apply In_replace_first_unknown_inv in Hin. }
      destruct (status_eqb st SPass) eqn:Est.
      * assert (st = SPass) by (destruct st; try discriminate; reflexivity). subst st.
        intros j r Hin Hs v Hv x Hx Hu. change (nst (produce g s1 next w) j) with (nst s1 j) in Hin.
        destruct (Hold j r Hin) as [Ho| ->].
        -- apply produce_grow. apply (HP j r Ho Hs v Hv x Hx Hu).
        -- cbn [r_node] in Hv, Hx. assert (w = v) by (apply (Hfw next v w Hv Hown Hfl Hroot)). subst v. now apply produce_has_w.
      * assert (Hns : st <> SPass) by (intros ->; discriminate).
        assert (H1 : APass g s1).
        { intros j r Hin Hs v Hv x Hx Hu. destruct (Hold j r Hin) as [Ho| ->]; [apply (HP j r Ho Hs v Hv x Hx Hu) | cbn in Hs; congruence]. }
        destruct st; try exact H1. discriminate.
  - apply (APass_kn g s); [|exact HP]. eapply kn_trans; [apply (kn_same g s (set_phase s w Ready)); reflexivity | apply run_loop_kn].
  - cbn. exact HP.
  - cbn. exact HP.
Qed.

Lemma APass_init g p : APass g (init_state g p).
Proof. intros j r H. rewrite nst_init in H. destruct H. Qed.

Lemma schedule_ap g sched : fw_ok g -> forall s, AllP g s -> APass g s -> APass g (fst (run_schedule g s sched)).
Proof.
  intros Hfw. induction sched as [|[w out] r IH]; intros s HA HP; cbn [run_schedule]; [exact HP|].
  pose proof (resume_ap g s w out Hfw HA HP) as H1. destruct (resume_ok g s w out HA) as [_ HA1].
  destruct (resume g s w out) as [s1 e]. cbn [fst] in *. specialize (IH s1 HA1 H1). destruct (run_schedule g s1 r) as [s2 es]. exact IH.
Qed.

(* C01 for any number of workers: every worker named as a source of a started test holds the states *)
Theorem sources_hold_states g p sched evs w i u pre l o v :
  fw_ok g ->
  let r := run_schedule g (init_state g p) sched in
  In evs (snd r) -> In (EStart w i u pre l) evs -> In (o, Some v) l ->
  exists par res, In par (n_parents (nd g i)) /\ In res (shared_results g (fst r) par) /\ r_status res = SPass /\
    n_first_worker (nd g (r_node res)) = Some v /\
    forall x, In x (setstates (nd g (r_node res))) -> unmarked g x -> has_state (pool (fst r)) (Some v) x = true.
Proof.
  intros Hfw. cbn zeta. intros H1 H2 H3.
  destruct (named_sources_are_producers g p sched evs w i u pre l o v H1 H2 H3) as [par [Hp [res [Hr [Hs Hv]]]]].
  exists par, res. split; [exact Hp|]. split; [exact Hr|]. split; [exact Hs|]. split; [exact Hv|].
  pose proof (schedule_ap g sched Hfw _ (AllP_init g p) (APass_init g p)) as HA.
  unfold shared_results in Hr. apply in_flat_map in Hr. destruct Hr as [q [_ Hq]].
  intros x Hx Hu. exact (HA q res Hq Hs v Hv x Hx Hu).
Qed.

(* the hypothesis as an executable check *)
Lemma fw_ok_b_sound g : fw_ok_b g = true -> fw_ok g.
Proof.
  unfold fw_ok_b. intros H j v w Hv Ho Hf Hr. rewrite forallb_forall in H.
  destruct (Nat.lt_ge_cases j (length (g_nodes g))) as [Hj|Hj]; [|rewrite (nd_overflow g j Hj) in Hf; discriminate].
  specialize (H (nd g j) (nth_In _ _ Hj)). rewrite Hf, Hr, Hv in H. cbn [orb] in H. rewrite forallb_forall in H.
  unfold own in Ho. apply memn_In in Ho. specialize (H w Ho). apply Nat.eqb_eq in H. now symmetry.
Qed.
