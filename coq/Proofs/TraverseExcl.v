(* C04, for every schedule: mutual exclusion of the workers of one (globally scoped) class of bridged
   node copies.  Two state invariants over run_schedule:
     Inv1  a worker that is awaiting a test on node j holds the marker of j (started j = Some w);
     Inv2  the number of distinct workers holding a marker on a copy of the class never exceeds the
           largest threshold (max_concurrent_tries after bumps, max_tries by default, at least 1)
           among the copies of the class.
   Together: the number of workers executing a test of the class at any reachable state is at most
   that threshold.  The graph hypotheses (ownership is exclusive, bridging gives classes, copies of a
   class agree on flat/scope) are a boolean checker gwf_b that the harness evaluates on every graph it
   exports. *)
From Coq Require Import List ZArith NArith Bool Arith Lia PrimFloat.
Import ListNotations.
From I2N Require Import Model.Retry Model.Traverse Model.TraverseRun Proofs.TraverseProofs Proofs.TraverseInv.
Local Open Scope nat_scope.

(* ---- the part of the state the argument is about ---- *)
Definition sv (s : state) (j : nat) : option nat := started (nst s j).
Definition thr (g : graph) (s : state) (j : nat) : nat :=
  Z.to_nat (Z.max (match mct_now (nst s j) with Some m => m | None => n_tries (nd g j) end) 1).
Definition hold (s : state) (C : list nat) : list nat := flat_map (fun j => opt_list (sv s j)) C.
Definition cnt (l : list nat) : nat := length (dedup l).
Definition mc (s : state) (j : nat) : option Z := mct_now (nst s j).
(* the threshold the configuration starts with, and the largest of it and the current one: the back-off "bump"
   writes max_concurrent_tries = (current or 0) + 1, which LOWERS the threshold of a node that only had max_tries *)
Definition thr0 (g : graph) (j : nat) : nat :=
  Z.to_nat (Z.max (match n_mct (nd g j) with Some m => m | None => n_tries (nd g j) end) 1).
Definition hi (g : graph) (s : state) (j : nat) : nat := Nat.max (thr0 g j) (thr g s j).
Definition tmax (g : graph) (s : state) (C : list nat) : nat := list_max (map (hi g s) C).
Definition bumped (o : option Z) : option Z := Some ((match o with Some m => m | None => 0 end) + 1)%Z.
(* the current max_concurrent_tries is the configured one, or that (or 0) plus a positive number of bumps *)
Definition MctInv (g : graph) (s : state) : Prop :=
  forall j, mc s j = n_mct (nd g j) \/
            exists k, (1 <= k)%Z /\ mc s j = Some ((match n_mct (nd g j) with Some m => m | None => 0 end) + k)%Z.

Definition touchable (g : graph) (w j : nat) : Prop :=
  own g w j = true \/ n_flat (nd g j) = true \/ j = g_root g.

(* ---- graph hypotheses ---- *)
Record gwf (g : graph) : Prop := mkGwf {
  gw_excl : forall i v w, n_flat (nd g i) = false -> i <> g_root g -> own g v i = true -> own g w i = true -> v = w;
  gw_class : forall i n, In n (class_of g i) -> forall x, In x (class_of g n) <-> In x (class_of g i);
  gw_flat : forall i n, In n (class_of g i) -> n_flat (nd g n) = n_flat (nd g i);
  gw_scope : forall i n, In n (class_of g i) -> n_scope (nd g n) = n_scope (nd g i);
  gw_root : n_root (nd g (g_root g)) = true
}.

(* ---- dedup ---- *)
Lemma memn_In x l : memn x l = true <-> In x l.
Proof.
  unfold memn. rewrite existsb_exists. split.
  - intros [y [Hy E]]. apply Nat.eqb_eq in E. now subst.
  - intros H. exists x. split; [exact H | apply Nat.eqb_refl].
Qed.
Lemma memn_false x l : memn x l = false <-> ~ In x l.
Proof. rewrite <- memn_In. destruct (memn x l); split; congruence. Qed.

Lemma dedup_In x l : In x (dedup l) <-> In x l.
Proof.
  induction l as [|y l IH]; cbn; [tauto|]. destruct (memn y l) eqn:E.
  - rewrite IH. split; [auto|]. intros [<-|H]; [now apply memn_In | exact H].
  - cbn. rewrite IH. tauto.
Qed.
Lemma dedup_NoDup l : NoDup (dedup l).
Proof.
  induction l as [|y l IH]; cbn; [constructor|]. destruct (memn y l) eqn:E; [exact IH|].
  constructor; [|exact IH]. rewrite dedup_In. now apply memn_false.
Qed.

Lemma cnt_incl l l' : incl l' l -> cnt l' <= cnt l.
Proof.
  intros H. unfold cnt. apply NoDup_incl_length; [apply dedup_NoDup|].
  intros x Hx. apply dedup_In. apply H. now apply dedup_In.
Qed.
Lemma cnt_incl_cons l l' w : (forall x, In x l' -> In x l \/ x = w) -> cnt l' <= S (cnt l).
Proof.
  intros H. unfold cnt. change (S (length (dedup l))) with (length (w :: dedup l)).
  apply NoDup_incl_length; [apply dedup_NoDup|].
  intros x Hx. rewrite dedup_In in Hx. destruct (H x Hx) as [Hl | ->]; [right; now apply dedup_In | now left].
Qed.

Lemma flat_map_ext_in' {A B} (f f' : A -> list B) l : (forall a, In a l -> f a = f' a) -> flat_map f l = flat_map f' l.
Proof.
  induction l as [|a l IH]; intros H; cbn; [reflexivity|]. rewrite H by now left. rewrite IH; [reflexivity|].
  intros b Hb. apply H. now right.
Qed.

Lemma hold_In s C x : In x (hold s C) <-> exists j, In j C /\ sv s j = Some x.
Proof.
  unfold hold. rewrite in_flat_map. split.
  - intros [j [Hj Hx]]. exists j. split; [exact Hj|]. destruct (sv s j); cbn in Hx; [destruct Hx as [<-|[]]; reflexivity | contradiction].
  - intros [j [Hj E]]. exists j. split; [exact Hj|]. rewrite E. now left.
Qed.

Lemma list_max_le_mono (f f' : nat -> nat) C : (forall j, f j <= f' j) -> list_max (map f C) <= list_max (map f' C).
Proof.
  intros H. unfold list_max. induction C as [|c C IH]; cbn [map fold_right]; [lia|]. specialize (H c). lia.
Qed.
Lemma list_max_ge_in (f : nat -> nat) (C : list nat) n : In n C -> f n <= list_max (map f C).
Proof.
  unfold list_max. induction C as [|c C IH]; cbn [map fold_right In]; [contradiction|]. intros [-> | H]; [lia|]. specialize (IH H). lia.
Qed.

(* ---- the invariant on markers ---- *)
Definition Inv2 (g : graph) (s : state) : Prop :=
  MctInv g s /\
  forall i, n_flat (nd g i) = false -> n_scope (nd g i) = Global ->
            cnt (hold s (class_of g i)) <= tmax g s (class_of g i).

(* what a piece of a section of worker w may do to the markers and thresholds *)
Inductive mv1 (g : graph) (w : nat) (s s' : state) : Prop :=
| mv_same : (forall j, sv s' j = sv s j) -> (forall j, mc s' j = mc s j) -> length (ns s') = length (ns s) -> mv1 g w s s'
| mv_acq n : touchable g w n -> is_occupied g s n w = false ->
             (forall j, sv s' j = sv s j \/ (j = n /\ sv s' j = Some w)) -> (forall j, mc s' j = mc s j) ->
             length (ns s') = length (ns s) -> mv1 g w s s'
| mv_rel n : touchable g w n ->
             (forall j, sv s' j = sv s j \/ (j = n /\ sv s' j = None)) -> (forall j, mc s' j = mc s j) ->
             length (ns s') = length (ns s) -> mv1 g w s s'
| mv_bump : (forall j, sv s' j = sv s j) -> (forall j, mc s' j = mc s j \/ mc s' j = bumped (mc s j)) ->
            length (ns s') = length (ns s) -> mv1 g w s s'.
Inductive mvs (g : graph) (w : nat) : state -> state -> Prop :=
| mvs_refl s : mvs g w s s
| mvs_step s s1 s2 : mv1 g w s s1 -> mvs g w s1 s2 -> mvs g w s s2.

Lemma mvs_one g w s s' : mv1 g w s s' -> mvs g w s s'.
Proof. intros H. eapply mvs_step; [exact H | apply mvs_refl]. Qed.
Lemma mvs_trans g w a b c : mvs g w a b -> mvs g w b c -> mvs g w a c.
Proof. intros H. induction H; [auto|]. intros Hc. eapply mvs_step; eauto. Qed.
Lemma mvs_same g w s s' : (forall j, sv s' j = sv s j) -> (forall j, mc s' j = mc s j) -> length (ns s') = length (ns s) -> mvs g w s s'.
Proof. intros H1 H2 H3. apply mvs_one. now apply mv_same. Qed.
Lemma mvs_len g w s s' : mvs g w s s' -> length (ns s') = length (ns s).
Proof. intros H. induction H as [|s s1 s2 Hm _ IH]; [reflexivity|]. rewrite IH. destruct Hm; assumption. Qed.

Lemma hold_same s s' C : (forall j, sv s' j = sv s j) -> hold s' C = hold s C.
Proof. intros H. unfold hold. apply flat_map_ext. intros j. now rewrite H. Qed.
Lemma thr_mc g s s' j : mc s' j = mc s j -> thr g s' j = thr g s j.
Proof. unfold thr, mc. now intros ->. Qed.
Lemma tmax_same g s s' C : (forall j, mc s' j = mc s j) -> tmax g s' C = tmax g s C.
Proof. intros H. unfold tmax. f_equal. apply map_ext. intros j. unfold hi. now rewrite (thr_mc g s s' j (H j)). Qed.
Lemma MctInv_same g s s' : (forall j, mc s' j = mc s j) -> MctInv g s -> MctInv g s'.
Proof. intros H HI j. rewrite H. apply HI. Qed.

Lemma cnt_class_eq g s i n : gwf g -> In n (class_of g i) -> cnt (hold s (class_of g n)) = cnt (hold s (class_of g i)).
Proof.
  intros Hg Hn. apply Nat.le_antisymm; apply cnt_incl; intros x Hx; apply hold_In in Hx; destruct Hx as [j [Hj E]];
    apply hold_In; exists j; (split; [|exact E]); now apply (gw_class g Hg i n Hn).
Qed.

Lemma is_occupied_global g s n w :
  n_flat (nd g n) = false -> n_scope (nd g n) = Global -> is_occupied g s n w = false ->
  cnt (hold s (class_of g n)) < thr g s n.
Proof.
  intros Hf Hs H. unfold is_occupied, is_started, scoped_count in H. rewrite Hf, Hs in H.
  apply Nat.leb_gt in H. exact H.
Qed.

Lemma hi_bump g s s' j : MctInv g s -> (mc s' j = mc s j \/ mc s' j = bumped (mc s j)) -> hi g s j <= hi g s' j.
Proof.
  intros HI [E|E]; [unfold hi; rewrite (thr_mc g s s' j E); lia|].
  unfold hi, thr, thr0. fold (mc s' j). fold (mc s j). rewrite E.
  destruct (HI j) as [E0|[k [Hk E0]]]; rewrite E0; unfold bumped; destruct (n_mct (nd g j)); lia.
Qed.
Lemma MctInv_bump g s s' : (forall j, mc s' j = mc s j \/ mc s' j = bumped (mc s j)) -> MctInv g s -> MctInv g s'.
Proof.
  intros H HI j. destruct (H j) as [E|E]; [rewrite E; apply HI|]. right. rewrite E.
  destruct (HI j) as [E0|[k [Hk E0]]]; rewrite E0; unfold bumped.
  - exists 1%Z. split; [lia|]. destruct (n_mct (nd g j)); reflexivity.
  - exists (k + 1)%Z. split; [lia|]. f_equal. lia.
Qed.

Lemma Inv2_mv1 g w s s' : gwf g -> Inv2 g s -> mv1 g w s s' -> Inv2 g s'.
Proof.
  intros Hg [HM HI] Hm.
  split; [destruct Hm as [_ Hmc _ | n _ _ _ Hmc _ | n _ _ Hmc _ | _ Hmc _];
          [now apply (MctInv_same g s) | now apply (MctInv_same g s) | now apply (MctInv_same g s) | now apply (MctInv_bump g s)]|].
  intros i Hf Hs. specialize (HI i Hf Hs). destruct Hm as [Hsv Hthr _ | n Ht Hocc Hsv Hthr _ | n Ht Hsv Hthr _ | Hsv Hthr _].
  - rewrite (hold_same s s' _ Hsv), (tmax_same g s s' _ Hthr). exact HI.
  - rewrite (tmax_same g s s' _ Hthr).
    destruct (in_dec Nat.eq_dec n (class_of g i)) as [Hin|Hnin].
    + (* the acquired copy belongs to this class: one more holder at most, and there was room *)
      assert (Hfn : n_flat (nd g n) = false) by (rewrite (gw_flat g Hg i n Hin); exact Hf).
      assert (Hsn : n_scope (nd g n) = Global) by (rewrite (gw_scope g Hg i n Hin); exact Hs).
      pose proof (is_occupied_global g s n w Hfn Hsn Hocc) as Hroom.
      rewrite (cnt_class_eq g s i n Hg Hin) in Hroom.
      assert (Hle : cnt (hold s' (class_of g i)) <= S (cnt (hold s (class_of g i)))).
      { apply (cnt_incl_cons _ _ w). intros x Hx. apply hold_In in Hx. destruct Hx as [j [Hj E]].
        destruct (Hsv j) as [E'|[_ E']]; [left; apply hold_In; exists j; split; [exact Hj | congruence] | right; congruence]. }
      pose proof (list_max_ge_in (hi g s) (class_of g i) n Hin) as Hmax. unfold tmax. unfold hi in Hmax at 1. lia.
    + assert (E : hold s' (class_of g i) = hold s (class_of g i)).
      { unfold hold. apply flat_map_ext_in'. intros j Hj. destruct (Hsv j) as [E | [-> _]]; [now rewrite E | contradiction]. }
      rewrite E. exact HI.
  - rewrite (tmax_same g s s' _ Hthr). eapply Nat.le_trans; [|exact HI]. apply cnt_incl.
    intros x Hx. apply hold_In in Hx. destruct Hx as [j [Hj E]]. apply hold_In. exists j. split; [exact Hj|].
    destruct (Hsv j) as [E'|[_ E']]; congruence.
  - rewrite (hold_same s s' _ Hsv). eapply Nat.le_trans; [exact HI|]. unfold tmax. apply list_max_le_mono.
    intros j. now apply hi_bump.
Qed.

Lemma Inv2_mvs g w s s' : gwf g -> Inv2 g s -> mvs g w s s' -> Inv2 g s'.
Proof. intros Hg HI H. induction H; [exact HI|]. apply IHmvs. eapply Inv2_mv1; eauto. Qed.

(* ---- the same for classes whose reuse scope is one swarm: holders are counted per swarm ---- *)
Definition in_swarm (g : graph) (sw : nat) (v : nat) : bool := Nat.eqb (w_swarm (wk g v)) sw.
Definition cnts (g : graph) (sw : nat) (l : list nat) : nat := length (filter (in_swarm g sw) (dedup l)).

Lemma cnts_incl g sw l l' : (forall x, In x l' -> in_swarm g sw x = true -> In x l) -> cnts g sw l' <= cnts g sw l.
Proof.
  intros H. unfold cnts. apply NoDup_incl_length; [apply NoDup_filter, dedup_NoDup|].
  intros x Hx. apply filter_In in Hx. destruct Hx as [Hx Hs]. apply filter_In. split; [|exact Hs].
  apply dedup_In. apply H; [now apply dedup_In | exact Hs].
Qed.
Lemma cnts_incl_cons g sw l l' w : (forall x, In x l' -> In x l \/ x = w) -> cnts g sw l' <= S (cnts g sw l).
Proof.
  intros H. unfold cnts. change (S (length (filter (in_swarm g sw) (dedup l)))) with (length (w :: filter (in_swarm g sw) (dedup l))).
  apply NoDup_incl_length; [apply NoDup_filter, dedup_NoDup|].
  intros x Hx. apply filter_In in Hx. destruct Hx as [Hx Hs]. rewrite dedup_In in Hx.
  destruct (H x Hx) as [Hl | ->]; [right; apply filter_In; split; [now apply dedup_In | exact Hs] | now left].
Qed.

Definition Inv3 (g : graph) (s : state) : Prop :=
  forall i sw, n_flat (nd g i) = false -> n_scope (nd g i) = PerSwarm ->
               cnts g sw (hold s (class_of g i)) <= tmax g s (class_of g i).

Lemma cnts_class_eq g sw s i n : gwf g -> In n (class_of g i) -> cnts g sw (hold s (class_of g n)) = cnts g sw (hold s (class_of g i)).
Proof.
  intros Hg Hn. apply Nat.le_antisymm; apply cnts_incl; intros x Hx _; apply hold_In in Hx; destruct Hx as [j [Hj E]];
    apply hold_In; exists j; (split; [|exact E]); now apply (gw_class g Hg i n Hn).
Qed.

Lemma is_occupied_swarm g s n w :
  n_flat (nd g n) = false -> n_scope (nd g n) = PerSwarm -> is_occupied g s n w = false ->
  cnts g (w_swarm (wk g w)) (hold s (class_of g n)) < thr g s n.
Proof.
  intros Hf Hs H. unfold is_occupied, is_started, scoped_count in H. rewrite Hf, Hs in H.
  apply Nat.leb_gt in H. exact H.
Qed.

Lemma Inv3_mv1 g w s s' : gwf g -> MctInv g s -> Inv3 g s -> mv1 g w s s' -> Inv3 g s'.
Proof.
  intros Hg HM HI Hm i sw Hf Hs. specialize (HI i sw Hf Hs).
  destruct Hm as [Hsv Hthr _ | n Ht Hocc Hsv Hthr _ | n Ht Hsv Hthr _ | Hsv Hthr _].
  - rewrite (hold_same s s' _ Hsv), (tmax_same g s s' _ Hthr). exact HI.
  - rewrite (tmax_same g s s' _ Hthr).
    destruct (in_dec Nat.eq_dec n (class_of g i)) as [Hin|Hnin].
    + assert (Hfn : n_flat (nd g n) = false) by (rewrite (gw_flat g Hg i n Hin); exact Hf).
      assert (Hsn : n_scope (nd g n) = PerSwarm) by (rewrite (gw_scope g Hg i n Hin); exact Hs).
      pose proof (is_occupied_swarm g s n w Hfn Hsn Hocc) as Hroom.
      rewrite (cnts_class_eq g _ s i n Hg Hin) in Hroom.
      assert (Hall : forall x, In x (hold s' (class_of g i)) -> In x (hold s (class_of g i)) \/ x = w).
      { intros x Hx. apply hold_In in Hx. destruct Hx as [j [Hj E]].
        destruct (Hsv j) as [E'|[_ E']]; [left; apply hold_In; exists j; split; [exact Hj | congruence] | right; congruence]. }
      destruct (Nat.eq_dec (w_swarm (wk g w)) sw) as [<-|Hne].
      * pose proof (cnts_incl_cons g (w_swarm (wk g w)) _ _ w Hall) as Hle.
        pose proof (list_max_ge_in (hi g s) (class_of g i) n Hin) as Hmax. unfold tmax. unfold hi in Hmax at 1. lia.
      * eapply Nat.le_trans; [|exact HI]. apply cnts_incl. intros x Hx Hsx.
        destruct (Hall x Hx) as [Hl | ->]; [exact Hl|]. unfold in_swarm in Hsx. apply Nat.eqb_eq in Hsx. contradiction.
    + assert (E : hold s' (class_of g i) = hold s (class_of g i)).
      { unfold hold. apply flat_map_ext_in'. intros j Hj. destruct (Hsv j) as [E | [-> _]]; [now rewrite E | contradiction]. }
      rewrite E. exact HI.
  - rewrite (tmax_same g s s' _ Hthr). eapply Nat.le_trans; [|exact HI]. apply cnts_incl.
    intros x Hx _. apply hold_In in Hx. destruct Hx as [j [Hj E]]. apply hold_In. exists j. split; [exact Hj|].
    destruct (Hsv j) as [E'|[_ E']]; congruence.
  - rewrite (hold_same s s' _ Hsv). eapply Nat.le_trans; [exact HI|]. unfold tmax. apply list_max_le_mono.
    intros j. now apply hi_bump.
Qed.

Lemma Inv23_mvs g w s s' : gwf g -> Inv2 g s -> Inv3 g s -> mvs g w s s' -> Inv2 g s' /\ Inv3 g s'.
Proof.
  intros Hg H2 H3 H. induction H as [|s s1 s2 Hm _ IH]; [now split|].
  apply IH; [eapply Inv2_mv1; eauto | eapply Inv3_mv1; eauto; apply H2].
Qed.

(* the frame: markers of nodes the worker may not touch stay as they are *)
Lemma mvs_frame g w s s' j : mvs g w s s' -> ~ touchable g w j -> sv s' j = sv s j.
Proof.
  intros H Hn. induction H as [|s s1 s2 Hm _ IH]; [reflexivity|]. rewrite IH.
  destruct Hm as [Hsv _ _ | n Ht _ Hsv _ _ | n Ht Hsv _ _ | Hsv _ _]; try apply Hsv.
  - destruct (Hsv j) as [E | [-> _]]; [exact E | contradiction].
  - destruct (Hsv j) as [E | [-> _]]; [exact E | contradiction].
Qed.

(* ---- view equality: markers, thresholds and the number of node states unchanged ---- *)
Definition veq (g : graph) (s s' : state) : Prop :=
  (forall j, sv s' j = sv s j) /\ (forall j, mc s' j = mc s j) /\ length (ns s') = length (ns s).
Lemma veq_refl g s : veq g s s.
Proof. repeat split. Qed.
Lemma veq_trans g a b c : veq g a b -> veq g b c -> veq g a c.
Proof. intros [A1 [A2 A3]] [B1 [B2 B3]]. repeat split; intros; congruence. Qed.
Lemma veq_ns g s s' : ns s' = ns s -> veq g s s'.
Proof. intros H. unfold veq, sv, mc, nst. rewrite H. repeat split. Qed.
Lemma mv1_veq g w s s' : veq g s s' -> mv1 g w s s'.
Proof. intros [H1 [H2 H3]]. now apply mv_same. Qed.
Lemma mvs_veq g w s s' : veq g s s' -> mvs g w s s'.
Proof. intros [H1 [H2 H3]]. now apply mvs_same. Qed.

Definition keeps (f : nstate -> nstate) : Prop := forall x, started (f x) = started x /\ mct_now (f x) = mct_now x.

Lemma nst_set_n_cases s i f j :
  nst (set_n s i f) j = nst s j \/ (j = i /\ i < length (ns s) /\ nst (set_n s i f) j = f (nst s i)).
Proof.
  destruct (Nat.eq_dec i j) as [<-|Hne]; [|left; now apply nst_set_n_other].
  destruct (Nat.lt_ge_cases i (length (ns s))) as [H|H].
  - right. split; [reflexivity|]. split; [exact H|]. now apply nst_set_n_same.
  - left. unfold nst, set_n. cbn. rewrite !nth_overflow; try reflexivity; rewrite ?length_upd_nth; exact H.
Qed.
Lemma length_ns_set_n s i f : length (ns (set_n s i f)) = length (ns s).
Proof. unfold set_n. cbn. apply length_upd_nth. Qed.

Lemma veq_set_n g s i f : keeps f -> veq g s (set_n s i f).
Proof.
  intros Hk. split; [|split; [|apply length_ns_set_n]]; intros j; unfold sv, mc.
  - destruct (nst_set_n_cases s i f j) as [E|[-> [_ E]]]; rewrite E; [reflexivity|]. apply (Hk (nst s i)).
  - destruct (nst_set_n_cases s i f j) as [E|[-> [_ E]]]; rewrite E; [reflexivity|].
    apply (Hk (nst s i)).
Qed.

Ltac keeps_tac := let x := fresh "x" in intros x; split; reflexivity.

Lemma veq_run_decision g s i w b sc s' : run_decision g s i w = Some (b, sc, s') -> veq g s s'.
Proof.
  unfold run_decision. intros H.
  repeat match type of H with
         | (if ?c then _ else _) = _ => destruct c
         | match ?x with _ => _ end = _ => destruct x eqn:?
         end; try discriminate; injection H as _ _ <-; try apply veq_refl; apply veq_set_n; keeps_tac.
Qed.
Lemma veq_eval_run g s i w b s' e : eval_run g s i w = Some (b, s', e) -> veq g s s'.
Proof.
  unfold eval_run. destruct (run_decision g s i w) as [[[b0 sc] s0]|] eqn:E; [|discriminate].
  intros H. injection H as _ <- _. eapply veq_run_decision; eauto.
Qed.
Lemma veq_pull_locations g s i : veq g s (pull_locations g s i).
Proof. unfold pull_locations. destruct (n_flat (nd g i)); [apply veq_refl|]. apply veq_set_n. keeps_tac. Qed.
Lemma ns_pick_child g s i w c s' : pick_child g s i w = Some (c, s') -> ns s' = ns s.
Proof. unfold pick_child. destruct (pick_from _ _ _); [|discriminate]. intros H. now injection H as _ <-. Qed.
Lemma ns_pick_parent g s i w c s' : pick_parent g s i w = Some (c, s') -> ns s' = ns s.
Proof. unfold pick_parent. destruct (pick_from _ _ _); [|discriminate]. intros H. now injection H as _ <-. Qed.
Lemma ns_fold_drop_child g w next l : forall s, ns (fold_left (fun st p => drop_child g st p next w) l s) = ns s.
Proof. induction l as [|p l IH]; intros s; cbn; [reflexivity|]. now rewrite IH. Qed.
Lemma veq_start_run g s i w : veq g s (fst (start_run g s i w)).
Proof. unfold start_run. cbn. apply veq_set_n. keeps_tac. Qed.
Lemma veq_start_pre g s i w : veq g s (fst (start_pre g s i w)).
Proof. unfold start_pre. cbn. apply veq_set_n. keeps_tac. Qed.
Lemma veq_end_pre g s i : veq g s (end_pre s i).
Proof. unfold end_pre. apply veq_set_n. keeps_tac. Qed.
Lemma veq_finish_run g s i w out : veq g s (finish_run g s i w out).
Proof.
  unfold finish_run. destruct out as [st|]; [|apply veq_refl].
  assert (H : veq g s (set_n s i (fun x => mkN (started x) (finished x) (replace_first_unknown (results x) i st)
                                               (rerun_off x) (mct_now x) (locs x)))) by (apply veq_set_n; keeps_tac).
  destruct st; exact H.
Qed.

(* releasing and acquiring the marker of a node *)
Lemma sv_set_started s i o (f : nstate -> nstate) j :
  (forall x, started (f x) = o) ->
  sv (set_n s i f) j = sv s j \/ (j = i /\ i < length (ns s) /\ sv (set_n s i f) j = o).
Proof.
  intros Hf. unfold sv. destruct (nst_set_n_cases s i f j) as [E|[-> [Hl E]]]; [left; now rewrite E|].
  right. split; [reflexivity|]. split; [exact Hl|]. rewrite E. apply Hf.
Qed.
Lemma mc_set_keep s i (f : nstate -> nstate) j : (forall x, mct_now (f x) = mct_now x) -> mc (set_n s i f) j = mc s j.
Proof.
  intros Hf. unfold mc. destruct (nst_set_n_cases s i f j) as [E|[-> [_ E]]]; rewrite E; [reflexivity|]. now rewrite Hf.
Qed.

Lemma mark_done_rel g w s i : touchable g w i -> mv1 g w s (mark_done s i w).
Proof.
  intros Ht. apply (mv_rel g w s _ i Ht).
  - intros j. destruct (sv_set_started s i None (fun x => mkN None (Some w) (results x) (rerun_off x) (mct_now x) (locs x)) j (fun _ => eq_refl)) as [E|[E1 [_ E2]]];
      [left; exact E | right; split; [exact E1 | exact E2]].
  - intros j. now apply mc_set_keep.
  - apply length_ns_set_n.
Qed.

(* ---- the worker-local invariants of a section ---- *)
Definition PathOk (g : graph) (w : nat) (s : state) : Prop := forall x, In x (path (wst s w)) -> touchable g w x.
Definition RunMark (g : graph) (w : nat) (s : state) : Prop :=
  match ph (wst s w) with Running j _ _ _ => sv s j = Some w | _ => True end.
Definition LenOk (g : graph) (s : state) : Prop := length (ns s) = length (g_nodes g).

Lemma startable_lt g w i : startable g w i -> i < length (g_nodes g).
Proof.
  intros [_ [Hf _]]. destruct (Nat.lt_ge_cases i (length (g_nodes g))) as [H|H]; [exact H|].
  unfold nd in Hf. rewrite nth_overflow in Hf by exact H. discriminate.
Qed.
Lemma startable_touchable g w i : startable g w i -> touchable g w i.
Proof. intros [H _]. now left. Qed.

(* a piece of a section: what it did to the markers, and the local invariants at its end *)
Definition xpiece (g : graph) (w : nat) (s s' : state) : Prop :=
  mvs g w s s' /\ PathOk g w s' /\ RunMark g w s'.

Lemma PathOk_ws g w s s' : ws s' = ws s -> PathOk g w s -> PathOk g w s'.
Proof. unfold PathOk, wst. now intros ->. Qed.

Lemma wst_set_w_path s w f x :
  In x (path (wst (set_w s w f) w)) -> In x (path (f (wst s w))) \/ In x (path (wst s w)).
Proof. destruct (wst_set_w_cases s w f) as [E|[E _]]; rewrite E; auto. Qed.

Lemma PathOk_set_phase g w s p : PathOk g w s -> PathOk g w (set_phase s w p).
Proof. intros H x Hx. unfold set_phase in Hx. apply wst_set_w_path in Hx. cbn in Hx. destruct Hx; now apply H. Qed.
Lemma PathOk_push g w s c : PathOk g w s -> touchable g w c -> PathOk g w (push s w c).
Proof.
  intros H Hc x Hx. unfold push, set_path in Hx. apply wst_set_w_path in Hx. cbn in Hx.
  destruct Hx as [[<-|Hx]|Hx]; auto.
Qed.
Lemma PathOk_pop g w s : PathOk g w s -> PathOk g w (pop s w).
Proof.
  intros H x Hx. unfold pop, set_path in Hx. apply wst_set_w_path in Hx. cbn in Hx.
  destruct Hx as [Hx|Hx]; [|now apply H]. apply H. destruct (path (wst s w)); [contradiction | now right].
Qed.

(* the phase of the worker and the markers are independent updates *)
Lemma ph_set_phase_other s w p : match p with Running _ _ _ _ => False | _ => True end ->
  match ph (wst (set_phase s w p) w) with Running _ _ _ _ => match ph (wst s w) with Running _ _ _ _ => True | _ => False end | _ => True end.
Proof.
  intros Hp. unfold set_phase. destruct (wst_set_w_cases s w (fun x => mkW (path x) (occ_at x) (occ_wait x) p)) as [E|[E _]]; rewrite E; cbn.
  - destruct p; try exact I; contradiction.
  - destruct (ph (wst s w)); exact I.
Qed.

Definition not_running (s : state) (w : nat) : Prop := match ph (wst s w) with Running _ _ _ _ => False | _ => True end.
Lemma RunMark_not_running g w s : not_running s w -> RunMark g w s.
Proof. unfold not_running, RunMark. destruct (ph (wst s w)); tauto. Qed.
Lemma not_running_ws s s' w : ws s' = ws s -> not_running s w -> not_running s' w.
Proof. unfold not_running, wst. now intros ->. Qed.
Lemma not_running_set_path s w p : not_running s w -> not_running (set_path s w p) w.
Proof.
  unfold not_running, set_path. intros H.
  destruct (wst_set_w_cases s w (fun x => mkW p (occ_at x) (occ_wait x) (ph x))) as [E|[E _]]; rewrite E; exact H.
Qed.
Lemma not_running_set_phase s w p : match p with Running _ _ _ _ => False | _ => True end -> not_running s w -> not_running (set_phase s w p) w.
Proof.
  unfold not_running, set_phase. intros Hp H.
  destruct (wst_set_w_cases s w (fun x => mkW (path x) (occ_at x) (occ_wait x) p)) as [E|[E _]]; rewrite E; [exact Hp | exact H].
Qed.

Lemma xpiece_fail g w s c : PathOk g w s -> not_running s w -> xpiece g w s (set_phase s w (Failed c)).
Proof.
  intros HP Hn. split; [apply mvs_veq, veq_ns; reflexivity|]. split; [now apply PathOk_set_phase|].
  apply RunMark_not_running. now apply not_running_set_phase.
Qed.

(* traverse_node on a node the worker may touch *)
Lemma traverse_node_x g s i w : touchable g w i ->
  match traverse_node g s i w with
  | TnAwait s' e pre => mvs g w s s' /\ ws s' = ws s /\ (i < length (ns s) -> sv s' i = Some w)
  | TnDone s' e => mvs g w s s' /\ ws s' = ws s
  | TnFail s' e => mvs g w s s' /\ s' = set_phase (pull_locations g (set_n s i (fun x => mkN (Some w) (finished x) (results x) (rerun_off x) (mct_now x) (locs x))) i) w (Failed 3)
  end.
Proof.
  intros Ht. unfold traverse_node. destruct (is_occupied g s i w) eqn:Eocc; [split; [apply mvs_refl | reflexivity]|].
  set (f := fun x => mkN (Some w) (finished x) (results x) (rerun_off x) (mct_now x) (locs x)).
  set (s1 := set_n s i f). set (s2 := pull_locations g s1 i).
  assert (Hacq : mv1 g w s s1).
  { apply (mv_acq g w s s1 i Ht Eocc).
    - intros j. destruct (sv_set_started s i (Some w) f j (fun _ => eq_refl)) as [E|[E1 [_ E2]]]; [left; exact E | right; split; assumption].
    - intros j. now apply mc_set_keep.
    - apply length_ns_set_n. }
  assert (Hmark1 : i < length (ns s) -> sv s1 i = Some w).
  { intros Hl. unfold sv, s1. rewrite nst_set_n_same by exact Hl. reflexivity. }
  assert (H12 : veq g s1 s2) by apply veq_pull_locations.
  assert (Hws2 : ws s2 = ws s) by (unfold s2; rewrite ws_pull_locations; reflexivity).
  assert (Hm2 : mvs g w s s2) by (eapply mvs_step; [exact Hacq | now apply mvs_veq]).
  unfold eval_run. destruct (run_decision g s2 i w) as [[[b sc] s3]|] eqn:E.
  - pose proof (veq_run_decision _ _ _ _ _ _ _ E) as H23. pose proof (ws_run_decision _ _ _ _ _ _ _ E) as Hws3.
    assert (Hm3 : mvs g w s s3) by (eapply mvs_trans; [exact Hm2 | now apply mvs_veq]).
    destruct b.
    + destruct (n_objroot (nd g i)); cbn.
      * pose proof (veq_start_pre g s3 i w) as H34. cbn in H34. split; [eapply mvs_trans; [exact Hm3 | now apply mvs_veq]|].
        split; [congruence|]. intros Hl. destruct H34 as [A _]. rewrite A. destruct H23 as [B _]. rewrite B. destruct H12 as [C _]. rewrite C. now apply Hmark1.
      * pose proof (veq_start_run g s3 i w) as H34. cbn in H34. split; [eapply mvs_trans; [exact Hm3 | now apply mvs_veq]|].
        split; [congruence|]. intros Hl. destruct H34 as [A _]. rewrite A. destruct H23 as [B _]. rewrite B. destruct H12 as [C _]. rewrite C. now apply Hmark1.
    + split; [|cbn; congruence]. eapply mvs_trans; [exact Hm3|]. apply mvs_one. now apply mark_done_rel.
  - unfold fail. cbn. split; [|reflexivity]. eapply mvs_trans; [exact Hm2|]. apply mvs_veq, veq_ns. reflexivity.
Qed.

Lemma veq_door_effect g s w u sts : veq g s (door_effect s w u sts).
Proof. apply veq_ns. reflexivity. Qed.

Lemma reverse_node_x g s i w s' e : touchable g w i -> reverse_node g s i w = Some (s', e) -> mvs g w s s'.
Proof.
  intros Ht. unfold reverse_node. destruct (is_occupied g s i w) eqn:Eocc.
  - intros H. injection H as <- _. apply mvs_refl.
  - set (f := fun x => mkN (Some w) (finished x) (results x) (rerun_off x) (mct_now x) (locs x)).
    set (s1 := set_n s i f).
    assert (Hacq : mv1 g w s s1).
    { apply (mv_acq g w s s1 i Ht Eocc).
      - intros j. destruct (sv_set_started s i (Some w) f j (fun _ => eq_refl)) as [E|[E1 [_ E2]]]; [left; exact E | right; split; assumption].
      - intros j. now apply mc_set_keep.
      - apply length_ns_set_n. }
    assert (Hrel : forall st, mv1 g w st (set_n st i (fun x => mkN None (finished x) (results x) (rerun_off x) (mct_now x) (locs x)))).
    { intros st. apply (mv_rel g w st _ i Ht).
      - intros j. destruct (sv_set_started st i None (fun x => mkN None (finished x) (results x) (rerun_off x) (mct_now x) (locs x)) j (fun _ => eq_refl)) as [E|[E1 [_ E2]]];
          [left; exact E | right; split; assumption].
      - intros j. now apply mc_set_keep.
      - apply length_ns_set_n. }
    intros H.
    repeat match type of H with
           | (if ?c then _ else _) = _ => destruct c
           | match ?x with _ => _ end = _ => destruct x eqn:?
           | (let '(_, _) := ?x in _) = _ => destruct x eqn:?
           end; try discriminate; injection H as <- _;
      (eapply mvs_step; [exact Hacq|]);
      first [ apply mvs_one; apply Hrel
            | eapply mvs_step; [| apply mvs_one; apply Hrel]; apply mv1_veq; apply veq_door_effect ].
Qed.

(* ---- the loop ---- *)
Lemma sv_set_keep s i (f : nstate -> nstate) j : (forall x, started (f x) = started x) -> sv (set_n s i f) j = sv s j.
Proof.
  intros Hf. unfold sv. destruct (nst_set_n_cases s i f j) as [E|[-> [_ E]]]; rewrite E; [reflexivity|]. now rewrite Hf.
Qed.

Lemma wst_overflow s w : length (ws s) <= w -> wst s w = mkW [] [] PrimFloat.zero Exited.
Proof. intros H. unfold wst. now apply nth_overflow. Qed.

Lemma RunMark_set_w g s w f : (forall x, match ph (f x) with Running _ _ _ _ => False | _ => True end) -> RunMark g w (set_w s w f).
Proof.
  intros Hf. unfold RunMark. destruct (wst_set_w_cases s w f) as [E|[E Hl]]; rewrite E.
  - specialize (Hf (wst s w)). destruct (ph (f (wst s w))); tauto.
  - rewrite (wst_overflow s w Hl). exact I.
Qed.

Lemma bounce_x g s w next : PathOk g w s -> xpiece g w s (fst (bounce g s w next)).
Proof.
  intros HP. unfold bounce. cbn [fst].
  set (bump := memn next (occ_at (wst s w)) && PrimFloat.ltb (n_budget (nd g next)) (occ_wait (wst s w))).
  set (fb := fun x => mkN (started x) (finished x) (results x) (rerun_off x)
                          (Some ((match mct_now x with Some m => m | None => 0 end) + 1)%Z) (locs x)).
  set (s1 := if bump then set_n s next fb else s).
  assert (Hws1 : ws s1 = ws s) by (unfold s1; destruct bump; reflexivity).
  assert (H1 : mvs g w s s1).
  { unfold s1. destruct bump; [|apply mvs_refl]. apply mvs_one. apply mv_bump.
    - intros j. now apply sv_set_keep.
    - intros j. unfold mc. destruct (nst_set_n_cases s next fb j) as [E|[-> [_ E]]]; rewrite E; [now left | right; reflexivity].
    - apply length_ns_set_n. }
  match goal with |- xpiece g w s (set_w s1 w ?f) => set (fw := f) end.
  split; [eapply mvs_trans; [exact H1 | apply mvs_veq, veq_ns; reflexivity]|]. split.
  - intros x Hx. apply wst_set_w_path in Hx. cbn in Hx. destruct Hx as [[<-|[]]|Hx]; [right; right; reflexivity|].
    apply (PathOk_ws g w s s1 Hws1 HP). exact Hx.
  - apply RunMark_set_w. intros x. exact I.
Qed.

Definition xit (g : graph) (w : nat) (s : state) (r : it_res) : Prop :=
  match r with
  | Cont s' _ => mvs g w s s' /\ PathOk g w s' /\ not_running s' w
  | Halt s' _ => xpiece g w s s'
  end.

Lemma veq_ws_ns g s s' : ns s' = ns s -> veq g s s'.
Proof. apply veq_ns. Qed.

Lemma not_running_pop s w : not_running s w -> not_running (pop s w) w.
Proof. apply not_running_set_path. Qed.
Lemma not_running_push s w c : not_running s w -> not_running (push s w c) w.
Proof. apply not_running_set_path. Qed.

Lemma after_from_child_x g s w next previous :
  PathOk g w s -> not_running s w -> xit g w s (after_from_child g s w next previous).
Proof.
  intros HP Hn. unfold after_from_child. destruct (eval_run g s next w) as [[[b s1] evs]|] eqn:E.
  - pose proof (veq_eval_run _ _ _ _ _ _ _ E) as Hv. pose proof (ws_eval_run _ _ _ _ _ _ _ E) as Hws.
    set (s2 := if b then s1 else drop_parent g s1 previous next w).
    assert (Hws2 : ws s2 = ws s) by (unfold s2; destruct b; [exact Hws | cbn; exact Hws]).
    assert (Hns2 : ns s2 = ns s1) by (unfold s2; destruct b; reflexivity).
    cbn. split; [|split].
    + eapply mvs_trans; [apply mvs_veq; exact Hv|]. eapply mvs_trans; [apply mvs_veq, veq_ns; exact Hns2|].
      apply mvs_veq, veq_ns. reflexivity.
    + apply PathOk_pop. now apply (PathOk_ws g w s).
    + apply not_running_pop. now apply (not_running_ws s).
  - unfold fail. cbn. now apply xpiece_fail.
Qed.

Lemma after_from_parent_x g s w next :
  touchable g w next -> PathOk g w s -> not_running s w -> xit g w s (after_from_parent g s w next).
Proof.
  intros Ht HP Hn. unfold after_from_parent. destruct (eval_run g s next w) as [[[b s1] evs]|] eqn:E.
  - pose proof (veq_eval_run _ _ _ _ _ _ _ E) as Hv. pose proof (ws_eval_run _ _ _ _ _ _ _ E) as Hws.
    assert (HP1 : PathOk g w s1) by now apply (PathOk_ws g w s).
    assert (Hn1 : not_running s1 w) by now apply (not_running_ws s).
    destruct b.
    + cbn. split; [|split].
      * eapply mvs_trans; [apply mvs_veq; exact Hv | apply mvs_veq, veq_ns; reflexivity].
      * now apply PathOk_pop.
      * now apply not_running_pop.
    + destruct (cleanup_ready g s1 next w).
      * set (s2 := fold_left _ (n_parents (nd g next)) s1).
        assert (Hws2 : ws s2 = ws s1) by apply ws_fold_drop_child.
        assert (Hns2 : ns s2 = ns s1) by apply ns_fold_drop_child.
        assert (Hm2 : mvs g w s s2) by (eapply mvs_trans; [apply mvs_veq; exact Hv | apply mvs_veq, veq_ns; exact Hns2]).
        destruct (reverse_node g s2 next w) as [[s3 e]|] eqn:Er.
        -- pose proof (ws_reverse_node _ _ _ _ _ _ Er) as Hws3. pose proof (reverse_node_x _ _ _ _ _ _ Ht Er) as Hm3.
           cbn. split; [|split].
           ++ eapply mvs_trans; [exact Hm2|]. eapply mvs_trans; [exact Hm3|]. apply mvs_veq, veq_ns. reflexivity.
           ++ apply PathOk_pop. apply (PathOk_ws g w s1); [congruence | exact HP1].
           ++ apply not_running_pop. apply (not_running_ws s1); [congruence | exact Hn1].
        -- unfold fail. cbn. destruct (xpiece_fail g w s2 5) as [F1 [F2 F3]].
           ++ now apply (PathOk_ws g w s1).
           ++ now apply (not_running_ws s1).
           ++ split; [eapply mvs_trans; eauto|]. split; assumption.
      * destruct (pick_child g s1 next w) as [[c s2]|] eqn:Ep.
        -- pose proof (ws_pick_child _ _ _ _ _ _ Ep) as Hws2. pose proof (ns_pick_child _ _ _ _ _ _ Ep) as Hns2.
           destruct (pick_child_available _ _ _ _ _ _ Ep) as [_ [_ Hc]].
           cbn. split; [|split].
           ++ eapply mvs_trans; [apply mvs_veq; exact Hv|]. eapply mvs_trans; [apply mvs_veq, veq_ns; exact Hns2|].
              apply mvs_veq, veq_ns. reflexivity.
           ++ apply PathOk_push; [now apply (PathOk_ws g w s1)|]. destruct Hc as [Hc|Hc]; [now left | right; now left].
           ++ apply not_running_push. now apply (not_running_ws s1).
        -- unfold fail. cbn. destruct (xpiece_fail g w s1 1 HP1 Hn1) as [F1 [F2 F3]].
           split; [eapply mvs_trans; [apply mvs_veq; exact Hv | exact F1]|]. split; assumption.
  - unfold fail. cbn. now apply xpiece_fail.
Qed.

Lemma LenOk_mvs g w s s' : mvs g w s s' -> LenOk g s -> LenOk g s'.
Proof. unfold LenOk. intros H E. now rewrite (mvs_len g w s s' H). Qed.

Lemma xit_prepend g w s s1 r : mvs g w s s1 -> xit g w s1 r ->
  forall e, xit g w s (match r with Cont s2 e2 => Cont s2 (e ++ e2) | Halt s2 e2 => Halt s2 (e ++ e2) end).
Proof.
  intros Hm H e. destruct r as [s2 e2|s2 e2]; cbn in *.
  - destruct H as [H1 [H2 H3]]. split; [eapply mvs_trans; eauto|]. split; assumption.
  - destruct H as [H1 [H2 H3]]. split; [eapply mvs_trans; eauto|]. split; assumption.
Qed.

Lemma do_traverse_x g s w next (fc : bool) previous :
  touchable g w next -> PathOk g w s -> not_running s w -> LenOk g s -> P g w s ->
  xit g w s (do_traverse g s w next fc previous).
Proof.
  intros Ht HP Hn Hlen HPh. unfold do_traverse.
  pose proof (traverse_node_x g s next w Ht) as Hx. pose proof (traverse_node_ok g s next w HPh) as Hok.
  destruct (traverse_node g s next w) as [s1 e pre|s1 e|s1 e].
  - destruct Hx as [Hm [Hws Hmark]]. destruct Hok as [_ [_ Hst]]. cbn.
    split; [eapply mvs_trans; [exact Hm | apply mvs_veq, veq_ns; reflexivity]|]. split.
    + apply PathOk_set_phase. now apply (PathOk_ws g w s).
    + unfold RunMark, set_phase.
      match goal with |- context [set_w s1 w ?f] => destruct (wst_set_w_cases s1 w f) as [E|[E Hl]]; rewrite E end.
      * cbn. apply Hmark. unfold LenOk in Hlen. rewrite Hlen. eapply startable_lt; eauto.
      * rewrite (wst_overflow s1 w Hl). exact I.
  - destruct Hx as [Hm Hws].
    assert (HP1 : PathOk g w s1) by now apply (PathOk_ws g w s).
    assert (Hn1 : not_running s1 w) by now apply (not_running_ws s).
    apply (xit_prepend g w s s1); [exact Hm|].
    destruct fc; [now apply after_from_child_x | now apply after_from_parent_x].
  - destruct Hx as [Hm ->]. cbn. split; [exact Hm|]. split.
    + apply PathOk_set_phase. apply (PathOk_ws g w s); [|exact HP]. rewrite ws_pull_locations. reflexivity.
    + unfold set_phase. apply RunMark_set_w. intros x. exact I.
Qed.

Lemma iter_x g s w : PathOk g w s -> not_running s w -> LenOk g s -> P g w s -> xit g w s (iter g s w).
Proof.
  intros HP Hn Hlen HPh. unfold iter. destruct (cleanup_ready g s (g_root g) w).
  - destruct (path (wst s w)) as [|r [|r2 rest]].
    + unfold fail. cbn. now apply xpiece_fail.
    + destruct (Nat.eqb r (g_root g)).
      * cbn. split; [apply mvs_veq, veq_ns; reflexivity|]. split.
        -- intros x Hx. apply wst_set_w_path in Hx. cbn in Hx. destruct Hx as [[]|Hx]. now apply HP.
        -- apply RunMark_set_w. intros x. exact I.
      * unfold fail. cbn. now apply xpiece_fail.
    + unfold fail. cbn. now apply xpiece_fail.
  - destruct (path (wst s w)) as [|next [|previous rest]] eqn:Epath.
    + unfold fail. cbn. now apply xpiece_fail.
    + destruct (pick_child g s next w) as [[c s1]|] eqn:Ep.
      * pose proof (ws_pick_child _ _ _ _ _ _ Ep) as Hws. pose proof (ns_pick_child _ _ _ _ _ _ Ep) as Hns.
        destruct (pick_child_available _ _ _ _ _ _ Ep) as [_ [_ Hc]]. cbn. split; [|split].
        -- eapply mvs_trans; [apply mvs_veq, veq_ns; exact Hns | apply mvs_veq, veq_ns; reflexivity].
        -- apply PathOk_push; [now apply (PathOk_ws g w s)|]. destruct Hc as [Hc|Hc]; [now left | right; now left].
        -- apply not_running_push. now apply (not_running_ws s).
      * unfold fail. cbn. now apply xpiece_fail.
    + assert (Ht : touchable g w next) by (apply HP; rewrite Epath; now left).
      destruct (is_occupied g s next w).
      * pose proof (bounce_x g s w next HP) as H. destruct (bounce g s w next) as [s1 e]. exact H.
      * destruct (memn previous (n_children (nd g next))).
        -- destruct (setup_ready g s next w); [now apply do_traverse_x|].
           destruct (pick_parent g s next w) as [[p s1]|] eqn:Ep.
           ++ pose proof (ws_pick_parent _ _ _ _ _ _ Ep) as Hws. pose proof (ns_pick_parent _ _ _ _ _ _ Ep) as Hns.
              destruct (pick_parent_available _ _ _ _ _ _ Ep) as [_ [_ Hc]]. cbn. split; [|split].
              ** eapply mvs_trans; [apply mvs_veq, veq_ns; exact Hns | apply mvs_veq, veq_ns; reflexivity].
              ** apply PathOk_push; [now apply (PathOk_ws g w s)|]. destruct Hc as [Hc|Hc]; [now left | right; now left].
              ** apply not_running_push. now apply (not_running_ws s).
           ++ unfold fail. cbn. now apply xpiece_fail.
        -- destruct (memn previous (n_parents (nd g next))).
           ++ destruct (negb (setup_ready g s next w)); [|now apply do_traverse_x].
              destruct (pick_parent g s next w) as [[p s1]|] eqn:Ep.
              ** pose proof (ws_pick_parent _ _ _ _ _ _ Ep) as Hws. pose proof (ns_pick_parent _ _ _ _ _ _ Ep) as Hns.
                 destruct (pick_parent_available _ _ _ _ _ _ Ep) as [_ [_ Hc]]. cbn. split; [|split].
                 --- eapply mvs_trans; [apply mvs_veq, veq_ns; exact Hns | apply mvs_veq, veq_ns; reflexivity].
                 --- apply PathOk_push; [now apply (PathOk_ws g w s)|]. destruct Hc as [Hc|Hc]; [now left | right; now left].
                 --- apply not_running_push. now apply (not_running_ws s).
              ** unfold fail. cbn. now apply xpiece_fail.
           ++ unfold fail. cbn. now apply xpiece_fail.
Qed.

Lemma run_loop_x fuel g w : forall s, PathOk g w s -> not_running s w -> LenOk g s -> P g w s ->
  xpiece g w s (fst (run_loop fuel g s w)).
Proof.
  induction fuel as [|f IH]; intros s HP Hn Hlen HPh; cbn [run_loop].
  - unfold fail. cbn. now apply xpiece_fail.
  - pose proof (iter_x g s w HP Hn Hlen HPh) as Hx. pose proof (iter_ok g s w HPh) as Hok.
    destruct (iter g s w) as [s1 e|s1 e]; cbn in Hx, Hok.
    + destruct Hx as [Hm [HP1 Hn1]]. destruct Hok as [_ [_ HPh1]].
      specialize (IH s1 HP1 Hn1 (LenOk_mvs g w s s1 Hm Hlen) HPh1).
      destruct (run_loop f g s1 w) as [s2 e2]. cbn in *. destruct IH as [I1 [I2 I3]].
      split; [eapply mvs_trans; eauto|]. split; assumption.
    + exact Hx.
Qed.

(* what follows an awaited test: the rest of the iteration, then the loop again *)
Lemma continue_x g w s r :
  xit g w s r -> it_ok g w s r -> LenOk g s ->
  xpiece g w s (fst (match r with Halt s2 e => (s2, e) | Cont s2 e => let '(s3, e3) := run_loop FUEL g s2 w in (s3, e ++ e3) end)).
Proof.
  intros Hx Hok Hlen. destruct r as [s2 e|s2 e]; cbn in Hx, Hok.
  - destruct Hx as [Hm [HP Hn]]. destruct Hok as [_ [_ HPh]].
    pose proof (run_loop_x FUEL g w s2 HP Hn (LenOk_mvs g w s s2 Hm Hlen) HPh) as HL.
    destruct (run_loop FUEL g s2 w) as [s3 e3]. cbn in *. destruct HL as [L1 [L2 L3]].
    split; [eapply mvs_trans; eauto|]. split; assumption.
  - exact Hx.
Qed.

Lemma not_running_Ready s w : not_running (set_phase s w Ready) w.
Proof.
  unfold not_running, set_phase.
  destruct (wst_set_w_cases s w (fun x => mkW (path x) (occ_at x) (occ_wait x) Ready)) as [E|[E Hl]]; rewrite E; [exact I|].
  rewrite (wst_overflow s w Hl). exact I.
Qed.

Lemma xpiece_trans g w a b c : mvs g w a b -> xpiece g w b c -> xpiece g w a c.
Proof. intros H [H1 [H2 H3]]. split; [eapply mvs_trans; eauto|]. split; assumption. Qed.

Theorem resume_x g s w out :
  AllP g s -> LenOk g s -> PathOk g w s -> RunMark g w s ->
  xpiece g w s (fst (resume g s w out)).
Proof.
  intros HA Hlen HP HR. unfold resume. destruct (ph (wst s w)) as [| next pre fc uid | | |c] eqn:Eph.
  - (* Ready *)
    apply (xpiece_trans g w s (set_phase s w Ready)); [apply mvs_veq, veq_ns; reflexivity|].
    apply run_loop_x; [now apply PathOk_set_phase | apply not_running_Ready | exact Hlen | apply P_set_phase; [apply HA | exact I]].
  - (* Running *)
    assert (Hst : startable g w next) by (pose proof (HA w) as H; unfold P in H; rewrite Eph in H; exact H).
    assert (Ht : touchable g w next) by (eapply startable_touchable; eauto).
    assert (Hmark : sv s next = Some w) by (unfold RunMark in HR; rewrite Eph in HR; exact HR).
    set (s0 := mkS (ws s) (ns s) (r_ps s) (r_pc s) (r_ds s) (r_dc s) (pool s) _).
    assert (H0 : mvs g w s s0) by (apply mvs_veq, veq_ns; reflexivity).
    assert (HA0 : AllP g s0) by (intros v; apply (P_ws_eq g v s); [reflexivity | apply HA]).
    assert (HP0 : PathOk g w s0) by (apply (PathOk_ws g w s); [reflexivity | exact HP]).
    set (seen := match find _ (job s0) with Some e => Some (snd e) | None => None end).
    destruct pre.
    + set (s1 := end_pre s0 next).
      assert (H1 : mvs g w s s1) by (eapply mvs_trans; [exact H0 | apply mvs_veq, veq_end_pre]).
      destruct (run_ok seen).
      * (* the pre-step passed: the installation starts, the marker stays *)
        unfold start_run. cbn [fst].
        match goal with |- xpiece g w s (set_phase ?a w ?p) => set (s2 := a) end.
        assert (H12 : veq g s1 s2) by (apply veq_set_n; keeps_tac).
        split; [eapply mvs_trans; [exact H1|]; eapply mvs_trans; [apply mvs_veq; exact H12 | apply mvs_veq, veq_ns; reflexivity]|]. split.
        -- apply PathOk_set_phase. apply (PathOk_ws g w s); [reflexivity | exact HP].
        -- unfold RunMark, set_phase.
           match goal with |- context [set_w s2 w ?f] => destruct (wst_set_w_cases s2 w f) as [E|[E Hl]]; rewrite E end.
           ++ cbn. destruct H12 as [A _]. change (sv (set_w s2 w _) next) with (sv s2 next). rewrite A.
              destruct (veq_end_pre g s0 next) as [B _]. fold s1 in B. rewrite B. exact Hmark.
           ++ rewrite (wst_overflow s2 w Hl). exact I.
      * set (s2 := set_n s1 next _). set (s3 := set_phase (mark_done s2 next w) w Ready).
        assert (H2 : mvs g w s s2) by (eapply mvs_trans; [exact H1 | apply mvs_veq, veq_set_n; keeps_tac]).
        assert (H3 : mvs g w s s3).
        { eapply mvs_trans; [exact H2|]. eapply mvs_step; [apply (mark_done_rel g w s2 next Ht) | apply mvs_veq, veq_ns; reflexivity]. }
        assert (HP3 : PathOk g w s3) by (apply PathOk_set_phase; apply (PathOk_ws g w s); [reflexivity | exact HP]).
        assert (HPh3 : P g w s3) by (apply P_set_phase; [apply (P_ws_eq g w s); [reflexivity | apply HA] | exact I]).
        assert (Hn3 : not_running s3 w) by apply not_running_Ready.
        apply (xpiece_trans g w s s3 _ H3). apply continue_x; [| | now apply (LenOk_mvs g w s s3)].
        -- destruct fc; [now apply after_from_child_x | now apply after_from_parent_x].
        -- destruct fc; [now apply after_from_child_ok | now apply after_from_parent_ok].
    + set (s3 := set_phase (mark_done (finish_run g s0 next w seen) next w) w Ready).
      assert (Hws : ws (mark_done (finish_run g s0 next w seen) next w) = ws s).
      { unfold mark_done, finish_run. destruct seen as [st|]; [|reflexivity]. destruct st; reflexivity. }
      assert (H3 : mvs g w s s3).
      { eapply mvs_trans; [exact H0|]. eapply mvs_trans; [apply mvs_veq, veq_finish_run|].
        eapply mvs_step; [apply (mark_done_rel g w _ next Ht) | apply mvs_veq, veq_ns; reflexivity]. }
      assert (HP3 : PathOk g w s3) by (apply PathOk_set_phase; apply (PathOk_ws g w s); [exact Hws | exact HP]).
      assert (HPh3 : P g w s3) by (apply P_set_phase; [apply (P_ws_eq g w s); [exact Hws | apply HA] | exact I]).
      assert (Hn3 : not_running s3 w) by apply not_running_Ready.
      apply (xpiece_trans g w s s3 _ H3). apply continue_x; [| | now apply (LenOk_mvs g w s s3)].
      * destruct fc; [now apply after_from_child_x | now apply after_from_parent_x].
      * destruct fc; [now apply after_from_child_ok | now apply after_from_parent_ok].
  - (* Sleeping *)
    apply (xpiece_trans g w s (set_phase s w Ready)); [apply mvs_veq, veq_ns; reflexivity|].
    apply run_loop_x; [now apply PathOk_set_phase | apply not_running_Ready | exact Hlen | apply P_set_phase; [apply HA | exact I]].
  - cbn. split; [apply mvs_refl|]. split; assumption.
  - cbn. split; [apply mvs_refl|]. split; assumption.
Qed.

(* a section changes no other worker's record *)
Lemma resume_os g s w out : AllP g s -> others_same w s (fst (resume g s w out)).
Proof.
  intros HA. unfold resume. destruct (ph (wst s w)) as [| next pre fc uid | | |c] eqn:Eph.
  - assert (HP : P g w (set_phase s w Ready)) by (apply P_set_phase; [apply HA | exact I]).
    destruct (run_loop_ok FUEL g w _ HP) as [_ [H2 _]]. eapply os_trans; [apply os_set_phase | exact H2].
  - assert (Hst : startable g w next) by (pose proof (HA w) as H; unfold P in H; rewrite Eph in H; exact H).
    set (s0 := mkS (ws s) (ns s) (r_ps s) (r_pc s) (r_ds s) (r_dc s) (pool s) _).
    set (seen := match find _ (job s0) with Some e => Some (snd e) | None => None end).
    destruct pre.
    + set (s1 := end_pre s0 next). destruct (run_ok seen).
      * unfold start_run. cbn [fst]. eapply os_trans; [|apply os_set_phase]. apply os_ws_eq. reflexivity.
      * set (s2 := set_n s1 next _). set (s3 := set_phase (mark_done s2 next w) w Ready).
        assert (HP3 : P g w s3).
        { unfold s3. apply P_set_phase; [|exact I]. apply (P_ws_eq g w s); [reflexivity | apply HA]. }
        assert (Hos3 : others_same w s s3).
        { unfold s3. apply (os_trans w s (mark_done s2 next w)); [apply os_ws_eq; reflexivity | apply os_set_phase]. }
        pose proof (continue_ok g w s3 (if fc then after_from_child g s3 w next (hd 0 (tl (path (wst s w)))) else after_from_parent g s3 w next) HP3) as HC.
        assert (Hit : it_ok g w s3 (if fc then after_from_child g s3 w next (hd 0 (tl (path (wst s w)))) else after_from_parent g s3 w next)).
        { destruct fc; [now apply after_from_child_ok | now apply after_from_parent_ok]. }
        destruct (HC Hit) as [_ [H2 _]]. eapply os_trans; eauto.
    + set (s3 := set_phase (mark_done (finish_run g s0 next w seen) next w) w Ready).
      assert (Hws : ws (mark_done (finish_run g s0 next w seen) next w) = ws s).
      { unfold mark_done, finish_run. destruct seen as [st|]; [|reflexivity]. destruct st; reflexivity. }
      assert (HP3 : P g w s3).
      { unfold s3. apply P_set_phase; [|exact I]. apply (P_ws_eq g w s); [exact Hws | apply HA]. }
      assert (Hos3 : others_same w s s3).
      { unfold s3. apply (os_trans w s (mark_done (finish_run g s0 next w seen) next w)); [apply os_ws_eq; exact Hws | apply os_set_phase]. }
      pose proof (continue_ok g w s3 (if fc then after_from_child g s3 w next (hd 0 (tl (path (wst s w)))) else after_from_parent g s3 w next) HP3) as HC.
      assert (Hit : it_ok g w s3 (if fc then after_from_child g s3 w next (hd 0 (tl (path (wst s w)))) else after_from_parent g s3 w next)).
      { destruct fc; [now apply after_from_child_ok | now apply after_from_parent_ok]. }
      destruct (HC Hit) as [_ [H2 _]]. eapply os_trans; eauto.
  - assert (HP : P g w (set_phase s w Ready)) by (apply P_set_phase; [apply HA | exact I]).
    destruct (run_loop_ok FUEL g w _ HP) as [_ [H2 _]]. eapply os_trans; [apply os_set_phase | exact H2].
  - apply os_refl.
  - apply os_refl.
Qed.

(* ---- the global invariant ---- *)
Record GInv (g : graph) (s : state) : Prop := mkGInv {
  gi_all : AllP g s;
  gi_len : LenOk g s;
  gi_path : forall v, PathOk g v s;
  gi_mark : forall v, RunMark g v s;
  gi_inv2 : Inv2 g s;
  gi_inv3 : Inv3 g s
}.

Lemma GInv_resume g s w out : gwf g -> GInv g s -> GInv g (fst (resume g s w out)).
Proof.
  intros Hg [HA Hlen HP HR HI HI3].
  destruct (resume_x g s w out HA Hlen (HP w) (HR w)) as [Hm [HPw HRw]].
  pose proof (resume_os g s w out HA) as Hos.
  destruct (resume_ok g s w out HA) as [_ HA'].
  constructor.
  - exact HA'.
  - now apply (LenOk_mvs g w s).
  - intros v. destruct (Nat.eq_dec v w) as [->|Hne]; [exact HPw|].
    unfold PathOk. rewrite (Hos v Hne). apply HP.
  - intros v. destruct (Nat.eq_dec v w) as [->|Hne]; [exact HRw|].
    unfold RunMark. rewrite (Hos v Hne). pose proof (HR v) as Hv. unfold RunMark in Hv.
    pose proof (HA v) as HPv. unfold P in HPv.
    destruct (ph (wst s v)) as [| j pre fc uid | | |c]; try exact I.
    cbn in HPv. rewrite (mvs_frame g w s _ j Hm); [exact Hv|].
    destruct HPv as [Hown [Hflat [_ [_ Hroot]]]].
    assert (Hnr : j <> g_root g) by (intros ->; rewrite (gw_root g Hg) in Hroot; discriminate).
    intros [Ho|[Hf|Hr]].
    + apply Hne. now apply (gw_excl g Hg j v w).
    + congruence.
    + contradiction.
  - now apply (Inv2_mvs g w s).
  - now apply (Inv23_mvs g w s _ Hg HI HI3).
Qed.

Lemma nst_init g p j : nst (init_state g p) j = mkN None None [] false (n_mct (nd g j)) [].
Proof.
  unfold nst, init_state, nd. cbn.
  destruct (Nat.lt_ge_cases j (length (g_nodes g))) as [H|H].
  - rewrite nth_indep with (d' := (fun n => mkN None None [] false (n_mct n) []) dummy_node) by (now rewrite map_length).
    apply (map_nth (fun n => mkN None None [] false (n_mct n) []) (g_nodes g) dummy_node j).
  - rewrite !nth_overflow; [reflexivity | exact H | now rewrite map_length].
Qed.

Lemma wst_init g p v :
  wst (init_state g p) v = mkW [g_root g] [] PrimFloat.zero Ready \/ wst (init_state g p) v = mkW [] [] PrimFloat.zero Exited.
Proof.
  unfold wst, init_state. cbn.
  destruct (Nat.lt_ge_cases v (length (g_workers g))) as [H|H].
  - left. rewrite nth_indep with (d' := mkW [g_root g] [] PrimFloat.zero Ready) by (now rewrite map_length).
    apply (map_nth (fun _ : worker => mkW [g_root g] [] PrimFloat.zero Ready) (g_workers g) (mkWorker 0 true [] []) v).
  - right. apply nth_overflow. now rewrite map_length.
Qed.

Lemma GInv_init g p : GInv g (init_state g p).
Proof.
  constructor.
  - apply AllP_init.
  - unfold LenOk, init_state. cbn. apply map_length.
  - intros v x Hx. destruct (wst_init g p v) as [E|E]; rewrite E in Hx; cbn in Hx; [|contradiction].
    destruct Hx as [<-|[]]. right. now right.
  - intros v. unfold RunMark. destruct (wst_init g p v) as [E|E]; rewrite E; exact I.
  - split.
    + intros j. left. unfold mc. now rewrite nst_init.
    + intros i _ _. assert (E : hold (init_state g p) (class_of g i) = []).
      { unfold hold. induction (class_of g i) as [|c C IH]; [reflexivity|]. cbn. unfold sv at 1. rewrite nst_init. cbn. exact IH. }
      rewrite E. cbn. lia.
  - intros i sw _ _. assert (E : hold (init_state g p) (class_of g i) = []).
    { unfold hold. induction (class_of g i) as [|c C IH]; [reflexivity|]. cbn. unfold sv at 1. rewrite nst_init. cbn. exact IH. }
    rewrite E. cbn. lia.
Qed.

Lemma GInv_schedule g sched : gwf g -> forall s, GInv g s -> GInv g (fst (run_schedule g s sched)).
Proof.
  intros Hg. induction sched as [|[w out] r IH]; intros s HI; cbn [run_schedule]; [exact HI|].
  pose proof (GInv_resume g s w out Hg HI) as H1. destruct (resume g s w out) as [s1 e]. cbn [fst] in H1.
  specialize (IH s1 H1). destruct (run_schedule g s1 r) as [s2 es]. exact IH.
Qed.

(* the workers awaiting a test on a copy of the class *)
Definition runners (s : state) (C : list nat) : list nat :=
  filter (fun w => match ph (wst s w) with Running j _ _ _ => memn j C | _ => false end) (seq 0 (length (ws s))).

Lemma runners_le_holders g s C : (forall v, RunMark g v s) -> length (runners s C) <= cnt (hold s C).
Proof.
  intros HR. unfold cnt. apply NoDup_incl_length.
  - unfold runners. apply NoDup_filter. apply seq_NoDup.
  - intros w Hw. unfold runners in Hw. apply filter_In in Hw. destruct Hw as [_ Hw].
    apply dedup_In. apply hold_In. specialize (HR w). unfold RunMark in HR.
    destruct (ph (wst s w)) as [| j pre fc uid | | |c]; try discriminate.
    exists j. split; [now apply memn_In | exact HR].
Qed.

(* C04: for every graph meeting gwf, every initial pool population and every schedule - at the state reached, the
   number of workers executing a test of one globally scoped class is at most the largest threshold (configured,
   or after re-entrancy bumps) among the copies of the class *)
Theorem mutual_exclusion g p sched i :
  gwf g -> n_flat (nd g i) = false -> n_scope (nd g i) = Global ->
  let s := fst (run_schedule g (init_state g p) sched) in
  length (runners s (class_of g i)) <= tmax g s (class_of g i).
Proof.
  intros Hg Hf Hs. cbn zeta.
  pose proof (GInv_schedule g sched Hg _ (GInv_init g p)) as [_ _ _ HR [_ HI] _].
  eapply Nat.le_trans; [apply (runners_le_holders g); exact HR | now apply HI].
Qed.

(* without a bump (no test overran its time-out) the bound is the configured limit: max_concurrent_tries, else
   max_tries, at least 1 *)
Lemma tmax_unbumped g s C : (forall j, mc s j = n_mct (nd g j)) -> tmax g s C = list_max (map (thr0 g) C).
Proof.
  intros H. unfold tmax. f_equal. apply map_ext. intros j. unfold hi, thr, thr0. fold (mc s j). rewrite H. lia.
Qed.

(* ---- the graph hypotheses as an executable check (evaluated by the harness on every exported graph) ---- *)
Lemma subset_In a b : subset a b = true -> forall x, In x a -> In x b.
Proof. unfold subset. rewrite forallb_forall. intros H x Hx. apply memn_In. now apply H. Qed.
Lemma scope_eqb_eq a b : scope_eqb a b = true -> a = b.
Proof. destruct a, b; cbn; congruence. Qed.
Lemma nd_overflow g i : length (g_nodes g) <= i -> nd g i = dummy_node.
Proof. intros H. unfold nd. now apply nth_overflow. Qed.

Theorem gwf_b_sound g : gwf_b g = true -> gwf g.
Proof.
  unfold gwf_b. intros H. apply andb_prop in H. destruct H as [H Hroot]. rewrite forallb_forall in H.
  assert (Hi : forall i, i < length (g_nodes g) -> _) by (intros i Hlt; apply (H i); apply in_seq; lia).
  assert (Hcls : forall i n, In n (class_of g i) ->
            (forall x, In x (class_of g n) <-> In x (class_of g i)) /\ n_flat (nd g n) = n_flat (nd g i) /\ n_scope (nd g n) = n_scope (nd g i)).
  { intros i n Hn. destruct (Nat.lt_ge_cases i (length (g_nodes g))) as [Hlt|Hge].
    - specialize (Hi i Hlt). cbn beta in Hi. apply andb_prop in Hi. destruct Hi as [_ Hc]. rewrite forallb_forall in Hc.
      specialize (Hc n Hn). apply andb_prop in Hc. destruct Hc as [Hc Hsc]. apply andb_prop in Hc. destruct Hc as [Hc Hfl].
      apply andb_prop in Hc. destruct Hc as [S1 S2]. split; [|split].
      + intros x. split; [now apply subset_In | now apply subset_In].
      + now apply eqb_prop.
      + now apply scope_eqb_eq.
    - unfold class_of in Hn. rewrite (nd_overflow g i Hge) in Hn. cbn in Hn. destruct Hn as [<-|[]]. repeat split; auto. }
  constructor.
  - intros i v w Hf Hr Hv Hw. destruct (Nat.lt_ge_cases i (length (g_nodes g))) as [Hlt|Hge].
    + specialize (Hi i Hlt). cbn beta in Hi. apply andb_prop in Hi. destruct Hi as [Ho _]. rewrite Hf in Ho. cbn in Ho.
      assert (E : Nat.eqb i (g_root g) = false) by now apply Nat.eqb_neq. rewrite E in Ho. cbn in Ho.
      rewrite forallb_forall in Ho. unfold own in Hv, Hw. apply memn_In in Hv. apply memn_In in Hw.
      specialize (Ho v Hv). rewrite forallb_forall in Ho. specialize (Ho w Hw). now apply Nat.eqb_eq.
    + rewrite (nd_overflow g i Hge) in Hf. discriminate.
  - intros i n Hn. now apply Hcls.
  - intros i n Hn. now apply Hcls.
  - intros i n Hn. now apply Hcls.
  - exact Hroot.
Qed.

(* ---- non-vacuity: a real (harness-exported) graph - two workers, one vm, install -> customize -> one test - meets
        the hypotheses, and there is a schedule on which the two workers contend for the installation ---- *)
Definition ex_graph : graph := (mkGraph [(mkNode false false true false false [0%nat] 1%N 1%N [6%nat] [1%nat] [3%nat] [(6%nat, [1%N])] Global [0%nat] [0%nat] (Some 0%nat) (mkCfg false false false false None None []) None (1)%Z (100)%Z (0x1.9000000000000p+6)%float (0x1.999999999999ap-4)%float (10)%Z 0%N true true [(mkObj 2%N true None None 1%N false true); (mkObj 3%N false None None 1%N false true); (mkObj 1%N false (Some 1%N) None 1%N false true)] 0%nat); (mkNode false false false false false [0%nat] 2%N 2%N [0%nat] [2%nat] [4%nat] [(0%nat, [1%N])] Global [0%nat] [0%nat] (Some 0%nat) (mkCfg false false false false None None []) None (1)%Z (100)%Z (0x1.9000000000000p+6)%float (0x1.999999999999ap-4)%float (10)%Z 0%N true true [(mkObj 2%N true None None 1%N false true); (mkObj 3%N false None None 1%N false true); (mkObj 1%N false (Some 2%N) (Some 1%N) 1%N false true)] 5%nat); (mkNode false false false false false [0%nat] 3%N 3%N [1%nat] [] [5%nat] [(1%nat, [1%N])] Global [0%nat] [0%nat] (Some 0%nat) (mkCfg false false false false None None []) None (1)%Z (100)%Z (0x1.9000000000000p+6)%float (0x1.999999999999ap-4)%float (10)%Z 0%N true true [(mkObj 2%N true None None 1%N false true); (mkObj 3%N false None None 1%N false true); (mkObj 1%N false None (Some 2%N) 1%N false true)] 2%nat); (mkNode false false true false false [1%nat] 1%N 1%N [6%nat] [4%nat] [0%nat] [(6%nat, [1%N])] Global [1%nat] [0%nat] (Some 1%nat) (mkCfg false false false false None None []) None (1)%Z (100)%Z (0x1.9000000000000p+6)%float (0x1.999999999999ap-4)%float (10)%Z 0%N true true [(mkObj 4%N true None None 1%N false true); (mkObj 3%N false None None 1%N false true); (mkObj 1%N false (Some 1%N) None 1%N false true)] 1%nat); (mkNode false false false false false [1%nat] 2%N 2%N [3%nat] [5%nat] [1%nat] [(3%nat, [1%N])] Global [1%nat] [0%nat] (Some 1%nat) (mkCfg false false false false None None []) None (1)%Z (100)%Z (0x1.9000000000000p+6)%float (0x1.999999999999ap-4)%float (10)%Z 0%N true true [(mkObj 4%N true None None 1%N false true); (mkObj 3%N false None None 1%N false true); (mkObj 1%N false (Some 2%N) (Some 1%N) 1%N false true)] 6%nat); (mkNode false false false false false [1%nat] 3%N 3%N [4%nat] [] [2%nat] [(4%nat, [1%N])] Global [1%nat] [0%nat] (Some 1%nat) (mkCfg false false false false None None []) None (1)%Z (100)%Z (0x1.9000000000000p+6)%float (0x1.999999999999ap-4)%float (10)%Z 0%N true true [(mkObj 4%N true None None 1%N false true); (mkObj 3%N false None None 1%N false true); (mkObj 1%N false None (Some 2%N) 1%N false true)] 3%nat); (mkNode true true false false false [] 4%N 4%N [] [0%nat; 3%nat] [] [] Global [] [] None (mkCfg false true false false None None []) None (1)%Z (100)%Z (0x1.9000000000000p+6)%float (0x1.999999999999ap-4)%float (10)%Z 0%N true true [] 4%nat)] [(mkWorker 0%nat true [] [0%nat]); (mkWorker 0%nat true [] [1%nat])] 6%nat).
Example ex_graph_wf : gwf_b ex_graph = true.
Proof. vm_compute. reflexivity. Qed.
Example ex_contention :
  let s := fst (run_schedule ex_graph (init_state ex_graph []) [(0, None); (1, None)]) in
  runners s (class_of ex_graph 0) = [0] /\ tmax ex_graph s (class_of ex_graph 0) = 1 /\
  n_flat (nd ex_graph 0) = false /\ n_scope (nd ex_graph 0) = Global.
Proof. vm_compute. repeat split. Qed.

Theorem mutual_exclusion_b g p sched i :
  gwf_b g = true -> n_flat (nd g i) = false -> n_scope (nd g i) = Global ->
  let s := fst (run_schedule g (init_state g p) sched) in
  length (runners s (class_of g i)) <= tmax g s (class_of g i).
Proof. intros H. apply mutual_exclusion. now apply gwf_b_sound. Qed.

Theorem running_holds_marker g p sched v j pre fc uid :
  gwf_b g = true ->
  let s := fst (run_schedule g (init_state g p) sched) in
  ph (wst s v) = Running j pre fc uid -> started (nst s j) = Some v.
Proof.
  intros H s Hph.
  pose proof (GInv_schedule g sched (gwf_b_sound g H) _ (GInv_init g p)) as [_ _ _ HR _ _].
  specialize (HR v). unfold RunMark in HR. fold s in HR. rewrite Hph in HR. exact HR.
Qed.

(* the same for a class whose reuse scope is one swarm: the workers of each swarm are counted separately *)
Definition runners_of (g : graph) (sw : nat) (s : state) (C : list nat) : list nat := filter (in_swarm g sw) (runners s C).

Lemma runners_of_le_holders g sw s C : (forall v, RunMark g v s) -> length (runners_of g sw s C) <= cnts g sw (hold s C).
Proof.
  intros HR. unfold cnts, runners_of. apply NoDup_incl_length.
  - apply NoDup_filter. unfold runners. apply NoDup_filter. apply seq_NoDup.
  - intros w Hw. apply filter_In in Hw. destruct Hw as [Hw Hs]. apply filter_In. split; [|exact Hs].
    unfold runners in Hw. apply filter_In in Hw. destruct Hw as [_ Hw].
    apply dedup_In. apply hold_In. specialize (HR w). unfold RunMark in HR.
    destruct (ph (wst s w)) as [| j pre fc uid | | |c]; try discriminate.
    exists j. split; [now apply memn_In | exact HR].
Qed.

Theorem mutual_exclusion_swarm g p sched i sw :
  gwf_b g = true -> n_flat (nd g i) = false -> n_scope (nd g i) = PerSwarm ->
  let s := fst (run_schedule g (init_state g p) sched) in
  length (runners_of g sw s (class_of g i)) <= tmax g s (class_of g i).
Proof.
  intros H Hf Hs. cbn zeta.
  pose proof (GInv_schedule g sched (gwf_b_sound g H) _ (GInv_init g p)) as [_ _ _ HR _ HI].
  eapply Nat.le_trans; [apply (runners_of_le_holders g sw); exact HR | now apply HI].
Qed.

(* ... and when every worker is a reuse scope of its own there is nothing to prove: a worker awaits one test *)
Lemma runners_one_worker s C w : length (filter (Nat.eqb w) (runners s C)) <= 1.
Proof.
  unfold runners. set (l := filter _ (seq 0 (length (ws s)))).
  assert (Hnd : NoDup l) by (apply NoDup_filter, seq_NoDup).
  clearbody l. induction l as [|x l IH]; cbn; [lia|]. inversion Hnd as [|? ? Hx Hl]; subst.
  destruct (Nat.eqb w x) eqn:E; [|now apply IH]. apply Nat.eqb_eq in E. subst x. cbn.
  assert (E0 : filter (Nat.eqb w) l = []).
  { clear -Hx. induction l as [|y l IH]; [reflexivity|]. cbn. destruct (Nat.eqb w y) eqn:E.
    - apply Nat.eqb_eq in E. subst y. exfalso. apply Hx. now left.
    - apply IH. intros H. apply Hx. now right. }
  rewrite E0. cbn. lia.
Qed.
