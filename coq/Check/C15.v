(* Harness-facing checkers for C15. *)
From Coq Require Import List NArith Bool Arith.
Import ListNotations.
From I2N Require Import Common.Harness Model.Tools.

(* dag (state -> derived states), chain from creation down to to_state, from, to,
   observed: states whose setup test ran, states removed *)
Definition upd_case : Type := dag * list N * N * N * (list N * list N).
Definition upd_corr (c : upd_case) : bool :=
  let '(g, chain_, from, to, (ran, removed)) := c in
  set_eqb (update_runs chain_ from to) ran &&
  set_eqb (flag_children (length g) g to true false) removed.
(* the property itself: nothing before from_state is run, nothing up to to_state is removed *)
Definition upd_monitor (c : upd_case) : bool :=
  let '(g, chain_, from, to, (ran, removed)) := c in
  forallb (fun x => memN x (upto chain_ to) && (negb (memN x (upto chain_ from)) || N.eqb x from)) ran &&
  forallb (fun x => memN x (update_runs chain_ from to)) ran &&
  forallb (fun x => negb (memN x (upto chain_ to))) removed &&
  (* ... and nothing is left out: every test of the path is run, every state derived from to_state is removed *)
  forallb (fun x => memN x ran) (update_runs chain_ from to) &&
  forallb (fun x => memN x removed) (flag_children (length g) g to true false).
