(* Harness-facing checkers for C12. *)
From Coq Require Import List NArith Bool.
Import ListNotations.
From I2N Require Import Common.Harness Model.StateOps Model.StateSpec.

Definition call_eqb (a b : call) : bool :=
  match a, b with
  | CCheckRoot k, CCheckRoot k' => N.eqb k k'
  | CSetRoot k f, CSetRoot k' f' => N.eqb k k' && Bool.eqb f f'
  | CUnsetRoot k, CUnsetRoot k' => N.eqb k k'
  | CGetRoot k, CGetRoot k' => N.eqb k k'
  | CShow k, CShow k' => N.eqb k k'
  | CGet k s, CGet k' s' => N.eqb k k' && N.eqb s s'
  | CSet k s, CSet k' s' => N.eqb k k' && N.eqb s s'
  | CUnset k s, CUnset k' s' => N.eqb k k' && N.eqb s s'
  | CDestroy k, CDestroy k' => N.eqb k k'
  | _, _ => false
  end.

Definition entry_eqb (a b : entry) : bool :=
  Bool.eqb (fst a) (fst b) && list_eqb N.eqb (snd a) (snd b).

(* same facts: root flag and the SET of names *)
Definition entry_equivb (a b : entry) : bool :=
  Bool.eqb (fst a) (fst b) && set_eqb (snd a) (snd b).

(* keys to compare, initial store, operations, implementation's per-operation
   (call log, result code) and the implementation's final store *)
Definition ops_case : Type :=
  list N * store * list (opkind * list obj) * list (list call * N) * store.

Definition c_keys (c : ops_case) := fst (fst (fst (fst c))).
Definition c_init (c : ops_case) := snd (fst (fst (fst c))).
Definition c_ops (c : ops_case) := snd (fst (fst c)).
Definition c_outs (c : ops_case) := snd (fst c).
Definition c_final (c : ops_case) := snd c.

(* the model reproduces every backend call, every result and the final store *)
Definition ops_corr (c : ops_case) : bool :=
  let '(s', outs) := run_ops (c_ops c) (c_init c) in
  list_eqb (pair_eqb (list_eqb call_eqb) N.eqb) outs (c_outs c) &&
  forallb (fun k => entry_eqb (sget s' k) (sget (c_final c) k)) (c_keys c).

(* the property on the implementation's observation: results and resulting store are those
   of the set-of-names specification driven by the documented table *)
Definition ops_monitor (c : ops_case) : bool :=
  let '(s', codes) := spec_run_ops (c_ops c) (c_init c) in
  list_eqb N.eqb codes (map snd (c_outs c)) &&
  forallb (fun k => entry_equivb (sget s' k) (sget (c_final c) k)) (c_keys c).

(* objects not addressed (skipped type, readonly image, no <op>_state) never reach the backend *)
Definition ops_untouched (c : ops_case) : bool :=
  forallb (fun p =>
    let '((op, objs), (lg, _)) := p in
    forallb (fun x => existsb (fun o => N.eqb (okey o) (call_key x) && addressed op o) objs) lg)
    (combine (c_ops c) (c_outs c)).
