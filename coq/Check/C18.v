(* Harness-facing checkers for C18. *)
From Coq Require Import List NArith ZArith Bool.
Import ListNotations.
From I2N Require Import Common.Harness Model.NetAddr Model.NetBuild.
Local Open Scope N_scope.

(* (netmask, mask_bit read back by the implementation) *)
Definition mask_case : Type := N * N.
Definition mask_corr (c : mask_case) : bool := prefix_of_mask (fst c) =? snd c.
Definition is_contiguous (m : N) : bool := existsb (fun b => mask_of_prefix b =? m) (nseq 0 33).
Definition mask_monitor (c : mask_case) : bool :=
  negb (is_contiguous (fst c)) || (mask_of_prefix (snd c) =? fst c).

(* (prefix length, netmask produced by the mask_bit setter, mask_bit read back) *)
Definition pfx_case : Type := N * (N * N).
Definition pfx_corr (c : pfx_case) : bool :=
  (mask_of_prefix (fst c) =? fst (snd c)) && (prefix_of_mask (fst (snd c)) =? snd (snd c)).
Definition pfx_monitor (c : pfx_case) : bool := snd (snd c) =? fst c.

(* (ip, bits, network address) *)
Definition net_case : Type := N * N * N.
Definition net_corr (c : net_case) : bool := network_of (fst (fst c)) (snd (fst c)) =? snd c.
Definition net_monitor (c : net_case) : bool :=
  let '(ip, bits, n) := c in
  let size := 2 ^ (32 - bits) in (n mod size =? 0) && (n <=? ip) && (ip <? n + size).

(* (ip, net_ip, nat_ip, bits, result or None for an address error) *)
Definition tr_case : Type := N * N * N * N * option Z.
Definition tr_corr (c : tr_case) : bool :=
  let '(ip, net, nat, bits, r) := c in
  option_eqb Z.eqb (translate ip net nat bits) r.
Definition tr_monitor (c : tr_case) : bool :=
  let '(ip, net, nat, bits, r) := c in
  match r with
  | Some t => ((t - Z.of_N (network_of nat bits) =? Z.of_N ip - Z.of_N net) &&
               (0 <=? t) && (t <? Z.of_N two32))%Z
  | None => let t := (Z.of_N ip - Z.of_N net + Z.of_N (network_of nat bits))%Z in
            ((t <? 0) || (Z.of_N two32 <=? t))%Z
  end.

(* (net, lo, hi, results of hi-lo+3 successive allocations; 0 = exhausted, 1 = address error
   are encoded as inr) *)
Definition alloc_case : Type := N * N * N * list (N + N).
Fixpoint alloc_run (net : N) (r : range) (n : nat) : list (N + N) :=
  match n with
  | O => []
  | S n' => match allocate net r with
            | (inl a, r') => inl a :: alloc_run net r' n'
            | (inr Exhausted, r') => inr 0 :: alloc_run net r' n'
            | (inr AddressValue, r') => inr 1 :: alloc_run net r' n'
            end
  end.
Definition sum_eqb (a b : N + N) : bool :=
  match a, b with inl x, inl y => x =? y | inr x, inr y => x =? y | _, _ => false end.
Definition alloc_corr (c : alloc_case) : bool :=
  let '(net, lo, hi, out) := c in
  list_eqb sum_eqb (alloc_run net (mk_range lo hi) (length out)) out.
(* every address of the range once, in order, then exhaustion *)
Definition alloc_monitor (c : alloc_case) : bool :=
  let '(net, lo, hi, out) := c in
  let n := N.to_nat (hi + 1 - lo) in
  list_eqb sum_eqb out
    (map (fun k => if net + k <? two32 then inl (net + k) else inr 1) (nseq lo n)
     ++ repeat (inr 0) (length out - n)).

(* ---- network construction ---- *)
Definition ncF : Type := N * N * list (N * bool) * option N * list (N * N).
Definition stateF : Type := list ncF * list (N * nat) * list (N * (N * nat)).
Definition flat_nc (nc : netconfig) : ncF := (nnet nc, nmask nc, nrange nc, nhost nc, nifaces nc).
Definition flat_state (s : state) : stateF := (map flat_nc (heap s), reg s, ifs s).
Definition unflat_nc (f : ncF) : netconfig :=
  let '(a, b, c, d, e) := f in mkNc a b c d e.
Definition unflat_state (f : stateF) : state :=
  let '(h, r, i) := f in mkSt (map unflat_nc h) r i.

Definition err_code (e : err) : N :=
  match e with IndexErr => 1 | TestErr => 2 | ValueErr => 3 | KeyErr => 4 | Exhaust => 5 end.

Definition ncF_eqb (a b : ncF) : bool :=
  let '(a1, a2, a3, a4, a5) := a in let '(b1, b2, b3, b4, b5) := b in
  (a1 =? b1) && (a2 =? b2) && list_eqb (pair_eqb N.eqb Bool.eqb) a3 b3 &&
  option_eqb N.eqb a4 b4 && list_eqb (pair_eqb N.eqb N.eqb) a5 b5.
Definition stateF_eqb (a b : stateF) : bool :=
  let '(a1, a2, a3) := a in let '(b1, b2, b3) := b in
  list_eqb ncF_eqb a1 b1 && list_eqb (pair_eqb N.eqb Nat.eqb) a2 b2 &&
  list_eqb (pair_eqb N.eqb (pair_eqb N.eqb Nat.eqb)) a3 b3.

(* interfaces, reattach ops (client, ref), and the implementation's outcome:
   build error code (0 = none), per-op error codes (0 = ok), final state, wf flag *)
Definition build_case : Type :=
  list (N * N * N * N * N * option N) * list (N * N) * (N * list N * stateF) * bool.

Definition mk_ifaces (l : list (N * N * N * N * N * option N)) : list iface_cfg :=
  map (fun t => let '(k, ip, m, lo, hi, h) := t in mkIface k ip m lo hi h) l.

Definition model_outcome (c : build_case) : N * list N * stateF :=
  let '(ifaces, ops, _, _) := c in
  match build (mk_ifaces ifaces) with
  | Err e => (err_code e, [], ([], [], []))
  | Ok s =>
      let '(o, s') := run_ops s (map (fun p => Reattach (fst p) (snd p)) ops) in
      (0, map (fun x => match x with None => 0 | Some e => err_code e end) o, flat_state s')
  end.

Definition build_corr (c : build_case) : bool :=
  let '(_, _, impl, _) := c in
  let '(be, oe, st) := impl in
  let '(be', oe', st') := model_outcome c in
  (be =? be') && list_eqb N.eqb oe oe' &&
  (negb (be =? 0) || negb (forallb (N.eqb 0) oe) || stateF_eqb st st').

(* the property on what the implementation built: for well-formed configurations
   (flag computed by the harness: distinct addresses, subnets equal or disjoint,
   static addresses outside the DHCP ranges) a successful build and successful
   reattachments leave a consistent network *)
Definition build_monitor (c : build_case) : bool :=
  let '(_, _, impl, wf) := c in
  let '(be, oe, st) := impl in
  negb wf || negb (be =? 0) || negb (forallb (N.eqb 0) oe) || consistent (unflat_state st).
