(* Harness-facing checkers for C14. *)
From Coq Require Import List NArith Bool Arith.
Import ListNotations.
From I2N Require Import Common.Harness Model.Transfer.

Definition node_eqb (a b : node) : bool :=
  match a, b with
  | Absent, Absent => true
  | File x, File y => N.eqb x y
  | Link x, Link y => N.eqb x y
  | _, _ => false
  end.

(* paths to compare, initial file system, operation (0 download_local, 1 upload_local, 2 delete_local,
   3 download_link, 4 upload_link), cache path, pool path, implementation: raised?, file system after *)
Definition seq_case : Type := list N * fs * N * N * N * (bool * fs).

Definition model_op (op : N) (f : fs) (c p : N) : res :=
  match op with
  | 0%N => download_local f c p
  | 1%N => upload_local f c p
  | 2%N => delete_local f p
  | 3%N => download_link f c p
  | _ => upload_link f c p
  end.

Definition seq_corr (x : seq_case) : bool :=
  let '(paths, f, op, c, p, (raised, f')) := x in
  let r := model_op op f c p in
  Bool.eqb raised (match r with Failed _ => true | Done _ => false end) &&
  forallb (fun q => node_eqb (fget (res_fs r) q) (fget f' q)) paths.

(* the property on the implementation's result *)
Definition seq_monitor (x : seq_case) : bool :=
  let '(paths, f, op, c, p, (raised, f')) := x in
  let same := forallb (fun q => node_eqb (fget f q) (fget f' q)) paths in
  if raised then same else
  match op with
  | 0%N => node_eqb (fget f' p) (fget f p) && opt_eqb (content f' c) (content f p) && (compare_local f c p ==> same)
  | 1%N => node_eqb (fget f' c) (fget f c) && opt_eqb (content f' p) (content f c) && (compare_local f c p ==> same)
  | 2%N => node_eqb (fget f' p) Absent
  | 3%N => node_eqb (fget f' p) (fget f p) &&
           match fget f c with File _ => node_eqb (fget f' c) (fget f c) | _ => true end
  | _ => negb (islink f c) && node_eqb (fget f' c) (fget f c)
  end.

(* lock traces observed on real processes *)
Definition lock_case : Type := list obs.
Definition lock_accept (tr : lock_case) : bool := accept None [] [] tr.
