From Coq Require Import List Bool.
Import ListNotations.
From I2N Require Import Model.Scan.
(* a case: leaf?, what the door did, what the implementation answered (None = it raised RuntimeError) *)
Definition scan_case := (bool * door_result * option bool)%type.
Definition opt_bool_eqb (a b : option bool) : bool :=
  match a, b with Some x, Some y => Bool.eqb x y | None, None => true | _, _ => false end.
Definition scan_corr (c : scan_case) : bool := let '(leaf, r, o) := c in opt_bool_eqb (scan_classify leaf r) o.
