From Coq Require Import List NArith Bool Arith.
Import ListNotations.
From I2N Require Import Model.Session.
(* a case: the calls (address of the calling worker, did the cached session pass the health check) and what the
   implementation handed out: (number of the login that created the session, address that login went to, new login?) *)
Definition sess_case := (list (addr * bool) * list (nat * addr * bool))%type.
Definition obs_eqb (a b : nat * addr * bool) : bool :=
  let '(i1, a1, f1) := a in let '(i2, a2, f2) := b in Nat.eqb i1 i2 && N.eqb a1 a2 && Bool.eqb f1 f2.
Fixpoint list_eqb {A} (eqb : A -> A -> bool) (x y : list A) : bool :=
  match x, y with [], [] => true | a :: r, b :: t => eqb a b && list_eqb eqb r t | _, _ => false end.
Definition sess_corr (c : sess_case) : bool := let '(ops, obs) := c in list_eqb obs_eqb (run_sessions empty_cache ops) obs.
(* the property itself on the observation: every handed-out session was opened to the caller's address *)
Definition sess_own (c : sess_case) : bool :=
  let '(ops, obs) := c in list_eqb N.eqb (map (fun x => snd (fst x)) obs) (map fst ops).
