(* Harness-facing checkers for C20. *)
From Coq Require Import List NArith Bool Arith.
Import ListNotations.
From I2N Require Import Common.Harness Model.Tools.

(* step outcomes; the implementation's call order (positions) and return code *)
Definition chain_case : Type := list step_out * (list nat * N).
Definition chain_corr (c : chain_case) : bool :=
  let '(calls, code) := chain (fst c) in
  list_eqb Nat.eqb calls (fst (snd c)) && N.eqb code (snd (snd c)).

(* star tools: compatible workers, selected vms, per-(worker, vm) step or one step per worker?, observed
   executions (worker, vm) *)
Definition star_case : Type := list N * list N * bool * list (N * N).
Definition pairN_eqb (a b : N * N) : bool := N.eqb (fst a) (fst b) && N.eqb (snd a) (snd b).
Definition count_pair (x : N * N) (l : list (N * N)) : nat := length (filter (pairN_eqb x) l).
Definition star_ok (c : star_case) : bool :=
  let '(ws, vms, per_vm, obs) := c in
  let expected := if per_vm then list_prod ws vms else map (fun w => (w, 0%N)) ws in
  forallb (fun x => Nat.eqb (count_pair x obs) 1) expected &&
  forallb (fun x => existsb (pairN_eqb x) expected) obs.
