(* Harness-facing checkers for C17. *)
From Coq Require Import List NArith Bool.
Import ListNotations.
From I2N Require Import Common.Harness Model.VmStates.

(* per-image state lists, memory files (None = qcow2vt, Some = ramfile), implementation's
   result (None = raised) *)
Definition show_case : Type := list (list N) * option (list N) * option (list N).

Definition model_show (c : show_case) : list N :=
  match snd (fst c) with
  | None => vm_states (fst (fst c))
  | Some memfiles => ram_states memfiles (fst (fst c))
  end.

Definition show_corr (c : show_case) : bool :=
  option_eqb (list_eqb N.eqb) (Some (model_show c)) (snd c).

(* the property: listed exactly when every image (and the memory file) has it; checked over
   the universe of names occurring in the case *)
Definition show_monitor (c : show_case) : bool :=
  match snd c with
  | None => false
  | Some out =>
      let imgs := fst (fst c) in
      let universe := concat imgs ++ match snd (fst c) with Some m => m | None => [] end ++ out in
      forallb (fun s => Bool.eqb (mem s out)
                 (forallb (mem s) imgs &&
                  match snd (fst c) with Some m => mem s m | None => true end)) universe
  end.

(* listing entries (tag, vmsize is zero) and the tags found by the off / on regexes *)
Definition list_case : Type := list (N * bool) * (list N * list N).
Definition snaps (c : list_case) : list snap := map (fun p => mkSnap (fst p) (snd p)) (fst c).
Definition list_corr (c : list_case) : bool :=
  list_eqb N.eqb (off_states (snaps c)) (fst (snd c)) &&
  list_eqb N.eqb (on_states (snaps c)) (snd (snd c)).
Definition list_monitor (c : list_case) : bool :=
  forallb (fun p => Bool.eqb (mem (fst p) (fst (snd c))) (existsb (fun q => N.eqb (fst q) (fst p) && snd q) (fst c)) &&
                    Bool.eqb (mem (fst p) (snd (snd c))) (existsb (fun q => N.eqb (fst q) (fst p) && negb (snd q)) (fst c)))
          (fst c) &&
  forallb (fun t => existsb (fun q => N.eqb (fst q) t) (fst c)) (fst (snd c) ++ snd (snd c)).
