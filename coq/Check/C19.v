(* Harness-facing checkers for C19. *)
From Coq Require Import List NArith Bool.
Import ListNotations.
From I2N Require Import Common.Harness Model.NetAddr Model.Tunnel.
Local Open Scope N_scope.

Definition ltype_of (c : N) : ltype := match c with 0 => LNic | 1 => LInternet | 2 => LCustom | _ => LBad end.
Definition rtype_of (c : N) : rtype := match c with 0 => RCustom | 1 => RExternal | 2 => RModeconfig | _ => RBad end.
Definition ptype_of (c : N) : ptype := match c with 0 => PIp | 1 => PDyn | _ => PBad end.
Definition lcode (l : ltype) : N := match l with LNic => 0 | LInternet => 1 | LCustom => 2 | LBad => 3 end.
Definition rcode (r : rtype) : N := match r with RCustom => 0 | RExternal => 1 | RModeconfig => 2 | RBad => 3 end.
Definition pcode (p : ptype) : N := match p with PIp => 0 | PDyn => 1 | PBad => 2 end.
Definition acode (a : activation) : N := match a with Always => 0 | Passive => 1 end.
Definition kcode (k : keytype) : N := match k with KNone => 0 | KPublic => 1 | KPsk => 2 end.
Definition icode (i : idtype) : N := match i with IdIP => 0 | IdCustom => 1 end.

(* auth: 0 None | 1 pubkey | 2 psk | 3 "none" | 4 other *)
Definition auth_of (c : N * (N * N * N)) : auth :=
  match fst c with
  | 0 => ANone | 1 => APub | 3 => ANoneStr
  | 2 => let '(p, l, r) := snd c in APsk p l r
  | _ => AOther
  end.

Definition sideF : Type :=
  N * N * option (N * N) * option (N * N) * option N * N * option N * N * option (N * N) * option (N * N).
Definition outF : Type := sideF * sideF * N * option N.

Definition flat_id (o : option (N * idtype)) : option (N * N) :=
  match o with Some (i, t) => Some (i, icode t) | None => None end.
Definition flat_side (s : side) : sideF :=
  (lcode (lan_type s), rcode (remote_type s), lan_net s, remote_net s, remote_mc s,
   pcode (peer_type s), peer_ip s, acode (act s), flat_id (own_id s), flat_id (foreign_id s)).
Definition flat_out (o : tparams) : outF :=
  (flat_side (left o), flat_side (right o), kcode (key_type o), psk_word o).

Definition nn_eqb := pair_eqb N.eqb N.eqb.
Definition sideF_eqb (a b : sideF) : bool :=
  let '(a1, a2, a3, a4, a5, a6, a7, a8, a9, a10) := a in
  let '(b1, b2, b3, b4, b5, b6, b7, b8, b9, b10) := b in
  (a1 =? b1) && (a2 =? b2) && option_eqb nn_eqb a3 b3 && option_eqb nn_eqb a4 b4 &&
  option_eqb N.eqb a5 b5 && (a6 =? b6) && option_eqb N.eqb a7 b7 && (a8 =? b8) &&
  option_eqb nn_eqb a9 b9 && option_eqb nn_eqb a10 b10.
Definition outF_eqb (a b : outF) : bool :=
  let '(a1, a2, a3, a4) := a in let '(b1, b2, b3, b4) := b in
  sideF_eqb a1 b1 && sideF_eqb a2 b2 && (a3 =? b3) && option_eqb N.eqb a4 b4.

(* types (L, R, P), auth, the eleven opaque values, implementation's parameters (None = ValueError) *)
Definition tunnel_case : Type :=
  (N * N * N) * (N * (N * N * N)) * list N * option outF.

Definition vals_of (l : list N) : vals :=
  let g k := nth k l 0 in
  mkVals (g 0%nat) (g 1%nat) (g 2%nat) (g 3%nat) (g 4%nat) (g 5%nat) (g 6%nat) (g 7%nat)
         (g 8%nat) (g 9%nat) (g 10%nat).

Definition model_tunnel (c : tunnel_case) : option outF :=
  let '(t, a, v, _) := c in
  let '(l, r, p) := t in
  option_map flat_out (tunnel (ltype_of l) (rtype_of r) (ptype_of p) (auth_of a) (vals_of v)).

Definition tunnel_corr (c : tunnel_case) : bool :=
  option_eqb outF_eqb (model_tunnel c) (snd c).

Definition counterpart_local_code (l r : N) : ltype :=
  match r with
  | 0 => if l =? 2 then LCustom else LNic
  | 1 => LInternet
  | _ => LNic
  end.

(* the property on the implementation's output *)
Definition tunnel_monitor (c : tunnel_case) : bool :=
  let '(t, a, v, o) := c in
  let '(l, r, p) := t in
  let valid := (l <? 3) && (r <? 3) && (p <? 2) && (fst a <? 4) in
  match o with
  | None => negb valid
  | Some (ls, rs, k, pw) =>
      let '(l1, l2, l3, l4, l5, l6, l7, l8, l9, l10) := ls in
      let '(r1, r2, r3, r4, r5, r6, r7, r8, r9, r10) := rs in
      valid &&
      (* networks mirror *)
      option_eqb nn_eqb l3 r4 && option_eqb nn_eqb r3 l4 &&
      (* peers point at each other *)
      option_eqb N.eqb r7 (Some (nth 8 v 0)) && (r8 =? 0) &&
      (if p =? 0 then option_eqb N.eqb l7 (Some (nth 9 v 0)) && (l8 =? 0)
       else option_eqb N.eqb l7 None && (l8 =? 1)) &&
      (* identities swapped *)
      option_eqb nn_eqb l9 r10 && option_eqb nn_eqb l10 r9 &&
      (match fst a with
       | 2 => (k =? 2) && option_eqb N.eqb pw (Some (fst (fst (snd a)))) &&
              option_eqb nn_eqb l9 (Some (snd (fst (snd a)), if snd (fst (snd a)) =? 0 then 0 else 1)) &&
              option_eqb nn_eqb r9 (Some (snd (snd a), if snd (snd a) =? 0 then 0 else 1))
       | 1 => (k =? 1) && option_eqb nn_eqb l9 None
       | _ => (k =? 0) && option_eqb nn_eqb l9 None
       end) &&
      (* counterpart table *)
      (l1 =? l) && (l2 =? r) && (l6 =? p) &&
      (r1 =? lcode (counterpart_local_code l r)) && (r2 =? (if l =? 1 then 1 else 0)) && (r6 =? 0)
  end.

(* ---- connects_nodes ---- *)
Definition endnet_of (c : N * (N * N)) : endnet :=
  match fst c with 0 => NoNet | 1 => RealNet (fst (snd c)) | _ => CustomNet (fst (snd c)) (snd (snd c)) end.
Definition tri_code (t : tri) : N := match t with TTrue => 1 | TFalse => 0 | TRaise => 2 end.

(* ends: (left node, left net, left custom?), (right ...); nodes; results for ordered pairs (i, j, code) *)
Definition conn_case : Type :=
  ((N * (N * (N * N)) * bool) * (N * (N * (N * N)) * bool)) * list (N * list (N * N * N)) *
  list (nat * nat * N).

Definition ends_of (c : conn_case) : tunnel_ends :=
  let '(l, r) := fst (fst c) in
  let '(ln, le, lc) := l in let '(rn, re, rc) := r in
  mkEnds ln (endnet_of le) lc rn (endnet_of re) rc.

Definition conn_corr (c : conn_case) : bool :=
  let t := ends_of c in
  let nodes := snd (fst c) in
  forallb (fun q => let '(i, j, code) := q in
             tri_code (connects t (nth i nodes (0, [])) (nth j nodes (0, []))) =? code) (snd c).

Definition lookup_pair (l : list (nat * nat * N)) (i j : nat) : option N :=
  match find (fun q => Nat.eqb (fst (fst q)) i && Nat.eqb (snd (fst q)) j) l with
  | Some q => Some (snd q) | None => None end.

(* order independence wherever neither order raises *)
Definition conn_monitor (c : conn_case) : bool :=
  forallb (fun q => let '(i, j, code) := q in
             match lookup_pair (snd c) j i with
             | Some code' => (code =? 2) || (code' =? 2) || (code =? code')
             | None => true
             end) (snd c).
