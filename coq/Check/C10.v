(* Harness-facing checkers for C10. *)
From Coq Require Import List ZArith NArith Bool.
Import ListNotations.
From I2N Require Import Common.Harness Model.Retry.

Definition rres_code (r : rres) : N := match r with RTrue => 1 | RFalse => 0 | RErr => 2 end%N.
Definition ob_code (r : option bool) : N := match r with Some true => 1 | Some false => 0 | None => 2 end%N.

(* config, statuses so far, implementation's answer (1 True, 0 False, 2 ValueError) *)
Definition rerun_case : Type := rcfg * list status * N.
Definition rerun_corr (c : rerun_case) : bool :=
  N.eqb (rres_code (should_rerun (fst (fst c)) (snd (fst c)))) (snd c).

(* the property itself on the implementation's answer *)
Definition all_valid (l : list (option status)) : bool := forallb (fun t => match t with Some _ => true | None => false end) l.
Definition rerun_monitor (c : rerun_case) : bool :=
  let cfg := fst (fst c) in let sts := snd (fst c) in
  if dry cfg || flat cfg || cloned cfg then N.eqb (snd c) 0 else
  match valid_tokens (rerun_tokens cfg), valid_tokens (stop cfg), tries cfg with
  | Some rr, Some st, Some mt =>
      if (mt <? 0)%Z then N.eqb (snd c) 2
      else Bool.eqb (N.eqb (snd c) 1)
             ((1 <? mt)%Z && (Z.of_nat (length sts) <? mt)%Z && forallb (fun s => smem s rr) sts &&
              negb (existsb (fun s => smem s sts) st)) && negb (N.eqb (snd c) 2)
  | _, _, _ => N.eqb (snd c) 2
  end.

(* run decision: stateful?, config, finished, scan says run, results; impl: decision code, rerun switched off afterwards *)
Definition decide_case : Type := bool * rcfg * bool * bool * list status * (N * bool).
Definition decide_corr (c : decide_case) : bool :=
  let '(stateful, cfg, fin, scan, sts, (code, off)) := c in
  if stateful then
    let '(d, off') := run_stateful cfg fin scan false sts in
    N.eqb (ob_code d) code && (N.eqb code 2 || Bool.eqb off' off)
  else N.eqb (ob_code (run_stateless cfg sts)) code.

(* run_test_node: number of shared results at the start, result reported (None = never), its
   duration, previous PASS durations; impl: uid suffix, status recorded (None = placeholder stays),
   return value *)
Definition run_case : Type := nat * option status * Z * list Z * (nat * option status * bool).
Definition run_corr (c : run_case) : bool :=
  let '(n, rep, dur, prev, (uid, rec, ret)) := c in
  Nat.eqb (hd 0%nat (uids n [Start])) uid &&
  option_eqb status_eqb (option_map (fun s => final_status s dur prev) rep) rec &&
  Bool.eqb (run_ok (option_map (fun s => final_status s dur prev) rep)) ret.

(* all_results_ok *)
Definition verdict_case : Type := list (N * status) * bool.
Definition verdict_corr (c : verdict_case) : bool := Bool.eqb (verdict (fst c)) (snd c).
Definition verdict_monitor (c : verdict_case) : bool :=
  Bool.eqb (snd c)
    (forallb (fun n => existsb (fun t => N.eqb (fst t) n && ok_status (snd t)) (fst c)) (map fst (fst c))).

(* replayed jobs (None: missing file / no tests list), the implementation's previous_results (None: it raised) *)
Definition replay_case : Type := list (option (list (N * N))) * option (list (N * N)).
Definition replay_corr (c : replay_case) : bool :=
  option_eqb (list_eqb (pair_eqb N.eqb N.eqb)) (previous_results (fst c)) (snd c).
