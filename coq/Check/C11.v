(* Harness-facing checkers for C11 (command line part). *)
From Coq Require Import String Ascii List Bool NArith.
Import ListNotations.
From I2N Require Import Common.Harness Model.CmdLine.
Open Scope string_scope.

Definition spair_eqb (a b : string * string) : bool := String.eqb (fst a) (fst b) && String.eqb (snd a) (snd b).

(* implementation's outcome: 0 ok, 1 ValueError, 2 another exception *)
Definition cmd_case : Type := env * list string * (N * (string * list (string * string) * list (string * string) * string)).

Definition c_env (c : cmd_case) := fst (fst c).
Definition c_args (c : cmd_case) := snd (fst c).
Definition c_code (c : cmd_case) := fst (snd c).
Definition c_tests (c : cmd_case) := fst (fst (fst (snd (snd c)))).
Definition c_vmstrs (c : cmd_case) := snd (fst (fst (snd (snd c)))).
Definition c_pdict (c : cmd_case) := snd (fst (snd (snd c))).
Definition c_vms (c : cmd_case) := snd (snd (snd c)).

Definition cmd_corr (c : cmd_case) : bool :=
  match params_from_cmd (c_env c) (c_args c) with
  | Ok r => N.eqb (c_code c) 0 && String.eqb (r_tests_str r) (c_tests c) &&
            list_eqb spair_eqb (r_vm_strs r) (c_vmstrs c) &&
            list_eqb spair_eqb (r_pdict r) (c_pdict c) && String.eqb (r_vms r) (c_vms c)
  | ValueErr => N.eqb (c_code c) 1
  | OtherErr => N.eqb (c_code c) 2
  end.

(* ---- the property on the implementation's output, stated over the parsed arguments ---- *)
Definition kvs (args : list string) : option (list (string * string)) :=
  fold_right (fun a r => match split_arg a, r with Some kv, Some l => Some (kv :: l) | _, _ => None end) (Some []) args.

Fixpoint last_value (l : list (string * string)) (k : string) : option string :=
  match l with
  | [] => None
  | (k', v) :: r => match last_value r k with Some x => Some x | None => if String.eqb k' k then Some v else None end
  end.

Definition cmd_monitor (c : cmd_case) : bool :=
  let e := c_env c in
  match kvs (c_args c) with
  | None => negb (N.eqb (c_code c) 0)                            (* malformed argument: rejected with an error *)
  | Some l =>
      let bad_vms := existsb (fun kv => String.eqb (fst kv) "vms" &&
                                         negb (forallb (fun v => mem v (avail_vms e)) (split_commas (snd kv)))) l in
      let bad_obj := existsb (fun kv => is_obj_key (fst kv) && negb (is_test_key (fst kv)) &&
                                         negb (String.eqb (fst kv) "only_nets" || String.eqb (fst kv) "no_nets") &&
                                         match vm_of_key e (fst kv) with None => true | Some _ => false end) l in
      let has_nets := existsb (fun kv => String.eqb (fst kv) "nets") l in
      let has_nets_restr := existsb (fun kv => (String.eqb (fst kv) "only_nets" || String.eqb (fst kv) "no_nets") &&
                                                negb (String.eqb (snd kv) "")) l in
      if N.eqb (c_code c) 0 then
        negb bad_vms && negb bad_obj &&
        (* explicit nets and an effective nets restriction never both accepted... unless the
           restriction was emptied again before nets= (only_nets= resets it) *)
        (negb (has_nets && has_nets_restr) ||
         existsb (fun kv => (String.eqb (fst kv) "only_nets" || String.eqb (fst kv) "no_nets") && String.eqb (snd kv) "") l) &&
        (* tests_str: the only/no arguments in order, then the default iff no primary restriction *)
        (let lines := String.concat "" (map (fun kv => line (fst kv) (snd kv)) (filter (fun kv => is_test_key (fst kv)) l)) in
         let primary := existsb (fun kv => is_test_key (fst kv) &&
                                           existsb (fun v => mem v (avail_restr e)) (split_variants (snd kv))) l in
         if primary then String.eqb (c_tests c) lines
         else starts lines (c_tests c) && negb (String.eqb (c_tests c) lines)) &&
        (* any other key=value overrides that parameter: last one wins, commas are spaces *)
        forallb (fun kv => is_special (fst kv) ||
                           match last_value l (fst kv), lookup (c_pdict c) (fst kv) with
                           | Some v, Some v' => String.eqb (commas_to_spaces v) v'
                           | _, _ => false
                           end) l &&
        forallb (fun kv => mem (fst kv) (map fst l)) (filter (fun kv => negb (String.eqb (fst kv) "nets")) (c_pdict c)) &&
        (* vms= narrows the vms; per-vm restrictions in order *)
        (match last_value l "vms" with
         | Some v => String.eqb (c_vms c) (join_spaces (split_commas v)) &&
                     list_eqb String.eqb (map fst (c_vmstrs c)) (filter (fun x => mem x (split_commas v)) (avail_vms e))
         | None => list_eqb String.eqb (map fst (c_vmstrs c)) (avail_vms e)
         end) &&
        forallb (fun p =>
          let vm := fst p in
          let mine := filter (fun kv => String.eqb (fst kv) ("only_" ++ vm) || String.eqb (fst kv) ("no_" ++ vm)) l in
          match mine with
          | [] => true     (* default: checked by the correspondence *)
          | _ => String.eqb (snd p)
                   (String.concat "" (map (fun kv => if String.eqb (snd kv) "" then "" else
                                            line (if starts "only" (fst kv) then "only" else "no") (snd kv)) mine))
          end) (c_vmstrs c)
      else true
  end.

(* ---- selection: restriction lines, universe, names the real parser yields ---- *)
From I2N Require Import Model.Restr.
Definition sel_case : Type := list rline * list name * list name.
Definition name_eqb (a b : name) : bool := list_eqb N.eqb a b.
Definition name_mem (n : name) (l : list name) : bool := existsb (name_eqb n) l.
Definition sel_corr (c : sel_case) : bool :=
  let '(lines, U, got) := c in
  let want := select lines U in
  forallb (fun n => name_mem n got) want && forallb (fun n => name_mem n want) got.
