(* Harness-facing checkers for the graph properties C06, C07, C09. *)
From Coq Require Import List NArith Bool Arith.
Import ListNotations.
From I2N Require Import Common.Harness Model.Graph.

(* exported graph and rank certificate *)
Definition graph_case : Type := pgraph * list nat.

(* 1 = ranks, 2 = one root, 3 = edge symmetry, 4 = identities, 5 = producers, 6 = nets/vms, 7 = clones,
   8 = names unique per worker, 9 = bridges symmetric/typed/aliased, 10 = bridges complete *)
Definition graph_failures (c : graph_case) : list N :=
  let '(g, r) := c in
  (if ranks_ok g r then [] else [1%N]) ++ (if one_root g then [] else [2%N]) ++
  (if edge_sym g then [] else [3%N]) ++ (if nodup_ids g then [] else [4%N]) ++
  (if producers_ok g then [] else [5%N]) ++ (if nets_ok g then [] else [6%N]) ++
  (if clones_ok g then [] else [7%N]) ++ (if nodup_names g then [] else [8%N]) ++
  (if bridges_ok g then [] else [9%N]) ++ (if bridges_complete g then [] else [10%N]).

Definition c06_ok (c : graph_case) : bool :=
  let '(g, r) := c in ranks_ok g r && one_root g && edge_sym g && nodup_ids g && producers_ok g && nets_ok g && clones_ok g.
Definition c07_ok (c : graph_case) : bool :=
  let '(g, r) := c in producers_ok g && nodup_names g && clones_ok g.
(* graph, workers *)
Definition copies_case : Type := pgraph * list N.
Definition c09_ok (c : copies_case) : bool :=
  let '(g, ws) := c in
  bridges_ok g && bridges_complete g &&
  forallb (fun w1 => forallb (fun w2 => N.eqb w1 w2 || copies_equiv g w1 w2) ws) ws.

(* graphs assembled by the update tool: bridging only *)
Definition c09_bridges (c : copies_case) : bool := let '(g, _) := c in bridges_ok g && bridges_complete g.
