(* Harness-facing checkers for the traversal model (used by C01-C05, C08). *)
From Coq Require Import List ZArith NArith Bool Arith.
Import ListNotations.
From I2N Require Import Common.Harness Model.Retry Model.Traverse Model.TraverseRun.
Local Open Scope nat_scope.

Definition locs_subset (a b : list (N * option nat)) : bool :=
  forallb (fun x => existsb (fun y => N.eqb (fst x) (fst y) && loc_eqb (snd x) (snd y)) b) a.
Definition sts_eqb (a b : list (N * N)) : bool :=
  forallb (fun x => existsb (pair_eqb x) b) a && forallb (fun x => existsb (pair_eqb x) a) b.

Definition event_eqb (a b : event) : bool :=
  match a, b with
  | EPick w f t d, EPick w' f' t' d' => (w =? w') && (f =? f') && (t =? t') && Bool.eqb d d'
  | EDecide w n r, EDecide w' n' r' => (w =? w') && (n =? n') && Bool.eqb r r'
  | EScan w n m, EScan w' n' m' => (w =? w') && (n =? n') && Bool.eqb m m'
  | EStart w n u p l, EStart w' n' u' p' l' =>
      (w =? w') && (n =? n') && (u =? u') && Bool.eqb p p' && locs_subset l l' && locs_subset l' l
  | EDropParent w c p, EDropParent w' c' p' => (w =? w') && (c =? c') && (p =? p')
  | EDropChildren w n, EDropChildren w' n' => (w =? w') && (n =? n')
  | EClean w n d, EClean w' n' d' => (w =? w') && (n =? n') && Bool.eqb d d'
  | EDoor w n u s, EDoor w' n' u' s' => (w =? w') && (n =? n') && Bool.eqb u u' && sts_eqb s s'
  | EBounce w _ dt b, EBounce w' _ dt' b' => (w =? w') && Z.eqb dt dt' && Bool.eqb b b'   (* the node is not observable *)
  | EExit w, EExit w' => w =? w'
  | EFail w c, EFail w' c' => (w =? w') && N.eqb c c'
  | _, _ => false
  end.

(* graph, initial pools, schedule, the implementation's events per atomic section *)
Definition trav_case : Type := graph * store * list (nat * option status) * list (list event).

(* index of the first atomic section whose events differ (None: the traces agree) *)
Fixpoint first_diff (k : nat) (a b : list (list event)) : option nat :=
  match a, b with
  | [], [] => None
  | x :: a', y :: b' => if list_eqb event_eqb x y then first_diff (S k) a' b' else Some k
  | _, _ => Some k
  end.

Definition trav_diff (c : trav_case) : option nat :=
  let '(g, p, sched, impl) := c in
  first_diff 0 (snd (run_schedule g (init_state g p) sched)) impl.

Definition trav_corr (c : trav_case) : bool := match trav_diff c with None => true | Some _ => false end.

(* the model's events of one section, for replay files *)
Definition trav_section (c : trav_case) (k : nat) : list event :=
  let '(g, p, sched, impl) := c in nth k (snd (run_schedule g (init_state g p) sched)) [].

(* the hypotheses of C04_mutual_exclusion hold of the exported graph *)
Definition trav_gwf (c : trav_case) : bool := let '(g, _, _, _) := c in gwf_b g.
Definition trav_gwf_core (c : trav_case) : bool := let '(g, _, _, _) := c in gwf_core_b g.
(* the hypotheses of C01_available_at_start_single_worker hold of the exported graph *)
Definition trav_simple (c : trav_case) : bool := let '(g, _, _, _) := c in simple_b g.
(* the hypotheses of C02_no_path_errors hold of the exported graph *)
Definition trav_pwf (c : trav_case) : bool := let '(g, _, _, _) := c in pwf_b g.
(* the hypotheses of C03_present_setup_never_executed hold for every ordinary stateful test with the global scope *)
Definition trav_cls (c : trav_case) : bool := let '(g, _, _, _) := c in cls_all_b g.
(* the hypotheses of C02_exit_means_done_any_workers hold of the exported graph *)
Definition trav_ewf (c : trav_case) : bool := let '(g, _, _, _) := c in ewf_b g.
(* the hypothesis of C01_named_sources_hold_the_states holds of the exported graph *)
Definition trav_fw (c : trav_case) : bool := let '(g, _, _, _) := c in fw_ok_b g.
