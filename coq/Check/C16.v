(* Harness-facing checkers for C16: correspondence (model output = implementation
   output) and monitor (implementation output satisfies the property's predicate). *)
From Coq Require Import List NArith Bool.
Import ListNotations.
From I2N Require Import Common.Harness Model.Trie Model.Register.

(* names with ids, queries with the implementation's get() ids and __contains__ *)
Definition trie_case : Type := list (path * tid) * list (path * (list tid * bool)).

Definition trie_corr (c : trie_case) : bool :=
  let t := insert_all (fst c) in
  forallb (fun q => multiset_eqb (get t (fst q)) (fst (snd q)) &&
                    Bool.eqb (contains t (fst q)) (snd (snd q))) (snd c).

(* the property itself, evaluated on the implementation's answers; only claimed
   for parser-shaped name sets *)
Definition trie_monitor (c : trie_case) : bool :=
  negb (shape_ok (fst c)) ||
  forallb (fun q => multiset_eqb (fst (snd q)) (spec_get (fst c) (fst q)) &&
                    Bool.eqb (snd (snd q)) (negb (match fst (snd q) with [] => true | _ => false end)))
          (snd c).

Definition reg_case : Type :=
  list (key * wid) * (list ((option key * option wid) * nat) * list (option key * list wid)).

Definition reg_corr (c : reg_case) : bool :=
  let r := register_all (fst c) in
  forallb (fun l => Nat.eqb (get_counters r (fst (fst l)) (snd (fst l))) (snd l)) (fst (snd c)) &&
  forallb (fun l => set_eqb (get_workers r (fst l)) (snd l)) (snd (snd c)).

Definition reg_monitor (c : reg_case) : bool :=
  forallb (fun l => Nat.eqb (count_kw (fst c) (fst (fst l)) (snd (fst l))) (snd l)) (fst (snd c)) &&
  forallb (fun l => set_eqb
             (map snd (filter (fun kw => match fst l with Some k => N.eqb (fst kw) k | None => true end) (fst c)))
             (snd l)) (snd (snd c)).
