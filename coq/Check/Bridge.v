(* Harness-facing checkers for the bridging model (C09): the real TestNode.bridge_with_node is run on a
   sequence of (bridging node, bridged node) calls over k fresh nodes of one form; observed are each node's
   list of bridged nodes and, per node, the smallest node index holding the same registers. *)
From Coq Require Import List NArith Bool Arith.
Import ListNotations.
From I2N Require Import Common.Harness Model.Bridge.

Definition bridge_case : Type := nat * list (nat * nat) * list (list nat) * list nat.

Definition run_ops (ops : list (nat * nat)) : bstate := fold_left (fun st p => bridge st (fst p) (snd p)) ops binit.
Definition class_of (s : bstate) (k i : nat) : nat :=
  match find (fun j => Nat.eqb (refs s j) (refs s i)) (seq 0 k) with Some j => j | None => i end.

Definition bridge_corr (c : bridge_case) : bool :=
  let '(k, ops, obs_links, obs_class) := c in
  let s := run_ops ops in
  list_eqb (list_eqb Nat.eqb) (map (links s) (seq 0 k)) obs_links &&
  list_eqb Nat.eqb (map (class_of s k) (seq 0 k)) obs_class.

(* property on the implementation's own output: the whole class is on one set of registers *)
Definition bridge_unified (c : bridge_case) : bool :=
  let '(_, _, _, obs_class) := c in forallb (Nat.eqb 0) obs_class.
(* and on the model (must agree by bridge_corr; kept separate so that a disagreement is attributable) *)
Definition bridge_model_unified (c : bridge_case) : bool :=
  let '(k, ops, _, _) := c in let s := run_ops ops in forallb (fun i => Nat.eqb (class_of s k i) 0) (seq 0 k).
