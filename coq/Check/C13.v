(* Harness-facing checkers for C13. *)
From Coq Require Import List NArith Bool.
Import ListNotations.
From I2N Require Import Common.Harness Model.Pool.

Definition pcall_eqb (a b : pcall) : bool :=
  match a, b with
  | LShow, LShow | LGet, LGet | LSet, LSet | LUnset, LUnset => true
  | TShow x, TShow y | TCompare x, TCompare y | TGet x, TGet y | TSet x, TSet y | TUnset x, TUnset y => N.eqb x y
  | _, _ => false
  end.

(* own side, enabled scopes, content, sources (in the order of <op>_location), state,
   operation (0 show, 1 get, 2 set, 3 unset), implementation: call log, completed?, shown states *)
Definition pool_case : Type :=
  ownside * list scope * content * list source * N * N * (list pcall * bool * list N).

Definition p_own (c : pool_case) := fst (fst (fst (fst (fst (fst c))))).
Definition p_scopes (c : pool_case) := snd (fst (fst (fst (fst (fst c))))).
Definition p_content (c : pool_case) := snd (fst (fst (fst (fst c)))).
Definition p_srcs (c : pool_case) := snd (fst (fst (fst c))).
Definition p_state (c : pool_case) := snd (fst (fst c)).
Definition p_op (c : pool_case) := snd (fst c).
Definition p_log (c : pool_case) := fst (fst (snd c)).
Definition p_ok (c : pool_case) := snd (fst (snd c)).
Definition p_shown (c : pool_case) := snd (snd c).

Definition pool_corr (c : pool_case) : bool :=
  let o := p_own c in let sc := p_scopes c in let ct := p_content c in let srcs := p_srcs c in
  match p_op c with
  | 0%N => list_eqb pcall_eqb (show_log o sc srcs) (p_log c) && p_ok c &&
           set_eqb (show_states o sc ct srcs) (p_shown c)
  | 1%N => list_eqb pcall_eqb (get_log o sc ct srcs (p_state c)) (p_log c) && p_ok c
  | 2%N => let '(lg, ok) := set_log o sc ct srcs (p_state c) in
           list_eqb pcall_eqb lg (p_log c) && Bool.eqb ok (p_ok c)
  | _ => list_eqb pcall_eqb (unset_log o sc srcs) (p_log c) && p_ok c
  end.

(* ---- the property evaluated on the implementation's calls ---- *)
Definition tsrc (x : pcall) : option N :=
  match x with TShow s | TCompare s | TGet s | TSet s | TUnset s => Some s | _ => None end.
Definition find_src (srcs : list source) (i : N) : option source := find (fun s => N.eqb (sid s) i) srcs.

Definition pool_monitor (c : pool_case) : bool :=
  let o := p_own c in let sc := p_scopes c in let ct := p_content c in let srcs := p_srcs c in
  let perm := filter (permitted o sc) srcs in
  let own := in_scopes Own sc in
  (* only permitted sources are contacted; local changes only with own enabled *)
  forallb (fun x => match tsrc x with
                    | Some i => match find_src srcs i with Some s => permitted o sc s | None => false end
                    | None => match x with LGet | LSet | LUnset => own | _ => true end
                    end) (p_log c) &&
  match p_op c with
  | 0%N => (* present only if in the cache (own enabled) or in a permitted mirror *)
      forallb (fun x => (own && has (cache ct) x) || existsb (fun s => has (mirror ct s) x) perm) (p_shown c)
  | 1%N => (* fetch from a closest permitted source, and only when it differs / is missing *)
      forallb (fun x => match x with
                        | TGet i => match find_src srcs i with
                                    | Some s => forallb (fun s' => N.leb (proximity o s') (proximity o s)) perm &&
                                                has (mirror ct s) (p_state c) &&
                                                negb (has (cache ct) (p_state c) && valid ct s)
                                    | None => false
                                    end
                        | _ => true
                        end) (p_log c) &&
      (* ... and it IS fetched when some closest permitted source has it and the cache does not *)
      (match perm with
       | [] => true
       | _ => negb (has (cache ct) (p_state c)) &&
              forallb (fun s => has (mirror ct s) (p_state c)) perm
              ==> existsb (fun x => match x with TGet _ => true | _ => false end) (p_log c)
       end)
  | 2%N => (* every permitted mirror reached exactly as often as listed, or refused without any transport *)
      if p_ok c then
        multiset_eqb (concat (map (fun x => match x with TSet i => [i] | _ => [] end) (p_log c))) (map sid perm) &&
        (own || has (cache ct) (p_state c))
      else negb own && negb (has (cache ct) (p_state c)) &&
           forallb (fun x => match tsrc x with Some _ => false | None => true end) (p_log c)
  | _ =>
      multiset_eqb (concat (map (fun x => match x with TUnset i => [i] | _ => [] end) (p_log c))) (map sid perm)
  end.

(* ---- root operations ---- *)
Definition rcall_eqb (a b : rcall) : bool :=
  match a, b with
  | LCheckRoot, LCheckRoot | LGetRoot, LGetRoot | LSetRoot, LSetRoot | LUnsetRoot, LUnsetRoot
  | TCheckRoot, TCheckRoot | TGetRoot, TGetRoot | TSetRoot, TSetRoot | TUnsetRoot, TUnsetRoot => true
  | TCompareImg x, TCompareImg y => N.eqb x y
  | _, _ => false
  end.

(* environment, operation (0 check, 1 get, 2 set, 3 unset), implementation: log, completed?, value *)
Definition root_case : Type := rootenv * N * (list rcall * bool * bool).
Definition root_corr (c : root_case) : bool :=
  let e := fst (fst c) in let '(lg, ok, v) := snd c in
  match snd (fst c) with
  | 0%N => let '(l, r) := check_root e in list_eqb rcall_eqb l lg && ok && Bool.eqb r v
  | 1%N => list_eqb rcall_eqb (get_root e) lg && ok
  | 2%N => let '(l, r) := set_root e in list_eqb rcall_eqb l lg && Bool.eqb r ok
  | _ => let '(l, r) := unset_root e in list_eqb rcall_eqb l lg && Bool.eqb r ok
  end.

Definition is_t (x : rcall) : bool :=
  match x with TCheckRoot | TGetRoot | TSetRoot | TUnsetRoot | TCompareImg _ => true | _ => false end.
Definition root_monitor (c : root_case) : bool :=
  let e := fst (fst c) in let '(lg, ok, v) := snd c in
  (* scope exactly own: the pool is never contacted *)
  (is_own e ==> forallb (fun x => negb (is_t x)) lg) &&
  (* updating the pool without a local root is refused, with no transport *)
  (match snd (fst c) with
   | 2%N => (negb (is_own e) && negb (local_root e)) ==> (negb ok && forallb (fun x => negb (is_t x)) lg)
   | 1%N => (has_own e && negb (is_own e)) ==>
            Bool.eqb (existsb (fun x => match x with TGetRoot => true | _ => false end) lg)
                     (pool_root e && (negb (local_root e) || negb (forallb snd (images e))))
   | _ => true
   end).
