(* M12 — the manual tools: Manu.run's setup chain (plugins/manu.py), TestGraph.flag_children
   (cartgraph/graph.py) and the flag combination of intertest_setup.update.  Definitions only. *)
From Coq Require Import List NArith Bool Arith.
Import ListNotations.

(* ---- Manu.run: every step is called, in order; the return code is 1 iff some step returned
        something else than None / 0 or raised ---- *)
Inductive step_out := RetNone | RetInt (z : N) | Raised.
Definition step_failed (o : step_out) : bool :=
  match o with RetNone => false | RetInt z => negb (N.eqb z 0) | Raised => true end.

(* steps are identified by their position; the model returns the order of calls and the code *)
Fixpoint chain_from (k : nat) (outs : list step_out) (code : N) : list nat * N :=
  match outs with
  | [] => ([], code)
  | o :: r => let '(calls, c) := chain_from (S k) r (if step_failed o then 1%N else code) in (k :: calls, c)
  end.
Definition chain (outs : list step_out) : list nat * N := chain_from 0 outs 0%N.

(* ---- flag_children: the nodes reached from a start node through cleanup (child) edges ---- *)
Definition dag := list (N * list N).                     (* node -> children *)
Fixpoint kids (g : dag) (n : N) : list N :=
  match g with [] => [] | (m, c) :: r => if N.eqb m n then c else kids r n end.

(* descendants within `fuel` steps (the start included) *)
Fixpoint desc (fuel : nat) (g : dag) (n : N) : list N :=
  n :: match fuel with O => [] | S f => flat_map (desc f g) (kids g n) end.

Definition flag_children (fuel : nat) (g : dag) (start : N) (skip_parents skip_children : bool) : list N :=
  if skip_children then (if skip_parents then kids g start else [start])
  else if skip_parents then flat_map (desc fuel g) (kids g start)
  else desc (S fuel) g start.

(* ---- update: which setup tests of a vm's state chain are run and which states are removed ---- *)
Definition memN (x : N) (l : list N) : bool := existsb (N.eqb x) l.

(* ancestors (the node included) in a chain given from the creation state downwards *)
Fixpoint upto (l : list N) (x : N) : list N :=
  match l with
  | [] => []
  | y :: r => if N.eqb y x then [y] else y :: upto r x
  end.
Fixpoint after (l : list N) (x : N) : list N :=
  match l with
  | [] => []
  | y :: r => if N.eqb y x then r else after r x
  end.

(* run graph (path to to_state) minus skip graph (path to from_state), plus the from_state node *)
Definition update_runs (chain_ : list N) (from to : N) : list N :=
  filter (fun x => negb (memN x (upto chain_ from)) || N.eqb x from) (upto chain_ to).
(* the states derived from to_state are removed *)
Definition update_unsets (chain_ : list N) (to : N) : list N := after chain_ to.
