(* M6 — model of avocado_i2n/states/pool.py : SourcedStateBackend (show/get/set/unset over
   scoped mirrors) and RootSourcedStateBackend (root operations).  Definitions only.

   A source "net:path" is given with the gateway / host its net resolves to (the empty net
   resolves to the own ones) and its path; all are interned identifiers. *)
From Coq Require Import List NArith Bool.
Import ListNotations.

Inductive scope := Own | Swarm | Cluster | Shared.
Definition scope_eqb (a b : scope) : bool :=
  match a, b with
  | Own, Own | Swarm, Swarm | Cluster, Cluster | Shared, Shared => true
  | _, _ => false
  end.

Record source := mkSrc { sid : N; sgw : N; shost : N; spath : N }.
Record ownside := mkOwn { ogw : N; ohost : N; oswarm : N; oshared : N }.

(* get_sources.proximity *)
Definition proximity (o : ownside) (s : source) : N :=
  ((if N.eqb (ogw o) (sgw s) then 1000 else 0) +
   (if N.eqb (ohost o) (shost s) then 100 else 0) +
   (if N.eqb (oswarm o) (spath s) then 10 else 1))%N.

(* sorted(..., key=proximity, reverse=True): stable, descending *)
Fixpoint insert_desc (o : ownside) (x : source) (l : list source) : list source :=
  match l with
  | [] => [x]
  | y :: r => if N.ltb (proximity o x) (proximity o y) then y :: insert_desc o x r else x :: l
  end.
Definition sort_sources (o : ownside) (l : list source) : list source :=
  fold_right (insert_desc o) [] l.

(* get_source_scope *)
Definition scope_of (o : ownside) (s : source) : scope :=
  if negb (N.eqb (ogw o) (sgw s)) then Cluster
  else if negb (N.eqb (ohost o) (shost s)) then Swarm
  else if N.eqb (oshared o) (spath s) then Shared
  else if N.eqb (oswarm o) (spath s) then Own
  else Shared.

Definition in_scopes (sc : scope) (scopes : list scope) : bool := existsb (scope_eqb sc) scopes.

(* the filtering stage: `source_scope == "own" or source_scope not in scopes: continue` *)
Definition permitted (o : ownside) (scopes : list scope) (s : source) : bool :=
  match scope_of o s with
  | Own => false
  | sc => in_scopes sc scopes
  end.

Definition has (l : list N) (x : N) : bool := existsb (N.eqb x) l.

(* content the stubs answer from *)
Record content := mkContent {
  cache : list N;                      (* states the local backend lists *)
  mirrors : list (N * list N);         (* source id -> states the transport lists there *)
  chain_eq : list (N * bool)           (* source id -> compare_chain result *)
}.
Fixpoint lookup {A} (d : A) (l : list (N * A)) (k : N) : A :=
  match l with
  | [] => d
  | (k', v) :: r => if N.eqb k' k then v else lookup d r k
  end.
Definition mirror (c : content) (s : source) : list N := lookup [] (mirrors c) (sid s).
Definition valid (c : content) (s : source) : bool := lookup false (chain_eq c) (sid s).

Inductive pcall :=
| LShow | LGet | LSet | LUnset
| TShow (s : N) | TCompare (s : N) | TGet (s : N) | TSet (s : N) | TUnset (s : N).

Definition inter (a b : list N) : list N := filter (has b) a.

(* show: cache (if own is enabled) united with the running intersection of the permitted
   mirrors -- which restarts from the next mirror when it has become empty *)
Definition show_pool (o : ownside) (scopes : list scope) (c : content) (srcs : list source) : list N :=
  fold_left (fun acc s => match acc with [] => mirror c s | _ => inter acc (mirror c s) end)
            (filter (permitted o scopes) (sort_sources o srcs)) [].

Definition show_states (o : ownside) (scopes : list scope) (c : content) (srcs : list source) : list N :=
  (if in_scopes Own scopes then cache c else []) ++ show_pool o scopes c srcs.

Definition show_log (o : ownside) (scopes : list scope) (srcs : list source) : list pcall :=
  (if in_scopes Own scopes then [LShow] else []) ++
  map (fun s => TShow (sid s)) (filter (permitted o scopes) (sort_sources o srcs)).

(* get: the first permitted source in proximity order, then the local get if own is enabled *)
Definition chosen (o : ownside) (scopes : list scope) (srcs : list source) : option source :=
  find (permitted o scopes) (sort_sources o srcs).

Definition get_log (o : ownside) (scopes : list scope) (c : content) (srcs : list source) (st : N)
  : list pcall :=
  match chosen o scopes srcs with
  | None => []
  | Some s =>
      [LShow; TShow (sid s)] ++
      (if has (mirror c s) st then
         if has (cache c) st then TCompare (sid s) :: (if valid c s then [] else [TGet (sid s)])
         else [TGet (sid s)]
       else [])
  end ++ (if in_scopes Own scopes then [LGet] else []).

(* set: local set when own is enabled, otherwise the local state must exist (else refused);
   then every permitted mirror *)
Definition set_log (o : ownside) (scopes : list scope) (c : content) (srcs : list source) (st : N)
  : list pcall * bool :=
  if in_scopes Own scopes then
    (LSet :: map (fun s => TSet (sid s)) (filter (permitted o scopes) (sort_sources o srcs)), true)
  else if has (cache c) st then
    (LShow :: map (fun s => TSet (sid s)) (filter (permitted o scopes) (sort_sources o srcs)), true)
  else ([LShow], false).

Definition unset_log (o : ownside) (scopes : list scope) (srcs : list source) : list pcall :=
  (if in_scopes Own scopes then [LUnset] else []) ++
  map (fun s => TUnset (sid s)) (filter (permitted o scopes) (sort_sources o srcs)).

(* ---- RootSourcedStateBackend ---- *)
Inductive rcall :=
| LCheckRoot | LGetRoot | LSetRoot | LUnsetRoot
| TCheckRoot | TGetRoot | TSetRoot | TUnsetRoot | TCompareImg (i : N).

Record rootenv := mkRootEnv {
  is_own : bool;        (* pool_scope == "own" *)
  has_own : bool;       (* "own" in pool_scope (substring) *)
  is_shared : bool;     (* pool_scope == "shared" *)
  local_root : bool;
  pool_root : bool;
  vm_type : bool;       (* object_type in ["vms", "nets/vms"] *)
  images : list (N * bool)   (* image -> ops.compare(cache, pool) *)
}.

Definition check_root (e : rootenv) : list rcall * bool :=
  if is_own e then ([LCheckRoot], local_root e)
  else ([LCheckRoot; TCheckRoot], local_root e || (pool_root e && negb (vm_type e))).

(* the comparisons stop at the first differing image *)
Fixpoint compare_images (l : list (N * bool)) : list rcall * bool :=
  match l with
  | [] => ([], true)
  | (i, same) :: r => if same then let '(lg, v) := compare_images r in (TCompareImg i :: lg, v)
                      else ([TCompareImg i], false)
  end.

Definition get_root (e : rootenv) : list rcall :=
  if negb (has_own e) then [TGetRoot]
  else if is_own e then [LGetRoot]
  else
    [LCheckRoot; TCheckRoot] ++
    (if pool_root e then
       if local_root e then
         let '(lg, v) := compare_images (images e) in lg ++ (if v then [] else [TGetRoot])
       else [TGetRoot]
     else []) ++ [LGetRoot].

Definition set_root (e : rootenv) : list rcall * bool :=
  if is_own e then ([LSetRoot], true)
  else if is_shared e then
    if local_root e then ([LCheckRoot; TSetRoot], true) else ([LCheckRoot], false)
  else ([], false).

Definition unset_root (e : rootenv) : list rcall * bool :=
  if is_own e then ([LUnsetRoot], true)
  else if is_shared e then ([TUnsetRoot], true)
  else ([], false).
