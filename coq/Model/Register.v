(* M1 — model of avocado_i2n/cartgraph/node.py : EdgeRegister (definitions only).
   The registry is a dict (node key -> dict (worker id -> counter)); Python dicts
   are association lists in insertion order. *)
From Coq Require Import List NArith Bool.
Import ListNotations.

Definition key := N.
Definition wid := N.
Definition registry := list (key * list (wid * nat)).

Fixpoint bump (ws : list (wid * nat)) (w : wid) : list (wid * nat) :=
  match ws with
  | [] => [(w, 1)]
  | (w', c) :: rest => if N.eqb w' w then (w', S c) :: rest else (w', c) :: bump rest w
  end.

Fixpoint register (r : registry) (k : key) (w : wid) : registry :=
  match r with
  | [] => [(k, [(w, 1)])]
  | (k', ws) :: rest =>
      if N.eqb k' k then (k', bump ws w) :: rest else (k', ws) :: register rest k w
  end.

Fixpoint rlookup (r : registry) (k : key) : list (wid * nat) :=
  match r with
  | [] => []
  | (k', ws) :: rest => if N.eqb k' k then ws else rlookup rest k
  end.

Fixpoint wlookup (ws : list (wid * nat)) (w : wid) : nat :=
  match ws with
  | [] => 0
  | (w', c) :: rest => if N.eqb w' w then c else wlookup rest w
  end.

Fixpoint sum (l : list nat) : nat :=
  match l with [] => 0 | x :: r => x + sum r end.

Definition get_counters (r : registry) (k : option key) (w : option wid) : nat :=
  let rows := match k with Some k => [rlookup r k] | None => map snd r end in
  sum (map (fun ws => match w with
                      | Some w => wlookup ws w
                      | None => sum (map snd ws)
                      end) rows).

(* returned as a list; Python returns a set (the harness compares as sets) *)
Definition get_workers (r : registry) (k : option key) : list wid :=
  let rows := match k with Some k => [rlookup r k] | None => map snd r end in
  flat_map (fun ws => map fst ws) rows.

Definition register_all (ops : list (key * wid)) : registry :=
  fold_left (fun r kw => register r (fst kw) (snd kw)) ops [].

(* spec side *)
Definition count_kw (ops : list (key * wid)) (k : option key) (w : option wid) : nat :=
  length (filter (fun kw =>
            match k with Some k => N.eqb (fst kw) k | None => true end &&
            match w with Some w => N.eqb (snd kw) w | None => true end) ops).
