(* M8 — model of TestNode.should_rerun / default_run_decision (cartgraph/node.py) and of
   TestRunner.run_test_node / all_results_ok (plugins/runner.py).  Definitions only.

   The status words of rerun_status / stop_status arrive as token lists produced by the same
   split the code applies (harness glue); a token that is not a status word is None. *)
From Coq Require Import List ZArith NArith Bool.
Import ListNotations.
Open Scope Z_scope.

Inductive status := SFail | SError | SPass | SWarn | SSkip | SCancel | SInterrupted | SUnknown.
Definition status_eqb (a b : status) : bool :=
  match a, b with
  | SFail, SFail | SError, SError | SPass, SPass | SWarn, SWarn | SSkip, SSkip
  | SCancel, SCancel | SInterrupted, SInterrupted | SUnknown, SUnknown => true
  | _, _ => false
  end.
Definition all_statuses := [SFail; SError; SPass; SWarn; SSkip; SCancel; SInterrupted; SUnknown].
Definition smem (s : status) (l : list status) : bool := existsb (status_eqb s) l.

Record rcfg := mkCfg {
  dry : bool; flat : bool; cloned : bool; replay : bool;
  max_tries : option (option Z);            (* None: unset; Some None: not an integer *)
  rerun : option (list (option status));    (* None: unset; tokens, None = not a status word *)
  stop : list (option status)
}.

Inductive rres := RTrue | RFalse | RErr.

Fixpoint valid_tokens (l : list (option status)) : option (list status) :=
  match l with
  | [] => Some []
  | Some s :: r => match valid_tokens r with Some r' => Some (s :: r') | None => None end
  | None :: _ => None
  end.

Definition rerun_tokens (c : rcfg) : list (option status) :=
  if replay c then
    match rerun c with Some l => l | None => [Some SFail; Some SError; Some SWarn] end
  else
    match rerun c with Some ((_ :: _) as l) => l | _ => map Some all_statuses end.

Definition tries (c : rcfg) : option Z :=
  match max_tries c with
  | None => Some (if replay c then 2 else 1)
  | Some v => v
  end.

Definition should_rerun (c : rcfg) (sts : list status) : rres :=
  if dry c then RFalse else if flat c then RFalse else if cloned c then RFalse else
  match valid_tokens (rerun_tokens c), valid_tokens (stop c), tries c with
  | Some rr, Some st, Some mt =>
      if mt <? 0 then RErr
      else if negb (forallb (fun s => smem s rr) sts) then RFalse
      else if existsb (fun s => smem s sts) st then RFalse
      else if mt =? 1 then RFalse
      else if 0 <? mt - Z.of_nat (length sts) then RTrue else RFalse
  | _, _, _ => RErr
  end.

(* default_run_decision; None = the embedded should_rerun raised.
   Stateless nodes: run once, then rerun while allowed. *)
Definition run_stateless (c : rcfg) (shared : list status) : option bool :=
  if dry c then Some false else if flat c then Some false else if cloned c then Some false else
  if (length shared =? 0)%nat then Some true
  else match should_rerun c shared with RTrue => Some true | RFalse => Some false | RErr => None end.

(* Stateful nodes: `finished` = is_finished(worker, 1); `scan_run` = what scan_states answers
   (true: some state is missing); `off` = should_rerun was already replaced by the constant
   false on this node; returns the decision and the new value of `off` *)
Definition run_stateful (c : rcfg) (finished scan_run off : bool) (filtered : list status)
  : option bool * bool :=
  if dry c then (Some false, off) else if flat c then (Some false, off) else if cloned c then (Some false, off) else
  let from_scan := if finished then false else scan_run in
  let off' := off || ((length filtered =? 0)%nat && negb from_scan) in
  if from_scan then (Some true, off')
  else if off' then (Some false, off')
  else (match should_rerun c filtered with RTrue => Some true | RFalse => Some false | RErr => None end, off').

(* ---- run_test_node: retry-unique ids, result look-up, duration check, return value ---- *)
(* a node's (shared) results as seen by run_test_node: only their number matters for the uid *)
Inductive ev := Start | Finish (k : nat) (s : status).   (* Finish k: the run that got uid k reports *)

(* uid suffix handed to a run = number of shared results at its start (0 = bare prefix) *)
Fixpoint uids (n : nat) (evs : list ev) : list nat :=
  match evs with
  | [] => []
  | Start :: r => n :: uids (S n) r          (* the UNKNOWN placeholder is appended *)
  | Finish _ _ :: r => uids n r              (* a result replaces one placeholder: same count *)
  end.

Definition key : Type := N * nat.                 (* (test name, uid suffix) *)
Definition key_eqb (a b : key) : bool := N.eqb (fst a) (fst b) && Nat.eqb (snd a) (snd b).
Definition lookup_result (tests : list (key * status)) (k : key) : option status :=
  match find (fun t => key_eqb (fst t) k) tests with Some t => Some (snd t) | None => None end.

(* PASS demoted to WARN when more than 1.25 x the longest previous PASS of this node *)
Definition maxl (l : list Z) (d : Z) : Z := match l with [] => d | x :: r => fold_left Z.max r x end.
Definition final_status (s : status) (dur : Z) (prev_pass : list Z) : status :=
  match s with
  | SPass => if 5 * maxl prev_pass dur <? 4 * dur then SWarn else SPass
  | _ => s
  end.

(* return value of run_test_node; a result that never shows up counts as an error *)
Definition run_ok (found : option status) : bool :=
  match found with
  | None | Some SError | Some SFail => false
  | _ => true
  end.

(* ---- all_results_ok ---- *)
Definition ok_status (s : status) : bool :=
  match s with SPass | SWarn | SSkip | SCancel => true | _ => false end.

Definition verdict (tests : list (N * status)) : bool :=
  forallb (fun t => existsb (fun t' => N.eqb (fst t') (fst t) && ok_status (snd t')) tests) tests.

(* ---- results_from_previous_jobs: the results of ALL replayed jobs, in order; a job without a readable results file
        or without a "tests" list is an error (None) ---- *)
Fixpoint previous_results {A} (jobs : list (option (list A))) : option (list A) :=
  match jobs with
  | [] => Some []
  | None :: _ => None
  | Some l :: r => match previous_results r with Some t => Some (l ++ t) | None => None end
  end.
