(* M1 — model of avocado_i2n/cartgraph/node.py : PrefixTree (definitions only).

   A Python PrefixTreeNode is identified by its path of variants from the root
   it hangs under.  The whole structure (forest of tries + the index
   `variant_nodes`) is the list of its nodes in CREATION order:
     - `variant_nodes[v]` is the creation-ordered list of nodes labelled v,
       i.e. `index t v`;
     - `v in variant_nodes`  <->  some node is labelled v;
     - `current.check_child(v)`  <->  a node with path `current ++ [v]` exists.
   `insert` takes a snapshot of `variant_nodes[v0]` where Python iterates the
   live list; both agree unless a name repeats its own first variant at a
   later position (on such a name the Python loop does not terminate); the
   property excludes such names ("no variant repeated within a name"). *)
From Coq Require Import List NArith Bool.
Import ListNotations.

Definition variant := N.
Definition path := list variant.
Definition tid := N.

Record tnode := mkT { tpath : path; tend : option tid }.
Definition trie := list tnode.

Fixpoint path_eqb (p q : path) : bool :=
  match p, q with
  | [], [] => true
  | x :: p', y :: q' => N.eqb x y && path_eqb p' q'
  | _, _ => false
  end.

Fixpoint is_prefix (p q : path) : bool :=
  match p, q with
  | [], _ => true
  | x :: p', y :: q' => N.eqb x y && is_prefix p' q'
  | _ :: _, [] => false
  end.

Fixpoint last_is (v : variant) (p : path) : bool :=
  match p with
  | [] => false
  | [x] => N.eqb x v
  | _ :: p' => last_is v p'
  end.

Definition has_path (t : trie) (p : path) : bool :=
  existsb (fun n => path_eqb (tpath n) p) t.

(* variant_nodes[v], creation order *)
Definition index (t : trie) (v : variant) : list path :=
  map tpath (filter (fun n => last_is v (tpath n)) t).

(* the inner `for variant in variants[1:]` loop of insert *)
Fixpoint walk_ins (t : trie) (p : path) (rest : list variant) : trie * path :=
  match rest with
  | [] => (t, p)
  | v :: rest' =>
      let p' := p ++ [v] in
      let t' := if has_path t p' then t else t ++ [mkT p' None] in
      walk_ins t' p' rest'
  end.

Definition set_end (t : trie) (p : path) (i : tid) : trie :=
  map (fun n => if path_eqb (tpath n) p then mkT (tpath n) (Some i) else n) t.

Definition insert (t : trie) (name : path) (i : tid) : trie :=
  match name with
  | [] => t
  | v0 :: rest =>
      let t1 := if existsb (fun n => last_is v0 (tpath n)) t then t
                else t ++ [mkT [v0] None] in
      fold_left (fun t p => let '(t', p') := walk_ins t p rest in set_end t' p' i)
                (index t1 v0) t1
  end.

(* the inner loop of get / __contains__ : follow existing children only *)
Fixpoint walk (t : trie) (p : path) (rest : list variant) : option path :=
  match rest with
  | [] => Some p
  | v :: rest' =>
      let p' := p ++ [v] in
      if has_path t p' then walk t p' rest' else None
  end.

(* PrefixTreeNode.traverse filtered on end_test_node: everything at or below p *)
Definition collect (t : trie) (p : path) : list tid :=
  flat_map (fun n => if is_prefix p (tpath n)
                     then match tend n with Some i => [i] | None => [] end
                     else []) t.

Definition get (t : trie) (q : path) : list tid :=
  match q with
  | [] => []
  | q0 :: qrest =>
      flat_map (fun p => match walk t p qrest with
                         | Some p' => collect t p'
                         | None => []
                         end) (index t q0)
  end.

Definition contains (t : trie) (q : path) : bool :=
  match q with
  | [] => false
  | q0 :: qrest =>
      existsb (fun p => match walk t p qrest with Some _ => true | None => false end)
              (index t q0)
  end.

Definition insert_all (names : list (path * tid)) : trie :=
  fold_left (fun t ni => insert t (fst ni) (snd ni)) names [].

(* ---- the specification side --------------------------------------- *)

(* q occurs contiguously in n *)
Fixpoint occurs (q n : path) : bool :=
  match n with
  | [] => match q with [] => true | _ => false end
  | _ :: n' => is_prefix q n || occurs q n'
  end.

(* last insertion of a name wins (end_test_node is overwritten) *)
Fixpoint lookup_last (names : list (path * tid)) (n : path) : option tid :=
  match names with
  | [] => None
  | (m, i) :: rest =>
      match lookup_last rest n with
      | Some j => Some j
      | None => if path_eqb m n then Some i else None
      end
  end.

Fixpoint nodupb (p : path) : bool :=
  match p with
  | [] => true
  | x :: p' => negb (existsb (N.eqb x) p') && nodupb p'
  end.

(* parser-shaped: non-empty, no repeated variant within a name, and no name's
   first variant occurs at a later position of any name *)
Definition first_ok (names : list (path * tid)) (n : path) : bool :=
  match n with
  | [] => false
  | v0 :: _ => forallb (fun mi => negb (existsb (N.eqb v0) (tl (fst mi)))) names
  end.

Definition shape_ok (names : list (path * tid)) : bool :=
  forallb (fun ni => nodupb (fst ni) && first_ok names (fst ni)) names.

(* distinct names in order of first insertion *)
Fixpoint distinct_names (names : list (path * tid)) (seen : list path) : list path :=
  match names with
  | [] => []
  | (n, _) :: rest =>
      if existsb (path_eqb n) seen then distinct_names rest seen
      else n :: distinct_names rest (n :: seen)
  end.

Definition spec_get (names : list (path * tid)) (q : path) : list tid :=
  flat_map (fun n => if occurs q n
                     then match lookup_last names n with Some i => [i] | None => [] end
                     else [])
           (distinct_names names []).
