(* The specification side of C12: a plain set-of-names store driven by the
   documented policy table (README "setup policy"), without any backend call log.
   Definitions only. *)
From Coq Require Import List NArith Bool.
Import ListNotations.
From I2N Require Import Model.StateOps.

(* Does the state count as present, and what does establishing that do to the
   object's root?  (check_mode: first letter = root present, second = root absent;
   r = use it / report absence, f = (re)create it; anything else is invalid.)
   None = invalid check policy. *)
Definition spec_presence (o : obj) (st : N * bool) (s : store) : store * option bool :=
  let k := okey o in
  if oskip_inner o then (s, Some true) else
  let '(root, names) := sget s k in
  let after_root :=
    if negb root then
      match snd (ocheck o) with
      | Lf => inl (sset s k (true, names))
      | Lr => inr (Some false)
      | _ => inr None
      end
    else match fst (ocheck o) with
         | Lf => inl (sset s k (true, []))      (* the object is recreated: its states are gone *)
         | _ => inl s
         end in
  match after_root with
  | inr r => (s, r)
  | inl s' => (s', Some (if snd st then true else has (snd (sget s' k)) (fst st)))
  end.

Definition spec_effect (op : opkind) (o : obj) (st : N * bool) (ex : bool) (s : store) : store + unit :=
  let k := okey o in
  let '(root, names) := sget s k in
  match op with
  | OSet =>
      if snd st then inl (sset s k (true, if ex then [] else names))
      else if ex then inl (sset s k (root, add_name (if osourced o then names else remove_name names (fst st)) (fst st)))
      else if root then inl (sset s k (root, add_name names (fst st)))
      else inr tt                                   (* no object to save a state of *)
  | OUnset =>
      if snd st then inl (sset s k (false, []))
      else inl (sset s k (root, remove_name names (fst st)))
  | _ => inl s
  end.

Definition spec_one (op : opkind) (inner : bool) (dm : mode) (o : obj) (s : store) : store * sres :=
  if (if inner then oskip_inner o else skipped o) then (s, SNext) else
  match ostate o with
  | None => (s, SNext)
  | Some st =>
      match spec_presence o st s with
      | (s1, None) => (s1, SStop TestErr)
      | (s1, Some ex) =>
          match doc_to_action op (spec_action op ex (default dm (omode o))) with
          | Abort => (s1, SStop Aborted)
          | Invalid => (s1, SStop TestErr)
          | Skip => (s1, SNext)
          | Proceed => match spec_effect op o st ex s1 with
                       | inl s2 => (s2, SNext)
                       | inr _ => (s1, SStop TestErr)
                       end
          end
      end
  end.

Definition spec_push_one (o : obj) (s : store) : store * sres :=
  match ostate o with
  | Some (_, true) | None => (s, SNext)
  | Some _ => spec_one OSet true (La, Lf) o s
  end.

Definition spec_pop_one (o : obj) (s : store) : store * sres :=
  match ostate o with
  | Some (_, true) | None => (s, SNext)
  | Some _ => match spec_one OGet true (Lr, La) o s with
              | (s1, SNext) => spec_one OUnset true (Lf, La) o s1
              | r => r
              end
  end.

Fixpoint spec_iterate (f : obj -> store -> store * sres) (objs : list obj) (s : store) : store * outcome :=
  match objs with
  | [] => (s, Done)
  | o :: rest => match f o s with
                 | (s', SNext) => spec_iterate f rest s'
                 | (s', SStop e) => (s', e)
                 end
  end.

Fixpoint spec_check (objs : list obj) (s : store) : store * cres :=
  match objs with
  | [] => (s, CTrue)
  | o :: rest =>
      if skipped o then spec_check rest s else
      match ostate o with
      | None => spec_check rest s
      | Some st =>
          (* a direct check of a vm with "force if present" only destroys the vm: states stay *)
          let k := okey o in
          let '(root, names) := sget s k in
          let r :=
            if negb root then
              match snd (ocheck o) with
              | Lf => inl (sset s k (true, names))
              | Lr => inr CFalse
              | _ => inr CErr
              end
            else match fst (ocheck o) with
                 | Lf => inl (sset s k (true, match otyp o with TVm => names | _ => [] end))
                 | _ => inl s
                 end in
          match r with
          | inr x => (s, x)
          | inl s' => if (if snd st then true else has (snd (sget s' k)) (fst st))
                      then spec_check rest s' else (s', CFalse)
          end
      end
  end.

Definition spec_run_op (op : opkind) (objs : list obj) (s : store) : store * N :=
  let code e := match e with Done => 0 | Aborted => 2 | TestErr => 3 end%N in
  match op with
  | OCheck => let '(s', r) := spec_check objs s in
              (s', match r with CTrue => 0 | CFalse => 1 | CErr => 3 end%N)
  | OGet => let '(s', e) := spec_iterate (spec_one OGet false (Lr, La)) objs s in (s', code e)
  | OSet => let '(s', e) := spec_iterate (spec_one OSet false (Lf, Lf)) objs s in (s', code e)
  | OUnset => let '(s', e) := spec_iterate (spec_one OUnset false (Lf, Li)) objs s in (s', code e)
  | OPush => let '(s', e) := spec_iterate spec_push_one objs s in (s', code e)
  | OPop => let '(s', e) := spec_iterate spec_pop_one objs s in (s', code e)
  end.

Fixpoint spec_run_ops (ops : list (opkind * list obj)) (s : store) : store * list N :=
  match ops with
  | [] => (s, [])
  | (op, objs) :: rest =>
      let '(s', code) := spec_run_op op objs s in
      let '(s'', out) := spec_run_ops rest s' in
      (s'', code :: out)
  end.

(* two stores hold the same facts *)
Definition entry_equiv (a b : entry) : Prop :=
  fst a = fst b /\ forall x, has (snd a) x = has (snd b) x.
Definition store_equiv (a b : store) : Prop := forall k, entry_equiv (sget a k) (sget b k).
