(* M2 — model of VMNetwork.__init__/integrate_node, VMNetconfig.from_interface /
   can_add_interface / add_interface / validate and VMNetwork.reattach_interface
   (without proxy nic).  Definitions only.

   Netconfig objects live in a heap (list, append only; the index is the object
   identity); `reg` is VMNetwork.netconfigs (dict keyed by the network address,
   insertion ordered, assignment to an existing key keeps its position);
   every interface records the identity of the netconfig it points to. *)
From Coq Require Import List NArith ZArith Bool.
Import ListNotations.
From I2N Require Import Model.NetAddr.
Local Open Scope N_scope.

Record iface_cfg := mkIface {
  ikey : N;            (* "<vm>.<nic>" *)
  iip : N;
  imask : N;           (* netmask (as a number; strings are compared in Python) *)
  ilo : N; ihi : N;    (* "range" parameter, default 100-200 *)
  ihost : option N     (* "host" parameter *)
}.

Record netconfig := mkNc {
  nnet : N; nmask : N; nrange : range; nhost : option N;
  nifaces : list (N * N)   (* interfaces: ip -> interface key, dict order *)
}.

Record state := mkSt {
  heap : list netconfig;
  reg : list (N * nat);            (* net_ip -> heap index *)
  ifs : list (N * (N * nat))       (* interface key -> (current ip, netconfig identity) *)
}.

Inductive err := IndexErr | TestErr | ValueErr | KeyErr | Exhaust.
Inductive res (A : Type) := Ok (a : A) | Err (e : err).
Arguments Ok {A} a. Arguments Err {A} e.

Fixpoint dict_set {V} (l : list (N * V)) (k : N) (v : V) : list (N * V) :=
  match l with
  | [] => [(k, v)]
  | (k', v') :: r => if k' =? k then (k', v) :: r else (k', v') :: dict_set r k v
  end.

Fixpoint dict_get {V} (l : list (N * V)) (k : N) : option V :=
  match l with
  | [] => None
  | (k', v') :: r => if k' =? k then Some v' else dict_get r k
  end.

Fixpoint dict_del {V} (l : list (N * V)) (k : N) : list (N * V) :=
  match l with
  | [] => []
  | (k', v') :: r => if k' =? k then r else (k', v') :: dict_del r k
  end.

Definition nbits (nc : netconfig) : N := prefix_of_mask (nmask nc).

(* can_add_interface for an interface object not yet in the netconfig *)
Definition can_add (nc : netconfig) (i : iface_cfg) : res bool :=
  let same := network_of (iip i) (nbits nc) =? nnet nc in
  if same && negb (imask i =? nmask nc) then Err IndexErr else Ok same.

Definition range_min (r : range) : N := fold_right N.min (match r with [] => 0 | (k, _) :: _ => k end) (map fst r).
Definition range_max (r : range) : N := fold_right N.max 0 (map fst r).

(* validate(): host, ip_start, ip_end and every interface address lie in the
   netconfig's network; ip_interface() rejects addresses outside IPv4 space *)
Definition validate (nc : netconfig) : res unit :=
  let bits := nbits nc in
  let start := nnet nc + range_min (nrange nc) in
  let stop := nnet nc + range_max (nrange nc) in
  if negb ((start <? two32) && (stop <? two32)) then Err ValueErr else
  let host_ok := match nhost nc with Some h => in_network h (nnet nc) bits | None => true end in
  if negb host_ok then Err TestErr else
  if negb (in_network start (nnet nc) bits && in_network stop (nnet nc) bits) then Err TestErr else
  if forallb (fun e => in_network (fst e) (nnet nc) bits) (nifaces nc) then Ok tt else Err TestErr.

Definition from_interface (i : iface_cfg) : netconfig :=
  mkNc (network_of (iip i) (prefix_of_mask (imask i))) (imask i)
       (mk_range (ilo i) (ihi i)) (ihost i) [].

Definition add_interface (nc : netconfig) (ip key : N) : netconfig :=
  mkNc (nnet nc) (nmask nc) (nrange nc) (nhost nc) (dict_set (nifaces nc) ip key).

Fixpoint set_nth {A} (l : list A) (n : nat) (a : A) : list A :=
  match l, n with
  | [], _ => []
  | _ :: r, O => a :: r
  | x :: r, S n' => x :: set_nth r n' a
  end.

(* `for netconfig in self.netconfigs.values(): if netconfig.can_add_interface(..)` *)
Fixpoint find_nc (h : list netconfig) (r : list (N * nat)) (i : iface_cfg) : res (option nat) :=
  match r with
  | [] => Ok None
  | (_, id) :: r' =>
      match nth_error h id with
      | None => Err KeyErr
      | Some nc =>
          match can_add nc i with
          | Err e => Err e
          | Ok true => Ok (Some id)
          | Ok false => find_nc h r' i
          end
      end
  end.

Definition integrate_iface (s : state) (i : iface_cfg) : res state :=
  match find_nc (heap s) (reg s) i with
  | Err e => Err e
  | Ok (Some id) =>
      match nth_error (heap s) id with
      | None => Err KeyErr
      | Some nc =>
          let nc' := add_interface nc (iip i) (ikey i) in
          match validate nc' with
          | Err e => Err e
          | Ok _ => Ok (mkSt (set_nth (heap s) id nc') (reg s)
                             (dict_set (ifs s) (ikey i) (iip i, id)))
          end
      end
  | Ok None =>
      let nc' := add_interface (from_interface i) (iip i) (ikey i) in
      match validate nc' with
      | Err e => Err e
      | Ok _ => let id := length (heap s) in
                Ok (mkSt (heap s ++ [nc']) (dict_set (reg s) (nnet nc') id)
                         (dict_set (ifs s) (ikey i) (iip i, id)))
      end
  end.

Fixpoint build_from (s : state) (l : list iface_cfg) : res state :=
  match l with
  | [] => Ok s
  | i :: r => match integrate_iface s i with Err e => Err e | Ok s' => build_from s' r end
  end.

Definition build (l : list iface_cfg) : res state := build_from (mkSt [] [] []) l.

(* reattach_interface(client, server) with proxy_nic = "" *)
Definition reattach (s : state) (client ref : N) : res state :=
  match dict_get (ifs s) client, dict_get (ifs s) ref with
  | Some (cip, cid), Some (_, rid) =>
      match nth_error (heap s) cid with
      | None => Err KeyErr
      | Some cnc =>
          match dict_get (nifaces cnc) cip with
          | None => Err KeyErr                       (* del ...interfaces[interface.ip] *)
          | Some _ =>
              let h1 := set_nth (heap s) cid
                          (mkNc (nnet cnc) (nmask cnc) (nrange cnc) (nhost cnc)
                                (dict_del (nifaces cnc) cip)) in
              match nth_error h1 rid with
              | None => Err KeyErr
              | Some rnc =>
                  match allocate (nnet rnc) (nrange rnc) with
                  | (inr Exhausted, _) => Err Exhaust
                  | (inr AddressValue, _) => Err ValueErr
                  | (inl ip', rg') =>
                      let rnc' := add_interface
                                    (mkNc (nnet rnc) (nmask rnc) rg' (nhost rnc) (nifaces rnc))
                                    ip' client in
                      match validate rnc' with
                      | Err e => Err e
                      | Ok _ => Ok (mkSt (set_nth h1 rid rnc') (reg s)
                                         (dict_set (ifs s) client (ip', rid)))
                      end
                  end
              end
          end
      end
  | _, _ => Err KeyErr
  end.

Inductive op := Reattach (client ref : N).

Fixpoint run_ops (s : state) (ops : list op) : list (option err) * state :=
  match ops with
  | [] => ([], s)
  | Reattach c r :: rest =>
      match reattach s c r with
      | Ok s' => let '(o, s'') := run_ops s' rest in (None :: o, s'')
      | Err e => ([Some e], s)     (* the harness stops at the first error *)
      end
  end.

(* ---- the property's predicate on a state (used by theorems and as monitor) ---- *)
Definition registered_ids (s : state) : list nat := map snd (reg s).

(* every interface is recorded by exactly one registered netconfig, the one it
   points to, under its current address, which lies in that netconfig's network;
   addresses are pairwise distinct *)
Definition iface_ok (s : state) (e : N * (N * nat)) : bool :=
  let '(k, (ip, id)) := e in
  match nth_error (heap s) id with
  | None => false
  | Some nc =>
      existsb (Nat.eqb id) (registered_ids s) &&
      match dict_get (nifaces nc) ip with Some k' => k' =? k | None => false end &&
      in_network ip (nnet nc) (nbits nc) &&
      (* no other registered netconfig records it *)
      forallb (fun id' => Nat.eqb id' id ||
                 match nth_error (heap s) id' with
                 | Some nc' => negb (existsb (fun e' => snd e' =? k) (nifaces nc'))
                 | None => true
                 end) (registered_ids s)
  end.

Fixpoint nodupN (l : list N) : bool :=
  match l with [] => true | x :: r => negb (existsb (N.eqb x) r) && nodupN r end.

Definition consistent (s : state) : bool :=
  forallb (iface_ok s) (ifs s) && nodupN (map (fun e => fst (snd e)) (ifs s)).
