(* M11c — the classification of the state-scan's answer (node.py: scan_states): what the door's check run reported
   decides alone whether a setup test "should run from scan"; a fault of the check is an error, never "run". *)
From Coq Require Import List Bool.
Import ListNotations.

Inductive door_result := DoorOk | DoorAssertion | DoorOther.
(* leaf = no object of the test sets a state (nothing to scan for): the answer is "run" without consulting the door;
   None = RuntimeError("Could not complete state scan due to control file error") *)
Definition scan_classify (leaf : bool) (r : door_result) : option bool :=
  if leaf then Some true
  else match r with DoorOk => Some false | DoorAssertion => Some true | DoorOther => None end.
