(* M3 — model of avocado_i2n/vmnet/tunnel.py : VMTunnel.__init__ (parameter
   generation), _get_peer_variant and connects_nodes.  Definitions only.
   Networks, netmasks, addresses, ids and secrets are opaque numbers. *)
From Coq Require Import List NArith Bool.
Import ListNotations.
From I2N Require Import Model.NetAddr.
Local Open Scope N_scope.

Inductive ltype := LNic | LInternet | LCustom | LBad.
Inductive rtype := RCustom | RExternal | RModeconfig | RBad.
Inductive ptype := PIp | PDyn | PBad.
(* auth=None | {"type": "pubkey"} | {"type": "psk", psk, left_id, right_id} |
   {"type": "none"} | {"type": <anything else>};  an id of 0 stands for "" *)
Inductive auth := ANone | APub | APsk (psk lid rid : N) | ANoneStr | AOther.

Inductive idtype := IdIP | IdCustom.
Inductive activation := Always | Passive.
Inductive keytype := KNone | KPublic | KPsk.

(* the opaque values the constructor reads *)
Record vals := mkVals {
  net1 : N; mask1 : N;      (* node1's lan nic netconfig *)
  net2 : N; mask2 : N;      (* node2's lan nic netconfig *)
  lnet : N; lmask : N; rnet : N; rmask : N;   (* local1 of type custom *)
  ip1 : N; ip2 : N;         (* internet nic addresses of node1 / node2 *)
  mcip : N                  (* remote1["modeconfig_ip"] *)
}.

Record side := mkSide {
  lan_type : ltype; remote_type : rtype;
  lan_net : option (N * N); remote_net : option (N * N);
  remote_mc : option N;
  peer_type : ptype; peer_ip : option N; act : activation;
  own_id : option (N * idtype); foreign_id : option (N * idtype)
}.

Record tparams := mkTP { left : side; right : side; key_type : keytype; psk_word : option N }.

(* _get_peer_variant *)
Definition peer_variant (L : ltype) (R : rtype) (P : ptype) : ltype * rtype * ptype :=
  let right_remote := match L with LInternet => RExternal | _ => RCustom end in
  let right_local := match R with
                     | RCustom => match L with LCustom => LCustom | _ => LNic end
                     | RExternal => LInternet
                     | _ => LNic
                     end in
  (right_local, right_remote, PIp).

Definition idt (i : N) : idtype := if i =? 0 then IdIP else IdCustom.

(* VMTunnel.__init__: None = ValueError.
   `fixed = false` is the behaviour of the pinned commit (kept for the refutation
   witnesses): with a custom local type the right side got no remote network, and
   the documented auth type "none" was rejected. *)
Definition tunnel_gen (fixed : bool) (L : ltype) (R : rtype) (P : ptype) (A : auth) (v : vals)
  : option tparams :=
  let '(L2, R2, P2) := peer_variant L R P in
  (* local *)
  match (match L with
         | LNic => Some (Some (net1 v, mask1 v), Some (net1 v, mask1 v))
         | LInternet => Some (None, None)
         | LCustom => Some (Some (lnet v, lmask v),
                            if fixed then Some (lnet v, lmask v) else None)
         | LBad => None
         end) with
  | None => None
  | Some (l_lan, r_remote) =>
  (* remote *)
  match (match R with
         | RCustom => let n2 := match L with LCustom => (rnet v, rmask v) | _ => (net2 v, mask2 v) end in
                      Some (Some n2, Some n2, None)
         | RExternal => Some (None, None, None)
         | RModeconfig => Some (None, None, Some (mcip v))
         | RBad => None
         end) with
  | None => None
  | Some (r_lan, l_remote, l_mc) =>
  (* peer *)
  match (match P with
         | PIp => Some (Some (ip2 v), Always)
         | PDyn => Some (None, Passive)
         | PBad => None
         end) with
  | None => None
  | Some (l_peer, l_act) =>
  (* authentication *)
  match (match A with
         | ANone => Some (KNone, None, None, None, None, None)
         | ANoneStr => if fixed then Some (KNone, None, None, None, None, None) else None
         | APub => Some (KPublic, None, None, None, None, None)
         | APsk p lid rid =>
             Some (KPsk, Some p, Some (lid, idt lid), Some (rid, idt rid),
                   Some (rid, idt rid), Some (lid, idt lid))
         | AOther => None
         end) with
  | None => None
  | Some (kt, pw, l_own, l_foreign, r_own, r_foreign) =>
      Some (mkTP (mkSide L R l_lan l_remote l_mc P l_peer l_act l_own l_foreign)
                 (mkSide L2 R2 r_lan r_remote None P2 (Some (ip1 v)) Always r_own r_foreign)
                 kt pw)
  end end end end.

Definition tunnel := tunnel_gen true.
Definition tunnel_pinned := tunnel_gen false.

(* ---- connects_nodes ---- *)
(* a node: identity and its interfaces (address, netmask, identity of its netconfig) *)
Definition node : Type := N * list (N * N * N).
(* a tunnel end's netconfig: an existing one (by identity) or an address/netmask-only one *)
Inductive endnet := NoNet | RealNet (id : N) | CustomNet (net mask : N).
Record tunnel_ends := mkEnds { lnode : N; lnetc : endnet; lcustom : bool;
                               rnode : N; rnetc : endnet; rcustom : bool }.

Inductive tri := TTrue | TFalse | TRaise.

(* node.check_interface(custom_net.can_add_interface): first interface for which the
   condition holds; can_add_interface raises when the network matches but the netmask differs *)
Fixpoint check_can_add (net mask : N) (ifs : list (N * N * N)) : tri :=
  match ifs with
  | [] => TFalse
  | (ip, m, _) :: r =>
      if network_of ip (prefix_of_mask mask) =? net
      then (if m =? mask then TTrue else TRaise)
      else check_can_add net mask r
  end.

Definition on_side (n : node) (end_node : N) (en : endnet) (custom : bool) : tri :=
  if fst n =? end_node then TTrue else
  if match en with
     | RealNet id => existsb (fun i => snd i =? id) (snd n)
     | _ => false
     end then TTrue else
  if custom then match en with
                 | CustomNet net mask => check_can_add net mask (snd n)
                 | _ => TRaise       (* None.can_add_interface *)
                 end
  else TFalse.

Definition tand (a : tri) (b : unit -> tri) : tri :=
  match a with TTrue => b tt | TFalse => TFalse | TRaise => TRaise end.

(* Python's short-circuit evaluation *)
Definition connects (t : tunnel_ends) (a b : node) : tri :=
  let onl x := on_side x (lnode t) (lnetc t) (lcustom t) in
  let onr x := on_side x (rnode t) (rnetc t) (rcustom t) in
  match tand (onl a) (fun _ => onr b) with
  | TTrue => TTrue
  | TRaise => TRaise
  | TFalse => match tand (onr a) (fun _ => onl b) with
              | TTrue => TTrue | TRaise => TRaise | TFalse => TFalse
              end
  end.
