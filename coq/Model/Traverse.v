(* M11 — executable model of the graph traversal for STATIC (fully parsed) graphs:
   TestGraph.traverse_object_trees / traverse_node / traverse_terminal_node / reverse_node
   (cartgraph/graph.py), the readiness / pick / drop / decision methods of TestNode
   (cartgraph/node.py) and TestRunner.run_test_node's bookkeeping (plugins/runner.py).

   One call of [resume] = one atomic section of one worker's coroutine (everything between two
   awaits).  The schedule (which worker is resumed, with which test outcome) is the input; the
   model is deterministic given the schedule and emits the events the harness also records on
   the implementation.  Definitions only. *)
From Coq Require Import List ZArith NArith Bool Arith PrimFloat.
Import ListNotations.
From I2N Require Import Model.Retry.
Local Open Scope nat_scope.

Inductive scope_kind := Global | PerWorker | PerSwarm.

(* one stateful object of a node, as sync_states / scan_states / the door see it *)
Record nobj := mkObj {
  o_id : N;                 (* object identity (vm or image, per object variant) *)
  o_net : bool;             (* a net object *)
  o_set : option N;         (* set_state *)
  o_get : option N;         (* get_state that has to be fetched (root-like states excluded) *)
  o_unset : N;              (* first letter of unset_mode: 0 = f, 1 = r, 2 = anything else *)
  o_perm_install : bool;    (* set_state = install on a permanent object *)
  o_selected : bool         (* its vm is among the vms selected for the run *)
}.

Record node := mkNode {
  n_flat : bool; n_root : bool; n_objroot : bool; n_cloned : bool; n_dry : bool;
  n_owners : list nat;            (* workers whose id occurs in the node name *)
  n_form : N;                     (* bridged form (register key) *)
  n_reg : N;                      (* identity of the shared visit registers *)
  n_parents : list nat; n_children : list nat; n_bridged : list nat;
  n_edge_objs : list (nat * list N);   (* parent -> non-net objects the dependency is based on *)
  n_scope : scope_kind;
  n_scope_workers : list nat;     (* workers whose per-worker scope string occurs in the name *)
  n_scope_swarms : list nat;      (* swarms whose id occurs in the name *)
  n_first_worker : option nat;    (* first worker id found in the name (result attribution) *)
  n_cfg : rcfg;                   (* retry settings *)
  n_mct : option Z;               (* max_concurrent_tries *)
  n_tries : Z;                    (* get_numeric(max_tries, 1) *)
  n_timeout : Z;                  (* test_timeout *)
  n_budget : float;               (* test_timeout * max_tries, as a float *)
  n_dt : float; n_dtz : Z;        (* the back-off period round(max(budget / 1000, 0.1), 2): as a float and in hundredths *)
  n_filter_copy : N;              (* pool_filter: 0 reuse/block, 1 copy, 2 anything else *)
  n_own_in_scope : bool; n_shared_in_scope : bool;   (* "own"/"shared" among pool_scope *)
  n_objs : list nobj;
  n_rank : nat                    (* position in the prefix-priority order *)
}.

Record worker := mkWorker {
  w_swarm : nat;
  w_local : bool;                 (* swarm_id = localhost *)
  w_swarm_members : list nat;     (* workers whose id contains this worker's swarm id *)
  w_suffix_of : list nat          (* workers whose location string contains this worker's (id suffix) *)
}.

Record graph := mkGraph { g_nodes : list node; g_workers : list worker; g_root : nat }.

Definition dummy_node : node :=
  mkNode true false false false false [] 0 0 [] [] [] [] Global [] [] None
         (mkCfg false true false false None None []) None 1 0 PrimFloat.zero PrimFloat.zero 0 0 true true [] 0.
Definition nd (g : graph) (i : nat) : node := nth i (g_nodes g) dummy_node.
Definition wk (g : graph) (w : nat) : worker := nth w (g_workers g) (mkWorker 0 true [] []).
Definition memn (x : nat) (l : list nat) : bool := existsb (Nat.eqb x) l.
Definition own (g : graph) (w i : nat) : bool := memn w (n_owners (nd g i)).
Definition stateful (n : node) : bool := existsb (fun o => match o_set o with Some _ => true | None => false end) (n_objs n).

(* ---- dynamic state ---- *)
Inductive phase :=
| Ready                                  (* runnable: about to start, or woken from a sleep *)
| Running (n : nat) (pre : bool) (from_child : bool) (uid : nat)   (* awaiting a test; from_child = branch R4a *)
| Sleeping
| Exited
| Failed (code : N).                      (* 1 pick from empty, 2 discontinuous, 3 not own, 4 unfinished path, 5 value error, 6 fuel *)

(* occ_wait is a binary64 float exactly as in the code (sums of 0.1 are not exact) *)
Record wstate := mkW { path : list nat; occ_at : list nat; occ_wait : float; ph : phase }.

Record result := mkR { r_node : nat; r_status : status; r_prev : bool (* replayed *) }.

Record nstate := mkN {
  started : option nat; finished : option nat;
  results : list result;
  rerun_off : bool;
  mct_now : option Z;                     (* max_concurrent_tries after bumps *)
  locs : list (N * option nat)            (* pulled get locations: (object, None = shared | Some worker) *)
}.

(* visit registers: (register identity, key form) -> worker -> count *)
Definition regs := list ((N * N) * list (nat * nat)).
Inductive regkind := PickedBySetup | PickedByCleanup | DroppedSetup | DroppedCleanup.

Definition store := list (option nat * list (N * N)).    (* location (None = shared) -> (object, state) *)

(* the job's result list: (node, creation pre-step?, uid suffix) -> reported status, in report order *)
Definition jobkey : Type := nat * bool * nat.
Definition jobkey_eqb (a b : jobkey) : bool :=
  let '(n, p, u) := a in let '(n', p', u') := b in Nat.eqb n n' && Bool.eqb p p' && Nat.eqb u u'.

Record state := mkS {
  ws : list wstate; ns : list nstate;
  r_ps : regs; r_pc : regs; r_ds : regs; r_dc : regs;
  pool : store;
  job : list (jobkey * status)
}.

Inductive event :=
| EPick (w from to : nat) (down : bool)
| EDecide (w n : nat) (run : bool)
| EScan (w n : nat) (missing : bool)
| EStart (w n : nat) (uid : nat) (pre : bool) (lcs : list (N * option nat))
| EDropParent (w child parent : nat)
| EDropChildren (w n : nat)
| EClean (w n : nat) (decision : bool)
| EDoor (w n : nat) (unset : bool) (sts : list (N * N))
| EBounce (w n : nat) (dt : Z) (bumped : bool)
| EExit (w : nat)
| EFail (w : nat) (code : N).

(* ---- small list utilities ---- *)
Fixpoint upd_nth {A} (l : list A) (i : nat) (f : A -> A) : list A :=
  match l, i with
  | [], _ => []
  | x :: r, O => f x :: r
  | x :: r, S j => x :: upd_nth r j f
  end.
Definition wst (s : state) (w : nat) : wstate := nth w (ws s) (mkW [] [] PrimFloat.zero Exited).
Definition nst (s : state) (i : nat) : nstate := nth i (ns s) (mkN None None [] false None []).
Definition set_w (s : state) (w : nat) (f : wstate -> wstate) : state :=
  mkS (upd_nth (ws s) w f) (ns s) (r_ps s) (r_pc s) (r_ds s) (r_dc s) (pool s) (job s).
Definition set_n (s : state) (i : nat) (f : nstate -> nstate) : state :=
  mkS (ws s) (upd_nth (ns s) i f) (r_ps s) (r_pc s) (r_ds s) (r_dc s) (pool s) (job s).

Definition key_eqb (a b : N * N) : bool := N.eqb (fst a) (fst b) && N.eqb (snd a) (snd b).
Fixpoint reg_get (r : regs) (k : N * N) : list (nat * nat) :=
  match r with
  | [] => []
  | (k', v) :: t => if key_eqb k' k then v else reg_get t k
  end.
Fixpoint cnt_add (l : list (nat * nat)) (w : nat) : list (nat * nat) :=
  match l with
  | [] => [(w, 1)]
  | (w', c) :: t => if Nat.eqb w' w then (w', S c) :: t else (w', c) :: cnt_add t w
  end.
Fixpoint reg_add (r : regs) (k : N * N) (w : nat) : regs :=
  match r with
  | [] => [(k, [(w, 1)])]
  | (k', v) :: t => if key_eqb k' k then (k', cnt_add v w) :: t else (k', v) :: reg_add t k w
  end.
Definition reg_workers (r : regs) (k : N * N) : list nat := map fst (reg_get r k).
(* get_counters(): all keys of this register object, all workers *)
Definition reg_total (r : regs) (rid : N) : nat :=
  fold_left (fun acc e => if N.eqb (fst (fst e)) rid then fold_left (fun a c => a + snd c) (snd e) acc else acc) r 0.
(* get_workers(): all keys of this register object *)
Definition reg_all_workers (r : regs) (rid : N) : list nat :=
  flat_map (fun e => if N.eqb (fst (fst e)) rid then map fst (snd e) else []) r.

(* ---- readiness, picks, drops ---- *)
(* is_setup_ready: every parent that is flat or own has been dropped by w (in the register of
   the node's class, under the parent's form) *)
Definition setup_ready (g : graph) (s : state) (i w : nat) : bool :=
  forallb (fun p => (negb (n_flat (nd g p)) && negb (own g w p)) ||
                    memn w (reg_workers (r_ds s) (n_reg (nd g i), n_form (nd g p))))
          (n_parents (nd g i)).
Definition cleanup_ready (g : graph) (s : state) (i w : nat) : bool :=
  forallb (fun c => (negb (n_flat (nd g c)) && negb (own g w c)) ||
                    memn w (reg_workers (r_dc s) (n_reg (nd g i), n_form (nd g c))))
          (n_children (nd g i)).

Definition avail_parents (g : graph) (s : state) (i w : nat) : list nat :=
  filter (fun p => (own g w p || n_flat (nd g p)) &&
                   negb (memn w (reg_workers (r_ds s) (n_reg (nd g i), n_form (nd g p)))))
         (n_parents (nd g i)).
Definition avail_children (g : graph) (s : state) (i w : nat) : list nat :=
  filter (fun c => (own g w c || n_flat (nd g c)) &&
                   negb (memn w (reg_workers (r_dc s) (n_reg (nd g i), n_form (nd g c)))))
         (n_children (nd g i)).

(* three successive stable sorts = lexicographic minimum of (composite?, pick counter, rank),
   the first of equal candidates winning *)
Definition pick_key (g : graph) (cnt : nat -> nat) (c : nat) : nat * nat * nat :=
  (if n_flat (nd g c) then 0 else 1, cnt c, n_rank (nd g c)).
Definition key_lt (a b : nat * nat * nat) : bool :=
  let '(a1, a2, a3) := a in let '(b1, b2, b3) := b in
  (a1 <? b1) || ((a1 =? b1) && ((a2 <? b2) || ((a2 =? b2) && (a3 <? b3)))).
Fixpoint pick_min (g : graph) (cnt : nat -> nat) (best : nat) (l : list nat) : nat :=
  match l with
  | [] => best
  | c :: r => pick_min g cnt (if key_lt (pick_key g cnt c) (pick_key g cnt best) then c else best) r
  end.
Definition pick_from (g : graph) (cnt : nat -> nat) (l : list nat) : option nat :=
  match l with [] => None | c :: r => Some (pick_min g cnt c r) end.

Definition pick_parent (g : graph) (s : state) (i w : nat) : option (nat * state) :=
  match pick_from g (fun c => reg_total (r_pc s) (n_reg (nd g c))) (avail_parents g s i w) with
  | None => None
  | Some p => Some (p, mkS (ws s) (ns s) (r_ps s) (reg_add (r_pc s) (n_reg (nd g p), n_form (nd g i)) w)
                           (r_ds s) (r_dc s) (pool s) (job s))
  end.
Definition pick_child (g : graph) (s : state) (i w : nat) : option (nat * state) :=
  match pick_from g (fun c => reg_total (r_ps s) (n_reg (nd g c))) (avail_children g s i w) with
  | None => None
  | Some c => Some (c, mkS (ws s) (ns s) (reg_add (r_ps s) (n_reg (nd g c), n_form (nd g i)) w) (r_pc s)
                           (r_ds s) (r_dc s) (pool s) (job s))
  end.

Definition drop_parent (g : graph) (s : state) (child parent w : nat) : state :=
  mkS (ws s) (ns s) (r_ps s) (r_pc s) (reg_add (r_ds s) (n_reg (nd g child), n_form (nd g parent)) w) (r_dc s) (pool s) (job s).
Definition drop_child (g : graph) (s : state) (parent child w : nat) : state :=
  mkS (ws s) (ns s) (r_ps s) (r_pc s) (r_ds s) (reg_add (r_dc s) (n_reg (nd g parent), n_form (nd g child)) w) (pool s) (job s).

(* ---- shared bookkeeping of bridged copies ---- *)
Definition class_of (g : graph) (i : nat) : list nat := i :: n_bridged (nd g i).
Definition opt_list {A} (o : option A) : list A := match o with Some x => [x] | None => [] end.
Fixpoint dedup (l : list nat) : list nat :=
  match l with [] => [] | x :: r => if memn x r then dedup r else x :: dedup r end.
Definition shared_started (g : graph) (s : state) (i : nat) : list nat :=
  dedup (flat_map (fun j => opt_list (started (nst s j))) (class_of g i)).
Definition shared_finished (g : graph) (s : state) (i : nat) : list nat :=
  dedup (flat_map (fun j => opt_list (finished (nst s j))) (class_of g i)).
Definition shared_results (g : graph) (s : state) (i : nat) : list result :=
  flat_map (fun j => results (nst s j)) (class_of g i).
Definition involved (g : graph) (s : state) (i : nat) : list nat :=
  dedup (reg_all_workers (r_ps s) (n_reg (nd g i)) ++ reg_all_workers (r_pc s) (n_reg (nd g i))).

Definition subset (a b : list nat) : bool := forallb (fun x => memn x b) a.
Definition set_eq (a b : list nat) : bool := subset a b && subset b a.

(* is_started / is_finished with their three scopes; threshold None = -1 (all involved) *)
Definition scoped_count (g : graph) (s : state) (i : nat) (who : list nat) (w : nat) (threshold : option nat) : bool :=
  let n := nd g i in
  if n_flat n then false else
  match n_scope n with
  | PerWorker => memn w who
  | PerSwarm =>
      let mine := filter (fun v => Nat.eqb (w_swarm (wk g v)) (w_swarm (wk g w))) who in
      match threshold with
      | None => set_eq mine (filter (fun v => Nat.eqb (w_swarm (wk g v)) (w_swarm (wk g w))) (involved g s i))
      | Some t => t <=? length mine
      end
  | Global =>
      match threshold with
      | None => set_eq who (involved g s i)
      | Some t => t <=? length who
      end
  end.
Definition is_started (g : graph) (s : state) (i w : nat) (t : option nat) : bool :=
  scoped_count g s i (shared_started g s i) w t.
Definition is_finished (g : graph) (s : state) (i w : nat) (t : option nat) : bool :=
  if n_flat (nd g i) then true else scoped_count g s i (shared_finished g s i) w t.

Definition is_occupied (g : graph) (s : state) (i w : nat) : bool :=
  let n := nd g i in
  let m := match mct_now (nst s i) with Some m => m | None => n_tries n end in
  is_started g s i w (Some (Z.to_nat (Z.max m 1))).

(* shared_filtered_results: by the scope string of the given started worker *)
Definition filtered_results_as (g : graph) (s : state) (i : nat) (sw : option nat) : list result :=
  let all := shared_results g s i in
  match sw with
  | None => all
  | Some w =>
      match n_scope (nd g i) with
      | PerWorker => filter (fun r => memn w (n_scope_workers (nd g (r_node r)))) all
      | PerSwarm => filter (fun r => memn (w_swarm (wk g w)) (n_scope_swarms (nd g (r_node r)))) all
      | Global => all
      end
  end.
Definition filtered_results (g : graph) (s : state) (i : nat) : list result :=
  filtered_results_as g s i (started (nst s i)).

(* ---- the state pools as the state-control door sees them ---- *)
Definition pair_eqb (a b : N * N) : bool := N.eqb (fst a) (fst b) && N.eqb (snd a) (snd b).
Definition loc_eqb (a b : option nat) : bool :=
  match a, b with Some x, Some y => Nat.eqb x y | None, None => true | _, _ => false end.
Fixpoint pool_get (p : store) (l : option nat) : list (N * N) :=
  match p with [] => [] | (l', v) :: r => if loc_eqb l' l then v else pool_get r l end.
Fixpoint pool_upd (p : store) (l : option nat) (f : list (N * N) -> list (N * N)) : store :=
  match p with
  | [] => [(l, f [])]
  | (l', v) :: r => if loc_eqb l' l then (l', f v) :: r else (l', v) :: pool_upd r l f
  end.
Definition has_state (p : store) (l : option nat) (x : N * N) : bool := existsb (pair_eqb x) (pool_get p l).
Definition visible (n : node) (p : store) (w : nat) (x : N * N) : bool :=
  (n_own_in_scope n && has_state p (Some w) x) || (n_shared_in_scope n && has_state p None x).

(* scan_states: true = some state is missing (the test should run) *)
Fixpoint scan_list (objs : list nobj) : list (N * N) :=
  match objs with
  | [] => []
  | o :: r => match o_set o with
              | None => scan_list r
              | Some st => if o_perm_install o then [] else (o_id o, st) :: scan_list r
              end
  end.
Definition scan_missing (n : node) (p : store) (w : nat) : bool :=
  negb (forallb (visible n p w) (scan_list (n_objs n))).

(* sync_states: the objects are walked in order; a state marked for removal (unset_mode f.) joins the
   unset request, a reusable one (r.) joins the copy (get) request when pool_filter = copy and ends the
   walk without any request when it is reuse/block; the LAST such object decides which of the two
   requests is sent.  None = ValueError (unknown pool_filter). *)
Fixpoint sync_walk (objs : list nobj) (filter_copy : N) (clean : bool) (unset : bool) (us gs : list (N * N))
  : option (bool * bool * list (N * N) * list (N * N)) :=
  match objs with
  | [] => Some (clean, unset, us, gs)
  | o :: r =>
      match o_set o with
      | None => sync_walk r filter_copy clean unset us gs
      | Some st =>
          if (2 <=? o_unset o)%N then sync_walk r filter_copy clean unset us gs
          else if o_net o then sync_walk r filter_copy clean unset us gs
          else if o_perm_install o then Some (false, unset, us, gs)
          else if negb (o_selected o) then sync_walk r filter_copy clean unset us gs
          else if (o_unset o =? 0)%N then sync_walk r filter_copy true true (us ++ [(o_id o, st)]) gs
          else match filter_copy with
               | 0%N => Some (false, unset, us, gs)
               | 1%N => sync_walk r filter_copy true false us (gs ++ [(o_id o, st)])
               | _ => None
               end
      end
  end.

Definition reversible (n : node) : bool := existsb (fun o => (o_unset o =? 0)%N) (n_objs n).

(* ---- decisions ---- *)
Definition result_statuses (l : list result) : list status := map r_status l.

(* default_run_decision; None = an error (not own / invalid retry settings);
   returns decision, scan event (if a scan was made), new state (rerun switch) *)
Definition run_decision (g : graph) (s : state) (i w : nat) : option (bool * option bool * state) :=
  let n := nd g i in
  if n_root n then Some (false, None, s) else
  if n_dry n then Some (false, None, s) else if n_flat n then Some (false, None, s) else
  if n_cloned n then Some (false, None, s) else
  if negb (own g w i) then None else
  if negb (stateful n) then
    match run_stateless (n_cfg n) (result_statuses (shared_results g s i)) with
    | Some b => Some (b, None, s)
    | None => None
    end
  else
    let fin := is_finished g s i w (Some 1) in
    let scan := if fin then None else Some (scan_missing n (pool s) w) in
    let from_scan := match scan with Some b => b | None => false end in
    (* the "no result and nothing to run" test reads the results as filtered for the CURRENT started
       worker (none after the traversal), should_rerun reads them filtered for started-or-w *)
    let off := rerun_off (nst s i) || ((length (filtered_results g s i) =? 0) && negb from_scan) in
    let s' := set_n s i (fun x => mkN (started x) (finished x) (results x) off (mct_now x) (locs x)) in
    if from_scan then Some (true, scan, s')
    else if off then Some (false, scan, s')
    else
      let sw := match started (nst s i) with Some v => Some v | None => Some w end in
      match should_rerun (n_cfg n) (result_statuses (filtered_results_as g s i sw)) with
      | RTrue => Some (true, scan, s')
      | RFalse => Some (false, scan, s')
      | RErr => None
      end.

(* default_clean_decision; None = error *)
Definition clean_decision (g : graph) (s : state) (i w : nat) : option bool :=
  let n := nd g i in
  if n_dry n then Some false else if n_flat n then Some false else if n_cloned n then Some false else
  if negb (own g w i) then None else
  if negb (reversible n) then Some true else
  let inv := filter (fun v => w_local (wk g w) || memn v (w_swarm_members (wk g w))) (involved g s i) in
  let copy_of v := if own g v i then Some i else find (fun j => own g v j) (n_bridged n) in
  if negb (forallb (fun v => match copy_of v with Some _ => true | None => false end) inv) then None else
  Some (forallb (fun v => match copy_of v with
                          | Some j => cleanup_ready g s j v &&
                                      negb (existsb (fun r => status_eqb (r_status r) SUnknown) (results (nst s j)))
                          | None => false
                          end) inv
        && is_finished g s i w None).

(* pull_locations at traverse time: shared pool plus every worker with a PASS result on the parent *)
Definition result_workers (g : graph) (s : state) (p : nat) : list nat :=
  dedup (flat_map (fun r => match r_status r with
                            | SPass => opt_list (n_first_worker (nd g (r_node r)))
                            | _ => []
                            end) (shared_results g s p)).
(* "setup_location in params[get_location]" is a substring test on the joined string *)
Definition loc_mem (g : graph) (x : N * option nat) (l : list (N * option nat)) : bool :=
  existsb (fun y => N.eqb (fst x) (fst y) &&
                    match snd x, snd y with
                    | None, None => true
                    | Some v, Some u => memn u (w_suffix_of (wk g v))
                    | _, _ => false
                    end) l.
Definition add_locs (g : graph) (old new : list (N * option nat)) : list (N * option nat) :=
  fold_left (fun acc x => if loc_mem g x acc then acc else acc ++ [x]) new old.
Fixpoint assoc_nat {A} (l : list (nat * A)) (k : nat) (d : A) : A :=
  match l with [] => d | (k', v) :: r => if Nat.eqb k' k then v else assoc_nat r k d end.
Definition edge_objects (g : graph) (child parent : nat) : list N := assoc_nat (n_edge_objs (nd g child)) parent [].
Definition pull_locations (g : graph) (s : state) (i : nat) : state :=
  if n_flat (nd g i) then s else
  let new := flat_map (fun p =>
                 flat_map (fun loc => map (fun o => (o, loc)) (edge_objects g i p))
                          (None :: map Some (result_workers g s p)))
               (n_parents (nd g i)) in
  set_n s i (fun x => mkN (started x) (finished x) (results x) (rerun_off x) (mct_now x) (add_locs g (locs x) new)).

(* ---- graph hypotheses of the mutual exclusion theorem (Proofs/TraverseExcl.v), as an executable check: a
        composite node other than the root has one owner; the bridged copies form classes (every member sees the
        same class) that agree on flat/scope; the designated root is marked as root ---- *)
Definition scope_eqb (a b : scope_kind) : bool :=
  match a, b with Global, Global | PerWorker, PerWorker | PerSwarm, PerSwarm => true | _, _ => false end.
Definition gwf_b (g : graph) : bool :=
  forallb (fun i =>
     let n := nd g i in
     (n_flat n || Nat.eqb i (g_root g) || forallb (fun v => forallb (fun w => Nat.eqb v w) (n_owners n)) (n_owners n)) &&
     forallb (fun m => subset (class_of g m) (class_of g i) && subset (class_of g i) (class_of g m) &&
                       Bool.eqb (n_flat (nd g m)) (n_flat n) && scope_eqb (n_scope (nd g m)) (n_scope n)) (class_of g i))
    (seq 0 (length (g_nodes g))) &&
  n_root (nd g (g_root g)).


(* the same without the agreement on the reuse scope (copies of mixed lxc / remote workers under a partial pool_scope
   derive different scopes: the theorem does not cover those graphs) *)
Definition gwf_core_b (g : graph) : bool :=
  forallb (fun i =>
     let n := nd g i in
     (n_flat n || Nat.eqb i (g_root g) || forallb (fun v => forallb (fun w => Nat.eqb v w) (n_owners n)) (n_owners n)) &&
     forallb (fun m => subset (class_of g m) (class_of g i) && subset (class_of g i) (class_of g m) &&
                       Bool.eqb (n_flat (nd g m)) (n_flat n)) (class_of g i))
    (seq 0 (length (g_nodes g))) &&
  n_root (nd g (g_root g)).

(* ---- hypotheses of the single-worker availability theorem (Proofs/TraverseAvail.v) as an executable check: one
        worker, no bridged copies, no state marked for removal, no permanent-object install, own and shared pool in
        scope, forms unique and non-zero, parents inside the graph, retry settings consistent with the node flags ---- *)
Definition simple_b (g : graph) : bool :=
  Nat.eqb (length (g_workers g)) 1 &&
  forallb (fun i =>
     let n := nd g i in
     match n_bridged n with [] => true | _ => false end &&
     forallb (fun o => negb (o_unset o =? 0)%N && negb (o_perm_install o)) (n_objs n) &&
     n_own_in_scope n && n_shared_in_scope n &&
     negb (n_form n =? 0)%N &&
     forallb (fun j => Nat.eqb i j || negb (n_form n =? n_form (nd g j))%N) (seq 0 (length (g_nodes g))) &&
     forallb (fun p => p <? length (g_nodes g)) (n_parents n) &&
     Bool.eqb (dry (n_cfg n)) (n_dry n) && Bool.eqb (flat (n_cfg n)) (n_flat n) && Bool.eqb (cloned (n_cfg n)) (n_cloned n))
    (seq 0 (length (g_nodes g))).

(* ---- the hypotheses of the C02 path theorem (Proofs/TraversePath.v), as a check on exported graphs: edges are
        symmetric, the root has no parents, a node below the root has the root as its only parent, and no parent
        other than the root carries the root's visit registers ---- *)
Definition pwf_b (g : graph) : bool :=
  match n_parents (nd g (g_root g)) with [] => true | _ => false end &&
  forallb (fun i =>
     let n := nd g i in
     forallb (fun a => memn i (n_parents (nd g a))) (n_children n) &&
     forallb (fun a => memn i (n_children (nd g a))) (n_parents n) &&
     (negb (memn (g_root g) (n_parents n)) || match n_parents n with [p] => Nat.eqb p (g_root g) | _ => false end) &&
     forallb (fun p => negb (n_reg (nd g p) =? n_reg (nd g (g_root g)))%N || Nat.eqb p (g_root g)) (n_parents n))
    (seq 0 (length (g_nodes g))).

(* ---- the hypotheses of the C03 "present setup is never executed" theorem (Proofs/TraversePresent.v) on the class of i:
        every member lies in the graph, sees the same class, and is an ordinary (not root / dry / flat / clone source)
        stateful test with the global reuse scope ---- *)
Definition cls_b (g : graph) (i : nat) : bool :=
  forallb (fun j =>
     (j <? length (g_nodes g)) && negb (n_root (nd g j)) && negb (n_dry (nd g j)) && negb (n_flat (nd g j)) &&
     negb (n_cloned (nd g j)) && stateful (nd g j) && scope_eqb (n_scope (nd g j)) Global &&
     set_eq (class_of g j) (class_of g i))
    (class_of g i).
(* ... for every node that is itself such a test *)
Definition cls_all_b (g : graph) : bool :=
  forallb (fun i =>
     let n := nd g i in
     if negb (n_root n) && negb (n_dry n) && negb (n_flat n) && negb (n_cloned n) && stateful n && scope_eqb (n_scope n) Global
     then cls_b g i else true)
    (seq 0 (length (g_nodes g))).

(* ---- the hypotheses of the C02 multi-worker completeness theorem (Proofs/TraverseExitN.v): the retry flags agree with
        the node flags, and the form of an ordinary (composite, not dry, not cloned, not root) test of a worker is non-zero
        and not shared by any other node on which that worker's run decision is defined (its own nodes, and the root, dry,
        flat and clone-source nodes) ---- *)
Definition ewf_b (g : graph) : bool :=
  forallb (fun c' =>
     let n := nd g c' in
     Bool.eqb (dry (n_cfg n)) (n_dry n) && Bool.eqb (flat (n_cfg n)) (n_flat n) && Bool.eqb (cloned (n_cfg n)) (n_cloned n) &&
     (if negb (n_flat n) && negb (n_dry n) && negb (n_cloned n) && negb (n_root n) then
        negb (n_form n =? 0)%N &&
        forallb (fun v =>
           forallb (fun c => negb (n_form (nd g c) =? n_form n)%N ||
                             negb (own g v c || n_root (nd g c) || n_dry (nd g c) || n_flat (nd g c) || n_cloned (nd g c)) ||
                             Nat.eqb c c')
                   (seq 0 (length (g_nodes g))))
          (n_owners n)
      else true))
    (seq 0 (length (g_nodes g))).

(* ---- the hypothesis of the C01 source theorem (Proofs/TraverseSrc.v): the worker a node's results are attributed to (the
        first worker id in its name) is the node's only owner ---- *)
Definition fw_ok_b (g : graph) : bool :=
  forallb (fun n => n_flat n || n_root n ||
                    match n_first_worker n with Some v => forallb (Nat.eqb v) (n_owners n) | None => true end) (g_nodes g).
