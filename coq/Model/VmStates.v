(* M4 — model of QCOW2VTBackend.show (states/qcow2.py), RamfileBackend._show
   (states/ramfile.py) and of the on/off classification of `qemu-img snapshot -l`
   entries.  Definitions only.  State names are opaque numbers. *)
From Coq Require Import List NArith Bool.
Import ListNotations.

Definition sname := N.
Definition mem (s : sname) (l : list sname) : bool := existsb (N.eqb s) l.
Definition inter (a b : list sname) : list sname := filter (fun s => mem s b) a.

(* the per-image lists combined across the vm's images, in image order *)
Definition vm_states (imgs : list (list sname)) : list sname :=
  match imgs with
  | [] => []
  | i :: rest => fold_left inter rest i
  end.

(* ramfile: a memory file "<state>.state" counts when every image has the state *)
Definition ram_states (memfiles : list sname) (imgs : list (list sname)) : list sname :=
  filter (fun s => mem s (vm_states imgs)) memfiles.

(* Behaviour of the pinned commit, kept for the refutation witnesses:
   `states.intersect(...)` on a list raises AttributeError (None), and an empty
   running result is replaced by the next image's list *)
Fixpoint vm_states_pinned_from (states : list sname) (imgs : list (list sname)) : option (list sname) :=
  match imgs with
  | [] => Some states
  | i :: rest => match states with
                 | [] => vm_states_pinned_from i rest
                 | _ => None
                 end
  end.
Definition vm_states_pinned (imgs : list (list sname)) : option (list sname) :=
  vm_states_pinned_from [] imgs.

(* ---- snapshot listing entries ---- *)
Record snap := mkSnap { tag : sname; vmsize_zero : bool }.

(* QEMU_OFF_STATES_REGEX / QEMU_ON_STATES_REGEX applied to a listing *)
Definition off_states (l : list snap) : list sname := map tag (filter vmsize_zero l).
Definition on_states (l : list snap) : list sname := map tag (filter (fun r => negb (vmsize_zero r)) l).
