(* M7 — model of avocado_i2n/states/pool.py : TransferOps (local and link modes) over a small
   file system, and of the image_lock protocol as a transition system over processes.
   Definitions only. *)
From Coq Require Import List NArith Bool Arith.
Import ListNotations.

(* ---- file system: path -> absent | regular file with content | symbolic link ---- *)
Inductive node := Absent | File (content : N) | Link (target : N).
Definition fs := list (N * node).

Fixpoint fget (f : fs) (p : N) : node :=
  match f with
  | [] => Absent
  | (q, n) :: r => if N.eqb q p then n else fget r p
  end.
Fixpoint fset (f : fs) (p : N) (n : node) : fs :=
  match f with
  | [] => [(p, n)]
  | (q, m) :: r => if N.eqb q p then (q, n) :: r else (q, m) :: fset r p n
  end.

Definition islink (f : fs) (p : N) : bool := match fget f p with Link _ => true | _ => false end.
(* what reading the path yields (os.path.exists / hash_file follow one link) *)
Definition content (f : fs) (p : N) : option N :=
  match fget f p with
  | File b => Some b
  | Link t => match fget f t with File b => Some b | _ => None end
  | Absent => None
  end.
Definition exists_ (f : fs) (p : N) : bool := match content f p with Some _ => true | None => false end.

Definition opt_eqb (a b : option N) : bool :=
  match a, b with
  | Some x, Some y => N.eqb x y
  | None, None => true
  | _, _ => false
  end.

(* compare_local: equal hashes, a missing file hashing to the empty string *)
Definition compare_local (f : fs) (c p : N) : bool := opt_eqb (content f c) (content f p).

(* shutil.copy(src, dst): needs src; writes through a link at dst *)
Definition copy (f : fs) (src dst : N) : option fs :=
  match content f src with
  | None => None
  | Some b => Some (match fget f dst with
                    | Link t => fset f t (File b)
                    | _ => fset f dst (File b)
                    end)
  end.

Inductive res := Done (f : fs) | Failed (f : fs).     (* Failed: an exception, file system as left *)
Definition res_fs (r : res) : fs := match r with Done f | Failed f => f end.

Definition download_local (f : fs) (c p : N) : res :=
  if compare_local f c p then Done f
  else match copy f p c with Some f' => Done f' | None => Failed f end.

Definition upload_local (f : fs) (c p : N) : res :=
  if compare_local f c p then Done f
  else match copy f c p with Some f' => Done f' | None => Failed f end.

Definition delete_local (f : fs) (p : N) : res :=
  match fget f p with
  | Absent => Failed f
  | _ => Done (fset f p Absent)
  end.

Definition compare_link (f : fs) (c p : N) : bool :=
  match fget f c with
  | Link t => N.eqb t p
  | _ => compare_local f c p
  end.

Definition download_link (f : fs) (c p : N) : res :=
  if compare_link f c p then Done f
  else match fget f c with
       | File _ => Failed f                       (* actual data must be kept safe *)
       | _ => Done (fset f c (Link p))            (* absent, or a link that is re-pointed *)
       end.

Definition upload_link (f : fs) (c p : N) : res :=
  if islink f c then Failed f else upload_local f c p.

Definition delete_link := delete_local.

(* ---- the lock protocol ----
   Each process runs  acquire (non-blocking attempts, at most `timeout` of them) ; body ; release
   in a `finally`.  The kernel's part -- an attempt succeeds iff nobody holds the lock, and a dying
   holder loses it -- is the definition of TryLock / Crash below (an assumption about fcntl.lockf). *)
Inductive pstate :=
| Idle                       (* before image_lock *)
| Trying (failed : nat)      (* inside the for loop, after `failed` unsuccessful attempts *)
| Inside                     (* lock held, body running *)
| Finished                   (* left the with block (normally or by an exception), lock released *)
| TimedOut                   (* gave up: RuntimeError, never entered *)
| Dead.                      (* process killed *)

Inductive event :=
| Begin (p : nat)            (* enters image_lock *)
| TryLock (p : nat)          (* one lockf(LOCK_EX | LOCK_NB) attempt *)
| Leave (p : nat)            (* body ends, normally or raising: finally -> LOCK_UN *)
| Crash (p : nat).           (* the process dies wherever it is *)

Record sys := mkSys { holder : option nat; st : nat -> pstate; timeout : nat }.

Definition upd (f : nat -> pstate) (p : nat) (s : pstate) : nat -> pstate :=
  fun q => if Nat.eqb q p then s else f q.

Definition is_holder (s : sys) (p : nat) : bool :=
  match holder s with Some q => Nat.eqb q p | None => false end.

Definition lstep (s : sys) (e : event) : option sys :=
  match e with
  | Begin p => match st s p with
               | Idle => Some (mkSys (holder s) (upd (st s) p (if Nat.eqb (timeout s) 0 then TimedOut else Trying 0)) (timeout s))
               | _ => None
               end
  | TryLock p => match st s p with
                 | Trying k =>
                     match holder s with
                     | None => Some (mkSys (Some p) (upd (st s) p Inside) (timeout s))
                     | Some _ => Some (mkSys (holder s)
                                             (upd (st s) p (if Nat.leb (timeout s) (S k) then TimedOut else Trying (S k)))
                                             (timeout s))
                     end
                 | _ => None
                 end
  | Leave p => match st s p with
               | Inside => Some (mkSys None (upd (st s) p Finished) (timeout s))
               | _ => None
               end
  | Crash p => match st s p with
               | Dead => None
               | _ => Some (mkSys (if is_holder s p then None else holder s) (upd (st s) p Dead) (timeout s))
               end
  end.

Fixpoint lrun (s : sys) (evs : list event) : option sys :=
  match evs with
  | [] => Some s
  | e :: r => match lstep s e with Some s' => lrun s' r | None => None end
  end.

Definition init_sys (t : nat) : sys := mkSys None (fun _ => Idle) t.

(* the observable trace of the real processes: acquisitions and releases *)
Inductive obs := OAcq (p : nat) | ORel (p : nat) | OKill (p : nat) | OTimeout (p : nat).

(* accept an observed trace: an acquisition while somebody holds the lock, a release by a
   non-holder, or any action of a dead / timed-out process is rejected *)
Fixpoint accept (h : option nat) (dead out : list nat) (tr : list obs) : bool :=
  match tr with
  | [] => true
  | OAcq p :: r => match h with
                   | None => negb (existsb (Nat.eqb p) dead) && negb (existsb (Nat.eqb p) out) && accept (Some p) dead out r
                   | Some _ => false
                   end
  | ORel p :: r => match h with
                   | Some q => Nat.eqb p q && accept None dead out r
                   | None => false
                   end
  | OKill p :: r => accept (match h with Some q => if Nat.eqb p q then None else h | None => None end) (p :: dead) out r
  | OTimeout p :: r => negb (match h with Some q => Nat.eqb p q | None => false end) && accept h dead (p :: out) r
  end.
