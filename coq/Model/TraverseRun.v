(* M11, second half — the traversal loop of one worker, one atomic section at a time. *)
From Coq Require Import List ZArith NArith Bool Arith PrimFloat.
Import ListNotations.
From I2N Require Import Model.Retry Model.Traverse.
Local Open Scope nat_scope.

Definition set_phase (s : state) (w : nat) (p : phase) : state :=
  set_w s w (fun x => mkW (path x) (occ_at x) (occ_wait x) p).
Definition set_path (s : state) (w : nat) (p : list nat) : state :=
  set_w s w (fun x => mkW p (occ_at x) (occ_wait x) (ph x)).
Definition push (s : state) (w i : nat) : state := set_path s w (i :: path (wst s w)).
Definition pop (s : state) (w : nat) : state := set_path s w (tl (path (wst s w))).

Definition fail (s : state) (w : nat) (code : N) : state * list event :=
  (set_phase s w (Failed code), [EFail w code]).

(* evaluating should_run: events and the (possibly updated) state; None = error *)
Definition eval_run (g : graph) (s : state) (i w : nat) : option (bool * state * list event) :=
  match run_decision g s i w with
  | None => None
  | Some (b, scan, s') =>
      Some (b, s', if n_root (nd g i) then []      (* the root's policy is the constant false *)
                   else (match scan with Some m => [EScan w i m] | None => [] end) ++ [EDecide w i b])
  end.

Definition mark_done (s : state) (i w : nat) : state :=
  set_n s i (fun x => mkN None (Some w) (results x) (rerun_off x) (mct_now x) (locs x)).

(* start an execution of node i by w: uid suffix = number of shared results, placeholder appended *)
Definition start_run (g : graph) (s : state) (i w : nat) : state * list event :=
  let k := length (shared_results g s i) in
  let s1 := set_n s i (fun x => mkN (started x) (finished x) (results x ++ [mkR i SUnknown false])
                                   (rerun_off x) (mct_now x) (locs x)) in
  (s1, [EStart w i k false (locs (nst s i))]).

(* the two-step creation: the pre-step works on a private copy of the node's own results (taken
   before), while a pending placeholder in the node's results makes the creation count as a running
   try for everybody else *)
Definition start_pre (g : graph) (s : state) (i w : nat) : state * list event :=
  let s1 := set_n s i (fun x => mkN (started x) (finished x) (results x ++ [mkR i SUnknown false])
                                   (rerun_off x) (mct_now x) (locs x)) in
  (s1, [EStart w i (length (results (nst s i))) true (locs (nst s i))]).

Fixpoint remove_first_unknown (l : list result) (i : nat) : list result :=
  match l with
  | [] => []
  | r :: t => if status_eqb (r_status r) SUnknown && Nat.eqb (r_node r) i && negb (r_prev r)
              then t else r :: remove_first_unknown t i
  end.
Definition end_pre (s : state) (i : nat) : state :=
  set_n s i (fun x => mkN (started x) (finished x) (remove_first_unknown (results x) i)
                         (rerun_off x) (mct_now x) (locs x)).

(* the uid suffix announced by the last start event of a section *)
Fixpoint start_uid (evs : list event) : nat :=
  match evs with
  | [] => 0
  | EStart _ _ u _ _ :: r => match r with [] => u | _ => start_uid r end
  | _ :: r => start_uid r
  end.

Inductive tn_res :=
| TnAwait (s : state) (evs : list event) (pre : bool)     (* a test was started *)
| TnDone (s : state) (evs : list event)                   (* traversed without running *)
| TnFail (s : state) (evs : list event).

(* traverse_node up to its first await *)
Definition traverse_node (g : graph) (s : state) (i w : nat) : tn_res :=
  if is_occupied g s i w then TnDone s [] else
  let s1 := set_n s i (fun x => mkN (Some w) (finished x) (results x) (rerun_off x) (mct_now x) (locs x)) in
  let s2 := pull_locations g s1 i in
  match eval_run g s2 i w with
  | None => let '(s3, e) := fail s2 w 3 in TnFail s3 e
  | Some (true, s3, evs) =>
      if n_objroot (nd g i) then let '(s4, e) := start_pre g s3 i w in TnAwait s4 (evs ++ e) true
      else let '(s4, e) := start_run g s3 i w in TnAwait s4 (evs ++ e) false
  | Some (false, s3, evs) => TnDone (mark_done s3 i w) evs
  end.

(* a passing test leaves its set states in the worker's own pool *)
Definition produce (g : graph) (s : state) (i w : nat) : state :=
  let sts := flat_map (fun o => match o_set o with Some st => if o_net o then [] else [(o_id o, st)] | None => [] end)
                      (n_objs (nd g i)) in
  mkS (ws s) (ns s) (r_ps s) (r_pc s) (r_ds s) (r_dc s)
      (pool_upd (pool s) (Some w) (fun l => fold_left (fun acc x => if existsb (pair_eqb x) acc then acc else acc ++ [x]) sts l))
      (job s).

Fixpoint replace_first_unknown (l : list result) (i : nat) (st : status) : list result :=
  match l with
  | [] => [mkR i st false]           (* cannot happen: the placeholder was appended at the start *)
  | r :: t => if status_eqb (r_status r) SUnknown && Nat.eqb (r_node r) i && negb (r_prev r)
              then t ++ [mkR i st false]
              else r :: replace_first_unknown t i st
  end.

(* the reported result replaces the placeholder (appended at the end, first placeholder removed) *)
Definition finish_run (g : graph) (s : state) (i w : nat) (out : option status) : state :=
  match out with
  | None => s                                                   (* never reported: placeholder stays *)
  | Some st =>
      let s1 := set_n s i (fun x => mkN (started x) (finished x) (replace_first_unknown (results x) i st)
                                       (rerun_off x) (mct_now x) (locs x)) in
      match st with SPass => produce g s1 i w | _ => s1 end
  end.

(* sync_states through the door: unset removes from the worker's own pool (pool_scope is forced to
   own), get copies from the shared pool into it *)
Definition door_effect (s : state) (w : nat) (unset : bool) (sts : list (N * N)) : state :=
  mkS (ws s) (ns s) (r_ps s) (r_pc s) (r_ds s) (r_dc s)
      (if unset then pool_upd (pool s) (Some w) (fun l => filter (fun x => negb (existsb (pair_eqb x) sts)) l)
       else pool_upd (pool s) (Some w)
              (fun l => fold_left (fun acc x => if has_state (pool s) None x && negb (existsb (pair_eqb x) acc)
                                                then acc ++ [x] else acc) sts l))
      (job s).

Definition reverse_node (g : graph) (s : state) (i w : nat) : option (state * list event) :=
  if is_occupied g s i w then Some (s, []) else
  let s1 := set_n s i (fun x => mkN (Some w) (finished x) (results x) (rerun_off x) (mct_now x) (locs x)) in
  let unmark st := set_n st i (fun x => mkN None (finished x) (results x) (rerun_off x) (mct_now x) (locs x)) in
  match clean_decision g s1 i w with
  | None => None
  | Some false => Some (unmark s1, [EClean w i false])
  | Some true =>
      if stateful (nd g i) then
        match sync_walk (n_objs (nd g i)) (n_filter_copy (nd g i)) false false [] [] with
        | None => None
        | Some (true, unset, us, gs) =>
            let sts := if unset then us else gs in
            Some (unmark (door_effect s1 w unset sts), [EClean w i true; EDoor w i unset sts])
        | Some (false, _, _, _) => Some (unmark s1, [EClean w i true])
        end
      else Some (unmark s1, [EClean w i true])
  end.

(* R3: the node is occupied; back off *)
Definition bounce (g : graph) (s : state) (w next : nat) : state * list event :=
  let n := nd g next in
  let W := wst s w in
  let dt := n_dtz n in
  let seen := memn next (occ_at W) in
  let bump := seen && PrimFloat.ltb (n_budget n) (occ_wait W) in
  let s1 := if bump then set_n s next (fun x => mkN (started x) (finished x) (results x) (rerun_off x)
                                              (Some ((match mct_now x with Some m => m | None => 0 end) + 1)%Z) (locs x))
            else s in
  let wait := if seen then PrimFloat.add (occ_wait W) (n_dt n) else PrimFloat.zero in
  let s2 := set_w s1 w (fun x => mkW [g_root g] (if seen then occ_at x else next :: occ_at x) wait Sleeping) in
  (s2, [EBounce w next dt bump]).

Inductive it_res :=
| Cont (s : state) (evs : list event)       (* next loop iteration *)
| Halt (s : state) (evs : list event).      (* the atomic section ends (await, exit, failure) *)

(* what follows traverse_node in branch R4a (came up from a child) *)
Definition after_from_child (g : graph) (s : state) (w next previous : nat) : it_res :=
  match eval_run g s next w with
  | None => let '(s1, e) := fail s w 3 in Halt s1 e
  | Some (b, s1, evs) =>
      let s2 := if b then s1 else drop_parent g s1 previous next w in
      Cont (pop s2 w) (evs ++ if b then [] else [EDropParent w previous next])
  end.

(* ... and in branch R5b (came down from a parent) *)
Definition after_from_parent (g : graph) (s : state) (w next : nat) : it_res :=
  match eval_run g s next w with
  | None => let '(s1, e) := fail s w 3 in Halt s1 e
  | Some (true, s1, evs) => Cont (pop s1 w) evs
  | Some (false, s1, evs) =>
      if cleanup_ready g s1 next w then
        let s2 := fold_left (fun st p => drop_child g st p next w) (n_parents (nd g next)) s1 in
        match reverse_node g s2 next w with
        | None => let '(s3, e) := fail s2 w 5 in Halt s3 (evs ++ [EDropChildren w next] ++ e)
        | Some (s3, e) => Cont (pop s3 w) (evs ++ [EDropChildren w next] ++ e)
        end
      else
        match pick_child g s1 next w with
        | None => let '(s2, e) := fail s1 w 1 in Halt s2 (evs ++ e)
        | Some (c, s2) => Cont (push s2 w c) (evs ++ [EPick w next c true])
        end
  end.

Definition do_traverse (g : graph) (s : state) (w next : nat) (from_child : bool) (previous : nat) : it_res :=
  match traverse_node g s next w with
  | TnFail s1 e => Halt s1 e
  | TnAwait s1 e pre => Halt (set_phase s1 w (Running next pre from_child (start_uid e))) e
  | TnDone s1 e =>
      match (if from_child then after_from_child g s1 w next previous else after_from_parent g s1 w next) with
      | Cont s2 e2 => Cont s2 (e ++ e2)
      | Halt s2 e2 => Halt s2 (e ++ e2)
      end
  end.

(* one iteration of `while not root.is_cleanup_ready(worker)` *)
Definition iter (g : graph) (s : state) (w : nat) : it_res :=
  if cleanup_ready g s (g_root g) w then
    match path (wst s w) with
    | [r] => if Nat.eqb r (g_root g) then Halt (set_w s w (fun x => mkW [] (occ_at x) (occ_wait x) Exited)) [EExit w]
             else let '(s1, e) := fail s w 4 in Halt s1 e
    | _ => let '(s1, e) := fail s w 4 in Halt s1 e
    end
  else
  match path (wst s w) with
  | [] => let '(s1, e) := fail s w 4 in Halt s1 e
  | [next] =>
      match pick_child g s next w with
      | None => let '(s1, e) := fail s w 1 in Halt s1 e
      | Some (c, s1) => Cont (push s1 w c) [EPick w next c true]
      end
  | next :: previous :: _ =>
      if is_occupied g s next w then let '(s1, e) := bounce g s w next in Halt s1 e
      else if memn previous (n_children (nd g next)) then
        if setup_ready g s next w then do_traverse g s w next true previous
        else match pick_parent g s next w with
             | None => let '(s1, e) := fail s w 1 in Halt s1 e
             | Some (p, s1) => Cont (push s1 w p) [EPick w next p false]
             end
      else if memn previous (n_parents (nd g next)) then
        if negb (setup_ready g s next w) then
          match pick_parent g s next w with
          | None => let '(s1, e) := fail s w 1 in Halt s1 e
          | Some (p, s1) => Cont (push s1 w p) [EPick w next p false]
          end
        else do_traverse g s w next false previous
      else let '(s1, e) := fail s w 2 in Halt s1 e
  end.

Fixpoint run_loop (fuel : nat) (g : graph) (s : state) (w : nat) : state * list event :=
  match fuel with
  | O => fail s w 6
  | S f => match iter g s w with
           | Halt s1 e => (s1, e)
           | Cont s1 e => let '(s2, e2) := run_loop f g s1 w in (s2, e ++ e2)
           end
  end.

Definition FUEL := 5000.

(* resume worker w; `out` is the status of the test it was awaiting (None: never reported) *)
Definition resume (g : graph) (s : state) (w : nat) (out : option status) : state * list event :=
  match ph (wst s w) with
  | Exited | Failed _ => (s, [])
  | Ready | Sleeping => run_loop FUEL g (set_phase s w Ready) w
  | Running next pre from_child uid =>
      let previous := hd 0 (tl (path (wst s w))) in
      (* the task reports (or never does); run_test_node then reads the FIRST result of the job
         carrying this test's name and uid *)
      let key := (next, pre, uid) in
      let s := mkS (ws s) (ns s) (r_ps s) (r_pc s) (r_ds s) (r_dc s) (pool s)
                   (match out with Some st => job s ++ [(key, st)] | None => job s end) in
      let seen := match find (fun e => jobkey_eqb (fst e) key) (job s) with Some e => Some (snd e) | None => None end in
      let ok := run_ok seen in
      if pre then
        let s := end_pre s next in
        if ok then
          (* the creation pre-step passed: the installation itself starts in the same section *)
          let '(s1, e) := start_run g s next w in (set_phase s1 w (Running next false from_child (start_uid e)), e)
        else
          (* a failed creation pre-step is recorded as a failed try of the node (its result, or the
             pending placeholder when it was never reported) *)
          let st := match seen with Some st => st | None => SUnknown end in
          let s0 := set_n s next (fun x => mkN (started x) (finished x) (results x ++ [mkR next st false])
                                              (rerun_off x) (mct_now x) (locs x)) in
          let s1 := set_phase (mark_done s0 next w) w Ready in
          match (if from_child then after_from_child g s1 w next previous else after_from_parent g s1 w next) with
          | Halt s2 e => (s2, e)
          | Cont s2 e => let '(s3, e3) := run_loop FUEL g s2 w in (s3, e ++ e3)
          end
      else
        let s1 := set_phase (mark_done (finish_run g s next w seen) next w) w Ready in
        match (if from_child then after_from_child g s1 w next previous else after_from_parent g s1 w next) with
        | Halt s2 e => (s2, e)
        | Cont s2 e => let '(s3, e3) := run_loop FUEL g s2 w in (s3, e ++ e3)
        end
  end.

Definition init_state (g : graph) (p : store) : state :=
  mkS (map (fun _ => mkW [g_root g] [] PrimFloat.zero Ready) (g_workers g))
      (map (fun n => mkN None None [] false (n_mct n) []) (g_nodes g))
      [] [] [] [] p [].

(* a schedule: which worker is resumed and what the test it awaited reported *)
Fixpoint run_schedule (g : graph) (s : state) (sched : list (nat * option status)) : state * list (list event) :=
  match sched with
  | [] => (s, [])
  | (w, out) :: r =>
      let '(s1, e) := resume g s w out in
      let '(s2, es) := run_schedule g s1 r in (s2, e :: es)
  end.
