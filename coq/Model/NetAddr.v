(* M2 — address arithmetic of avocado_i2n/vmnet/netconfig.py (definitions only).
   IPv4 addresses and netmasks are numbers below 2^32; the dotted strings exist
   only in the harness (which feeds the real code with strings). *)
From Coq Require Import List NArith ZArith Bool.
Import ListNotations.
Local Open Scope N_scope.

Definition two32 : N := 4294967296.

(* ipaddress: netmask of a /b network *)
Definition mask_of_prefix (b : N) : N := two32 - 2 ^ (32 - b).

(* VMNetconfig.mask_bit getter: the 32-character binary string of the netmask,
   trailing "0"s stripped, its length *)
Fixpoint trailing_zeros (fuel : nat) (m : N) : N :=
  match fuel with
  | O => 0
  | S f => if N.even m then 1 + trailing_zeros f (m / 2) else 0
  end.

Definition prefix_of_mask (m : N) : N :=
  if m =? 0 then 0 else 32 - trailing_zeros 32 m.

(* _get_network_ip: ip_interface("ip/bits").network.network_address *)
Definition network_of (ip bits : N) : N := ip - ip mod 2 ^ (32 - bits).

Definition in_network (ip net bits : N) : bool := network_of ip bits =? net.

(* the DHCP range: dict offset -> taken, in insertion (= ascending) order *)
Definition range := list (N * bool).

Fixpoint nseq (lo : N) (n : nat) : list N :=
  match n with O => [] | S n' => lo :: nseq (lo + 1) n' end.

(* from_interface: {i: False for i in range(lo, hi + 1)} *)
Definition mk_range (lo hi : N) : range :=
  map (fun i => (i, false)) (nseq lo (N.to_nat (hi + 1 - lo))).

(* get_allocatable_address without the final address conversion *)
Fixpoint alloc (r : range) : option (N * range) :=
  match r with
  | [] => None
  | (k, false) :: r' => Some (k, (k, true) :: r')
  | (k, true) :: r' =>
      match alloc r' with
      | Some (v, r'') => Some (v, (k, true) :: r'')
      | None => None
      end
  end.

Inductive aerr := Exhausted | AddressValue.

(* get_allocatable_address: IndexError when exhausted; IPv4Address(net + offset)
   raises AddressValueError outside the IPv4 space *)
Definition allocate (net : N) (r : range) : (N + aerr) * range :=
  match alloc r with
  | None => (inr Exhausted, r)
  | Some (v, r') => if net + v <? two32 then (inl (net + v), r') else (inr AddressValue, r')
  end.

(* translate_address: (ip - net_ip) + network(nat_ip/bits); Python ints, so the
   host part may be negative; IPv4Address rejects results outside [0, 2^32) *)
Definition translate (ip net_ip nat_ip bits : N) : option Z :=
  let t := (Z.of_N ip - Z.of_N net_ip + Z.of_N (network_of nat_ip bits))%Z in
  if ((0 <=? t) && (t <? Z.of_N two32))%Z then Some t else None.
