(* Pointer model of TestNode.bridge_with_node: each node holds a reference to its (four) visit
   registers; bridging a with b records the link on both sides and makes a point to b's registers. *)
From Coq Require Import List Arith Bool.
Import ListNotations.

Record bstate := mkB { refs : nat -> nat; links : nat -> list nat }.
Definition memn (x : nat) (l : list nat) : bool := existsb (Nat.eqb x) l.
Definition binit : bstate := mkB (fun n => n) (fun _ => []).

Definition bridge (s : bstate) (a b : nat) : bstate :=
  if Nat.eqb a b then s
  else if memn b (links s a) then s
  else mkB (fun n => if Nat.eqb n a then refs s b else refs s n)
           (fun n => if Nat.eqb n a then links s a ++ [b]
                     else if Nat.eqb n b then links s b ++ [a] else links s n).

(* the parser: a freshly parsed node is bridged with every already parsed node of its form *)
Definition join (s : bstate) (n : nat) (cls : list nat) : bstate := fold_left (fun st m => bridge st n m) cls s.

(* the update tool: all ordered pairs *)
Definition all_pairs (s : bstate) (nodes : list nat) : bstate :=
  fold_left (fun st a => fold_left (fun st' b => bridge st' a b) nodes st) nodes s.
