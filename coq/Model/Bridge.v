(* Pointer model of TestNode.bridge_with_node: each node holds a reference to its (four) visit
   registers.  Bridging a with b records the link on both sides; a node that is not bridged yet
   adopts b's registers, a node that already is bridged keeps its registers and b - together with
   everything b is bridged with - adopts them. *)
From Coq Require Import List Arith Bool.
Import ListNotations.

Record bstate := mkB { refs : nat -> nat; links : nat -> list nat }.
Definition memn (x : nat) (l : list nat) : bool := existsb (Nat.eqb x) l.
Definition binit : bstate := mkB (fun n => n) (fun _ => []).

Definition bridge (s : bstate) (a b : nat) : bstate :=
  if Nat.eqb a b then s
  else if memn b (links s a) then s
  else
    let new_links := fun n => if Nat.eqb n a then links s a ++ [b]
                              else if Nat.eqb n b then links s b ++ [a] else links s n in
    match links s a with
    | [] => mkB (fun n => if Nat.eqb n a then refs s b else refs s n) new_links
    | _ => mkB (fun n => if Nat.eqb n b || memn n (links s b) then refs s a else refs s n) new_links
    end.

(* the parser: a freshly parsed node is bridged with every already parsed node of its form *)
Definition join (s : bstate) (n : nat) (cls : list nat) : bstate := fold_left (fun st m => bridge st n m) cls s.

(* the update tool: all ordered pairs *)
Definition all_pairs (s : bstate) (nodes : list nat) : bstate :=
  fold_left (fun st a => fold_left (fun st' b => bridge st' a b) nodes st) nodes s.

(* the behaviour before the repair (fix: see known_findings.json): the bridging node always adopted *)
Definition bridge_old (s : bstate) (a b : nat) : bstate :=
  if Nat.eqb a b then s
  else if memn b (links s a) then s
  else mkB (fun n => if Nat.eqb n a then refs s b else refs s n)
           (fun n => if Nat.eqb n a then links s a ++ [b]
                     else if Nat.eqb n b then links s b ++ [a] else links s n).
