(* M10 — parsed dependency graphs as data, and executable well-formedness checkers whose
   soundness is proved in Proofs/GraphProofs.v.  The graphs checked are the ones the real parser
   produces (exported by the harness); the checkers are the specification side of C06/C07/C09.
   Definitions only. *)
From Coq Require Import List NArith Bool Arith.
Import ListNotations.

Record gobj := mkGObj {
  go_id : N;                (* object identity: type + long suffix *)
  go_net : bool;
  go_get : option N;        (* state the test starts from (root-like states excluded) *)
  go_set : option N;        (* state the test produces *)
  go_given : bool           (* permanent object: its states are provided externally *)
}.

Record gnode := mkGNode {
  gn_id : N;                (* node identity (prefix + name) *)
  gn_name : N;              (* full name (with worker) *)
  gn_form : N;              (* worker-invariant form *)
  gn_worker : option N;     (* the net it was parsed for; None for flat nodes *)
  gn_flat : bool; gn_root : bool;
  gn_objroot : option N;    (* object this node creates *)
  gn_clones : list nat;     (* clone source: its clones *)
  gn_objs : list gobj;
  gn_param_vms : list N; gn_attr_vms : list N;       (* vms named by the parameters / attached as objects *)
  gn_parents : list (nat * list N);                  (* parent index, objects the dependency is based on *)
  gn_children : list (nat * list N);
  gn_bridged : list nat;
  gn_reg : N;               (* identity of the shared visit registers *)
  gn_excl : list N          (* workers whose restrictions exclude one of this node's vm variants *)
}.

Definition pgraph := list gnode.
Definition dummy : gnode := mkGNode 0 0 0 None true false None [] [] [] [] [] [] [] 0 [].
Definition gnd (g : pgraph) (i : nat) : gnode := nth i g dummy.
Definition idxs (g : pgraph) : list nat := seq 0 (length g).

Definition memn (x : nat) (l : list nat) : bool := existsb (Nat.eqb x) l.
Definition memN (x : N) (l : list N) : bool := existsb (N.eqb x) l.
Definition subsetN (a b : list N) : bool := forallb (fun x => memN x b) a.
Definition seteqN (a b : list N) : bool := subsetN a b && subsetN b a.

(* ---- acyclicity by a rank certificate: every edge goes to a strictly larger rank ---- *)
Definition rank (r : list nat) (i : nat) : nat := nth i r 0.
Definition ranks_ok (g : pgraph) (r : list nat) : bool :=
  forallb (fun c => forallb (fun e => (fst e <? length g) && (rank r (fst e) <? rank r c)) (gn_parents (gnd g c))) (idxs g).

(* ---- exactly one starting node; every other node hangs under some parent ---- *)
Definition roots (g : pgraph) : list nat := filter (fun i => gn_root (gnd g i)) (idxs g).
Definition one_root (g : pgraph) : bool :=
  match roots g with
  | [r] => match gn_parents (gnd g r) with [] => true | _ => false end &&
           forallb (fun i => Nat.eqb i r || match gn_parents (gnd g i) with [] => false | _ => true end) (idxs g)
  | _ => false
  end.

(* ---- every dependency is recorded on both of its ends, with the same objects ---- *)
Definition has_edge (l : list (nat * list N)) (j : nat) (objs : list N) : bool :=
  existsb (fun e => Nat.eqb (fst e) j && seteqN (snd e) objs) l.
Definition edge_sym (g : pgraph) : bool :=
  forallb (fun c => forallb (fun e => has_edge (gn_children (gnd g (fst e))) c (snd e)) (gn_parents (gnd g c)) &&
                    forallb (fun e => has_edge (gn_parents (gnd g (fst e))) c (snd e)) (gn_children (gnd g c)))
          (idxs g).

(* ---- no two nodes with the same identity ---- *)
Fixpoint nodupN (l : list N) : bool :=
  match l with [] => true | x :: r => negb (memN x r) && nodupN r end.
Definition nodup_ids (g : pgraph) : bool := nodupN (map gn_id g).
Definition nodup_names (g : pgraph) : bool := nodupN (map gn_name (filter (fun n => negb (gn_flat n)) g)).

(* ---- producers: for each required state exactly one parent, of the same worker, based on that
        object and producing exactly that state; and no dependency without such a requirement ---- *)
Definition sets_state (n : gnode) (o st : N) : bool :=
  existsb (fun x => N.eqb (go_id x) o && match go_set x with Some s => N.eqb s st | None => false end) (gn_objs n).
Definition opt_eqN (a b : option N) : bool :=
  match a, b with Some x, Some y => N.eqb x y | None, None => true | _, _ => false end.

Definition producers (g : pgraph) (c : nat) (o st : N) : list nat :=
  map fst (filter (fun e => memN o (snd e) && sets_state (gnd g (fst e)) o st &&
                            opt_eqN (gn_worker (gnd g (fst e))) (gn_worker (gnd g c)))
                  (gn_parents (gnd g c))).

Definition node_producers_ok (g : pgraph) (c : nat) : bool :=
  let n := gnd g c in
  gn_flat n || match gn_clones n with [] => false | _ => true end ||      (* clone sources are inert *)
  (* none missing, none duplicated *)
  (forallb (fun o => match go_get o with
                     | Some st => go_net o || go_given o || Nat.eqb (length (producers g c (go_id o) st)) 1
                     | None => true
                     end) (gn_objs n) &&
   (* none spurious: every dependency object is required in exactly the state the parent produces,
      or the parent is the shared root and the node creates that object *)
   forallb (fun e =>
     let p := gnd g (fst e) in
     if gn_root p then match gn_objroot n with Some o => seteqN (snd e) [o] | None => false end
     else if gn_flat p then true
     else forallb (fun o => existsb (fun x => N.eqb (go_id x) o &&
                                              match go_get x with Some st => sets_state p o st | None => false end)
                                    (gn_objs n)) (snd e) &&
          opt_eqN (gn_worker p) (gn_worker n))
     (gn_parents n)).
Definition producers_ok (g : pgraph) : bool := forallb (node_producers_ok g) (idxs g).

(* ---- one network object first, and exactly the vms the parameters name ---- *)
Definition one_net (n : gnode) : bool :=
  gn_flat n ||
  (Nat.eqb (length (filter go_net (gn_objs n))) 1 &&
   match gn_objs n with o :: _ => go_net o | [] => false end &&
   seteqN (gn_param_vms n) (gn_attr_vms n)).
Definition nets_ok (g : pgraph) : bool := forallb one_net g.

(* ---- clones: a source is cloned once per producer of the multi-producer dependency, the
        branches use different states, and a source keeps no runnable dependants ---- *)
Definition clone_states (g : pgraph) (c : nat) : list N :=
  flat_map (fun o => match go_get o with Some s => [s] | None => [] end) (gn_objs (gnd g c)).
Definition clones_ok (g : pgraph) : bool :=
  forallb (fun i => let n := gnd g i in
     match gn_clones n with
     | [] => true
     | cl => (* the only dependants a source keeps are sources themselves (the real dependants hang under the clones) *)
             forallb (fun e => match gn_clones (gnd g (fst e)) with [] => false | _ => true end) (gn_children n) &&
             forallb (fun c => c <? length g) cl &&
             nodupN (map (fun c => gn_name (gnd g c)) cl) &&
             (* pairwise different sets of required states *)
             forallb (fun c1 => forallb (fun c2 => Nat.eqb c1 c2 ||
                                  negb (seteqN (clone_states g c1) (clone_states g c2))) cl) cl
     end) (idxs g).

Definition wf_graph (g : pgraph) (r : list nat) : bool :=
  ranks_ok g r && one_root g && edge_sym g && nodup_ids g && producers_ok g && nets_ok g && clones_ok g.

(* ---- C09: per-worker copies ---- *)
(* bridging is symmetric, links nodes of equal worker-invariant form (of other workers, and of the
   same worker when one test is selected through two test sets), and the linked nodes share their
   visit registers *)
Definition bridges_ok (g : pgraph) : bool :=
  forallb (fun i => let n := gnd g i in
     forallb (fun j => (j <? length g) && negb (Nat.eqb i j) && memn i (gn_bridged (gnd g j)) &&
                       N.eqb (gn_form (gnd g j)) (gn_form n) &&
                       N.eqb (gn_reg (gnd g j)) (gn_reg n)) (gn_bridged n)) (idxs g).
(* every two composite nodes of equal form and different workers are bridged *)
Definition bridges_complete (g : pgraph) : bool :=
  forallb (fun i => forallb (fun j =>
     Nat.eqb i j || gn_flat (gnd g i) || gn_flat (gnd g j) ||
     negb (N.eqb (gn_form (gnd g i)) (gn_form (gnd g j))) ||
     opt_eqN (gn_worker (gnd g i)) (gn_worker (gnd g j)) || memn j (gn_bridged (gnd g i))) (idxs g)) (idxs g).

(* the copy of worker w2 mirrors the copy of worker w1: every node of w1 has a mirror node for w2 - unless w2's
   restrictions exclude one of its vm variants - and every dependency of a mirrored node has its mirror image between
   the mirror nodes (a parent that w2 excludes cannot have a mirrored child) *)
Definition worker_nodes (g : pgraph) (w : N) : list nat :=
  filter (fun i => opt_eqN (gn_worker (gnd g i)) (Some w)) (idxs g).
Definition mirror (g : pgraph) (w2 : N) (i : nat) : option nat :=
  find (fun j => opt_eqN (gn_worker (gnd g j)) (Some w2)) (gn_bridged (gnd g i)).
Definition node_mirrored (g : pgraph) (w2 : N) (i : nat) : bool :=
  match mirror g w2 i with
  | None => memN w2 (gn_excl (gnd g i))
  | Some j =>
      negb (memN w2 (gn_excl (gnd g i))) &&
      forallb (fun e => gn_root (gnd g (fst e)) ||
                        match mirror g w2 (fst e) with
                        | Some pj => memn pj (map fst (gn_parents (gnd g j)))
                        | None => false
                        end) (gn_parents (gnd g i)) &&
      Nat.eqb (length (gn_parents (gnd g i))) (length (gn_parents (gnd g j)))
  end.
Definition copies_equiv (g : pgraph) (w1 w2 : N) : bool := forallb (node_mirrored g w2) (worker_nodes g w1).
