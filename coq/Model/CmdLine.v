(* M9 — model of avocado_i2n/cmd_parser.py : params_from_cmd (tokenizing loop),
   full_vm_params_and_strs, full_tests_params_and_str.  Definitions only.

   Arguments are strings.  What the Cartesian configuration contributes is data of the
   environment: the available vms and primary restrictions, the configured defaults, and the
   answers of all_suffixes_by_restriction for the net restrictions that occur (an oracle). *)
From Coq Require Import String Ascii List Bool Arith.
Import ListNotations.
Open Scope string_scope.

(* ---- the argument regex: a non-empty run of word characters, an equals sign, the rest of the line ---- *)
Definition is_word (c : ascii) : bool :=
  let n := nat_of_ascii c in
  (((48 <=? n) && (n <=? 57)) || ((65 <=? n) && (n <=? 90)) || ((97 <=? n) && (n <=? 122)) || (n =? 95))%nat.

Fixpoint take_word (s : string) : string * string :=
  match s with
  | String c r => if is_word c then let '(w, rest) := take_word r in (String c w, rest) else ("", s)
  | EmptyString => ("", "")
  end.

Definition newline : ascii := ascii_of_nat 10.
Fixpoint until_newline (s : string) : string :=
  match s with
  | String c r => if Ascii.eqb c newline then "" else String c (until_newline r)
  | EmptyString => ""
  end.

Definition split_arg (s : string) : option (string * string) :=
  match take_word s with
  | (EmptyString, _) => None
  | (k, String c v) => if Ascii.eqb c "=" then Some (k, until_newline v) else None
  | (_, EmptyString) => None
  end.

(* ---- small string utilities ---- *)
Fixpoint map_chars (f : ascii -> ascii) (s : string) : string :=
  match s with String c r => String (f c) (map_chars f r) | EmptyString => "" end.
Definition commas_to_spaces (s : string) : string :=
  map_chars (fun c => if Ascii.eqb c "," then " "%char else c) s.

(* split at every character satisfying p (empty pieces kept, like re.split / str.split(",")) *)
Fixpoint split_at (p : ascii -> bool) (s : string) (cur : string) : list string :=
  match s with
  | EmptyString => [cur]
  | String c r => if p c then cur :: split_at p r "" else split_at p r (cur ++ String c "")
  end.
Definition split_variants (v : string) : list string :=
  split_at (fun c => Ascii.eqb c "," || Ascii.eqb c ".") v "".
Definition split_commas (v : string) : list string := split_at (fun c => Ascii.eqb c ",") v "".

Definition mem (x : string) (l : list string) : bool := existsb (String.eqb x) l.

Fixpoint lookup {A} (l : list (string * A)) (k : string) : option A :=
  match l with
  | [] => None
  | (k', v) :: r => if String.eqb k' k then Some v else lookup r k
  end.
(* Python dict assignment: keeps the position of an existing key *)
Fixpoint dset {A} (l : list (string * A)) (k : string) (v : A) : list (string * A) :=
  match l with
  | [] => [(k, v)]
  | (k', v') :: r => if String.eqb k' k then (k', v) :: r else (k', v') :: dset r k v
  end.

Definition join_spaces (l : list string) : string := String.concat " " l.

(* ---- environment and accumulator ---- *)
Record env := mkEnv {
  avail_vms : list string;
  avail_restr : list string;
  nets_oracle : list (string * option string);    (* nets_str -> suffixes joined, None = raises *)
  vm_defaults : list (string * string);           (* configured default_only_<vm> *)
  tests_default : option string                   (* configured default_only *)
}.

Record acc := mkAcc {
  tests_str : string;
  nets_str : string;
  vm_strs : list (string * string);
  pdict : list (string * string);
  tests_def : bool;
  vms_def : list (string * bool);
  selected : list string;
  explicit_nets : bool
}.

Definition init (e : env) : acc :=
  mkAcc "" "" (map (fun v => (v, "")) (avail_vms e)) [] true
        (map (fun v => (v, true)) (avail_vms e)) (avail_vms e) false.

Definition nl : string := String newline "".
Definition line (k v : string) : string := k ++ " " ++ v ++ nl.

Definition starts (p s : string) : bool := String.prefix p s.

(* which vm an only_<vm> / no_<vm> key names (first in the available order) *)
Definition vm_of_key (e : env) (key : string) : option (string * string) :=
  match find (fun v => String.eqb key ("only_" ++ v) || String.eqb key ("no_" ++ v)) (avail_vms e) with
  | Some v => Some (v, if String.eqb key ("only_" ++ v) then "only" else "no")
  | None => None
  end.

Inductive outcome (A : Type) := Ok (a : A) | ValueErr | OtherErr.
Arguments Ok {A} _.
Arguments ValueErr {A}.
Arguments OtherErr {A}.

Definition step (e : env) (a : acc) (arg : string) : outcome acc :=
  match split_arg arg with
  | None => ValueErr
  | Some (key, value) =>
      if String.eqb key "only" || String.eqb key "no" then
        let primary := existsb (fun v => mem v (avail_restr e)) (split_variants value) in
        Ok (mkAcc (tests_str a ++ line key value) (nets_str a) (vm_strs a) (pdict a)
                  (tests_def a && negb primary) (vms_def a) (selected a) (explicit_nets a))
      else if starts "only_" key || starts "no_" key then
        if String.eqb key "only_nets" || String.eqb key "no_nets" then
          if explicit_nets a then ValueErr else
          let ns := if String.eqb value "" then "" else line (if String.eqb key "only_nets" then "only" else "no") value in
          match lookup (nets_oracle e) ns with
          | Some (Some suffixes) =>
              Ok (mkAcc (tests_str a) ns (vm_strs a) (dset (pdict a) "nets" suffixes)
                        (tests_def a) (vms_def a) (selected a) (explicit_nets a))
          | _ => OtherErr
          end
        else
          match vm_of_key e key with
          | None => ValueErr
          | Some (vm, word) =>
              let add := if String.eqb value "" then "" else line word value in
              let old := match lookup (vm_strs a) vm with Some s => s | None => "" end in
              Ok (mkAcc (tests_str a) (nets_str a) (dset (vm_strs a) vm (old ++ add)) (pdict a)
                        (tests_def a) (dset (vms_def a) vm false) (selected a) (explicit_nets a))
          end
      else if String.eqb key "vms" then
        let sel := split_commas value in
        if forallb (fun v => mem v (avail_vms e)) sel then
          Ok (mkAcc (tests_str a) (nets_str a) (vm_strs a) (pdict a) (tests_def a) (vms_def a) sel (explicit_nets a))
        else ValueErr
      else if String.eqb key "nets" then
        if negb (String.eqb (nets_str a) "") then ValueErr else
        Ok (mkAcc (tests_str a) (nets_str a) (vm_strs a) (dset (pdict a) "nets" (commas_to_spaces value))
                  (tests_def a) (vms_def a) (selected a) true)
      else
        Ok (mkAcc (tests_str a) (nets_str a) (vm_strs a) (dset (pdict a) key (commas_to_spaces value))
                  (tests_def a) (vms_def a) (selected a) (explicit_nets a))
  end.

Fixpoint loop (e : env) (a : acc) (args : list string) : outcome acc :=
  match args with
  | [] => Ok a
  | x :: r => match step e a x with
              | Ok a' => loop e a' r
              | ValueErr => ValueErr
              | OtherErr => OtherErr
              end
  end.

Record result := mkRes {
  r_tests_str : string;
  r_vm_strs : list (string * string);       (* selected vms only, in the available order *)
  r_pdict : list (string * string);
  r_vms : string
}.

(* a parameter given on the command line overrides the configured one *)
Definition cfg_get (a : acc) (cfg : option string) (k : string) : option string :=
  match lookup (pdict a) k with Some v => Some v | None => cfg end.

Definition finish (e : env) (a : acc) : outcome result :=
  let full_vm := map (fun v =>
      let s := match lookup (vm_strs a) v with Some s => s | None => "" end in
      let use_default := match lookup (vms_def a) v with Some b => b | None => true end in
      (v, if use_default then
            match cfg_get a (lookup (vm_defaults e) v) ("default_only_" ++ v) with
            | Some d => if String.eqb d "" then s else s ++ line "only" d
            | None => s
            end
          else s)) (avail_vms e) in
  let sel_vm := filter (fun p => mem (fst p) (selected a)) full_vm in
  if tests_def a then
    let d := match cfg_get a (tests_default e) "default_only" with Some d => d | None => "all" end in
    if mem d (avail_restr e) then
      Ok (mkRes (tests_str a ++ line "only" d) sel_vm (pdict a) (join_spaces (selected a)))
    else ValueErr
  else Ok (mkRes (tests_str a) sel_vm (pdict a) (join_spaces (selected a))).

Definition params_from_cmd (e : env) (args : list string) : outcome result :=
  match loop e (init e) args with
  | Ok a => finish e a
  | ValueErr => ValueErr
  | OtherErr => OtherErr
  end.

(* ---- vocabulary used to state the property over the raw arguments ---- *)
Definition is_test_key (k : string) : bool := String.eqb k "only" || String.eqb k "no".
Definition is_obj_key (k : string) : bool := starts "only_" k || starts "no_" k.
Definition is_nets_restr_key (k : string) : bool := String.eqb k "only_nets" || String.eqb k "no_nets".
Definition is_special (k : string) : bool :=
  is_test_key k || is_obj_key k || String.eqb k "vms" || String.eqb k "nets".

(* the only/no arguments, in order, one per line *)
Fixpoint test_lines (args : list string) : string :=
  match args with
  | [] => ""
  | x :: r => match split_arg x with
              | Some (k, v) => if is_test_key k then line k v ++ test_lines r else test_lines r
              | None => test_lines r
              end
  end.

(* does some only/no argument name a primary restriction? *)
Fixpoint has_primary (e : env) (args : list string) : bool :=
  match args with
  | [] => false
  | x :: r => match split_arg x with
              | Some (k, v) => (is_test_key k && existsb (fun w => mem w (avail_restr e)) (split_variants v))
                               || has_primary e r
              | None => has_primary e r
              end
  end.

(* the value of the last K=... argument *)
Fixpoint last_arg (args : list string) (key : string) : option string :=
  match args with
  | [] => None
  | x :: r => match last_arg r key with
              | Some v => Some v
              | None => match split_arg x with
                        | Some (k, v) => if String.eqb k key then Some v else None
                        | None => None
                        end
              end
  end.
