(* M9 — restriction semantics (virttest.cartesian_config.Filter as used through only/no lines).
   A restriction "a.b..c,d" is an OR (commas) of ANDs (..) of adjacency blocks (.).
   Definitions only. *)
From Coq Require Import List NArith Bool.
Import ListNotations.

Definition name := list N.                       (* variants, outermost first *)
Definition block := list N.
Definition restr := list (list block).

Fixpoint prefixb (b n : list N) : bool :=
  match b, n with
  | [], _ => true
  | x :: b', y :: n' => N.eqb x y && prefixb b' n'
  | _ :: _, [] => false
  end.

Fixpoint contiguous (b n : list N) : bool :=
  prefixb b n || match n with [] => false | _ :: r => contiguous b r end.

Definition word_matches (w : list block) (n : name) : bool := forallb (fun b => contiguous b n) w.
Definition matches (f : restr) (n : name) : bool := existsb (fun w => word_matches w n) f.

Inductive rline := Only (f : restr) | No (f : restr).
Definition keep (l : rline) (n : name) : bool :=
  match l with Only f => matches f n | No f => negb (matches f n) end.

Definition select (lines : list rline) (U : list name) : list name :=
  filter (fun n => forallb (fun l => keep l n) lines) U.
