(* M11d — the cache of remote sessions shared by all workers (worker.py: TestWorker.get_session).  An address is the
   pair nets_shell_host:nets_shell_port of a worker; a session remembers the address it was opened to. *)
From Coq Require Import List NArith Bool Arith.
Import ListNotations.

Definition addr := N.
Record session := mkSess { sid : nat; opened_to : addr }.
Record scache := mkSC { entries : list (addr * session); next_id : nat }.
Fixpoint lookup (l : list (addr * session)) (a : addr) : option session :=
  match l with [] => None | (k, s) :: r => if N.eqb k a then Some s else lookup r a end.
Fixpoint store (l : list (addr * session)) (a : addr) (s : session) : list (addr * session) :=
  match l with
  | [] => [(a, s)]
  | (k, x) :: r => if N.eqb k a then (k, s) :: r else (k, x) :: store r a s
  end.
(* get_session of a worker at address a; healthy = the cached session answered the health check;
   returns the session and whether a new login took place *)
Definition get_session (c : scache) (a : addr) (healthy : bool) : scache * session * bool :=
  match lookup (entries c) a with
  | Some s => if healthy then (c, s, false)
              else let s' := mkSess (next_id c) a in (mkSC (store (entries c) a s') (S (next_id c)), s', true)
  | None => let s' := mkSess (next_id c) a in (mkSC (store (entries c) a s') (S (next_id c)), s', true)
  end.
Definition empty_cache : scache := mkSC [] 0.
Fixpoint run_sessions (c : scache) (ops : list (addr * bool)) : list (nat * addr * bool) :=
  match ops with
  | [] => []
  | (a, h) :: r => let '(c', s, fresh) := get_session c a h in (sid s, opened_to s, fresh) :: run_sessions c' r
  end.
