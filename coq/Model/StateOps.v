(* M5 — model of avocado_i2n/states/setup.py : check/get/set/unset/push/pop_states
   over an abstract store (per object: a root flag and a list of state names).
   Definitions only.

   The harness resolves the per-object parameters (state name, mode letters,
   skip type, readonly, backend kind); the model receives the objects in the
   order `_parametric_object_iteration` yields them (images of a vm, then the vm,
   ..., then the net). *)
From Coq Require Import List NArith Bool.
Import ListNotations.

Inductive letter := La | Lr | Li | Lf | Lx.
Definition mode : Type := letter * letter.
Inductive otype := TNet | TVm | TImage.

Record obj := mkObj {
  okey : N;                       (* identity of the stateful object *)
  otyp : otype;
  oskip : bool;                   (* its full type ("nets/vms/images") is listed in skip_types *)
  oskip_inner : bool;             (* its short type ("images") is listed in skip_types: what a
                                     re-entered call with a one-level states_chain tests *)
  oro : bool;                     (* image_readonly *)
  ostate : option (N * bool);     (* <op>_state and whether it is a root keyword *)
  omode : option mode;            (* <op>_mode, None = the operation's default *)
  ocheck : mode;                  (* check_mode (default rf) *)
  osourced : bool                 (* backend is a SourcedStateBackend *)
}.

(* ---- the store and the backend calls ---- *)
Definition entry : Type := bool * list N.          (* root exists, state names *)
Definition store := list (N * entry).

Fixpoint sget (s : store) (k : N) : entry :=
  match s with
  | [] => (false, [])
  | (k', e) :: r => if N.eqb k' k then e else sget r k
  end.

Fixpoint sset (s : store) (k : N) (e : entry) : store :=
  match s with
  | [] => [(k, e)]
  | (k', e') :: r => if N.eqb k' k then (k', e) :: r else (k', e') :: sset r k e
  end.

Definition has (l : list N) (x : N) : bool := existsb (N.eqb x) l.
Definition remove_name (l : list N) (x : N) : list N := filter (fun y => negb (N.eqb y x)) l.
Definition add_name (l : list N) (x : N) : list N := if has l x then l else l ++ [x].

Inductive call :=
| CCheckRoot (k : N) | CSetRoot (k : N) (forced_own : bool) | CUnsetRoot (k : N) | CGetRoot (k : N)
| CShow (k : N) | CGet (k s : N) | CSet (k s : N) | CUnset (k s : N) | CDestroy (k : N).

(* semantics of the in-memory backend *)
Definition b_set_root (s : store) (k : N) : store := sset s k (true, snd (sget s k)).
Definition b_unset_root (s : store) (k : N) : store := sset s k (false, []).
Definition b_set (s : store) (k x : N) : store := sset s k (fst (sget s k), add_name (snd (sget s k)) x).
Definition b_unset (s : store) (k x : N) : store := sset s k (fst (sget s k), remove_name (snd (sget s k)) x).

Definition ctx : Type := store * list call.     (* the log is kept in reverse order *)
Definition logc (c : ctx) (x : call) : ctx := (fst c, x :: snd c).

Inductive outcome := Done | Aborted | TestErr.

(* ---- check_states for one object ----
   `direct` = called with the full states_chain (the object's type is the full
   "nets/vms/images" path, so skip_types / image_readonly / the vm.destroy branch
   apply); the embedded check of get/set/unset re-enters with a one-level chain. *)
Inductive cres := CTrue | CFalse | CErr.

Definition check_body (direct : bool) (o : obj) (st : N * bool) (c : ctx) : ctx * cres :=
  let k := okey o in
  let c := logc c (CCheckRoot k) in
  let root_exists := fst (sget (fst c) k) in
  let step :=
    if negb root_exists then
      match snd (ocheck o) with
      | Lf => inl (logc (b_set_root (fst c) k, snd c) (CSetRoot k true))
      | Lr => inr CFalse
      | _ => inr CErr
      end
    else
      match fst (ocheck o) with
      | Lf =>
          let c1 := match direct, otyp o with
                    | true, TVm => logc c (CDestroy k)
                    | _, _ => logc (b_unset_root (fst c) k, snd c) (CUnsetRoot k)
                    end in
          inl (logc (b_set_root (fst c1) k, snd c1) (CSetRoot k true))
      | _ => inl (logc c (CGetRoot k))
      end in
  match step with
  | inr r => (c, r)
  | inl c2 =>
      if snd st then (c2, CTrue)     (* root keyword: the root exists by now *)
      else let c3 := logc c2 (CShow k) in
           (c3, if has (snd (sget (fst c3) k)) (fst st) then CTrue else CFalse)
  end.

Definition skipped (o : obj) : bool :=
  oskip o || (match otyp o with TImage => oro o | _ => false end).

(* the check embedded in get/set/unset: re-entered with a one-level chain, so only the
   short type is compared with skip_types (a skipped object counts as "state exists")
   and image_readonly is not looked at *)
Definition inner_check (o : obj) (st : N * bool) (c : ctx) : ctx * cres :=
  if oskip_inner o then (c, CTrue) else check_body false o st c.

(* check_states(run_params): False at the first object whose state is missing *)
Fixpoint check_states (objs : list obj) (c : ctx) : ctx * cres :=
  match objs with
  | [] => (c, CTrue)
  | o :: rest =>
      if skipped o then check_states rest c else
      match ostate o with
      | None => check_states rest c
      | Some st =>
          match check_body true o st c with
          | (c', CTrue) => check_states rest c'
          | (c', r) => (c', r)
          end
      end
  end.

(* ---- policy dispatch (the if/elif chains, in the code's order) ---- *)
Inductive action := Proceed | Skip | Abort | Invalid.

Definition get_dispatch (exists_ : bool) (m : mode) : action :=
  if negb exists_ then match snd m with La => Abort | Li => Skip | _ => Invalid end
  else match fst m with La => Abort | Lr => Proceed | Li => Skip | _ => Invalid end.

Definition set_dispatch (exists_ : bool) (m : mode) : action :=
  if exists_ then match fst m with La => Abort | Lr => Skip | Lf => Proceed | _ => Invalid end
  else match snd m with La => Abort | Lf => Proceed | _ => Invalid end.

Definition unset_dispatch (exists_ : bool) (m : mode) : action :=
  if negb exists_ then match snd m with La => Abort | Li => Skip | _ => Invalid end
  else match fst m with Lr => Skip | Lf => Proceed | _ => Invalid end.

Definition default (d : mode) (m : option mode) : mode := match m with Some m => m | None => d end.

Inductive sres := SNext | SStop (e : outcome).

Definition finish_check (r : cres) : option bool :=
  match r with CTrue => Some true | CFalse => Some false | CErr => None end.

(* one object of get_states; `inner` = re-entered from pop (short type: no skipping) *)
Definition get_one (inner : bool) (dm : mode) (o : obj) (c : ctx) : ctx * sres :=
  if (if inner then oskip_inner o else skipped o) then (c, SNext) else
  match ostate o with
  | None => (c, SNext)
  | Some st =>
      let '(c1, r) := inner_check o st c in
      match finish_check r with
      | None => (c1, SStop TestErr)
      | Some ex =>
          match get_dispatch ex (default dm (omode o)) with
          | Abort => (c1, SStop Aborted)
          | Invalid => (c1, SStop TestErr)
          | Skip => (c1, SNext)
          | Proceed => (logc c1 (if snd st then CGetRoot (okey o) else CGet (okey o) (fst st)), SNext)
          end
      end
  end.

Definition set_one (inner : bool) (dm : mode) (o : obj) (c : ctx) : ctx * sres :=
  if (if inner then oskip_inner o else skipped o) then (c, SNext) else
  match ostate o with
  | None => (c, SNext)
  | Some st =>
      let k := okey o in
      let '(c1, r) := inner_check o st c in
      match finish_check r with
      | None => (c1, SStop TestErr)
      | Some ex =>
          match set_dispatch ex (default dm (omode o)) with
          | Abort => (c1, SStop Aborted)
          | Invalid => (c1, SStop TestErr)
          | Skip => (c1, SNext)
          | Proceed =>
              let pre :=
                if ex then
                  (* overwrite: remove first (sourced backends preserve ordinary states) *)
                  if snd st then inl (logc (b_unset_root (fst c1) k, snd c1) (CUnsetRoot k))
                  else if osourced o then inl c1
                  else inl (logc (b_unset (fst c1) k (fst st), snd c1) (CUnset k (fst st)))
                else
                  if snd st then inl c1
                  else let c2 := logc c1 (CCheckRoot k) in
                       if fst (sget (fst c2) k) then inl c2 else inr c2 in
              match pre with
              | inr c2 => (c2, SStop TestErr)       (* cannot force set without a root *)
              | inl c2 =>
                  if snd st then (logc (b_set_root (fst c2) k, snd c2) (CSetRoot k false), SNext)
                  else (logc (b_set (fst c2) k (fst st), snd c2) (CSet k (fst st)), SNext)
              end
          end
      end
  end.

Definition unset_one (inner : bool) (dm : mode) (o : obj) (c : ctx) : ctx * sres :=
  if (if inner then oskip_inner o else skipped o) then (c, SNext) else
  match ostate o with
  | None => (c, SNext)
  | Some st =>
      let k := okey o in
      let '(c1, r) := inner_check o st c in
      match finish_check r with
      | None => (c1, SStop TestErr)
      | Some ex =>
          match unset_dispatch ex (default dm (omode o)) with
          | Abort => (c1, SStop Aborted)
          | Invalid => (c1, SStop TestErr)
          | Skip => (c1, SNext)
          | Proceed =>
              if snd st then (logc (b_unset_root (fst c1) k, snd c1) (CUnsetRoot k), SNext)
              else (logc (b_unset (fst c1) k (fst st), snd c1) (CUnset k (fst st)), SNext)
          end
      end
  end.

(* push: set with default mode af on that object alone; root keywords are skipped;
   only the SHORT type is compared with skip_types and image_readonly is not looked at
   (the re-entered call sees a one-level chain) *)
Definition push_one (o : obj) (c : ctx) : ctx * sres :=
  match ostate o with
  | Some (_, true) | None => (c, SNext)
  | Some _ => set_one true (La, Lf) o c
  end.

(* pop: get with default ra, then unset with default fa *)
Definition pop_one (o : obj) (c : ctx) : ctx * sres :=
  match ostate o with
  | Some (_, true) | None => (c, SNext)
  | Some _ =>
      match get_one true (Lr, La) o c with
      | (c1, SNext) => unset_one true (Lf, La) o c1
      | r => r
      end
  end.

Fixpoint iterate (f : obj -> ctx -> ctx * sres) (objs : list obj) (c : ctx) : ctx * outcome :=
  match objs with
  | [] => (c, Done)
  | o :: rest => match f o c with
                 | (c', SNext) => iterate f rest c'
                 | (c', SStop e) => (c', e)
                 end
  end.

Inductive opkind := OCheck | OGet | OSet | OUnset | OPush | OPop.

(* result: 0 Done/True, 1 False (check only), 2 Aborted, 3 TestErr *)
Definition run_op (op : opkind) (objs : list obj) (c : ctx) : ctx * N :=
  let code e := match e with Done => 0 | Aborted => 2 | TestErr => 3 end%N in
  match op with
  | OCheck => let '(c', r) := check_states objs c in
              (c', match r with CTrue => 0 | CFalse => 1 | CErr => 3 end%N)
  | OGet => let '(c', e) := iterate (get_one false (Lr, La)) objs c in (c', code e)
  | OSet => let '(c', e) := iterate (set_one false (Lf, Lf)) objs c in (c', code e)
  | OUnset => let '(c', e) := iterate (unset_one false (Lf, Li)) objs c in (c', code e)
  | OPush => let '(c', e) := iterate push_one objs c in (c', code e)
  | OPop => let '(c', e) := iterate pop_one objs c in (c', code e)
  end.

(* a history: operations applied in sequence, stopping at nothing (each call is
   independent; an error ends only that call) *)
Fixpoint run_ops (ops : list (opkind * list obj)) (s : store) : store * list (list call * N) :=
  match ops with
  | [] => (s, [])
  | (op, objs) :: rest =>
      let '((s', lg), code) := run_op op objs (s, []) in
      let '(s'', out) := run_ops rest s' in
      (s'', (rev lg, code) :: out)
  end.

(* ---- which objects an operation addresses, and which object a backend call is about ---- *)
Definition call_key (x : call) : N :=
  match x with
  | CCheckRoot k | CSetRoot k _ | CUnsetRoot k | CGetRoot k | CShow k | CDestroy k => k
  | CGet k _ | CSet k _ | CUnset k _ => k
  end.

Definition addressed (op : opkind) (o : obj) : bool :=
  match ostate o with
  | None => false
  | Some st =>
      match op with
      | OPush | OPop => negb (snd st) && negb (oskip_inner o)
      | _ => negb (skipped o)
      end
  end.

(* ---- the documented table (README, "setup policy") ---- *)
Inductive doc_action := DReuse | DIgnore | DForce | DAbort | DInvalid.

Definition spec_action (op : opkind) (exists_ : bool) (m : mode) : doc_action :=
  match op, exists_ with
  | OGet, true => match fst m with La => DAbort | Lr => DReuse | Li => DIgnore | _ => DInvalid end
  | OGet, false => match snd m with La => DAbort | Li => DIgnore | _ => DInvalid end
  | OSet, true => match fst m with La => DAbort | Lr => DReuse | Lf => DForce | _ => DInvalid end
  | OSet, false => match snd m with La => DAbort | Lf => DForce | _ => DInvalid end
  | OUnset, true => match fst m with Lr => DReuse | Lf => DForce | _ => DInvalid end
  | OUnset, false => match snd m with La => DAbort | Li => DIgnore | _ => DInvalid end
  | _, _ => DInvalid
  end.

(* what each documented action means for the dispatch of the three operations *)
Definition doc_to_action (op : opkind) (d : doc_action) : action :=
  match d with
  | DAbort => Abort
  | DInvalid => Invalid
  | DIgnore => Skip
  | DForce => Proceed
  | DReuse => match op with OGet => Proceed | _ => Skip end
  end.
