(* Helpers used by the generated cases.v files of the correspondence checks. *)
From Coq Require Import List NArith Bool.
Import ListNotations.

Fixpoint failing_from {A} (f : A -> bool) (l : list A) (k : N) : list N :=
  match l with
  | [] => []
  | x :: r => if f x then failing_from f r (N.succ k) else k :: failing_from f r (N.succ k)
  end.

(* indices (0-based) of the cases on which the boolean check fails *)
Definition failing {A} (f : A -> bool) (l : list A) : list N := failing_from f l 0%N.

Fixpoint list_eqb {A} (eqb : A -> A -> bool) (a b : list A) : bool :=
  match a, b with
  | [], [] => true
  | x :: a', y :: b' => eqb x y && list_eqb eqb a' b'
  | _, _ => false
  end.

Definition option_eqb {A} (eqb : A -> A -> bool) (a b : option A) : bool :=
  match a, b with
  | Some x, Some y => eqb x y
  | None, None => true
  | _, _ => false
  end.

Definition pair_eqb {A B} (ea : A -> A -> bool) (eb : B -> B -> bool) (a b : A * B) : bool :=
  ea (fst a) (fst b) && eb (snd a) (snd b).

(* insertion sort on N, to compare multisets / sets given as lists *)
Fixpoint ins_sorted (x : N) (l : list N) : list N :=
  match l with
  | [] => [x]
  | y :: r => if N.leb x y then x :: l else y :: ins_sorted x r
  end.
Definition sortN (l : list N) : list N := fold_right ins_sorted [] l.

Fixpoint dedup_sorted (l : list N) : list N :=
  match l with
  | x :: ((y :: _) as r) => if N.eqb x y then dedup_sorted r else x :: dedup_sorted r
  | _ => l
  end.

Definition multiset_eqb (a b : list N) : bool := list_eqb N.eqb (sortN a) (sortN b).
Definition set_eqb (a b : list N) : bool :=
  list_eqb N.eqb (dedup_sorted (sortN a)) (dedup_sorted (sortN b)).

Definition impb (a b : bool) : bool := negb a || b.
Infix "==>" := impb (at level 55, right associativity).
