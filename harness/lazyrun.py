"""Lazy (on-demand parsing) traversals of the shipped suite with the real Cartesian parser, driven by the
same hand-driven scheduler, in-memory pools and monitors as the synthetic traversals - but without a model
to compare with (lazy expansion is outside Model/TraverseRun.v): these runs feed the property monitors only."""
import os
import random

RESTRS = ["normal..tutorial1", "normal", "leaves..tutorial2", "leaves..tutorial_gui", "normal..tutorial3", "leaves..tutorial_get..explicit_noop",
          "minimal", "leaves..quicktest"]
NETS = ["net1", "net1 net2", "net1 net2 net3", "cluster1.net6 cluster1.net7", "net4 net5", "net5 net1"]      # net5 restricts its vm variants
VMR = {"vm1": "only CentOS\n", "vm2": "only Win10\n", "vm3": "only Ubuntu\n"}
CHAIN = [("images:image1_%s", "install"), ("images:image1_%s", "customize"), ("vms:%s", "on_customize"), ("images:image1_%s", "connect")]


def lazy_job(args):
    restr, nets, seed, work, extra = args
    import logging
    logging.disable(logging.CRITICAL)
    home = os.path.join(work, f"home-{os.getpid()}")
    os.makedirs(home, exist_ok=True)
    os.environ["HOME"] = home
    os.chdir(home)
    from avocado_i2n.cartgraph import TestGraph
    from harness import trav, synth
    rng = random.Random(seed)
    params = {"nets": nets}
    given_extra = extra
    extra = dict(extra or {})
    force_vm1 = extra.pop("_vm1", None)        # harness key: force a vm1 variant
    params.update(extra)
    synth.reset_swarms()
    g = TestGraph()
    # mostly the default variants, sometimes another vm1 variant (same-named setup of different vms then coexists)
    vmr = VMR if rng.random() < 0.6 else dict(VMR, vm1="only Fedora\n")
    if force_vm1:
        vmr = dict(VMR, vm1=f"only {force_vm1}\n")
    g.restrs.update(vmr)
    flat = TestGraph.parse_flat_nodes(restr, params)
    for n in flat:
        n.update_restrs(vmr)
    g.new_nodes(flat)
    g.parse_shared_root_from_object_roots(params)
    workers = TestGraph.parse_workers(params)
    g.new_workers(workers)
    for w in workers:
        w.spawner = object()
    x = trav.Export(g, workers)
    x.dynamic = True
    store = {}
    kind = rng.choice(["empty", "empty", "shared", "residue-all"])
    for vm in ("vm1", "vm2"):
        upto = rng.randint(0, len(CHAIN))
        sts = {(o % vm, s) for o, s in CHAIN[:upto]}
        if kind == "shared":
            store.setdefault(None, set()).update(sts)
        elif kind == "residue-all":
            for w in workers:
                store.setdefault(w.id, set()).update(sts)
    run = trav.Run(g, workers, x, store, params, max_sections=4000)
    mode = rng.choice(["allpass", "allpass", "some"])
    fail_names = set()

    def outcome(r, run_, w, node):
        if mode == "allpass":
            return "PASS"
        key = node.params["name"].split(".vms.")[0]
        if key not in fail_names and r.random() < 0.15:
            fail_names.add(key)
        return r.choice(["FAIL", "ERROR"]) if key in fail_names and r.random() < 0.7 else "PASS"
    run.go(rng, outcome, wake_bias=rng.choice([0.2, 0.6]))
    x.refresh()
    fails = [list(map(str, e)) for evs in run.events for e in evs if e[0] == "fail"]
    flat_names = [n.params["name"] for n in flat]
    leaf_results = {}
    for n in g.nodes:
        if n.is_flat():
            continue
        base = n.params["name"].split(".vms.")[0]
        if base in flat_names:
            leaf_results.setdefault(base, []).extend(r["status"] for r in n.results)
    starts = [(e[1], e[2], e[3], e[4]) for evs in run.events for e in evs if e[0] == "start"]
    # a selected test without results only counts if some worker could have run it: decided by parsing it for each worker
    # alone in a fresh graph (no other worker, nothing unrolled before)
    compatible = {name: compatible_workers(name, [w.id for w in workers], vmr, params) for name in flat_names if not leaf_results.get(name)}
    return {"compatible": compatible,"restr": restr, "nets": nets, "seed": seed, "extra": given_extra, "pools": kind, "terminated": run.terminated, "sections": len(run.sections),
            "fails": fails[:3], "monitor": [list(map(str, m)) for m in run.monitor[:6]], "flat": flat_names, "leaf_results": leaf_results,
            "doors": [list(map(str, e)) for evs in run.events for e in evs if e[0] == "door"][:10],
            "nstarts": len(starts), "dry": (extra or {}).get("dry_run") == "yes",
            "expanded_workers": sorted({n.params.get("nets") for n in g.nodes if not n.is_flat()}),
            "marked": any("f" == o.object_typed_params(n.params).get("unset_mode", "ri")[0] for n in g.nodes if not n.is_flat() for o in n.objects),
            "never": any(o is None for w, o in run.sections), "mode": mode,
            "overlap": overlap(run, x), "budget": budget(run, x)}


def compatible_workers(name, worker_ids, vmr, params):
    """the workers for which the flat test `name` can be composed, each tried alone in a fresh graph"""
    from avocado_i2n.cartgraph import TestGraph
    from harness import synth
    out = []
    for wid in worker_ids:
        synth.reset_swarms()
        p1 = dict(params, nets=wid)
        g = TestGraph()
        g.restrs.update(vmr)
        flat = [n for n in TestGraph.parse_flat_nodes(name.replace(".", ".."), p1) if n.params["name"] == name]
        for n in flat:
            n.update_restrs(vmr)
        g.new_nodes(flat)
        ws = TestGraph.parse_workers(p1)
        g.new_workers(ws)
        try:
            if any(g.parse_nodes_from_flat_node_and_object(n, ws[0].net, n.prefix, params=p1) for n in flat):
                out.append(wid)
        except Exception as e:
            out.append(f"{wid}: {type(e).__name__}")
    return out


def overlap(run, x):
    """C04 on lazy runs: intervals of executions of one class by different workers (global scope only)"""
    worst = 0
    for t in sorted({iv[3] for iv in run.intervals}):
        live = [iv for iv in run.intervals if iv[3] <= t and (iv[4] is None or iv[4] > t)]
        groups = {}
        for iv in live:
            groups.setdefault(iv[0], set()).add(iv[1])
        for form, ws in groups.items():
            node = next(n for n in x.nodes if n.bridged_form == form)
            limit = max(1, int(node.params.get("max_concurrent_tries", node.params.get("max_tries", 1))))
            if len(ws) > limit:
                worst = max(worst, len(ws) - limit)
    return worst


def budget(run, x):
    counts = {}
    for evs in run.events:
        for e in evs:
            if e[0] == "start" and not e[4]:
                node = x.nodes[e[2]]
                counts[node.bridged_form] = counts.get(node.bridged_form, 0) + 1
    over = []
    for form, cnt in counts.items():
        node = next(n for n in x.nodes if n.bridged_form == form)
        if cnt > max(1, int(node.params.get("max_tries", 1))):
            over.append((node.params["name"].split(".vms.")[0], cnt))
    return over[:3]
