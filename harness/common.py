"""Shared machinery of the checks: Coq build + hygiene, evaluation of the Gallina
models on generated cases (cases.v + vm_compute), evidence, findings, replays."""
import concurrent.futures
import fcntl
import glob
import hashlib
import json
import os
import random
import re
import shutil
import subprocess
import sys
import time

ROOT = os.environ.get("VERIF_ROOT", "/verif")
REPO = os.environ.get("REPO_ROOT", "/repo")
COQ = os.path.join(ROOT, "coq")
NCPU = 16

TRUSTED_COMMON = [
    "Coq 8.16.1 kernel (coqc, full .vo build, no -vos/-vok); vm_compute used for finite-domain "
    "lemmas, witnesses and for evaluating the models on cases; native_compute not used",
    "no extraction: the models are evaluated inside Coq (generated cases.v + Eval vm_compute); "
    "the harness's printing of cases as Coq terms and parsing of the list of failing indices is trusted glue",
    "the hand-written Gallina models are tied to the Python only by the correspondence check of this run",
]

FORBIDDEN = re.compile(
    r"\b(Admitted|admit|Axiom|Axioms|Parameter|Parameters|Conjecture|Admit Obligations|"
    r"bypass_check|Unset Guard Checking|Unset Positivity Checking|Unset Universe Checking|"
    r"type-in-type|impredicative-set|native_compute)\b")
SECTION_ONLY = re.compile(r"^\s*(Variable|Variables|Hypothesis|Hypotheses|Context)\b")


class Ctx:
    def __init__(self, prop, tier, seed):
        self.prop, self.tier, self.seed = prop, tier, seed
        self.rng = random.Random(seed)
        self.work = os.path.join(ROOT, ".work", f"{prop}-{os.getpid()}")
        shutil.rmtree(self.work, ignore_errors=True)
        os.makedirs(self.work)
        os.makedirs(os.path.join(self.work, "home"), exist_ok=True)
        self.t0 = time.time()
        self.obligations = []      # {name, kind, ok, detail}
        self.failures = []         # {signature, what, data, has_input}
        self.coverage = {"evaluations": 0, "distinct_nontrivial": 0, "samples": []}
        self.assumptions = []
        self.trusted = list(TRUSTED_COMMON)
        self.explanation = []
        self.thorough = tier == "thorough"

    def obligation(self, name, kind, ok, detail=""):
        self.obligations.append({"name": name, "kind": kind, "ok": bool(ok), "detail": detail})

    def fail(self, signature, what, data, has_input):
        """Record a broken property instance (has_input) or a broken obligation (not has_input)."""
        self.failures.append({"signature": signature, "what": what, "data": data,
                              "has_input": bool(has_input)})

    def count(self, evaluations=0, nontrivial=0):
        self.coverage["evaluations"] += evaluations
        self.coverage["distinct_nontrivial"] += nontrivial

    def sample(self, s, limit=4):
        if len(self.coverage["samples"]) < limit:
            self.coverage["samples"].append(s)

    def cleanup(self):
        shutil.rmtree(self.work, ignore_errors=True)


# --------------------------------------------------------------------------- Coq terms
def cN(i):
    return f"{int(i)}%N"


def cZ(i):
    i = int(i)
    return f"({i})%Z"


def cnat(i):
    return f"{int(i)}%nat"


def cbool(b):
    return "true" if b else "false"


def clist(items):
    return "[" + "; ".join(items) + "]"


def cpair(*items):
    return "(" + ", ".join(items) + ")"


def copt(x):
    return "None" if x is None else f"(Some {x})"


def cstr(s):
    return '"' + s.replace('"', '""') + '"%string'


class Interner:
    """Strings -> N (1-based), stable within one run."""

    def __init__(self):
        self.ids = {}
        self.names = []

    def __call__(self, s):
        if s not in self.ids:
            self.ids[s] = len(self.names) + 1
            self.names.append(s)
        return self.ids[s]


# --------------------------------------------------------------------------- Coq build
class BuildLock:
    def __enter__(self):
        self.f = open(os.path.join(COQ, ".build.lock"), "w")
        fcntl.flock(self.f, fcntl.LOCK_EX)

    def __exit__(self, *a):
        fcntl.flock(self.f, fcntl.LOCK_UN)
        self.f.close()


def all_v_files():
    files = []
    for d in ("Common", "Model", "Gen", "Proofs", "Check", "Props"):
        files += sorted(glob.glob(os.path.join(COQ, d, "*.v")))
    return [os.path.relpath(f, COQ) for f in files]


def coq_makefile():
    files = all_v_files()
    stamp = os.path.join(COQ, ".files.stamp")
    want = "\n".join(files)
    if os.path.exists(stamp) and os.path.exists(os.path.join(COQ, "Makefile")) \
            and open(stamp).read() == want:
        return
    subprocess.run(["coq_makefile", "-f", "_CoqProject", "-o", "Makefile"] + files,
                   cwd=COQ, check=True, capture_output=True)
    open(stamp, "w").write(want)


def coq_make(targets, timeout=1500, fresh=()):
    """Full .vo build of the given targets (relative to coq/). Returns (ok, output). `fresh`: compiled files removed first,
    inside the build lock, so that they are rebuilt (and their Print Assumptions printed) by THIS call even when another
    check of the same property runs at the same time."""
    with BuildLock():
        coq_makefile()
        for f in fresh:
            if os.path.exists(f):
                os.remove(f)
        try:
            p = subprocess.run(["make", f"-j{NCPU}"] + targets, cwd=COQ, capture_output=True,
                               text=True, timeout=timeout)
            return p.returncode == 0, p.stdout + p.stderr
        except subprocess.TimeoutExpired as e:
            return False, f"TIMEOUT after {timeout}s\n{e.stdout or ''}"


def strip_comments(src):
    out, depth, i = [], 0, 0
    while i < len(src):
        if src.startswith("(*", i):
            depth += 1
            i += 2
        elif src.startswith("*)", i) and depth:
            depth -= 1
            i += 2
        else:
            if not depth:
                out.append(src[i])
            elif src[i] == "\n":
                out.append("\n")
            i += 1
    return "".join(out)


def cone(vfile):
    """Transitive I2N dependencies of a .v file (relative paths), by its Require lines."""
    seen, todo = [], [vfile]
    while todo:
        f = todo.pop()
        if f in seen:
            continue
        seen.append(f)
        try:
            src = strip_comments(open(os.path.join(COQ, f)).read())
        except FileNotFoundError:
            continue
        for m in re.finditer(r"From\s+I2N\s+Require\s+(?:Import|Export)?\s*([^.]*(?:\.[A-Za-z_][^.\s]*)*)\.\s", src):
            for mod in m.group(1).split():
                todo.append(mod.replace(".", "/") + ".v")
    return sorted(seen)


def hygiene(files):
    """Forbidden vernacular in the dependency cone; returns list of 'file:line: text'."""
    bad = []
    for f in files:
        try:
            src = strip_comments(open(os.path.join(COQ, f)).read())
        except FileNotFoundError:
            bad.append(f"{f}: missing")
            continue
        depth = 0
        for ln, line in enumerate(src.split("\n"), 1):
            if re.match(r"^\s*Section\b", line):
                depth += 1
            elif re.match(r"^\s*End\b", line) and depth:
                depth -= 1
            if FORBIDDEN.search(line):
                bad.append(f"{f}:{ln}: {line.strip()}")
            if depth == 0 and SECTION_ONLY.match(line):
                bad.append(f"{f}:{ln}: {line.strip()} (outside a section)")
    return bad


def enclosing_statement(vfile, line):
    try:
        lines = open(os.path.join(COQ, vfile)).read().split("\n")
    except FileNotFoundError:
        return "?"
    for i in range(min(line, len(lines)) - 1, -1, -1):
        m = re.match(r"\s*(Theorem|Lemma|Corollary|Example|Definition|Fixpoint|Remark|Fact)\s+(\w+)", lines[i])
        if m:
            return m.group(2)
    return "?"


ALLOWED_AXIOMS = set()   # none: every theorem is expected to be closed


def build_property(ctx, regenerate=None, extra_targets=()):
    """Steps 1-3 of a check: regenerate translated files, build Props/<id>.vo from
    scratch (so that Print Assumptions is re-evaluated), hygiene on its cone.
    Records one obligation per Theorem. Returns True when everything checked."""
    prop = ctx.prop
    vfile = f"Props/{prop}.v"
    if regenerate:
        for name, fn in regenerate:
            try:
                fn()
                ctx.obligation(f"translate:{name}", "translator", True)
            except Exception as e:   # fail-closed translator stop
                ctx.obligation(f"translate:{name}", "translator", False, str(e))
                ctx.fail(f"{prop}:translator:{name}", f"translator stopped: {e}",
                         {"obligation": f"translate:{name}", "error": str(e)}, False)
    src = open(os.path.join(COQ, vfile)).read()
    theorems = re.findall(r"^\s*Theorem\s+(\w+)", strip_comments(src), re.M)
    vo = os.path.join(COQ, vfile + "o")
    targets = [vfile + "o"]
    if os.path.exists(os.path.join(COQ, f"Check/{prop}.v")):
        targets.append(f"Check/{prop}.vo")
    targets += list(extra_targets)
    ok, out = coq_make(targets, fresh=[vo])
    ctx.checker_cmd = f"make -C coq -j{NCPU} {vfile}o   (coq_makefile -f _CoqProject; coqc 8.16.1)"
    files = cone(vfile)
    ctx.cone = files
    if not ok:
        m = re.search(r'File "\./([^"]+)", line (\d+)', out)
        where = f"{m.group(1)}:{m.group(2)}" if m else "?"
        stmt = enclosing_statement(m.group(1), int(m.group(2))) if m else "?"
        err = out[out.find("Error"):][:600] if "Error" in out else out[-600:]
        for t in theorems:
            ctx.obligation(t, "theorem", False, f"build failed at {where} ({stmt})")
        ctx.fail(f"{prop}:proof:{stmt}", f"proof obligation no longer checks: {stmt} at {where}",
                 {"obligation": stmt, "where": where, "error": err}, False)
        return False
    # Print Assumptions output
    closed = out.count("Closed under the global context")
    axiom_blocks = re.findall(r"^Axioms:\n((?:[ \t]*\S.*\n?)+?)(?=^\S|\Z)", out, re.M)
    axiom_lines = sorted({ln.strip() for blk in re.findall(r"^Axioms:\n((?:.+\n?)+)", out, re.M) for ln in blk.splitlines()
                          if ln.strip() and not ln.startswith("Axioms:") and ":" in ln and not ln.startswith("COQ")})
    # kernel primitives (binary64 floats of the traversal model) are listed by Print Assumptions although they are
    # not axioms declared anywhere in this development; anything else is refused
    primitives = [a for a in axiom_lines if a.startswith("PrimFloat.")]
    foreign = [a for a in axiom_lines if not a.startswith("PrimFloat.")]
    n_pa = len(re.findall(r"Print Assumptions", strip_comments(src)))
    n_listed = len(re.findall(r"^Axioms:", out, re.M))
    ctx.print_assumptions = f"{closed} x 'Closed under the global context'" + \
        (f"; {n_listed} x only the kernel primitive(s) {primitives}" if primitives else "") + \
        ("".join("; AXIOM: " + a for a in foreign) if foreign else "")
    if primitives:
        ctx.trusted.append("Coq's primitive binary64 floats (PrimFloat: kernel primitives with their OCaml implementation), used to mirror "
                           "the float accumulation of occupied_wait; Print Assumptions lists the primitive type, no axiom is declared")
    ax_ok = not foreign and closed + n_listed == n_pa and n_pa >= len(theorems)
    for t in theorems:
        ctx.obligation(t, "theorem", ax_ok, "" if ax_ok else "Print Assumptions not closed")
    if not ax_ok:
        ctx.fail(f"{prop}:axioms", "a theorem depends on an axiom or Print Assumptions missing",
                 {"obligation": "Print Assumptions", "output": out[-800:]}, False)
    bad = hygiene(files)
    ctx.obligation("hygiene", "scan", not bad, "; ".join(bad[:5]))
    if bad:
        ctx.fail(f"{prop}:hygiene", "forbidden vernacular in the dependency cone",
                 {"obligation": "hygiene", "lines": bad}, False)
    if ctx.thorough:
        # the independent checker re-checks Props/<id>.vo and everything it depends on and lists what it had to assume
        try:
            p = subprocess.run(["coqchk", "-o", "-silent", "-Q", COQ, "I2N", f"I2N.Props.{prop}"], capture_output=True, text=True,
                               timeout=1500, cwd=COQ)
            chk_out, rc = p.stdout + p.stderr, p.returncode
        except subprocess.TimeoutExpired:
            chk_out, rc = "TIMEOUT", 124
        m = re.search(r"\* Axioms:(.*?)\* Constants/Inductives relying on type-in-type: (.*?)\n.*?unsafe \(co\)fixpoints: (.*?)\n.*?positivity is assumed: (.*?)\n",
                      chk_out, re.S)
        if rc == 0 and m:
            axioms = [a.strip() for a in m.group(1).splitlines() if a.strip() and a.strip() != "<none>"]
            prim = [a for a in axioms if ".PrimInt63." in a or ".PrimFloat." in a]
            other = [a for a in axioms if a not in prim]
            clean = not other and all(x.strip() == "<none>" for x in m.groups()[1:])
            ctx.coqchk = (f"coqchk -o I2N.Props.{prop}: {len(prim)} kernel primitives (PrimInt63 / PrimFloat operations, loaded with the standard "
                          f"library), {len(other)} other axioms{': ' + ', '.join(other) if other else ''}; type-in-type {m.group(2).strip()}, "
                          f"unsafe fixpoints {m.group(3).strip()}, assumed positivity {m.group(4).strip()}")
        else:
            clean = False
            ctx.coqchk = f"coqchk failed (rc={rc}): {chk_out[-300:]}"
        ctx.obligation("coqchk", "independent-checker", clean, ctx.coqchk)
        ctx.trusted.append(ctx.coqchk)
        if not clean:
            ctx.fail(f"{prop}:coqchk", "coqchk does not accept the compiled theorems or reports an axiom", {"obligation": "coqchk", "output": chk_out[-800:]}, False)
    return ax_ok and not bad


# --------------------------------------------------------------------------- evaluating models
PRELUDE = ("From Coq Require Import List NArith ZArith Bool String PrimFloat.\n"
           "Import ListNotations.\nFrom I2N Require Import Common.Harness.\n")


def _coqc(path, timeout):
    try:
        p = subprocess.run(["coqc", "-Q", COQ, "I2N", "-w", "none", path], capture_output=True,
                           text=True, timeout=timeout, cwd=os.path.dirname(path))
        return p.returncode, p.stdout + p.stderr
    except subprocess.TimeoutExpired:
        return 124, "TIMEOUT"


def coq_failing(ctx, imports, case_ty, case_terms, checkers, shard=250, timeout=600, tag="cases"):
    """Evaluate boolean checkers (Gallina functions case -> bool) on all cases inside Coq.
    Returns {checker: sorted list of failing case indices}. Raises RuntimeError when the
    cases do not even typecheck against the model (reported by the caller)."""
    shards = [(i, case_terms[i:i + shard]) for i in range(0, len(case_terms), shard)]
    paths = []
    for k, (base, terms) in enumerate(shards):
        path = os.path.join(ctx.work, f"{tag}{k}.v")
        with open(path, "w") as f:
            f.write(PRELUDE)
            f.write(f"From I2N Require Import {imports}.\n")
            f.write(f"Definition cases : list ({case_ty}) :=\n [ " + ";\n   ".join(terms) + " ].\n")
            for c in checkers:
                f.write(f"Eval vm_compute in (failing {c} cases).\n")
        paths.append((base, path))
    result = {c: [] for c in checkers}
    with concurrent.futures.ThreadPoolExecutor(NCPU) as ex:
        outs = list(ex.map(lambda bp: _coqc(bp[1], timeout), paths))
    for (base, path), (rc, out) in zip(paths, outs):
        if rc != 0:
            raise RuntimeError(f"coqc failed on {path}: {out[-1500:]}")
        found = re.findall(r"=\s*(\[[^\]]*\])(?:%N)?\s*:\s*list N", out)
        if len(found) != len(checkers):
            raise RuntimeError(f"unexpected coqc output for {path}: {out[-800:]}")
        for c, txt in zip(checkers, found):
            nums = re.findall(r"\d+", txt)
            result[c] += [base + int(n) for n in nums]
    return result


def coq_show(ctx, imports, exprs, timeout=300, tag="show"):
    """Evaluate expressions and return Coq's printed values (for replay files)."""
    path = os.path.join(ctx.work, f"{tag}.v")
    with open(path, "w") as f:
        f.write(PRELUDE)
        f.write(f"From I2N Require Import {imports}.\n")
        for e in exprs:
            f.write(f"Eval vm_compute in ({e}).\n")
    rc, out = _coqc(path, timeout)
    return out.strip()


# --------------------------------------------------------------------------- findings / output
def load_findings():
    p = os.path.join(ROOT, "known_findings.json")
    if not os.path.exists(p):
        return []
    return json.load(open(p))


def finish(ctx):
    """Findings filter, VIOLATION / KNOWN-FINDING lines, evidence, exit code."""
    known = [k for k in load_findings() if k.get("property") == ctx.prop and k.get("kind") == "known"]
    known_sigs = {k["signature"]: k for k in known}
    printed_known, violations = set(), []
    by_sig = {}
    for f in ctx.failures:
        by_sig.setdefault(f["signature"], []).append(f)
    for sig, fs in by_sig.items():
        if sig in known_sigs and all(f["has_input"] for f in fs):
            if sig not in printed_known:
                print(f"KNOWN-FINDING: property={ctx.prop} {known_sigs[sig]['what']}")
                printed_known.add(sig)
            continue
        f = fs[0]
        h = hashlib.sha1((sig + json.dumps(f["data"], sort_keys=True, default=str)).encode()).hexdigest()[:10]
        os.makedirs(os.path.join(ROOT, "replays"), exist_ok=True)
        rp = os.path.join(ROOT, "replays", f"{ctx.prop}-{h}.json")
        json.dump({"property": ctx.prop, "signature": sig, "what": f["what"],
                   "has_failing_input": f["has_input"], "seed": ctx.seed, "tier": ctx.tier,
                   "count": len(fs), "data": f["data"]}, open(rp, "w"), indent=1, default=str)
        has_input = any(x["has_input"] for x in fs)
        violations.append((rp, has_input, f["what"]))
    # a known finding that did not show up on this run is worth a remark (not an alarm)
    n_obl = len(ctx.obligations)
    n_ok = sum(1 for o in ctx.obligations if o["ok"])
    cov = dict(ctx.coverage)
    cov.update({
        "obligations": n_obl, "discharged": n_ok,
        "checker_cmd": getattr(ctx, "checker_cmd", "make -C coq"),
        "trusted_base": ctx.trusted + ["Print Assumptions: " + getattr(ctx, "print_assumptions", "n/a")],
        "obligation_list": ctx.obligations,
        "explanation": " ".join(ctx.explanation),
        "known_findings_seen": sorted(printed_known),
    })
    if not cov.get("samples"):
        cov["samples"] = ["(no case was generated)"]
    ev = {"property_id": ctx.prop, "tier": ctx.tier, "seed": ctx.seed, "level": "proof",
          "coverage": cov, "assumptions": ctx.assumptions,
          "wall_s": round(time.time() - ctx.t0, 2), "violations": len(violations)}
    evdir = os.environ.get("VERIF_EVIDENCE_DIR") or os.path.join(ROOT, "evidence")   # set when trying the checks on mutants
    os.makedirs(evdir, exist_ok=True)
    json.dump(ev, open(os.path.join(evdir, f"{ctx.prop}.json"), "w"), indent=1, default=str)
    for rp, has_input, what in violations:
        tail = "" if has_input else " no-failing-input-found"
        print(f"VIOLATION property={ctx.prop} replay={rp}{tail}")
        print(f"  ({what})")
    print(f"[{ctx.prop}] tier={ctx.tier} seed={ctx.seed} obligations={n_ok}/{n_obl} "
          f"evaluations={cov['evaluations']} nontrivial={cov['distinct_nontrivial']} "
          f"violations={len(violations)} wall={ev['wall_s']}s")
    ctx.cleanup()
    return 1 if violations else 0
