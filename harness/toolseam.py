"""The selftests' job seam for the manual tools (intertest_setup): a mock job, instant stub tests with random
short delays (so that several workers interleave differently from run to run), a recording door."""
import asyncio
import contextlib
from unittest import mock


class Recorder:
    def __init__(self, rng=None, status_of=None):
        self.calls = []
        self.rng = rng
        self.status_of = status_of or (lambda node: "PASS")

    def patches(self):
        from avocado_i2n.plugins.runner import TestRunner
        rec = self

        @contextlib.contextmanager
        def new_job(config):
            job = mock.MagicMock()
            job.logdir = "."
            job.timeout = 120
            job.config = config
            job.result.tests = []
            loader, runner = config["graph"].l, config["graph"].r
            loader.logdir = job.logdir
            runner.job = job
            yield job

        async def run_test_task(self, node):
            rec.calls.append(("run", node.started_worker.id, node.params["name"], dict(node.params)))
            if rec.rng is not None:
                await asyncio.sleep(rec.rng.choice([0, 0, 0.001, 0.003]))
            from avocado.core.test_id import TestID
            self.job.result.tests.append({"name": TestID(node.id_test.uid, node.params["name"]),
                                          "status": rec.status_of(node), "time_elapsed": 1})

        class Door:
            DUMP_CONTROL_DIR = "/tmp"

            @staticmethod
            def set_subcontrol_parameter(p, k, v):
                t = dict(p) if isinstance(p, dict) else {}
                t[k] = v
                return t

            @staticmethod
            def set_subcontrol_parameter_dict(p, k, v):
                t = dict(p)
                t[k] = dict(v)
                return t

            @staticmethod
            def run_subcontrol(session, p):
                pr = p["params"]
                rec.calls.append(("door", p["action"], pr["name"], {k: v for k, v in pr.items()
                                                                     if k.startswith(("unset_state", "get_state", "check_state"))}))
                if p["action"] == "check":
                    from aexpect.exceptions import ShellCmdError
                    raise ShellCmdError("check", 1, "AssertionError: not there")
        return [mock.patch("avocado_i2n.intertest_setup.new_job", new_job),
                mock.patch("avocado_i2n.cartgraph.worker.remote.wait_for_login", mock.MagicMock()),
                mock.patch("avocado_i2n.cartgraph.node.door", Door),
                mock.patch("avocado_i2n.cartgraph.worker.TestWorker.start", mock.MagicMock()),
                mock.patch("avocado_i2n.plugins.runner.SpawnerDispatcher", mock.MagicMock()),
                mock.patch.object(TestRunner, "run_test_task", run_test_task)]

    def __enter__(self):
        asyncio.set_event_loop(asyncio.new_event_loop())
        self.ps = self.patches()
        for p in self.ps:
            p.start()
        return self

    def __exit__(self, *a):
        for p in self.ps:
            p.stop()


def base_config(vm_strs, nets, extra=None, vms_params=None):
    from virttest import utils_params
    pd = {"nets": nets}
    pd.update(extra or {})
    return {"available_vms": {"vm1": "only CentOS\n", "vm2": "only Win10\n", "vm3": "only Ubuntu\n"},
            "available_restrictions": ["leaves", "normal", "minimal"], "param_dict": pd,
            "vm_strs": dict(vm_strs), "tests_str": {}, "tests_params": utils_params.Params(),
            "vms_params": utils_params.Params(vms_params or {})}
