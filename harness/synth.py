"""Synthetic TestWorker / TestObject / TestNode structures built without the Cartesian parser
(the recipe is replaced by an object answering get_params / get_copy), so that thousands of
graphs can be driven through the REAL node / graph / runner code per run."""
from virttest.utils_params import Params


class Recipe:
    """Stands in for params_parser.Reparsable: a fixed parameter dictionary."""

    def __init__(self, d):
        self.d = dict(d)

    def get_params(self, **kw):
        return Params(dict(self.d))

    def get_copy(self):
        return Recipe(self.d)

    def parse_next_dict(self, d):
        self.d.update(d)


NETS_CFG_SUFFIX = "nets"       # what _name_map_file["nets.cfg"] holds in the shipped suite: the net variant prefix


def make_worker(wid, swarm="localhost", spawner="lxc", restrs=None, extra=None):
    """wid e.g. 'net1' or 'cluster1.net6' (shortname); name = nets.<swarm>.<last part>"""
    from avocado_i2n.cartgraph import TestWorker, TestSwarm, NetObject
    last = wid.split(".")[-1]
    p = {"name": f"nets.{swarm}.{last}", "shortname": wid, "nets": wid,
         "nets_spawner": spawner, "nets_gateway": "" if swarm == "localhost" else f"{swarm}.lan",
         "nets_host": "c" + last if swarm == "localhost" else last[-1],
         "nets_shell_host": "localhost", "nets_shell_port": "22", "nets_shell_client": "ssh",
         "nets_username": "root", "nets_password": "x", "nets_shell_prompt": "#",
         "object_suffix": wid, "object_type": "nets"}
    p.update(extra or {})
    net = NetObject(wid, Recipe(p))
    net._params_cache = Params(p)
    net.restrs = dict(restrs or {})
    w = TestWorker(net)
    w.spawner = object()
    if swarm not in TestSwarm.run_swarms:
        TestSwarm.run_swarms[swarm] = TestSwarm(swarm, [])
    TestSwarm.run_swarms[swarm].workers.append(w)
    return w


def reset_swarms():
    from avocado_i2n.cartgraph import TestSwarm, TestWorker
    TestSwarm.run_swarms.clear()
    TestWorker._session_cache.clear()


def make_objects(worker, vms):
    """vms: {vm_name: {"variant": str, "images": [image names], "permanent": bool}}
    returns (net object for a node of this worker, {vm: VMObject}, {(vm, image): ImageObject})"""
    from avocado_i2n.cartgraph import NetObject, VMObject, ImageObject
    wp = dict(worker.params)
    net = NetObject(worker.id, Recipe(wp))
    net._params_cache = Params(wp)
    vmobjs, imgobjs = {}, {}
    for vm, spec in vms.items():
        vp = {"name": f"vms.{vm}.{spec.get('variant', 'Linux')}", "shortname": f"{vm}.{spec.get('variant', 'Linux')}",
              "vms": vm, "main_vm": vm, "images": " ".join(spec.get("images", ["image1"])),
              "permanent_vm": "yes" if spec.get("permanent") else "no", "object_suffix": vm, "object_type": "vms"}
        v = VMObject(vm, Recipe(vp))
        v._params_cache = Params(vp)
        v.composites.append(net)
        net.components.append(v)
        vmobjs[vm] = v
        for img in spec.get("images", ["image1"]):
            ip = {"name": vp["name"], "shortname": vp["shortname"], "images": img, "vms": vm,
                  "object_suffix": f"{img}_{vm}", "object_type": "images", "main_vm": "none",
                  "permanent_vm": vp["permanent_vm"]}
            i = ImageObject.__new__(ImageObject)
            # ImageObject.__init__ touches self.params (regenerating from the recipe); build by hand
            from avocado_i2n.cartgraph import TestObject
            TestObject.__init__(i, f"{img}_{vm}", Recipe(ip))
            i.key = "images"
            i._params_cache = Params(ip)
            i.composites.append(v)
            v.components.append(i)
            imgobjs[(vm, img)] = i
    return net, vmobjs, imgobjs


def make_node(prefix, name, worker=None, objects=None, params=None):
    """A TestNode with a fixed parameter cache. `objects` = [net, vm..., image...] (empty: flat node)."""
    from avocado_i2n.cartgraph import TestNode
    p = {"name": name, "shortname": name, "main_restrictions": "all nonleaves leaves normal minimal", "pool_scope": "own swarm cluster shared",
         "_name_map_file": {"nets.cfg": f"nets.{worker.swarm_id}.{worker.id.split('.')[-1]}" if worker else ""},
         "shared_pool": "/shared", "swarm_pool": "/swarm", "vms_base_dir": "/vms", "suite_path": "/suite",
         "unset_mode": "ri", "test_timeout": "100", "image_name": "images/img", "image_format": "qcow2"}
    if worker is not None:
        p["nets"] = worker.id
        p["nets_spawner"] = worker.params["nets_spawner"]
        for k, v in worker.params.items():
            if k.startswith("nets_"):
                p[k] = v
    p.update(params or {})
    n = TestNode(prefix, Recipe(p))
    n._params_cache = Params(p)
    n.objects = list(objects or [])
    return n
