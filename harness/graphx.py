"""Exporter of real parsed TestGraph objects to Model/Graph.v terms (with a rank certificate), parse
jobs run in worker processes, canonical forms for lazy-vs-eager and determinism comparisons."""
import os

from harness.common import cN, cnat, cbool, clist, cpair, copt, Interner

ROOTLIKE = ("", "0root", "root", "boot", "0boot", None)
VMR = {"vm1": "only CentOS\n", "vm2": "only Win10\n", "vm3": "only Ubuntu\n"}


def objid(o):
    return f"{o.key}:{o.long_suffix}"


def export(g, I=None):
    """-> (graph term, ranks term, workers, info)"""
    I = I or Interner()
    nodes = list(g.nodes)
    idx = {id(n): i for i, n in enumerate(nodes)}

    def gobj(n, o):
        op = o.object_typed_params(n.params)
        gt = op.get("get_state")
        st = op.get("set_state") or None
        gt = None if gt in ROOTLIKE else gt
        return (f"(mkGObj {cN(I('o:' + objid(o)))} {cbool(o.key == 'nets')} {'None' if gt is None else copt(cN(I('s:' + gt)))} "
                f"{'None' if st is None else copt(cN(I('s:' + st)))} {cbool(o.is_permanent() if o.key != 'nets' else False)})")

    def edges(d):
        out = []
        for m, objs in d.items():
            if id(m) not in idx:
                out.append(cpair(cnat(99999), clist([])))       # an edge to a node outside the graph
            else:
                out.append(cpair(cnat(idx[id(m)]), clist([cN(I('o:' + objid(o))) for o in objs])))
        return clist(out)
    wnets = {}
    for wid, w in getattr(g, "workers", {}).items():
        net = getattr(w, "net", None)
        if net is not None:
            wnets[net.params.get("nets", wid) if hasattr(net, "params") else wid] = net

    def excluded_for(n):
        """workers whose own restrictions exclude one of the vm variants this node uses"""
        out = []
        for wname, net in wnets.items():
            for o in n.objects:
                if o.key == "vms" and net.restrs.get(o.suffix) and not g.get_objects_by_restr(net.restrs[o.suffix], subset=[o]):
                    out.append(wname)
                    break
        return out
    terms = []
    for n in nodes:
        p = n.params
        flat = n.is_flat()
        worker = None if flat else p.get("nets")
        root_obj = n.get_terminal_object() if n.is_object_root() else None
        terms.append(
            f"(mkGNode {cN(I('id:' + n.id))} {cN(I('n:' + p['name']))} {cN(I('f:' + n.bridged_form))} "
            f"{'None' if worker is None else copt(cN(I('w:' + worker)))} {cbool(flat)} {cbool(n.is_shared_root())} "
            f"{'None' if root_obj is None else copt(cN(I('o:' + objid(root_obj))))} "
            f"{clist([cnat(idx[id(c)]) if id(c) in idx else cnat(99999) for c in n.cloned_nodes])} "
            f"{clist([gobj(n, o) for o in n.objects])} "
            f"{clist([cN(I('v:' + v)) for v in p.objects('vms')])} {clist([cN(I('v:' + o.suffix)) for o in n.objects if o.key == 'vms'])} "
            f"{edges(n.setup_nodes)} {edges(n.cleanup_nodes)} "
            f"{clist([cnat(idx[id(b)]) if id(b) in idx else cnat(99999) for b in n.bridged_nodes])} "
            f"{cN(I('r:' + str(id(n._dropped_setup_nodes))))} "
            f"{clist([cN(I('w:' + w)) for w in ([] if flat else excluded_for(n))])})")
    # rank certificate: longest distance from a parentless node (Kahn); a cycle leaves ranks at 0
    rank = [0] * len(nodes)
    indeg = [len([m for m in n.setup_nodes if id(m) in idx]) for n in nodes]
    queue = [i for i, d in enumerate(indeg) if d == 0]
    while queue:
        i = queue.pop()
        for c in nodes[i].cleanup_nodes:
            if id(c) not in idx:
                continue
            j = idx[id(c)]
            rank[j] = max(rank[j], rank[i] + 1)
            indeg[j] -= 1
            if indeg[j] == 0:
                queue.append(j)
    workers = sorted({n.params.get("nets") for n in nodes if not n.is_flat()})
    return clist(terms), clist([cnat(r) for r in rank]), [cN(I('w:' + w)) for w in workers], {"nodes": len(nodes), "workers": workers}


def canon(g, with_prefix=False, skip_sources=False):
    out = {}
    for n in g.nodes:
        if n.is_flat():
            continue
        if skip_sources and n.cloned_nodes:
            continue        # a clone source is inert: which of the producers it keeps is arbitrary
        key = n.params["name"]
        out[key] = sorted((p.params["name"], tuple(sorted(o.long_suffix for o in objs)))
                          for p, objs in n.setup_nodes.items() if not p.is_flat() or p.is_shared_root())
        if with_prefix:
            out[key] = (n.prefix, out[key])
    return out


def setless(name):
    return name.split(".", 1)[1] if "." in name else name


def canon_sel(gr):
    """dependencies by names without their first component - the test set through which a node was reached (leaves /
    all / ...): one test reached both as a selected leaf and as a dependency is two bridged nodes of one worker.
    Clone sources are skipped. -> {setless name: set of dependency tuples}"""
    res = {}
    for name, deps in canon(gr, skip_sources=True).items():
        res.setdefault(setless(name), set()).add(tuple(sorted((setless(p), objs) for p, objs in deps)))
    return res


def declared_mismatches(g, universe):
    """C07: every composite (non-clone) node carries exactly the get/set declarations of the flat test it was
    composed from (clones rename theirs: checked structurally by the model)"""
    bad = []
    clones = {id(c) for n in g.nodes for c in n.cloned_nodes}
    for n in g.nodes:
        if n.is_flat() or id(n) in clones:
            continue
        base = n.params["name"].split(".vms.")[0]
        setless = base.split(".", 1)[1] if "." in base else base
        flat = universe.get(setless)
        if flat is None:
            bad.append((n.params["name"], "no flat test of that name"))
            continue
        for k, v in flat.items():
            if n.params.get(k, "") != v:
                bad.append((n.params["name"], f"{k}: declared {v!r}, node has {n.params.get(k)!r}"))
    return bad


def flat_universe():
    from avocado_i2n.cartgraph import TestGraph
    uni = {}
    for n in TestGraph.parse_flat_nodes(""):
        name = n.params["name"]
        setless = name.split(".", 1)[1]
        uni[setless] = {k: v for k, v in n.params.items()
                        if (k.startswith("get_state") or k.startswith("set_state")) and not k.endswith("on_error")
                        and k not in ("get_state",) and v}
    return uni


# Tests appended to a scratch copy of the shipped suite (selections prefixed "ext:"): the shipped tests only ever take
# each object's state from a different parent; these add a parent that provides states of TWO objects to one dependant
# (a two-object dependency), a chain on top of it, a three-vm test mixing two-object, one-object and direct setup, and a
# clone chain three tests deep (tutorial_gui.* -> implicit_both -> xt_finale2 -> xt_deep; the shipped suite stops at two).
EXTRA_TESTS = """
    - xt_pair:
        vms = vm1 vm2
        get_images = customize
        get_state_images = customize
        set_state_images = pairsetup
        type = tutorial_step_3
    - xt_both:
        vms = vm1 vm2
        get_images = xt_pair
        get_state_images = pairsetup
        type = tutorial_step_3
    - xt_chain:
        vms = vm1 vm2
        get_images = xt_pair
        get_state_images = pairsetup
        set_state_images_vm1 = chained
        type = tutorial_step_3
    - xt_mixed:
        vms = vm1 vm2 vm3
        get_images_vm1 = xt_chain
        get_state_images_vm1 = chained
        get_images_vm2 = xt_pair
        get_state_images_vm2 = pairsetup
        get_state_vms_vm3 = ready
        type = tutorial_step_3
    - xt_finale2:
        vms = vm1 vm2 vm3
        roles = temporary multisetup permanent
        temporary = vm1
        multisetup = vm2
        permanent = vm3
        get_images_vm1 = connect
        get_state_images_vm1 = connect
        only_vm1 = qemu_kvm_centos
        get_state_vms_vm3 = ready
        type = tutorial_step_get
        host_dhcp_service = yes
        get_images_vm2 = tutorial_get.implicit_both
        set_state_images_vm2 = finale2
    - xt_deep:
        vms = vm1 vm2 vm3
        roles = temporary multisetup permanent
        temporary = vm1
        multisetup = vm2
        permanent = vm3
        get_images_vm1 = connect
        get_state_images_vm1 = connect
        only_vm1 = qemu_kvm_centos
        get_state_vms_vm3 = ready
        type = tutorial_step_get
        host_dhcp_service = yes
        get_images_vm2 = xt_finale2
"""


def select_suite(work, extended):
    """-> HOME to use; points i2n.common.suite_path to the shipped suite or to the extended scratch copy"""
    import shutil
    from avocado.core.settings import settings
    from avocado_i2n import params_parser as param
    if not extended:
        settings.update_option("i2n.common.suite_path", param._devel_tp_folder)
        return os.path.join(work, f"home-{os.getpid()}")
    path = os.path.join(work, f"suite-{os.getpid()}", "tp_folder")
    if not os.path.exists(path):
        shutil.copytree(param._devel_tp_folder, path)
        with open(os.path.join(path, "configs", "groups.cfg"), "a") as f:
            f.write(EXTRA_TESTS)
    settings.update_option("i2n.common.suite_path", path)
    return os.path.join(work, f"home-ext-{os.getpid()}")


def parse_job(args):
    """runs in a worker process: eager parse (+ optionally a second parse / a lazy traversal) and export"""
    restr, nets, vmr, mode, seed, work = args
    import logging
    logging.disable(logging.CRITICAL)
    out = {"restr": restr, "nets": nets, "vmr": vmr, "mode": mode}
    extended = restr.startswith("ext:")
    restr = restr[4:] if extended else restr
    home = select_suite(work, extended)
    os.makedirs(home, exist_ok=True)
    os.environ["HOME"] = home
    os.chdir(home)
    from avocado_i2n.cartgraph import TestGraph
    from avocado_i2n import params_parser as param
    try:
        g = TestGraph.parse_object_trees(restriction=restr, object_restrs=vmr, params={"nets": nets})
    except param.EmptyCartesianProduct:
        out["empty"] = True
        return out
    except ValueError as e:
        # without any vm restriction the report of an empty product itself trips (join_str of no restrictions raises
        # "Could not find some of []" while EmptyCartesianProduct is being built): still an empty selection
        if not vmr and "Could not find some of []" in str(e):
            out["empty"] = True
            return out
        out["error"] = repr(e)[:300]
        return out
    except Exception as e:
        out["error"] = repr(e)[:300]
        return out
    gt, rt, ws, info = export(g)
    out.update(graph=gt, ranks=rt, workers=ws, info=info)
    if mode == "declared":
        out["declared_bad"] = declared_mismatches(g, flat_universe())[:5]
    if mode == "twice":
        g2 = TestGraph.parse_object_trees(restriction=restr, object_restrs=vmr, params={"nets": nets})
        out["same"] = canon(g, True) == canon(g2, True)
    if mode == "lazy":
        out.update(lazy_compare(g, restr, nets, vmr, seed))
    if mode == "subsets":
        # selection independence: what a test depends on is declared by the configuration, not by what else is selected
        whole = canon_sel(g)
        bad = []
        for part in restr.split(","):
            try:
                gp = TestGraph.parse_object_trees(restriction=part, object_restrs=vmr, params={"nets": nets})
            except param.EmptyCartesianProduct:
                continue
            for name, deps in canon_sel(gp).items():
                if name not in whole:
                    bad.append((part, name, "node missing when selected together with the other tests"))
                elif not deps <= whole[name]:
                    bad.append((part, name, f"dependencies {sorted(deps)} alone but {sorted(whole[name])} together"))
        out["subset_bad"] = bad[:5]
    return out


def lazy_compare(eager, restr, nets, vmr, seed):
    import asyncio
    import random
    from unittest import mock
    from avocado_i2n.cartgraph import TestGraph
    from avocado_i2n.plugins.runner import TestRunner
    from harness import toolseam
    params = {"nets": nets}
    g = TestGraph()
    g.restrs.update(vmr)
    flat = TestGraph.parse_flat_nodes(restr)
    for n in flat:
        n.update_restrs(vmr)
    g.new_nodes(flat)
    g.parse_shared_root_from_object_roots(params)
    g.new_workers(TestGraph.parse_workers(params))
    rec = toolseam.Recorder(random.Random(seed))
    with rec:
        runner = TestRunner()
        runner.job = mock.MagicMock()
        runner.job.result.tests = []
        runner.previous_results = []
        g.runner = runner

        async def main():
            await asyncio.gather(*[g.traverse_object_trees(w, params) for w in sorted(g.workers.values(), key=lambda x: x.params["name"])])
        asyncio.get_event_loop().run_until_complete(main())
    a, b = canon_sel(eager), canon_sel(g)
    wrong = [k for k, v in b.items() if not v <= a.get(k, set())]
    # every selected compatible test expanded by at least one worker
    forms_eager = {n.bridged_form for n in eager.nodes if not n.is_flat()}
    forms_lazy = {n.bridged_form for n in g.nodes if not n.is_flat()}
    gt, rt, ws, info = export(g)
    return {"lazy_wrong": wrong[:3], "lazy_missing_forms": sorted(forms_eager - forms_lazy)[:3], "lazy_nodes": len(g.nodes),
            "lazy_graph": gt, "lazy_ranks": rt, "lazy_workers_expanded": sorted({n.params.get("nets") for n in g.nodes if not n.is_flat()})}


def update_job(args):
    """runs in a worker process: the graph the update tool assembles (worker graphs parsed one by one, then bridged
    in all ordered pairs), captured at the point where the tool hands it to the runner"""
    vms, nets, fr, to, seed, work = args
    import logging
    import random
    from unittest import mock
    logging.disable(logging.CRITICAL)
    home = os.path.join(work, f"home-{os.getpid()}")
    os.makedirs(home, exist_ok=True)
    os.environ["HOME"] = home
    os.chdir(home)
    from avocado_i2n import intertest_setup
    from avocado_i2n.plugins.runner import TestRunner
    from harness import toolseam
    vp = {}
    for vm in vms:
        vp[f"from_state_{vm}"] = fr
        vp[f"to_state_{vm}"] = to
    config = toolseam.base_config({vm: VMR[vm] for vm in vms}, nets, vms_params=vp)
    seen = []
    out = {"restr": f"update {' '.join(vms)} {fr}->{to}", "nets": nets, "vmr": {vm: VMR[vm] for vm in vms}, "mode": "update",
           "update": [list(vms), fr, to]}
    with toolseam.Recorder(random.Random(seed)):
        with mock.patch.object(TestRunner, "run_workers", lambda self, graph, params: seen.append(graph)):
            try:
                intertest_setup.update(config, tag="1r")
            except Exception as e:
                out["error"] = repr(e)[:300]
                return out
    if not seen:
        out["error"] = "the tool never handed a graph to the runner"
        return out
    gt, rt, ws, info = export(seen[0])
    out.update(graph=gt, ranks=rt, workers=ws, info=info)
    return out
