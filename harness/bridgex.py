"""C09: the real TestNode.bridge_with_node against Model/Bridge.v on sequences of bridging calls, in the shapes the
code uses (the parser: a new node joins every node of its form; the update tool: separately parsed worker graphs,
then all ordered pairs) and in arbitrary order."""
from harness import synth
from harness.common import cnat, clist, cpair


def make_class(k):
    synth.reset_swarms()
    nodes = []
    for i in range(k):
        w = synth.make_worker(f"net{i + 1}")
        net, _, _ = synth.make_objects(w, {})
        suffix = f"nets.{w.swarm_id}.{w.id}"
        nodes.append(synth.make_node("1", f"nonleaves.t.vms.vm1.Linux.{suffix}", w, [net], {"_name_map_file": {"nets.cfg": suffix}}))
    return nodes


def gen_ops(rng, k, shape):
    """-> (ops, must_unify)"""
    ids = list(range(k))
    if shape == "random":
        return [(rng.randrange(k), rng.randrange(k)) for _ in range(rng.randint(1, 3 * k))], False
    if shape == "parser":
        rng.shuffle(ids)
        ops = []
        for pos, n in enumerate(ids):
            ops += [(n, m) for m in ids[:pos]]       # get_nodes returns the older nodes in graph order
        return ops, True
    # update tool: groups (one per worker graph) bridged by their own parse, then all ordered pairs in graph order
    rng.shuffle(ids)
    ops, pos = [], 0
    while pos < k:
        size = rng.choice([1, 1, 1, 2, 3])
        grp = ids[pos:pos + size]
        for p, n in enumerate(grp):
            ops += [(n, m) for m in grp[:p]]
        pos += size
    order = ids if rng.random() < 0.5 else sorted(ids)
    ops += [(a, b) for a in order for b in order if a != b]
    return ops, True


REGS = ("_picked_by_setup_nodes", "_dropped_setup_nodes", "_picked_by_cleanup_nodes", "_dropped_cleanup_nodes")


def one_case(rng, shape):
    k = rng.randint(2, 7)
    ops, must = gen_ops(rng, k, shape)
    nodes = make_class(k)
    for a, b in ops:
        nodes[a].bridge_with_node(nodes[b])
    idx = {id(n): i for i, n in enumerate(nodes)}
    links = [[idx[id(m)] for m in n.bridged_nodes] for n in nodes]
    per_reg = [[min(j for j in range(k) if getattr(nodes[j], r) is getattr(nodes[i], r)) for i in range(k)] for r in REGS]
    consistent = all(c == per_reg[0] for c in per_reg)
    term = cpair(cnat(k), clist([cpair(cnat(a), cnat(b)) for a, b in ops]), clist([clist([cnat(x) for x in l]) for l in links]),
                 clist([cnat(x) for x in per_reg[0]]))
    return {"k": k, "shape": shape, "ops": ops, "links": links, "classes": per_reg[0], "must_unify": must,
            "registers_consistent": consistent, "term": term}
