"""Regenerate every translated Coq file (coq/Gen/*.v) from /repo's current source."""
import importlib
import sys

TRANSLATORS = []   # (module, function) pairs, filled in as translators are added


def main():
    rc = 0
    for mod, fn in TRANSLATORS:
        try:
            getattr(importlib.import_module(mod), fn)()
        except Exception as e:
            print(f"translator {mod}.{fn} stopped: {e}", file=sys.stderr)
            rc = 1
    return rc


if __name__ == "__main__":
    sys.exit(main())
